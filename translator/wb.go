package main

// Write-back translation (see inout.go): helpers of fnTr used when t.wb is set.

import (
	"go/ast"
	"go/token"
	"go/types"
	"strings"
)

// the functions translated in write-back mode
var writeBackFuncs = map[string]bool{"updateValuesForKeyPath": true, "updateValue": true, "updateValueForKey": true, "Map.UpdateValuesForPath": true,
	"prevValueByPath": true, "remove": true, "renameKey": true, "Map.Remove": true, "Map.RenameKey": true, "parentPath": true, "Map.SetValueForPath": true, "addNewVal": true}

type aliasOrigin struct {
	parent *lvar
	how    string // "mapkey" (parent[key]), "asmap" / "aslist" (parent.(T)), "same" (a conversion / another name)
	key    string
}

func boxByKind(lv *lvar) string {
	switch lv.kind {
	case "vmap":
		return "(VMap " + lv.name + ")"
	case "vlist":
		return "(VList " + lv.name + ")"
	}
	return lv.name
}

// writeBackStr: lv has just received a new value; the lets that store it back where it came from, up to a root.
func (t *fnTr) writeBackStr(lv *lvar) string {
	out := ""
	for lv != nil && lv.origin != nil {
		o := lv.origin
		p := o.parent
		switch o.how {
		case "mapkey":
			if p.kind == "val" {
				out += "let " + p.name + " := match " + p.name + " with VMap mm_ => VMap (set " + o.key + " " + boxByKind(lv) + " mm_) | _ => " + p.name + " end in "
			} else {
				out += "let " + p.name + " := set " + o.key + " " + boxByKind(lv) + " " + p.name + " in "
			}
		case "lens":
			out += "let " + p.name + " := " + o.key + " " + lv.name + " in "
		case "root":
			// the cursor: the root is rebuilt from it by its put-back function
			out += "let " + p.name + " := " + lv.putVar.name + " " + lv.name + " in "
			return out
		case "listidx":
			out += "let " + p.name + " := lset " + p.name + " " + o.key + " " + boxByKind(lv) + " in "
		case "asmap", "aslist":
			out += "let " + p.name + " := " + boxByKind(lv) + " in "
		case "same":
			if p.kind == lv.kind {
				out += "let " + p.name + " := " + lv.name + " in "
			} else if p.kind == "val" {
				out += "let " + p.name + " := " + boxByKind(lv) + " in "
			} else {
				return out // kinds that cannot be converted back: not an alias we track
			}
		}
		lv = p
	}
	return out
}

// aliasGraph: for every variable of the function, the variables it is directly taken from (assertion, lookup, index,
// range, conversion, type-switch binding).
func aliasGraph(p *pkgInfo, fd *ast.FuncDecl) map[types.Object][]types.Object {
	g := map[types.Object][]types.Object{}
	add := func(lhs ast.Expr, rhs ast.Expr) {
		id, ok := lhs.(*ast.Ident)
		if !ok || id.Name == "_" {
			return
		}
		lo := p.info.Defs[id]
		if lo == nil {
			lo = p.info.Uses[id]
		}
		if lo == nil || !treeKind(lo.Type()) {
			return
		}
		var roots []*ast.Ident
		if r := rootOf(rhs); r != nil {
			roots = append(roots, r)
		} else if c, ok := rhs.(*ast.CallExpr); ok {
			if tv, ok := p.info.Types[c.Fun]; ok && tv.IsType() && len(c.Args) == 1 {
				if r := rootOf(c.Args[0]); r != nil {
					roots = append(roots, r)
				}
			} else {
				// the result of a call may be part of any tree handed to it
				for _, a := range c.Args {
					if r := rootOf(a); r != nil {
						roots = append(roots, r)
					}
				}
			}
		}
		for _, r := range roots {
			if ro := p.info.Uses[r]; ro != nil && ro != lo && treeKind(ro.Type()) {
				g[lo] = append(g[lo], ro)
			}
		}
	}
	ast.Inspect(fd.Body, func(n ast.Node) bool {
		switch x := n.(type) {
		case *ast.AssignStmt:
			if len(x.Rhs) == 1 {
				for _, l := range x.Lhs {
					add(l, x.Rhs[0])
				}
			} else if len(x.Lhs) == len(x.Rhs) {
				for i := range x.Lhs {
					add(x.Lhs[i], x.Rhs[i])
				}
			}
		case *ast.RangeStmt:
			if x.Value != nil {
				add(x.Value, x.X)
			}
		}
		return true
	})
	return g
}

// ancestors: obj and everything it may be (transitively) taken from.
func (t *fnTr) ancestors(obj types.Object) []types.Object {
	seen := map[types.Object]bool{}
	var out []types.Object
	var walk func(o types.Object)
	walk = func(o types.Object) {
		if o == nil || seen[o] {
			return
		}
		seen[o] = true
		out = append(out, o)
		for _, p := range t.aliases[o] {
			walk(p)
		}
	}
	walk(obj)
	return out
}

// mutatedRoots: the variables (identifiers at the root of the target expression) that the statements store through or hand
// to an in-out parameter.
func (t *fnTr) mutatedRoots(list []ast.Stmt) []types.Object {
	var out []types.Object
	mark := func(e ast.Expr) {
		if r := rootOf(e); r != nil {
			if o := t.p.info.Uses[r]; o != nil {
				out = append(out, o)
			}
		}
	}
	for _, s := range list {
		ast.Inspect(s, func(n ast.Node) bool {
			switch x := n.(type) {
			case *ast.AssignStmt:
				if x.Tok == token.ASSIGN {
					for _, l := range x.Lhs {
						if ix, ok := l.(*ast.IndexExpr); ok {
							mark(ix.X)
						}
					}
				}
			case *ast.CallExpr:
				if id, ok := x.Fun.(*ast.Ident); ok && id.Name == "delete" && len(x.Args) == 2 {
					if _, isB := t.p.info.Uses[id].(*types.Builtin); isB {
						mark(x.Args[0])
					}
				}
				var callee *types.Func
				switch f := x.Fun.(type) {
				case *ast.Ident:
					callee, _ = t.p.info.Uses[f].(*types.Func)
				case *ast.SelectorExpr:
					if sel, ok := t.p.info.Selections[f]; ok && sel.Kind() == types.MethodVal {
						callee, _ = sel.Obj().(*types.Func)
					}
				}
				if callee != nil && t.io != nil {
					for i, a := range x.Args {
						if t.io.params[callee][i] {
							mark(a)
						}
					}
				}
			}
			return true
		})
	}
	return out
}

// mutates: do the statements change (the tree below) the variable obj, directly or through an alias of it?
func (t *fnTr) mutates(list []ast.Stmt, obj types.Object) bool {
	for _, m := range t.mutatedRoots(list) {
		for _, a := range t.ancestors(m) {
			if a == obj {
				return true
			}
		}
	}
	return false
}

// noLoopExit: a rebuilt collection must be rebuilt completely: no `break` of the loop and no `return` in its body.
func loopExits(body *ast.BlockStmt) bool {
	found := false
	var walk func(n ast.Node, inSwitch bool)
	walk = func(n ast.Node, inSwitch bool) {
		ast.Inspect(n, func(m ast.Node) bool {
			switch x := m.(type) {
			case *ast.ReturnStmt:
				found = true
			case *ast.BranchStmt:
				if x.Tok == token.BREAK && !inSwitch {
					found = true
				}
				if x.Tok == token.GOTO {
					found = true
				}
			case *ast.ForStmt, *ast.RangeStmt:
				if m != n {
					// a return inside a nested loop still leaves this one
					ast.Inspect(m, func(k ast.Node) bool {
						if _, ok := k.(*ast.ReturnStmt); ok {
							found = true
						}
						return true
					})
					return false
				}
			case *ast.SwitchStmt:
				if m != n {
					walk(x.Body, true)
					return false
				}
			case *ast.TypeSwitchStmt:
				if m != n {
					walk(x.Body, true)
					return false
				}
			}
			return true
		})
	}
	walk(body, false)
	return found
}

var _ = strings.TrimSpace
