package main

// In-out analysis for the write-back translation of functions that update a value tree in place (updatevalues.go).
//
// A parameter of type interface{} / map[string]interface{} / []interface{} is IN-OUT when the function may change the
// tree below it: it stores through the parameter (p[k] = v, p.(T)[k] = v, delete(p, k)), or through an ALIAS of it
// (a variable taken from it by type assertion, map lookup, index or range), or passes the parameter / an alias to an
// in-out parameter of another function of the package.  Computed as a fixpoint over the package, syntactically and
// conservatively (an alias of an alias is an alias).
//
// The translation of such functions returns the new value of every in-out parameter; a caller writes the returned value
// back to where the argument came from.  This is faithful for TREES (no map or slice reachable along two paths): the
// assumption is recorded in DESIGN.md 11.3; the decoders produce trees and the hand-written models assume the same.

import (
	"go/ast"
	"go/token"
	"go/types"
)

type inoutInfo struct {
	params map[*types.Func]map[int]bool
	lens   map[*types.Func]bool // the first result may be part of the tree below a parameter (prevValueByPath)
}

func funcDecls(p *pkgInfo) map[*types.Func]*ast.FuncDecl {
	out := map[*types.Func]*ast.FuncDecl{}
	for _, f := range p.files {
		for _, d := range f.Decls {
			if fd, ok := d.(*ast.FuncDecl); ok && fd.Body != nil {
				if fo, ok := p.info.Defs[fd.Name].(*types.Func); ok {
					out[fo] = fd
				}
			}
		}
	}
	return out
}

// paramObjs: the parameter objects of fd by position (receiver excluded).
func paramObjs(p *pkgInfo, fd *ast.FuncDecl) []types.Object {
	var out []types.Object
	for _, fld := range fd.Type.Params.List {
		for _, id := range fld.Names {
			out = append(out, p.info.Defs[id])
		}
	}
	return out
}

func treeKind(ty types.Type) bool {
	switch u := ty.Underlying().(type) {
	case *types.Interface:
		return u.NumMethods() == 0
	case *types.Map:
		return true
	case *types.Slice:
		if it, ok := u.Elem().Underlying().(*types.Interface); ok && it.NumMethods() == 0 {
			return true
		}
	}
	return false
}

// rootOf: the identifier at the bottom of an expression built from type assertions, index / lookup, parentheses, slices.
func rootOf(e ast.Expr) *ast.Ident {
	for {
		switch x := e.(type) {
		case *ast.Ident:
			return x
		case *ast.ParenExpr:
			e = x.X
		case *ast.TypeAssertExpr:
			e = x.X
		case *ast.IndexExpr:
			e = x.X
		case *ast.SliceExpr:
			e = x.X
		case *ast.StarExpr:
			e = x.X
		default:
			return nil
		}
	}
}

func computeInout(p *pkgInfo) *inoutInfo {
	info := &inoutInfo{params: map[*types.Func]map[int]bool{}, lens: map[*types.Func]bool{}}
	decls := funcDecls(p)
	changed := true
	for changed {
		changed = false
		for fo, fd := range decls {
			pos := paramObjs(p, fd)
			// aliases: variable -> the parameter positions it may alias (-1: the receiver)
			alias := map[types.Object]map[int]bool{}
			if fd.Recv != nil && len(fd.Recv.List) == 1 && len(fd.Recv.List[0].Names) == 1 {
				if ro := p.info.Defs[fd.Recv.List[0].Names[0]]; ro != nil && treeKind(ro.Type()) {
					alias[ro] = map[int]bool{-1: true}
				}
			}
			for i, po := range pos {
				if po != nil && treeKind(po.Type()) {
					alias[po] = map[int]bool{i: true}
				}
			}
			addAlias := func(lhs ast.Expr, rhs ast.Expr) bool {
				id, ok := lhs.(*ast.Ident)
				if !ok || id.Name == "_" {
					return false
				}
				lo := p.info.Defs[id]
				if lo == nil {
					lo = p.info.Uses[id]
				}
				if lo == nil || !treeKind(lo.Type()) {
					return false
				}
				src := map[int]bool{}
				if r := rootOf(rhs); r != nil {
					for i := range alias[p.info.Uses[r]] {
						src[i] = true
					}
				} else if c, ok := rhs.(*ast.CallExpr); ok {
					// the result of a call may be part of any tree handed to it (prevValueByPath, ValueForPath, conversions)
					var ops []ast.Expr
					ops = append(ops, c.Args...)
					if se, ok := c.Fun.(*ast.SelectorExpr); ok {
						ops = append(ops, se.X)
					}
					for _, a := range ops {
						if ra := rootOf(a); ra != nil {
							for i := range alias[p.info.Uses[ra]] {
								src[i] = true
							}
						}
					}
				}
				if len(src) == 0 {
					return false
				}
				if alias[lo] == nil {
					alias[lo] = map[int]bool{}
				}
				grew := false
				for i := range src {
					if !alias[lo][i] {
						alias[lo][i] = true
						grew = true
					}
				}
				return grew
			}
			// alias closure within the function
			for grew := true; grew; {
				grew = false
				ast.Inspect(fd.Body, func(n ast.Node) bool {
					switch x := n.(type) {
					case *ast.AssignStmt:
						if len(x.Rhs) == 1 {
							for _, l := range x.Lhs {
								if addAlias(l, x.Rhs[0]) {
									grew = true
								}
							}
						} else if len(x.Lhs) == len(x.Rhs) {
							for i := range x.Lhs {
								if addAlias(x.Lhs[i], x.Rhs[i]) {
									grew = true
								}
							}
						}
					case *ast.RangeStmt:
						if x.Value != nil && addAlias(x.Value, x.X) {
							grew = true
						}
					case *ast.TypeSwitchStmt:
						// switch y := v.(type): y aliases v in every clause (Implicits)
						if as, ok := x.Assign.(*ast.AssignStmt); ok && len(as.Rhs) == 1 {
							if r := rootOf(as.Rhs[0]); r != nil {
								src := alias[p.info.Uses[r]]
								for _, c := range x.Body.List {
									if io := p.info.Implicits[c]; io != nil && len(src) > 0 {
										if alias[io] == nil {
											alias[io] = map[int]bool{}
										}
										for i := range src {
											if !alias[io][i] {
												alias[io][i] = true
												grew = true
											}
										}
									}
								}
							}
						}
					}
					return true
				})
			}
			mark := func(e ast.Expr) {
				r := rootOf(e)
				if r == nil {
					return
				}
				for i := range alias[p.info.Uses[r]] {
					if info.params[fo] == nil {
						info.params[fo] = map[int]bool{}
					}
					if !info.params[fo][i] {
						info.params[fo][i] = true
						changed = true
					}
				}
			}
			// does the first result alias a parameter?
			if sig := fo.Type().(*types.Signature); sig.Results().Len() >= 1 && treeKind(sig.Results().At(0).Type()) && !info.lens[fo] {
				ast.Inspect(fd.Body, func(n ast.Node) bool {
					if _, isLit := n.(*ast.FuncLit); isLit {
						return false
					}
					rs, ok := n.(*ast.ReturnStmt)
					if !ok || len(rs.Results) == 0 {
						return true
					}
					e := rs.Results[0]
					if r := rootOf(e); r != nil && len(alias[p.info.Uses[r]]) > 0 {
						info.lens[fo] = true
						changed = true
					}
					if c, ok := e.(*ast.CallExpr); ok {
						if id, ok := c.Fun.(*ast.Ident); ok {
							if callee, ok := p.info.Uses[id].(*types.Func); ok && (info.lens[callee] || callee == fo) {
								for _, a := range c.Args {
									if ra := rootOf(a); ra != nil && len(alias[p.info.Uses[ra]]) > 0 && info.lens[callee] {
										if !info.lens[fo] {
											info.lens[fo] = true
											changed = true
										}
									}
								}
							}
						}
					}
					return true
				})
			}
			ast.Inspect(fd.Body, func(n ast.Node) bool {
				switch x := n.(type) {
				case *ast.AssignStmt:
					if x.Tok == token.ASSIGN || x.Tok == token.ADD_ASSIGN {
						for _, l := range x.Lhs {
							if ix, ok := l.(*ast.IndexExpr); ok {
								mark(ix.X)
							}
						}
					}
				case *ast.IncDecStmt:
					if ix, ok := x.X.(*ast.IndexExpr); ok {
						mark(ix.X)
					}
				case *ast.CallExpr:
					if id, ok := x.Fun.(*ast.Ident); ok {
						if _, isB := p.info.Uses[id].(*types.Builtin); isB && id.Name == "delete" && len(x.Args) == 2 {
							mark(x.Args[0])
						}
						if callee, ok := p.info.Uses[id].(*types.Func); ok {
							for i, a := range x.Args {
								if info.params[callee][i] {
									mark(a)
								}
							}
						}
					}
					if se, ok := x.Fun.(*ast.SelectorExpr); ok {
						if sel, ok := p.info.Selections[se]; ok && sel.Kind() == types.MethodVal {
							if callee, ok := sel.Obj().(*types.Func); ok {
								for i, a := range x.Args {
									if info.params[callee][i] {
										mark(a)
									}
								}
								if info.params[callee][-1] {
									mark(se.X)
								}
							}
						}
					}
				}
				return true
			})
		}
	}
	return info
}
