package main

// Pure_gen.v: functions of package mxj translated statement by statement into Gallina
// (DESIGN.md section 11.1).  The theorems of GenProofs/PureG*.v state that each translated
// function IS the hand-written model function, so every theorem about the model function is
// re-checked against what the code says now.
//
// Translation scheme.  A statement list becomes an expression of type [ctl S A]:
//     Ret a    the function returned a
//     Next s   control reached the end of the list; s = the values of the outer locals the list assigns
//     Crash    a run-time panic (index / slice bound, failed type assertion, call of a nil function value)
//     Fall     control fell off the end of the function body (never, for a function with results)
// and sequencing is [bindc x (fun s => rest)].  Loops are [range_loop body list state].
//
// Fragment (the translator FAILS CLOSED outside it):
//   types        bool, string, []byte (= string), int/int64/uint64 (Z), float64 (its %v text), []string, [k][]byte rows,
//                interface{} (value), map[string]interface{} (entries), []interface{} (list value), pointers to
//                package-level structs of such fields (per-field locals; a record once stored), slices of those
//   statements   return | := | = | var | x.f = e | m[k] = e (local map) | x, ok := m[k] | x, ok := v.(T)
//                | x, err := strconv.ParseX(..) | if [init;] c {..} [else ..] | switch tag {..} | switch {..}
//                | switch [x :=] v.(type) {..} | for _, v := range xs | for k, v := range m
//                | for i := c; i < len(xs); i++ (i read only as xs[i]) | continue
//   expressions  constants, package option variables, locals, ! && || == != < > <= >= +, len, x[c], xs[i], s[a:b], s[a:],
//                append(xs, x), new(T), make(..) (empty), conversions, v.(T), calls listed in callTable,
//                calls of other functions / methods of the package (Section variables: "external calls"),
//                fmt.Errorf / errors.New (only as the error of a return: class EOther)
// A partial operation (index, slice, assertion) on the right of && / || in a plain expression - not an if condition, which
// is translated with Go's short-circuit order - is evaluated eagerly: the translation can only Crash MORE often than Go.
// Standard-library calls are mapped to Gallina functions of Base/Str.v and Gen/PureSupport.v (callTable below);
// that mapping and this translator are part of the trusted base.

import (
	"fmt"
	"go/ast"
	"go/constant"
	"go/token"
	"go/types"
	"path/filepath"
	"sort"
	"strings"
)

func unparen(e ast.Expr) ast.Expr {
	for {
		p, ok := e.(*ast.ParenExpr)
		if !ok {
			return e
		}
		e = p.X
	}
}

// ---------------------------------------------------------------- kinds

func (t *fnTr) kindOfType(ty types.Type) string {
	if ty == nil {
		return ""
	}
	if n, ok := ty.(*types.Named); ok {
		if n.Obj().Pkg() != nil && n.Obj().Pkg().Path() == "encoding/xml" {
			switch n.Obj().Name() {
			case "Name":
				return "xname"
			case "Attr":
				return "xattr"
			case "StartElement":
				return "xstart"
			case "CharData":
				return "str"
			}
		}
		if _, isS := n.Underlying().(*types.Struct); isS && n.Obj().Pkg() == t.p.pkg {
			return "rec:" + n.Obj().Name()
		}
		if n.Obj().Pkg() == nil && n.Obj().Name() == "error" {
			return "err"
		}
		if n.Obj().Pkg() != nil {
			if full := n.Obj().Pkg().Path() + "." + n.Obj().Name(); full == "strings.Builder" || full == "bytes.Buffer" {
				return "writer" // a local `var sb strings.Builder`: the bytes written so far
			}
		}
	}
	switch u := ty.Underlying().(type) {
	case *types.Basic:
		switch {
		case u.Info()&types.IsBoolean != 0:
			return "bool"
		case u.Info()&types.IsString != 0:
			return "str"
		case u.Kind() == types.Byte:
			return "byte"
		case u.Info()&types.IsInteger != 0:
			return "int"
		case u.Info()&types.IsFloat != 0:
			return "flt"
		case u.Kind() == types.UntypedNil:
			return "nil"
		}
	case *types.Interface:
		if u.NumMethods() == 0 {
			return "val"
		}
		if ty.String() == "error" {
			return "err"
		}
		if ty.String() == "io.Reader" {
			return "reader" // a schedule of Read results, consumed as the function reads (state)
		}
		if ty.String() == "io.Writer" {
			return "writer" // the bytes written so far (state); Write never fails (a bytes.Buffer)
		}
	case *types.Map:
		if kb, ok := u.Key().Underlying().(*types.Basic); ok && kb.Info()&types.IsString != 0 {
			switch t.kindOfType(u.Elem()) {
			case "val":
				return "vmap"
			case "bool":
				return "bmap"
			}
		}
	case *types.Slice:
		if b, ok := u.Elem().Underlying().(*types.Basic); ok && b.Kind() == types.Byte {
			return "str"
		}
		switch k := t.kindOfType(u.Elem()); {
		case k == "str":
			return "strs"
		case k == "bool":
			return "bools"
		case k == "val":
			return "vlist"
		case k == "strs" && isArrayType(u.Elem()):
			return "rows" // [][n]string
		case k == "vlist" && isArrayType(u.Elem()):
			return "vrows" // [][n]interface{}
		case k == "xattr":
			return "xattrs"
		case k == "vmap":
			return "vmaps" // Maps = []Map
		case strings.HasPrefix(k, "rec:"):
			return "recs:" + k[4:]
		}
	case *types.Array:
		if t.kindOfType(u.Elem()) == "str" {
			return "strs"
		}
		if t.kindOfType(u.Elem()) == "val" {
			return "vlist"
		}
	case *types.Pointer:
		if n, ok := u.Elem().(*types.Named); ok && n.Obj().Pkg() != nil && n.Obj().Pkg().Path() == "encoding/xml" && n.Obj().Name() == "Decoder" {
			return "xdecoder" // the tokens still to come and how the stream ends (state)
		}
		if n, ok := u.Elem().(*types.Named); ok && n.Obj().Pkg() != nil {
			if full := n.Obj().Pkg().Path() + "." + n.Obj().Name(); full == "strings.Builder" || full == "bytes.Buffer" {
				return "writer" // the bytes written so far (state); the Write methods of these two never fail
			}
		}
		k := t.kindOfType(u.Elem())
		if strings.HasPrefix(k, "rec:") {
			return k
		}
		if k == "vlist" || k == "int" || k == "strs" || k == "str" || k == "bmap" || k == "vmap" || strings.HasPrefix(k, "recs:") {
			return "ptr:" + k // an out-parameter: threaded as state (as a result type: the pointee)
		}
		return "tok"
	case *types.Signature:
		if t.handler && u.Results().Len() == 1 && t.kindOfType(u.Results().At(0).Type()) == "bool" && u.Params().Len() >= 1 && !u.Variadic() {
			var ks []string
			for i := 0; i < u.Params().Len(); i++ {
				k := t.kindOfType(u.Params().At(i).Type())
				if k != "vmap" && k != "err" && k != "str" {
					return "tok"
				}
				if k == "err" {
					k = "errc" // a non-nil error: its class
				}
				ks = append(ks, k)
			}
			return "cb:" + strings.Join(ks, ",")
		}
		return "tok"
	}
	return ""
}

func isArrayType(ty types.Type) bool {
	_, ok := ty.Underlying().(*types.Array)
	return ok
}

func fnCoqType(k string) string {
	switch {
	case k == "hstate":
		return "hstate"
	case k == "fslog":
		return "fslog"
	case k == "errc":
		return "err"
	case k == "vmapn":
		return "(option entries)"
	case strings.HasPrefix(k, "cb:"):
		// a handler function value: the handlers' state goes in and comes back with the bool
		out := "(hstate"
		for _, a := range strings.Split(k[3:], ",") {
			out += " -> " + fnCoqType(a)
		}
		return out + " -> (bool * hstate))"
	case k == "putmap":
		return "(entries -> entries)"
	case k == "nat":
		return "nat"
	case k == "rows":
		return "(list (list str))"
	case k == "vrows":
		return "(list (list value))"
	case k == "bool", k == "errnil":
		return "bool"
	case k == "errv", k == "err":
		return "(option err)"
	case k == "reader":
		return "(list rev)"
	case k == "writer":
		return "str"
	case k == "xdecoder":
		return "xdecoder"
	case k == "xtok":
		return "(option tok)"
	case k == "xname":
		return "xname"
	case k == "xattr":
		return "xattr"
	case k == "xattrs":
		return "(list xattr)"
	case k == "byte":
		return "ascii"
	case k == "str":
		return "str"
	case k == "int":
		return "Z"
	case k == "flt":
		return "flt"
	case k == "strs":
		return "(list str)"
	case k == "bools":
		return "(list bool)"
	case k == "val":
		return "value"
	case k == "vmap":
		return "entries"
	case k == "bmap":
		return "(list (str * bool))"
	case strings.HasPrefix(k, "ptr:"):
		return fnCoqType(k[4:])
	case k == "vlist":
		return "(list value)"
	case k == "vmaps":
		return "(list entries)"
	case k == "tok":
		return "(option nat)"
	case strings.HasPrefix(k, "rec:"):
		return "t_" + k[4:]
	case strings.HasPrefix(k, "recs:"):
		return "(list t_" + k[5:] + ")"
	}
	return "?" + k
}

func fnZero(k string) string {
	switch {
	case k == "vmapn":
		return "None"
	case k == "putmap":
		return "(fun x_ : entries => x_)"
	case k == "nat":
		return "O"
	case k == "bool":
		return "false"
	case k == "int":
		return "0%Z"
	case k == "flt":
		return "(s\"0\")"
	case k == "val":
		return "VNil"
	case k == "tok", k == "errv", k == "err":
		return "None"
	case k == "byte":
		return "zero_byte"
	}
	return "([] : " + fnCoqType(k) + ")"
}

// ---------------------------------------------------------------- translator state

type lvar struct {
	name       string
	kind       string
	fields     map[string]*lvar // struct locals: one Gallina local per field
	forder     []string
	elemOf     types.Object // loop index variable: the slice it indexes
	elem       string       // ... and the Gallina name of the current element
	rangeOf    string       // range index variable: the text of the ranged expression (X[i] is then the element)
	isState    bool         // an out-parameter of a void function
	aliased    bool         // a slice local that is used other than by index, len, range and return (element stores would be shared)
	nilFlag    *lvar        // a map local declared without a value (nil): the boolean local that says it has been made since
	nilUnknown bool         // ... and it was assigned the result of a call: whether it is nil is not tracked any more
	origin     *aliasOrigin // write-back mode: where this variable's value was taken from
	sink       *lvar        // a json.Encoder local: the writer local it writes to
	putVar     *lvar        // cursor mode: a map variable that walks down the tree it updates: the function that rebuilds the root from it
	idxVar     *lvar        // cursor mode: a map variable declared without a value: the position at which it was last appended to a list
}

type extern struct {
	name string
	typ  string
}

type fnTr struct {
	p            *pkgInfo
	vars         map[types.Object]*gvar
	fn           *ast.FuncDecl
	locals       map[types.Object]*lvar
	used         map[string]int
	guards       []string
	fresh        int
	pairMemo     int           // 0 unknown, 1 pair result, 2 not
	curRest      []ast.Stmt    // the statements that follow the one being translated, in its list
	topEnd       func() string // what falling off the end of the function body is
	qname        string        // the function being translated, Recv.Name for methods
	cursor       bool          // cursor mode (cursorFuncs): see cursor.go
	handler      bool          // handler mode (handlerFuncs): see handlers.go
	hst          *lvar         // handler mode: the handlers' state, threaded through every handler call
	fs           *lvar         // handler mode: the files created and written by this function (os.Create), a hidden state
	wb           bool          // write-back mode (inout.go, wb.go): in-place updates of a value tree
	nextRebuild  *rebuildSpec  // consumed by the next loop(): the collection it ranges over is rebuilt
	wbAfterCall  []*lvar       // set by selfArgs: the locals that received the in-out results of the recursive call
	lensRet      bool          // the first result may be part of the tree below lensParam: it is returned with a put-back function
	lensParam    *lvar
	io           *inoutInfo
	aliases      map[types.Object][]types.Object
	sumJoin      bool // join mode (see branching): no duplication of what follows a branching statement
	lenient      bool // case bodies of type switches that leave the fragment become Crash (see tryBody)
	lenientDepth int
	curS         string // in join mode: the state type S of the `ctl S A` a jump currently produces
	parents      map[ast.Node]ast.Node
	tables       map[types.Object]string
	externs      *[]extern
	structs      map[string]*types.Struct
	resKind      []string // kinds of the results
	inLoop       bool
	loopEnd      func() string
	breakEnd     func() string // what `break` jumps to (nil: not allowed here)
	escaped      map[types.Object]bool
	state        []*lvar       // out-parameters (pointer / mutated map parameters) of a void function, in parameter order
	stateAt      map[int]*lvar // parameter position -> state variable
	structAt     map[int]*lvar // parameter position -> struct-pointer parameter (its fields are state)
	retPat       string        // set by selfArgs: the pattern that receives the state a recursive call returns
	self         *types.Func   // the function being translated (recursion)
	recurs       bool
}

func (t *fnTr) pos(n ast.Node) string { return t.p.fset.Position(n.Pos()).String() }

type outsideFragment struct{ msg string }

func (t *fnTr) unsupported(n ast.Node, what string) {
	if t.lenientDepth > 0 {
		panic(outsideFragment{t.pos(n) + ": " + what})
	}
	fail("%s: function %s uses a construct outside the translated fragment: %s", t.pos(n), t.fn.Name.Name, what)
}

// tryBody translates a case body of a type switch of a function in lenientFuncs; when the body uses a construct outside
// the fragment it becomes `Crash` (with a comment naming the construct): the translation cannot follow the execution
// there.  This is sound for the theorems, which show that Crash is not reached on their domain: such bodies serve
// dynamic types outside the value universe (reflection on foreign map / struct types).
func (t *fnTr) tryBody(f func() string) (out string) {
	if !t.lenient {
		return f()
	}
	nG, inLoop, loopEnd, breakEnd, curS, curRest := len(t.guards), t.inLoop, t.loopEnd, t.breakEnd, t.curS, t.curRest
	esc := map[types.Object]bool{}
	for k, v := range t.escaped {
		esc[k] = v
	}
	t.lenientDepth++
	defer func() {
		t.lenientDepth--
		if r := recover(); r != nil {
			of, ok := r.(outsideFragment)
			if !ok {
				panic(r)
			}
			t.guards, t.inLoop, t.loopEnd, t.breakEnd, t.curS, t.curRest, t.escaped = t.guards[:nG], inLoop, loopEnd, breakEnd, curS, curRest, esc
			msg := strings.ReplaceAll(strings.ReplaceAll(of.msg, "(*", "( *"), "*)", "* )")
			out = "(Crash (* outside the translated fragment: " + msg + " *))"
		}
	}()
	return f()
}

func (t *fnTr) kindOfExpr(e ast.Expr) string {
	tv, ok := t.p.info.Types[e]
	if !ok {
		return ""
	}
	return t.kindOfType(tv.Type)
}

func (t *fnTr) newLocal(obj types.Object, base, kind string) *lvar {
	n := "l_" + base
	if c := t.used[n]; c > 0 {
		t.used[n] = c + 1
		n = fmt.Sprintf("%s_%d", n, c)
	} else {
		t.used[n] = 1
	}
	lv := &lvar{name: n, kind: kind}
	if obj != nil {
		t.locals[obj] = lv
	}
	return lv
}

func (t *fnTr) constInt(e ast.Expr) (int64, bool) {
	tv := t.p.info.Types[e]
	if tv.Value != nil && tv.Value.Kind() == constant.Int {
		v, ok := constant.Int64Val(tv.Value)
		return v, ok
	}
	return 0, false
}

func (t *fnTr) pkgCall(x *ast.CallExpr) (pkg, name string, ok bool) {
	se, isSel := x.Fun.(*ast.SelectorExpr)
	if !isSel {
		return
	}
	id, isId := se.X.(*ast.Ident)
	if !isId {
		return
	}
	pn, isPkg := t.p.info.Uses[id].(*types.PkgName)
	if !isPkg {
		return
	}
	return pn.Imported().Path(), se.Sel.Name, true
}

// guarded wraps body in the guards collected since mark.
func (t *fnTr) guarded(mark int, body string) string {
	gs := t.guards[mark:]
	t.guards = t.guards[:mark]
	var sb strings.Builder
	for _, g := range gs {
		sb.WriteString(g + " ")
	}
	sb.WriteString(body)
	for _, g := range gs {
		if strings.HasPrefix(g, "match") {
			sb.WriteString(" end")
		}
	}
	if len(gs) > 0 {
		return "(" + sb.String() + ")"
	}
	return sb.String()
}

// structValue: a struct local used as a value (stored, appended, returned): the record of its fields.
func (t *fnTr) structValue(obj types.Object, lv *lvar) string {
	t.escaped[obj] = true
	parts := make([]string, len(lv.forder))
	for i, f := range lv.forder {
		parts[i] = lv.fields[f].name
		if lv.fields[f].kind == "vmapn" {
			parts[i] = "(match " + parts[i] + " with Some m_ => m_ | None => [] end)" // the nil Map is stored as the empty Map
		}
	}
	return "(mk_" + lv.kind[4:] + " " + strings.Join(parts, " ") + ")"
}

// boxVal: an expression of a concrete static type converted to interface{}.
func (t *fnTr) boxVal(e ast.Expr) string {
	v := t.expr(e)
	switch k := t.kindOfExpr(e); k {
	case "val":
		return v
	case "str":
		return "(VStr " + v + ")"
	case "bool":
		return "(VBool " + v + ")"
	case "flt":
		return "(VFlt " + v + ")"
	case "vmap":
		return "(VMap " + v + ")"
	case "vlist":
		return "(VList " + v + ")"
	case "nil":
		return "VNil"
	case "int":
		b := t.p.info.Types[e].Type.Underlying().(*types.Basic)
		switch b.Kind() {
		case types.Int64:
			return "(VI64 " + v + ")"
		case types.Uint64:
			return "(VU64 " + v + ")"
		case types.Int, types.UntypedInt:
			return "(VInt " + v + ")"
		}
	}
	t.unsupported(e, "value of this type stored in an interface{}")
	return ""
}

// assertPat: the constructor pattern of value for a Go type in a type assertion / type switch.
func (t *fnTr) assertPat(ty types.Type, bind string) (pat string, kind string) {
	if n, ok := ty.(*types.Named); ok && n.Obj().Pkg() != nil && n.Obj().Pkg().Path() == "encoding/json" && n.Obj().Name() == "Number" {
		return "VJNum " + bind, "str"
	}
	switch k := t.kindOfType(ty); k {
	case "str":
		if b, ok := ty.Underlying().(*types.Basic); ok && b.Info()&types.IsString != 0 {
			return "VStr " + bind, k
		}
	case "bool":
		return "VBool " + bind, k
	case "flt":
		if b, ok := ty.Underlying().(*types.Basic); ok && b.Kind() == types.Float64 {
			return "VFlt " + bind, k
		}
	case "vmap":
		return "VMap " + bind, k
	case "vlist":
		return "VList " + bind, k
	case "int":
		if b, ok := ty.Underlying().(*types.Basic); ok {
			switch b.Kind() {
			case types.Int:
				return "VInt " + bind, k
			case types.Int64:
				return "VI64 " + bind, k
			case types.Uint64:
				return "VU64 " + bind, k
			}
		}
	}
	if n, ok := ty.(*types.Named); ok && n.Obj().Pkg() != nil && n.Obj().Pkg().Path() == "encoding/json" && n.Obj().Name() == "Number" {
		return "VJNum " + bind, "str"
	}
	return "", ""
}

// outsideUniverse: a dynamic type no value of the model's universe (Base/Value.v: string, bool, nil, int, int64, uint64,
// float64, json.Number, map[string]interface{}, []interface{}) has.  A type-switch alternative for such a type is dead
// for the values the translation speaks about and is dropped (a comment in the output says so).
func outsideUniverse(ty types.Type) bool {
	switch u := ty.Underlying().(type) {
	case *types.Basic:
		switch u.Kind() {
		case types.Int8, types.Int16, types.Int32, types.Uint, types.Uint8, types.Uint16, types.Uint32, types.Uintptr, types.Float32, types.Complex64, types.Complex128:
			return true
		}
	case *types.Slice:
		if it, ok := u.Elem().Underlying().(*types.Interface); ok && it.NumMethods() == 0 {
			return false // []interface{}
		}
		return true // []byte, []string, []map[string]interface{}, ...
	case *types.Map:
		if kb, ok := u.Key().Underlying().(*types.Basic); ok && kb.Info()&types.IsString != 0 {
			if it, ok := u.Elem().Underlying().(*types.Interface); ok && it.NumMethods() == 0 {
				return false
			}
		}
		return true
	}
	return false
}

// ---------------------------------------------------------------- expressions

func (t *fnTr) expr(e ast.Expr) string {
	tv := t.p.info.Types[e]
	if tv.Value != nil {
		switch k := t.kindOfType(tv.Type); k {
		case "bool", "str", "int":
			if s, ok := constTerm(tv.Value, k); ok {
				return s
			}
		case "byte":
			if v, ok := constant.Int64Val(tv.Value); ok {
				return fmt.Sprintf("(ascii_of_nat %d)", v)
			}
		}
	}
	switch x := e.(type) {
	case *ast.ParenExpr:
		return "(" + t.expr(x.X) + ")"
	case *ast.Ident:
		obj := t.p.info.Uses[x]
		if g, ok := t.vars[obj]; ok {
			return "(g_" + g.name + " st)"
		}
		if lv, ok := t.locals[obj]; ok {
			if lv.kind == "vmapn" {
				return "(match " + lv.name + " with Some m_ => m_ | None => [] end)"
			}
			if lv.fields != nil {
				return t.structValue(obj, lv)
			}
			if lv.elemOf != nil {
				t.unsupported(e, "loop index used other than as an index of the ranged slice")
			}
			return lv.name
		}
		if tv.IsNil() {
			switch t.kindOfType(tv.Type) {
			case "val":
				return "VNil"
			case "tok":
				return "None"
			}
			return fnZero(t.kindOfType(tv.Type))
		}
		t.unsupported(e, "identifier "+x.Name)
	case *ast.UnaryExpr:
		if x.Op == token.NOT {
			return "(negb " + t.expr(x.X) + ")"
		}
		t.unsupported(e, "unary "+x.Op.String())
	case *ast.StarExpr:
		if id, ok := x.X.(*ast.Ident); ok {
			if lv, ok := t.locals[t.p.info.Uses[id]]; ok && strings.HasPrefix(lv.kind, "ptr:") {
				return lv.name
			}
			if lv, ok := t.locals[t.p.info.Uses[id]]; ok && lv.fields != nil && strings.HasPrefix(lv.kind, "rec:") {
				return t.structValue(t.p.info.Uses[id], lv) // *p of a struct local: a copy of the struct
			}
		}
		t.unsupported(e, "dereference of something other than an out-parameter")
	case *ast.CompositeLit:
		k := t.kindOfExpr(e)
		if strings.HasPrefix(k, "rec:") {
			st := t.structs[k[4:]]
			if st == nil || len(x.Elts) != st.NumFields() {
				t.unsupported(e, "composite literal of this struct / with missing fields")
			}
			args := make([]string, len(x.Elts))
			for i, el := range x.Elts {
				if _, isKV := el.(*ast.KeyValueExpr); isKV {
					t.unsupported(e, "keyed composite literal")
				}
				if t.kindOfType(st.Field(i).Type()) == "val" {
					args[i] = t.boxVal(el)
				} else {
					args[i] = t.expr(el)
				}
			}
			return "(mk_" + k[4:] + " " + strings.Join(args, " ") + ")"
		}
		if k == "vmap" {
			// map[string]interface{}{k1: v1, ...}: the entries set in order (a repeated constant key is a compile error in Go)
			out := "([] : entries)"
			for _, el := range x.Elts {
				kv, ok := el.(*ast.KeyValueExpr)
				if !ok {
					t.unsupported(e, "composite literal")
				}
				out = "(set " + t.expr(kv.Key) + " " + t.boxVal(kv.Value) + " " + out + ")"
			}
			return out
		}
		if k == "vlist" || k == "strs" {
			var els []string
			for _, el := range x.Elts {
				if _, isKV := el.(*ast.KeyValueExpr); isKV {
					t.unsupported(e, "keyed composite literal")
				}
				if k == "vlist" {
					els = append(els, t.boxVal(el))
				} else {
					els = append(els, t.expr(el))
				}
			}
			return "([" + strings.Join(els, "; ") + "] : " + fnCoqType(k) + ")"
		}
		t.unsupported(e, "composite literal")
	case *ast.BinaryExpr:
		k := t.kindOfExpr(x.X)
		if k == "nil" {
			k = t.kindOfExpr(x.Y)
		}
		if (x.Op == token.EQL || x.Op == token.NEQ) && t.handler {
			// m != nil / m == nil on a Map that a reader function returned (nil-aware: option)
			var me ast.Expr
			if t.p.info.Types[x.Y].IsNil() {
				me = x.X
			} else if t.p.info.Types[x.X].IsNil() {
				me = x.Y
			}
			if me != nil {
				if ml := t.lvarOf(me); ml != nil && ml.kind == "vmapn" {
					r := "(match " + ml.name + " with Some _ => true | None => false end)"
					if x.Op == token.EQL {
						return "(negb " + r + ")"
					}
					return r
				}
			}
		}
		if x.Op == token.EQL || x.Op == token.NEQ {
			// reflect.ValueOf(v).Kind() == reflect.Map / reflect.Struct for an interface{} value of the universe
			if kc, ok := unparen(x.X).(*ast.CallExpr); ok && len(kc.Args) == 0 {
				if ks, ok := kc.Fun.(*ast.SelectorExpr); ok && ks.Sel.Name == "Kind" {
					if vc, ok := unparen(ks.X).(*ast.CallExpr); ok && len(vc.Args) == 1 {
						if pk, nm, isPkg := t.pkgCall(vc); isPkg && pk == "reflect" && (nm == "ValueOf" || nm == "TypeOf") && t.kindOfExpr(vc.Args[0]) == "val" {
							if nm == "TypeOf" {
								// reflect.TypeOf(nil) is the nil Type: its Kind() panics
								t.guards = append(t.guards, "if (match "+t.expr(vc.Args[0])+" with VNil => true | _ => false end) then Crash else")
							}
							var r string
							switch types.ExprString(x.Y) {
							case "reflect.Map":
								r = "(match " + t.expr(vc.Args[0]) + " with VMap _ => true | _ => false end)"
							case "reflect.Struct":
								r = "(let _ := " + t.expr(vc.Args[0]) + " in false)" // no value of the universe is a struct
							default:
								t.unsupported(e, "reflect kind test other than Map / Struct")
							}
							if x.Op == token.NEQ {
								return "(negb " + r + ")"
							}
							return r
						}
					}
				}
			}
		}
		switch x.Op {
		case token.LAND, token.LOR:
			a := t.expr(x.X)
			// outside an if condition a partial operation on the right of && / || is evaluated EAGERLY: the translation
			// may Crash where Go would not have evaluated it, never the other way round (conservative; see the header)
			b := t.expr(x.Y)
			if x.Op == token.LAND {
				return "(" + a + " && " + b + ")"
			}
			return "(" + a + " || " + b + ")"
		case token.EQL, token.NEQ:
			var r string
			switch k {
			case "err":
				id, ok := x.X.(*ast.Ident)
				lv := t.locals[t.p.info.Uses[id]]
				if ok && lv != nil && lv.kind == "errv" {
					if se, isSel := x.Y.(*ast.SelectorExpr); isSel && types.ExprString(se) == "io.EOF" {
						r = "(match " + lv.name + " with Some EEOF => true | _ => false end)"
						if x.Op == token.NEQ {
							return "(negb " + r + ")"
						}
						return r
					}
				}
				if !ok || lv == nil || (lv.kind != "errnil" && lv.kind != "errv") || !t.p.info.Types[x.Y].IsNil() {
					t.unsupported(e, "comparison of an error value other than `err == nil` / `err != nil` / `err == io.EOF`")
				}
				r = lv.name
				if lv.kind == "errv" {
					r = "(match " + lv.name + " with None => true | Some _ => false end)"
				}
			case "byte":
				r = "(Ascii.eqb " + t.expr(x.X) + " " + t.expr(x.Y) + ")"
			case "bool":
				r = "(Bool.eqb " + t.expr(x.X) + " " + t.expr(x.Y) + ")"
			case "str":
				r = "(str_eqb " + t.expr(x.X) + " " + t.expr(x.Y) + ")"
			case "int":
				r = "(Z.eqb " + t.expr(x.X) + " " + t.expr(x.Y) + ")"
			case "flt":
				r = "(flt_eqb " + t.expr(x.X) + " " + t.expr(x.Y) + ")"
			case "tok":
				if t.p.info.Types[x.Y].IsNil() {
					r = "(match " + t.expr(x.X) + " with None => true | Some _ => false end)"
				} else {
					t.unsupported(e, "comparison of function / pointer values")
				}
			case "val":
				// v == nil for an interface{} value: the nil interface (typed nils are outside the universe)
				if t.p.info.Types[x.Y].IsNil() {
					r = "(match " + t.expr(x.X) + " with VNil => true | _ => false end)"
				} else {
					t.unsupported(e, "comparison of interface{} values")
				}
			case "vmap", "vlist":
				// a nil map / slice and an empty one are the same model value (the entry list []); a map variable
				// declared nil carries a flag that says whether it has been made
				if lv := t.lvarOf(x.X); lv != nil && lv.nilFlag != nil && t.p.info.Types[x.Y].IsNil() {
					if lv.nilUnknown {
						t.unsupported(e, "nil test of a map that was assigned from a call")
					}
					r = "(negb " + lv.nilFlag.name + ")"
				} else if t.p.info.Types[x.Y].IsNil() {
					r = "(match " + t.expr(x.X) + " with [] => true | _ => false end)"
				} else {
					t.unsupported(e, "comparison of maps / slices")
				}
			default:
				t.unsupported(e, "== on this type")
			}
			if x.Op == token.NEQ {
				return "(negb " + r + ")"
			}
			return r
		case token.GTR, token.LSS, token.GEQ, token.LEQ:
			if k == "str" {
				// string ordering is bytewise (str_leb of Base/Str.v)
				a, b := t.expr(x.X), t.expr(x.Y)
				switch x.Op {
				case token.LEQ:
					return "(str_leb " + a + " " + b + ")"
				case token.GEQ:
					return "(str_leb " + b + " " + a + ")"
				case token.LSS:
					return "(negb (str_leb " + b + " " + a + "))"
				default:
					return "(negb (str_leb " + a + " " + b + "))"
				}
			}
			if k != "int" {
				t.unsupported(e, "ordering on a non-integer")
			}
			op := map[token.Token]string{token.GTR: "Z.gtb", token.LSS: "Z.ltb", token.GEQ: "Z.geb", token.LEQ: "Z.leb"}[x.Op]
			return "(" + op + " " + t.expr(x.X) + " " + t.expr(x.Y) + ")"
		case token.ADD:
			if k == "str" {
				return "(app " + t.expr(x.X) + " " + t.expr(x.Y) + ")"
			}
			if k == "int" {
				return "(" + t.expr(x.X) + " + " + t.expr(x.Y) + ")%Z"
			}
		case token.SUB:
			// int is 64 bits wide; the translation computes in Z (lengths, indices and counters stay far from the limits)
			if k == "int" {
				return "(" + t.expr(x.X) + " - " + t.expr(x.Y) + ")%Z"
			}
		}
		t.unsupported(e, "binary "+x.Op.String())
	case *ast.CallExpr:
		return t.call(x)
	case *ast.IndexExpr:
		k := t.kindOfExpr(x.X)
		// xs[i] with the loop index of xs
		if id, ok := x.Index.(*ast.Ident); ok {
			if lv, ok := t.locals[t.p.info.Uses[id]]; ok && lv.rangeOf != "" {
				if types.ExprString(unparen(x.X)) == lv.rangeOf {
					return lv.elem
				}
				t.unsupported(e, "range index applied to another expression")
			}
			if lv, ok := t.locals[t.p.info.Uses[id]]; ok && lv.elemOf != nil {
				if base, ok := x.X.(*ast.Ident); ok && t.p.info.Uses[base] == lv.elemOf {
					return lv.elem
				}
				t.unsupported(e, "loop index applied to another slice")
			}
		}
		if (k == "strs" || k == "vlist") && t.isLenMinus1(x.Index, x.X) {
			base := t.expr(x.X)
			t.fresh++
			n := fmt.Sprintf("idx%d", t.fresh)
			t.guards = append(t.guards, fmt.Sprintf("match nth_error %s (length %s - 1) with None => Crash | Some %s =>", base, base, n))
			return n
		}
		if k == "vmap" {
			// m[k] as a value: the entry, nil when there is none
			return "(match lookup " + t.expr(x.Index) + " " + t.expr(x.X) + " with Some v_ => v_ | None => VNil end)"
		}
		if k != "bools" && k != "strs" && k != "vlist" && k != "str" && k != "rows" && k != "vrows" && !strings.HasPrefix(k, "recs:") {
			t.unsupported(e, "index expression")
		}
		i, ok := t.constInt(x.Index)
		if !ok {
			// xs[e] with a computed index: Go panics when e < 0 or len(xs) <= e
			base := t.expr(x.X)
			ix := t.expr(x.Index)
			t.fresh++
			n := fmt.Sprintf("idx%d", t.fresh)
			t.guards = append(t.guards, fmt.Sprintf("if Z.ltb %s 0 then Crash else", ix))
			t.guards = append(t.guards, fmt.Sprintf("match nth_error %s (Z.to_nat %s) with None => Crash | Some %s =>", base, ix, n))
			return n
		}
		base := t.expr(x.X)
		t.fresh++
		n := fmt.Sprintf("idx%d", t.fresh)
		t.guards = append(t.guards, fmt.Sprintf("match nth_error %s %d with None => Crash | Some %s =>", base, i, n))
		return n
	case *ast.SliceExpr:
		// xs[:n] with a variable n, and xs[:len(xs)-1]
		if kk := t.kindOfExpr(x.X); x.Low == nil && x.High != nil && !x.Slice3 && (kk == "vlist" || kk == "strs") {
			if _, isConst := t.constInt(x.High); !isConst {
				base := t.expr(x.X)
				if t.isLenMinus1(x.High, x.X) {
					t.guards = append(t.guards, fmt.Sprintf("if Nat.ltb (length %s) 1 then Crash else", base))
					return "(removelast " + base + ")"
				}
				n := t.expr(x.High)
				t.guards = append(t.guards, fmt.Sprintf("if (Z.ltb %s 0 || Z.ltb (Z.of_nat (length %s)) %s) then Crash else", n, base, n))
				return "(firstn (Z.to_nat " + n + ") " + base + ")"
			}
		}
		if kk := t.kindOfExpr(x.X); !x.Slice3 && (kk == "vlist" || kk == "strs" || kk == "str" || kk == "rows" || kk == "vrows" || strings.HasPrefix(kk, "recs:")) {
			_, loConst := int64(0), x.Low == nil
			if x.Low != nil {
				_, loConst = t.constInt(x.Low)
			}
			_, hiConst := int64(0), x.High == nil
			if x.High != nil {
				_, hiConst = t.constInt(x.High)
			}
			if !loConst || !hiConst {
				// xs[lo:hi] with computed bounds.  Go panics unless 0 <= lo <= hi <= cap(xs); the translation panics unless
				// hi <= len(xs) as well: wherever it does not panic, Go does not either and yields these elements.
				base := t.expr(x.X)
				lo := "0%Z"
				if x.Low != nil {
					lo = t.expr(x.Low)
				}
				if x.High == nil {
					t.guards = append(t.guards, fmt.Sprintf("if (Z.ltb %s 0 || Z.ltb (Z.of_nat (length %s)) %s) then Crash else", lo, base, lo))
					return "(skipn (Z.to_nat " + lo + ") " + base + ")"
				}
				hi := t.expr(x.High)
				t.guards = append(t.guards, fmt.Sprintf("if (Z.ltb %s 0 || Z.ltb %s %s || Z.ltb (Z.of_nat (length %s)) %s) then Crash else", lo, hi, lo, base, hi))
				return "(firstn (Z.to_nat (" + hi + " - " + lo + ")) (skipn (Z.to_nat " + lo + ") " + base + "))"
			}
		}
		if k := t.kindOfExpr(x.X); (k != "str" && k != "strs") || x.Slice3 {
			t.unsupported(e, "slice expression")
		}
		var lo, hi int64
		var ok bool
		if x.Low != nil {
			if lo, ok = t.constInt(x.Low); !ok {
				t.unsupported(e, "slice bound")
			}
		}
		base := t.expr(x.X)
		if x.High == nil {
			t.guards = append(t.guards, fmt.Sprintf("if Nat.ltb (length %s) %d then Crash else", base, lo))
			return fmt.Sprintf("(skipn %d %s)", lo, base)
		}
		if hi, ok = t.constInt(x.High); !ok {
			t.unsupported(e, "slice bound")
		}
		t.guards = append(t.guards, fmt.Sprintf("if Nat.ltb (length %s) %d then Crash else", base, hi))
		return fmt.Sprintf("(firstn %d (skipn %d %s))", hi-lo, lo, base)
	case *ast.TypeAssertExpr:
		if x.Type == nil {
			t.unsupported(e, "type switch guard outside a switch")
		}
		if lv := t.lvarOf(x.X); lv != nil && lv.kind == "xtok" {
			// t.(xml.CharData): the character data of the token (a panic for any other token)
			t.fresh++
			n := fmt.Sprintf("as%d", t.fresh)
			switch types.ExprString(x.Type) {
			case "xml.CharData":
				t.guards = append(t.guards, "ASSERT:"+lv.name+":Some (TChar "+n+")")
			case "xml.Comment":
				t.guards = append(t.guards, "ASSERT:"+lv.name+":Some (TComment "+n+")")
			case "xml.Directive":
				t.guards = append(t.guards, "ASSERT:"+lv.name+":Some (TDirective "+n+")")
			default:
				t.unsupported(e, "assertion on a token to this type used as a value")
			}
			return n
		}
		pat, _ := t.assertPat(t.p.info.Types[x.Type].Type, "")
		if pat == "" {
			t.unsupported(e, "type assertion to this type")
		}
		v := t.expr(x.X)
		t.fresh++
		n := fmt.Sprintf("as%d", t.fresh)
		t.guards = append(t.guards, "ASSERT:"+v+":"+pat+n)
		return n
	case *ast.SelectorExpr:
		if f := t.lvarOf(x); f != nil {
			return f.name
		}
		if ta, ok := unparen(x.X).(*ast.TypeAssertExpr); ok && ta.Type != nil {
			if tl := t.lvarOf(ta.X); tl != nil && tl.kind == "xtok" {
				t.fresh++
				n := fmt.Sprintf("as%d", t.fresh)
				switch types.ExprString(ta.Type) + "." + x.Sel.Name {
				case "xml.ProcInst.Target":
					t.guards = append(t.guards, "ASSERT:"+tl.name+":Some (TProcInst "+n+" _)")
					return n
				case "xml.ProcInst.Inst":
					t.guards = append(t.guards, "ASSERT:"+tl.name+":Some (TProcInst _ "+n+")")
					return n
				case "xml.EndElement.Name":
					t.guards = append(t.guards, "ASSERT:"+tl.name+":Some (TEnd "+n+")")
					return n
				}
				t.unsupported(e, "field of an asserted token")
			}
		}
		// xml.Name: n.Local / n.Space ; xml.Attr: a.Name / a.Value
		switch t.kindOfExpr(x.X) {
		case "xname":
			switch x.Sel.Name {
			case "Local":
				return "(xlocal " + t.expr(x.X) + ")"
			case "Space":
				return "(xspace " + t.expr(x.X) + ")"
			}
		case "xattr":
			switch x.Sel.Name {
			case "Name":
				return "(aname " + t.expr(x.X) + ")"
			case "Value":
				return "(avalue " + t.expr(x.X) + ")"
			}
		}
		// a field of a struct-valued expression (xs[i].f): the record projection
		if k := t.kindOfExpr(x.X); strings.HasPrefix(k, "rec:") {
			if _, ok := t.structs[k[4:]]; ok {
				return "(" + k[4:] + "_" + x.Sel.Name + " " + t.expr(x.X) + ")"
			}
		}
		t.unsupported(e, "selector "+types.ExprString(e))
	}
	t.unsupported(e, fmt.Sprintf("expression %T", e))
	return ""
}

// isLenMinus1: is e the expression len(xs)-1 for the (syntactically same) xs?
func (t *fnTr) isLenMinus1(e ast.Expr, xs ast.Expr) bool {
	b, ok := e.(*ast.BinaryExpr)
	if !ok || b.Op != token.SUB {
		return false
	}
	if v, ok := t.constInt(b.Y); !ok || v != 1 {
		return false
	}
	c, ok := b.X.(*ast.CallExpr)
	if !ok || len(c.Args) != 1 {
		return false
	}
	id, ok := c.Fun.(*ast.Ident)
	return ok && id.Name == "len" && types.ExprString(unparen(c.Args[0])) == types.ExprString(unparen(xs))
}

// wrap is guarded with support for assertion guards ("ASSERT:v:pat": match v with pat => body | _ => Crash end).
func (t *fnTr) wrap(mark int, body string) string {
	gs := t.guards[mark:]
	t.guards = t.guards[:mark]
	out := body
	for i := len(gs) - 1; i >= 0; i-- {
		g := gs[i]
		switch {
		case strings.HasPrefix(g, "ASSERT:"):
			parts := strings.SplitN(g[7:], ":", 2)
			out = "(match " + parts[0] + " with " + parts[1] + " => " + out + " | _ => Crash end)"
		case strings.HasPrefix(g, "match"):
			out = "(" + g + " " + out + " end)"
		default:
			out = "(" + g + " " + out + ")"
		}
	}
	return out
}

var callTable = map[string]string{
	"strconv.Itoa":       "go_itoa",
	"strings.ToLower":    "to_lower",
	"strings.HasPrefix":  "go_has_prefix",
	"strings.Split":      "go_split",
	"strings.Index":      "go_index",
	"strings.Contains":   "go_contains",
	"strings.HasSuffix":  "go_has_suffix",
	"strings.TrimSuffix": "go_trim_suffix_s",
	"strings.TrimPrefix": "go_trim_prefix",
	"strings.Replace":    "go_replace",
	"strings.Join":       "go_join",
	"strings.Trim":       "go_trim",
	"bytes.TrimSuffix":   "go_trim_suffix",
	"bytes.Count":        "bytes_count",
	"bytes.Replace":      "bytes_replace",
	"math.IsNaN":         "flt_is_nan",
}

func (t *fnTr) call(x *ast.CallExpr) string {
	// conversions
	if tv, ok := t.p.info.Types[x.Fun]; ok && tv.IsType() && len(x.Args) == 1 {
		from, to := t.kindOfExpr(x.Args[0]), t.kindOfType(tv.Type)
		switch {
		case from == to && (to == "str" || to == "int" || to == "bool" || to == "flt"):
			return t.expr(x.Args[0])
		case to == "val":
			return t.boxVal(x.Args[0])
		case to == "vmap" && from == "vmap":
			return t.expr(x.Args[0])
		case to == "int" && from == "flt":
			// int(f): truncation toward zero, on the %v text of the float (go_flt_to_int)
			return "(go_flt_to_int " + t.expr(x.Args[0]) + ")"
		}
		t.unsupported(x, "conversion "+types.ExprString(x.Fun))
	}
	if se, ok := x.Fun.(*ast.SelectorExpr); ok && len(x.Args) == 0 && se.Sel.Name == "IsRegular" {
		if mc, ok := unparen(se.X).(*ast.CallExpr); ok && len(mc.Args) == 0 {
			if ms, ok := mc.Fun.(*ast.SelectorExpr); ok && ms.Sel.Name == "Mode" {
				if fl := t.lvarOf(ms.X); fl != nil && fl.kind == "finfo" {
					return fl.fields["regular"].name
				}
			}
		}
	}
	if se, ok := x.Fun.(*ast.SelectorExpr); ok && len(x.Args) == 2 && se.Sel.Name == "ReplaceAll" {
		// r.ReplaceAll(src, repl) on a regexp local: the environment function ext_regexp_ReplaceAll applied to the pattern's
		// source text (package regexp is not modelled; the pattern is visible in the translated term)
		if id, ok := unparen(se.X).(*ast.Ident); ok {
			if rl := t.locals[t.p.info.Uses[id]]; rl != nil && rl.kind == "regexp" {
				if t.kindOfExpr(x.Args[0]) != "str" || t.kindOfExpr(x.Args[1]) != "str" {
					t.unsupported(x, "regexp ReplaceAll on something other than byte slices")
				}
				found := false
				for _, e := range *t.externs {
					found = found || e.name == "ext_regexp_ReplaceAll"
				}
				if !found {
					*t.externs = append(*t.externs, extern{"ext_regexp_ReplaceAll", "str -> str -> str -> str"})
				}
				return "(ext_regexp_ReplaceAll " + rl.fields["pat"].name + " " + t.expr(x.Args[0]) + " " + t.expr(x.Args[1]) + ")"
			}
		}
	}
	if se, ok := x.Fun.(*ast.SelectorExpr); ok && len(x.Args) == 0 && (se.Sel.Name == "Bytes" || se.Sel.Name == "String") {
		if wl := t.lvarOf(se.X); wl != nil && wl.kind == "writer" {
			return wl.name // the bytes written so far
		}
	}
	if id, ok := x.Fun.(*ast.Ident); ok {
		if _, isB := t.p.info.Uses[id].(*types.Builtin); isB {
			switch id.Name {
			case "len":
				return "(Z.of_nat (length " + t.expr(x.Args[0]) + "))"
			case "append":
				if len(x.Args) == 2 && x.Ellipsis.IsValid() {
					// append(xs, ys...)
					k0, k1 := strings.TrimPrefix(t.kindOfExpr(x.Args[0]), "ptr:"), t.kindOfExpr(x.Args[1])
					if k0 != k1 || (k0 != "vlist" && k0 != "strs") {
						t.unsupported(x, "append form")
					}
					return "(app " + t.expr(x.Args[0]) + " " + t.expr(x.Args[1]) + ")"
				}
				if len(x.Args) > 2 && !x.Ellipsis.IsValid() {
					// append(xs, a, b, ...)
					k := strings.TrimPrefix(t.kindOfExpr(x.Args[0]), "ptr:")
					if k != "vlist" && k != "strs" {
						t.unsupported(x, "append form")
					}
					xs := t.expr(x.Args[0])
					var els []string
					for _, a := range x.Args[1:] {
						if k == "vlist" {
							els = append(els, t.boxVal(a))
						} else {
							els = append(els, t.expr(a))
						}
					}
					return "(app " + xs + " [" + strings.Join(els, "; ") + "])"
				}
				if len(x.Args) != 2 || x.Ellipsis.IsValid() {
					t.unsupported(x, "append form")
				}
				k := strings.TrimPrefix(t.kindOfExpr(x.Args[0]), "ptr:")
				var el string
				if k == "str" && t.kindOfExpr(x.Args[1]) != "byte" {
					t.unsupported(x, "append to a byte string of something other than a byte")
				}
				if k == "vlist" {
					el = t.boxVal(x.Args[1])
				} else {
					el = t.expr(x.Args[1])
				}
				return "(app " + t.expr(x.Args[0]) + " [" + el + "])"
			case "make":
				if mk := t.kindOfExpr(x); (mk == "vmap" || mk == "bmap") && len(x.Args) == 2 {
					// make(map[K]V, hint): the hint does not matter (it is evaluated: a negative hint panics only if constant)
					mark := len(t.guards)
					_ = t.expr(x.Args[1])
					if len(t.guards) != mark {
						t.unsupported(x, "partial operation in the size hint of make")
					}
					return fnZero(mk)
				}
				if len(x.Args) >= 2 {
					n, ok := t.constInt(x.Args[1])
					if ok && n == 1 && t.kindOfExpr(x) == "str" {
						return "[zero_byte]" // a one-byte buffer
					}
					if k := t.kindOfExpr(x); !ok && len(x.Args) == 2 && strings.HasPrefix(k, "recs:") && t.structs[k[5:]] != nil {
						// make([]T, n) for a struct T of the package: n zero records
						st := t.structs[k[5:]]
						var zs []string
						for i := 0; i < st.NumFields(); i++ {
							zs = append(zs, fnZero(t.kindOfType(st.Field(i).Type())))
						}
						ln := t.expr(x.Args[1])
						t.guards = append(t.guards, fmt.Sprintf("if Z.ltb %s 0 then Crash else", ln))
						return "(repeat (mk_" + k[5:] + " " + strings.Join(zs, " ") + ") (Z.to_nat " + ln + "))"
					}
					if k := t.kindOfExpr(x); !ok && len(x.Args) == 2 && (k == "rows" || k == "vrows") {
						// make([][n]T, m): m arrays of n zero values
						sl := t.p.info.Types[x].Type.Underlying().(*types.Slice)
						arr := sl.Elem().Underlying().(*types.Array)
						zero := "([] : str)"
						if k == "vrows" {
							zero = "VNil"
						}
						ln := t.expr(x.Args[1])
						t.guards = append(t.guards, fmt.Sprintf("if Z.ltb %s 0 then Crash else", ln))
						return fmt.Sprintf("(repeat (repeat %s %d) (Z.to_nat %s))", zero, arr.Len(), ln)
					}
					if k := t.kindOfExpr(x); !ok && len(x.Args) == 2 && (k == "strs" || k == "vlist") {
						// make([]T, n): n zero values; Go panics when n < 0
						ln := t.expr(x.Args[1])
						zero := "([] : str)"
						if k == "vlist" {
							zero = "VNil"
						}
						t.guards = append(t.guards, fmt.Sprintf("if Z.ltb %s 0 then Crash else", ln))
						return "(repeat " + zero + " (Z.to_nat " + ln + "))"
					}
					if !ok || n != 0 {
						t.unsupported(x, "make with a non-zero length")
					}
				}
				return fnZero(t.kindOfExpr(x))
			}
			t.unsupported(x, "builtin "+id.Name)
		}
		// a call of a package-level function VALUE (checkTagToSkip): Go panics when it is nil
		if g, ok := t.vars[t.p.info.Uses[id]]; ok && g.kind == "tok" {
			if len(x.Args) != 1 || t.kindOfExpr(x.Args[0]) != "str" {
				t.unsupported(x, "call of function value "+id.Name)
			}
			a := t.expr(x.Args[0])
			t.guards = append(t.guards, fmt.Sprintf("match g_%s st with None => Crash | Some _ =>", g.name))
			return "(call_" + g.name + " " + a + ")"
		}
	}
	if pkg, name, ok := t.pkgCall(x); ok {
		full := pkg + "." + name
		argInt := func(i int, want int64) {
			v, ok := t.constInt(x.Args[i])
			if !ok || v != want {
				t.unsupported(x, fmt.Sprintf("%s with argument %d other than %d", full, i, want))
			}
		}
		if full == "math.IsInf" {
			argInt(1, 0)
			return "(flt_is_inf " + t.expr(x.Args[0]) + ")"
		}
		if full == "fmt.Sprint" && len(x.Args) == 1 && t.kindOfExpr(x.Args[0]) == "val" {
			// fmt.Sprint(x) of one interface{} value: its %v text
			v := t.expr(x.Args[0])
			t.fresh++
			n := fmt.Sprintf("fv%d", t.fresh)
			t.guards = append(t.guards, "match "+v+" with VMap _ | VList _ => Crash | "+n+" =>")
			return "(go_fmt_v " + n + ")"
		}
		if full == "fmt.Sprintf" && len(x.Args) == 2 {
			// fmt.Sprintf("%v", x) for an interface{} value: the text of a scalar of the universe; the %v text of maps and
			// lists is not modelled (a Crash of the translation, which the theorems exclude)
			if fv := t.p.info.Types[x.Args[0]].Value; fv != nil && fv.Kind() == constant.String && constant.StringVal(fv) == "%v" && t.kindOfExpr(x.Args[1]) == "val" {
				v := t.expr(x.Args[1])
				t.fresh++
				n := fmt.Sprintf("fv%d", t.fresh)
				t.guards = append(t.guards, "match "+v+" with VMap _ | VList _ => Crash | "+n+" =>")
				return "(go_fmt_v " + n + ")"
			}
		}
		if f, ok := callTable[full]; ok {
			args := make([]string, len(x.Args))
			for i, a := range x.Args {
				args[i] = t.expr(a)
			}
			return "(" + f + " " + strings.Join(args, " ") + ")"
		}
		t.unsupported(x, "call "+full)
	}
	// another function / method of the package with ONE result: an external call (Section variable)
	if ec, ok := t.externCall(x); ok {
		if len(ec.results) != 1 || len(ec.outArgs) != 0 || ec.optOut {
			t.unsupported(x, "external call with several results / out-parameters used as an expression")
		}
		return ec.term
	}
	t.unsupported(x, "call "+types.ExprString(x.Fun))
	return ""
}

// extCall describes a call of another function / method of package mxj, which becomes a Section variable:
//
//	one result            f : args -> T
//	(T, error)            f : args -> res T
//	no result, out-params f : args -> (the new values of the out-parameters)      (arguments &local)
//	io.Reader arguments   f : args -> option (R * the readers afterwards), None = the callee panicked; R as above
//	                      except that (*T, error) is the pair (T * option err) and (T1, T2, error) the triple
type extCall struct {
	term     string
	results  []string       // kinds of the Go results
	outArgs  []*lvar        // locals passed by address, in parameter order
	stateOut []*lvar        // reader locals passed to the callee (it consumes from them), in parameter order
	rich     string         // the Gallina pattern kind of R for a call with stateOut: "pair" (v, err) / "triple" / "res" / "one"
	unbox    map[*lvar]bool // out-arguments that come back as a value and are unboxed into a map / slice local
	optOut   bool           // writer / struct-pointer arguments: the callee's result is option (R * their new values), None = it panicked
	lensArg  *lvar          // the callee returns part of this argument's tree together with a put-back function
	lensTy   string         // ... of this Gallina type
}

// envCalls: functions of the standard library that are part of the ENVIRONMENT of the translation (Section variables
// like the package's own callees): argument kinds and the kind T of a (T, error) result.
var envCalls = map[string]struct {
	args []string
	res  string
}{
	"encoding/xml.Marshal":       {[]string{"val"}, "str"},
	"encoding/xml.MarshalIndent": {[]string{"val", "str", "str"}, "str"},
}

func (t *fnTr) externCall(x *ast.CallExpr) (*extCall, bool) {
	if pkg, name, ok := t.pkgCall(x); ok {
		if ev, isEnv := envCalls[pkg+"."+name]; isEnv && len(x.Args) == len(ev.args) {
			ec := &extCall{results: []string{ev.res, "err"}}
			var tys, args []string
			for i, a := range x.Args {
				tys = append(tys, fnCoqType(ev.args[i]))
				if ev.args[i] == "val" {
					args = append(args, t.boxVal(a))
				} else {
					args = append(args, t.expr(a))
				}
			}
			nm := "ext_" + pkg[strings.LastIndex(pkg, "/")+1:] + "_" + name
			typ := strings.Join(append(tys, "(res "+fnCoqType(ev.res)+")"), " -> ")
			found := false
			for _, e := range *t.externs {
				found = found || e.name == nm
			}
			if !found {
				*t.externs = append(*t.externs, extern{nm, typ})
			}
			ec.term = "(" + nm + " " + strings.Join(args, " ") + ")"
			return ec, true
		}
	}
	var callee types.Object
	var recv ast.Expr
	switch f := x.Fun.(type) {
	case *ast.Ident:
		callee = t.p.info.Uses[f]
	case *ast.SelectorExpr:
		if sel, ok := t.p.info.Selections[f]; ok && sel.Kind() == types.MethodVal {
			callee, recv = sel.Obj(), f.X
		}
	}
	fn, ok := callee.(*types.Func)
	if !ok || fn.Pkg() != t.p.pkg || fn == t.self {
		return nil, false
	}
	sig := fn.Type().(*types.Signature)
	ec := &extCall{}
	var tys, args []string
	if recv != nil {
		if t.io != nil && t.io.params[fn][-1] {
			t.unsupported(x, "call of a method that updates its receiver in place")
		}
		tys = append(tys, fnCoqType(t.kindOfType(sig.Recv().Type())))
		args = append(args, t.expr(recv))
	}
	np := sig.Params().Len()
	var variadicArgs []ast.Expr // f(a, b, c) with the variadic parameter spelled out: the list [b; c]
	spelled := sig.Variadic() && !x.Ellipsis.IsValid()
	if spelled {
		if len(x.Args) < np-1 {
			t.unsupported(x, "external call with too few arguments")
		}
		variadicArgs = x.Args[np-1:]
	} else if len(x.Args) != np {
		t.unsupported(x, "external call with a different number of arguments than parameters")
	}
	for i := 0; i < np; i++ {
		k := t.kindOfType(sig.Params().At(i).Type())
		if k == "" || k == "tok" {
			t.unsupported(x, "external call with a parameter of this type")
		}
		tys = append(tys, fnCoqType(k))
		if spelled && i == np-1 {
			if k != "strs" && k != "bools" && k != "vlist" {
				t.unsupported(x, "spelled-out variadic arguments of this type")
			}
			var els []string
			for _, a := range variadicArgs {
				if k == "vlist" {
					els = append(els, t.boxVal(a))
				} else {
					els = append(els, t.expr(a))
				}
			}
			args = append(args, "(["+strings.Join(els, "; ")+"] : "+fnCoqType(k)+")")
			continue
		}
		a := x.Args[i]
		switch {
		case k == "writer":
			// a *bytes.Buffer / *strings.Builder the callee writes to: what has been written comes back
			wa := unparen(a)
			if u, ok := wa.(*ast.UnaryExpr); ok && u.Op == token.AND {
				wa = unparen(u.X)
			}
			wl := t.lvarOf(wa)
			if _, isId := wa.(*ast.Ident); !isId || wl == nil || wl.kind != "writer" {
				t.unsupported(x, "writer argument other than a writer local")
			}
			ec.outArgs = append(ec.outArgs, wl)
			ec.optOut = true
			args = append(args, wl.name)
		case strings.HasPrefix(k, "rec:") && func() bool { _, isP := sig.Params().At(i).Type().(*types.Pointer); return isP }():
			// a pointer to a package struct the callee may update: its fields go in and come back
			var al *lvar
			if id, ok := unparen(a).(*ast.Ident); ok {
				al = t.locals[t.p.info.Uses[id]]
			}
			if al == nil || al.fields == nil || al.kind != k {
				t.unsupported(x, "struct-pointer argument other than a struct local of that type")
			}
			tys = tys[:len(tys)-1]
			for _, fnm := range al.forder {
				fl := al.fields[fnm]
				tys = append(tys, fnCoqType(fl.kind))
				args = append(args, fl.name)
				ec.outArgs = append(ec.outArgs, fl)
			}
			ec.optOut = true
		case k == "reader":
			var lv *lvar
			if id, ok := a.(*ast.Ident); ok {
				lv = t.locals[t.p.info.Uses[id]]
			}
			if lv == nil || lv.kind != "reader" {
				t.unsupported(x, "io.Reader argument other than a reader local")
			}
			ec.stateOut = append(ec.stateOut, lv)
			args = append(args, lv.name)
		case strings.HasPrefix(k, "ptr:"):
			u, ok := a.(*ast.UnaryExpr)
			var lv *lvar
			if ok && u.Op == token.AND {
				if id, ok := u.X.(*ast.Ident); ok {
					lv = t.locals[t.p.info.Uses[id]]
				}
			}
			if lv == nil {
				// an out-parameter of this function handed on to the callee
				if pl := t.lvarOf(a); pl != nil && pl.kind == k {
					ec.outArgs = append(ec.outArgs, pl)
					args = append(args, pl.name)
					break
				}
			}
			if lv == nil || lv.kind != k[4:] {
				t.unsupported(x, "out-parameter argument other than &local")
			}
			ec.outArgs = append(ec.outArgs, lv)
			args = append(args, lv.name)
		case (k == "val" || k == "vmap" || k == "vlist") && t.io != nil && t.io.params[fn][i]:
			// the callee updates the tree below this argument in place: the new value comes back (write-back mode)
			if !t.wb {
				t.unsupported(x, "call of a function that updates its argument in place")
			}
			al := t.lvarOf(a)
			if _, isId := unparen(a).(*ast.Ident); !isId || al == nil {
				t.unsupported(x, "in-out argument other than a local")
			}
			switch {
			case al.kind == k:
				args = append(args, al.name)
			case k == "val" && (al.kind == "vmap" || al.kind == "vlist"):
				// a map / slice local handed to an interface{} parameter: boxed on the way in, unboxed on the way back
				args = append(args, boxByKind(al))
				if ec.unbox == nil {
					ec.unbox = map[*lvar]bool{}
				}
				ec.unbox[al] = true
			default:
				t.unsupported(x, "in-out argument other than a local of the parameter's type")
			}
			ec.outArgs = append(ec.outArgs, al)
		case k == "bmap" && t.calleeStoresInto(fn, i):
			// a map[string]bool the callee stores into: threaded like an out-parameter (the argument must be a local map)
			var lv *lvar
			if id, ok := a.(*ast.Ident); ok {
				lv = t.locals[t.p.info.Uses[id]]
			}
			if lv == nil || lv.kind != "bmap" || !lv.ownedMap() {
				t.unsupported(x, "a map the callee stores into that is not a local map of this function")
			}
			ec.outArgs = append(ec.outArgs, lv)
			args = append(args, lv.name)
		case k == "val":
			args = append(args, t.boxVal(a))
		case t.p.info.Types[a].IsNil() && k == "xattrs":
			// nil handed to a []xml.Attr parameter: the empty slice
			args = append(args, fnZero(k))
		default:
			args = append(args, t.expr(a))
		}
	}
	for i := 0; i < sig.Results().Len(); i++ {
		rk := t.kindOfType(sig.Results().At(i).Type())
		if rk == "" {
			t.unsupported(x, "external call with this result type")
		}
		ec.results = append(ec.results, rk)
	}
	var rty string
	if t.wb && t.io != nil && t.io.lens[fn] && len(ec.results) == 2 && ec.results[1] == "err" && len(ec.outArgs) == 0 && len(ec.stateOut) == 0 {
		// the callee returns part of the tree below its first tree argument (the receiver first): the value and the put-back function
		if recv != nil {
			if k := t.kindOfType(sig.Recv().Type()); k == "val" || k == "vmap" || k == "vlist" {
				al := t.lvarOf(recv)
				if _, isId := unparen(recv).(*ast.Ident); !isId || al == nil || al.kind != k {
					t.unsupported(x, "receiver of a lens method other than a local of the receiver's type")
				}
				ec.lensArg = al
				ec.lensTy = "(" + fnCoqType(ec.results[0]) + " -> " + fnCoqType(k) + ")"
			}
		}
		for i := 0; i < np && ec.lensArg == nil; i++ {
			k := t.kindOfType(sig.Params().At(i).Type())
			if k == "val" || k == "vmap" || k == "vlist" {
				al := t.lvarOf(x.Args[i])
				if _, isId := unparen(x.Args[i]).(*ast.Ident); !isId || al == nil || al.kind != k {
					t.unsupported(x, "tree argument of a lens function other than a local of the parameter's type")
				}
				ec.lensArg = al
				ec.lensTy = "(" + fnCoqType(ec.results[0]) + " -> " + fnCoqType(k) + ")"
			}
		}
	}
	switch {
	case ec.optOut:
		if len(ec.stateOut) > 0 || len(ec.unbox) > 0 || ec.lensArg != nil || len(ec.results) > 1 {
			t.unsupported(x, "external call with writer / struct-pointer arguments and this signature")
		}
		rty = "(option " + tupleType(ec.outArgs) + ")"
		if len(ec.results) == 1 {
			rty = "(option (" + fnCoqType(ec.results[0]) + " * " + tupleType(ec.outArgs) + "))"
		}
	case ec.lensArg != nil:
		rty = "(res (" + fnCoqType(ec.results[0]) + " * " + ec.lensTy + "))"
	case len(ec.results) == 1 && len(ec.outArgs) > 0 && len(ec.stateOut) == 0:
		// a result and new values of the in-out / out arguments
		var ts []string
		for _, oa := range ec.outArgs {
			if ec.unbox[oa] {
				ts = append(ts, "value")
			} else {
				ts = append(ts, fnCoqType(oa.kind))
			}
		}
		outs := "(" + strings.Join(ts, " * ") + ")"
		if len(ts) == 1 {
			outs = ts[0]
		}
		rk := ec.results[0]
		rty = "(" + fnCoqType(rk) + " * " + outs + ")"
	case len(ec.stateOut) > 0 && len(ec.outArgs) == 0:
		if t.handler && len(ec.results) >= 2 && ec.results[0] == "vmap" {
			ec.results[0] = "vmapn" // the Map may be nil: the caller tests it
		}
		switch {
		case t.handler && len(ec.results) == 2 && ec.results[1] == "err" && ec.results[0] == "vmapn":
			ec.rich, rty = "pair", "("+fnCoqType(ec.results[0])+" * (option err))"
		case len(ec.results) == 2 && ec.results[1] == "err" && strings.HasPrefix(ec.results[0], "ptr:"):
			ec.rich, rty = "pair", "("+fnCoqType(ec.results[0])+" * (option err))"
		case len(ec.results) == 2 && ec.results[1] == "err":
			ec.rich, rty = "res", "(res "+fnCoqType(ec.results[0])+")"
		case len(ec.results) == 3 && ec.results[2] == "err":
			ec.rich, rty = "triple", "("+fnCoqType(ec.results[0])+" * "+fnCoqType(ec.results[1])+" * (option err))"
		case len(ec.results) == 1:
			ec.rich, rty = "one", fnCoqType(ec.results[0])
		default:
			t.unsupported(x, "external call with this signature")
		}
		rty = "(option (" + rty + " * " + tupleType(ec.stateOut) + "))"
	case len(ec.results) == 1 && len(ec.outArgs) == 0:
		rty = fnCoqType(ec.results[0])
	case len(ec.results) == 2 && ec.results[1] == "err" && len(ec.outArgs) == 0 && pairCalleeFuncs[t.qname] && t.calleeIsPair(fn):
		// the callee returns a value TOGETHER with its error and this function may use both: the pair, None = it panicked
		ec.rich = "optpair"
		rty = "(option (" + fnCoqType(ec.results[0]) + " * (option err)))"
	case len(ec.results) == 2 && ec.results[1] == "err" && len(ec.outArgs) == 0:
		rty = "(res " + fnCoqType(ec.results[0]) + ")"
	case len(ec.results) == 0 && len(ec.outArgs) > 0:
		if len(ec.unbox) == 0 {
			rty = tupleType(ec.outArgs)
		} else {
			var ts []string
			for _, oa := range ec.outArgs {
				if ec.unbox[oa] {
					ts = append(ts, "value")
				} else {
					ts = append(ts, fnCoqType(oa.kind))
				}
			}
			rty = "(" + strings.Join(ts, " * ") + ")"
			if len(ts) == 1 {
				rty = ts[0]
			}
		}
	default:
		t.unsupported(x, "external call with this signature")
	}
	name := "ext_" + fn.Name()
	if r := sig.Recv(); r != nil {
		// methods of the same name on different receivers (Map.XmlIndent, MapSeq.XmlIndent) are different functions
		rt := r.Type()
		if pt, ok := rt.(*types.Pointer); ok {
			rt = pt.Elem()
		}
		if n, ok := rt.(*types.Named); ok {
			name = "ext_" + n.Obj().Name() + "_" + fn.Name()
		}
	}
	if ec.rich == "optpair" {
		name += "_pair" // the same callee seen as res T by the callers that do not use the value beside an error
	}
	if t.handler && len(ec.results) >= 2 && ec.results[0] == "vmapn" {
		name += "_nil" // the same callee with its Map result nil-aware (option)
	}
	typ := strings.Join(append(tys, rty), " -> ")
	found := false
	for _, e := range *t.externs {
		found = found || e.name == name
	}
	if !found {
		*t.externs = append(*t.externs, extern{name, typ})
	}
	ec.term = "(" + name + " " + strings.Join(args, " ") + ")"
	return ec, true
}

// pairCalleeFuncs: functions that may use the value a (T, error) callee returns beside a non-nil error; their calls of
// callees that return such pairs are typed option (T * option err) instead of res T
var pairCalleeFuncs = map[string]bool{"AnyXml": true, "AnyXmlIndent": true}

// calleeIsPair: does the package function fn return a non-zero value together with a non-nil error expression
// (the criterion of pairResult, applied to the callee)?
func (t *fnTr) calleeIsPair(fn *types.Func) bool {
	for _, f := range t.p.files {
		for _, d := range f.Decls {
			fd, ok := d.(*ast.FuncDecl)
			if !ok || fd.Body == nil || t.p.info.Defs[fd.Name] != types.Object(fn) {
				continue
			}
			pair := false
			ast.Inspect(fd.Body, func(n ast.Node) bool {
				if r, ok := n.(*ast.ReturnStmt); ok && len(r.Results) == 2 {
					if !t.isZeroExpr(r.Results[0]) && !t.p.info.Types[r.Results[1]].IsNil() {
						if be, ok := unparen(r.Results[0]).(*ast.BinaryExpr); !ok || be.Op != token.LAND {
							pair = true
						}
					}
				}
				return true
			})
			return pair
		}
	}
	return false
}

// calleeReturnsMade: a package function with one map result all of whose return statements return one local variable
// that is initialised with make (so the result is never the nil map)
func (t *fnTr) calleeReturnsMade(fn *types.Func) bool {
	for _, f := range t.p.files {
		for _, d := range f.Decls {
			fd, ok := d.(*ast.FuncDecl)
			if !ok || fd.Body == nil || t.p.info.Defs[fd.Name] != types.Object(fn) {
				continue
			}
			var made types.Object
			for _, st := range fd.Body.List {
				if as, ok := st.(*ast.AssignStmt); ok && as.Tok == token.DEFINE && len(as.Lhs) == 1 && len(as.Rhs) == 1 {
					if c, ok := as.Rhs[0].(*ast.CallExpr); ok {
						if id, ok := c.Fun.(*ast.Ident); ok && id.Name == "make" {
							if lid, ok := as.Lhs[0].(*ast.Ident); ok && made == nil {
								made = t.p.info.Defs[lid]
							}
						}
					}
				}
			}
			if made == nil {
				return false
			}
			okAll, nRet := true, 0
			ast.Inspect(fd.Body, func(n ast.Node) bool {
				switch x := n.(type) {
				case *ast.ReturnStmt:
					nRet++
					if len(x.Results) != 1 {
						okAll = false
					} else if id, ok := x.Results[0].(*ast.Ident); !ok || t.p.info.Uses[id] != made {
						okAll = false
					}
				case *ast.AssignStmt:
					// the variable is not assigned again
					if x.Tok == token.ASSIGN {
						for _, l := range x.Lhs {
							if id, ok := l.(*ast.Ident); ok && t.p.info.Uses[id] == made {
								okAll = false
							}
						}
					}
				}
				return true
			})
			return okAll && nRet > 0
		}
	}
	return false
}

// calleeStoresInto: does the body of the package function fn contain a store p[k] = v into its i-th parameter?
func (t *fnTr) calleeStoresInto(fn *types.Func, i int) bool {
	for _, f := range t.p.files {
		for _, d := range f.Decls {
			fd, ok := d.(*ast.FuncDecl)
			if !ok || fd.Body == nil || t.p.info.Defs[fd.Name] != types.Object(fn) {
				continue
			}
			var pobj types.Object
			n := 0
			for _, fld := range fd.Type.Params.List {
				for _, id := range fld.Names {
					if n == i {
						pobj = t.p.info.Defs[id]
					}
					n++
				}
			}
			found := false
			ast.Inspect(fd.Body, func(nd ast.Node) bool {
				if as, ok := nd.(*ast.AssignStmt); ok {
					for _, l := range as.Lhs {
						if ix, ok := l.(*ast.IndexExpr); ok {
							if id, ok := ix.X.(*ast.Ident); ok && pobj != nil && t.p.info.Uses[id] == pobj {
								found = true
							}
						}
					}
				}
				return true
			})
			return found
		}
	}
	return false
}

// condIf translates `if cond then a else b` with Go's short-circuit evaluation, so that a partial operation
// on the right of && / || is evaluated only when Go evaluates it.
func (t *fnTr) condIf(cond ast.Expr, thenS, elseS string) string {
	switch x := cond.(type) {
	case *ast.ParenExpr:
		return t.condIf(x.X, thenS, elseS)
	case *ast.BinaryExpr:
		if x.Op == token.LOR {
			return t.condIf(x.X, thenS, t.condIf(x.Y, thenS, elseS))
		}
		if x.Op == token.LAND {
			return t.condIf(x.X, t.condIf(x.Y, thenS, elseS), elseS)
		}
	case *ast.UnaryExpr:
		if x.Op == token.NOT {
			return t.condIf(x.X, elseS, thenS)
		}
	}
	mark := len(t.guards)
	c := t.expr(cond)
	return t.wrap(mark, "if "+c+"\n    then ("+thenS+")\n    else ("+elseS+")")
}

// ---------------------------------------------------------------- statements

// fallsThrough: may control reach the end of the statement list?
func fallsThrough(list []ast.Stmt) bool {
	if len(list) == 0 {
		return true
	}
	switch x := list[len(list)-1].(type) {
	case *ast.ReturnStmt:
		return false
	case *ast.BranchStmt:
		return x.Tok != token.CONTINUE && x.Tok != token.BREAK
	case *ast.BlockStmt:
		return fallsThrough(x.List)
	case *ast.IfStmt:
		if x.Else == nil {
			return true
		}
		return fallsThrough(x.Body.List) || fallsThrough([]ast.Stmt{x.Else})
	case *ast.SwitchStmt:
		return switchFalls(x.Body)
	case *ast.TypeSwitchStmt:
		return switchFalls(x.Body)
	}
	return true
}

// jumpsOut: does the list contain a jump that leaves the statement whose body it is - a `continue` (of the enclosing
// loop) or, for the body of an `if`, a `break` (of the enclosing switch / loop)?  Breaks inside a nested switch, and
// everything inside a nested loop, stay inside.
func jumpsOut(list []ast.Stmt, ofSwitch bool) bool {
	found := false
	var walk func(n ast.Node, inSwitch bool)
	walk = func(n ast.Node, inSwitch bool) {
		ast.Inspect(n, func(m ast.Node) bool {
			switch x := m.(type) {
			case *ast.BranchStmt:
				if x.Tok == token.CONTINUE || (x.Tok == token.BREAK && !inSwitch) {
					found = true
				}
			case *ast.ForStmt, *ast.RangeStmt:
				return false
			case *ast.SwitchStmt:
				if m != n {
					walk(x.Body, true)
					return false
				}
			case *ast.TypeSwitchStmt:
				if m != n {
					walk(x.Body, true)
					return false
				}
			}
			return true
		})
	}
	for _, st := range list {
		walk(st, ofSwitch)
	}
	return found
}

// hasContinue: does the list contain a `continue` (of the enclosing loop)?
func hasContinue(list []ast.Stmt) bool {
	found := false
	for _, s := range list {
		ast.Inspect(s, func(n ast.Node) bool {
			switch x := n.(type) {
			case *ast.BranchStmt:
				if x.Tok == token.CONTINUE || x.Tok == token.BREAK {
					found = true
				}
			case *ast.ForStmt, *ast.RangeStmt:
				return false
			}
			return true
		})
	}
	return found
}

func switchFalls(b *ast.BlockStmt) bool {
	hasDef := false
	for _, c := range b.List {
		cc := c.(*ast.CaseClause)
		if cc.List == nil {
			hasDef = true
		}
		if fallsThrough(cc.Body) {
			return true
		}
	}
	return !hasDef
}

// assigned: the outer locals (declared before the statements) that the statements assign, in order of first assignment.
func (t *fnTr) assigned(list []ast.Stmt) []*lvar {
	var out []*lvar
	seen := map[*lvar]bool{}
	add := func(lv *lvar) {
		if lv != nil && !seen[lv] {
			seen[lv] = true
			out = append(out, lv)
			if lv.nilFlag != nil && !seen[lv.nilFlag] {
				seen[lv.nilFlag] = true
				out = append(out, lv.nilFlag)
			}
			for _, ex := range []*lvar{lv.idxVar, lv.putVar} {
				if ex != nil && !seen[ex] {
					seen[ex] = true
					out = append(out, ex)
				}
			}
			if lv.putVar != nil && lv.origin != nil && lv.origin.how == "root" && !seen[lv.origin.parent] {
				seen[lv.origin.parent] = true
				out = append(out, lv.origin.parent)
			}
		}
	}
	target := func(e ast.Expr, define bool) {
		switch l := unparen(e).(type) {
		case *ast.StarExpr:
			if id, ok := l.X.(*ast.Ident); ok {
				if lv, ok := t.locals[t.p.info.Uses[id]]; ok && strings.HasPrefix(lv.kind, "ptr:") {
					add(lv)
				}
			}
		case *ast.Ident:
			if define {
				if t.p.info.Defs[l] != nil {
					return // a new variable
				}
			}
			if lv, ok := t.locals[t.p.info.Uses[l]]; ok && lv.fields == nil {
				add(lv)
			}
		case *ast.SelectorExpr:
			add(t.lvarOf(l))
		case *ast.IndexExpr:
			if ta, ok := unparen(l.X).(*ast.TypeAssertExpr); ok {
				add(t.lvarOf(ta.X))
			} else if inner, ok := unparen(l.X).(*ast.IndexExpr); ok {
				add(t.lvarOf(inner.X))
			} else if se, ok := unparen(l.X).(*ast.StarExpr); ok {
				add(t.lvarOf(se.X))
			} else if id, ok := l.X.(*ast.Ident); ok {
				if lv, ok := t.locals[t.p.info.Uses[id]]; ok {
					add(lv)
				}
			}
		}
	}
	if t.wb {
		for _, m := range t.mutatedRoots(list) {
			for _, a := range t.ancestors(m) {
				if lv, ok := t.locals[a]; ok {
					add(lv)
				}
			}
		}
	}
	for _, s := range list {
		ast.Inspect(s, func(n ast.Node) bool {
			switch x := n.(type) {
			case *ast.AssignStmt:
				for _, l := range x.Lhs {
					target(l, x.Tok == token.DEFINE)
				}
				if x.Tok == token.ADD_ASSIGN {
					add(t.lvarOf(x.Lhs[0]))
				}
				if len(x.Rhs) == 1 {
					if c, ok := x.Rhs[0].(*ast.CallExpr); ok {
						if se, ok := c.Fun.(*ast.SelectorExpr); ok && se.Sel.Name == "Encode" && len(c.Args) == 1 {
							if el := t.lvarOf(se.X); el != nil && (el.kind == "jencoder" || el.kind == "gencoder") {
								add(el.sink)
							}
						}
						if pk, nm, isPkg := t.pkgCall(c); isPkg && pk == "encoding/json" && nm == "Indent" && len(c.Args) == 4 {
							if u, ok := unparen(c.Args[0]).(*ast.UnaryExpr); ok && u.Op == token.AND {
								add(t.lvarOf(u.X))
							}
						}
					}
				}
				if len(x.Rhs) == 1 {
					if c, ok := x.Rhs[0].(*ast.CallExpr); ok && len(c.Args) == 1 {
						if se, ok := c.Fun.(*ast.SelectorExpr); ok && se.Sel.Name == "Decode" {
							if u, ok := c.Args[0].(*ast.UnaryExpr); ok && u.Op == token.AND {
								add(t.lvarOf(u.X))
							}
						}
					}
				}
				if len(x.Rhs) == 1 {
					if c, ok := x.Rhs[0].(*ast.CallExpr); ok {
						if se, ok := c.Fun.(*ast.SelectorExpr); ok && se.Sel.Name == "Read" && len(c.Args) == 1 {
							if rl := t.lvarOf(se.X); rl != nil && rl.kind == "reader" {
								if bl := t.lvarOf(c.Args[0]); bl != nil {
									add(bl)
								}
								add(rl)
							}
						}
						if se, ok := c.Fun.(*ast.SelectorExpr); ok && (se.Sel.Name == "Write" || se.Sel.Name == "WriteString") && len(c.Args) == 1 {
							if wl := t.lvarOf(se.X); wl != nil && wl.kind == "writer" {
								add(wl)
							}
						}
						if se, ok := c.Fun.(*ast.SelectorExpr); ok && (se.Sel.Name == "Token" || se.Sel.Name == "RawToken") && len(c.Args) == 0 {
							if dl := t.lvarOf(se.X); dl != nil && dl.kind == "xdecoder" {
								add(dl)
							}
						}
						if t.isPkgFunc(c) && !t.isSelfCall(c) {
							// a package function that reads from a reader / decoder handed to it
							for _, a := range c.Args {
								if al := t.lvarOf(a); al != nil && (al.kind == "reader" || al.kind == "xdecoder") {
									add(al)
								}
							}
						}
						if t.handler && t.hst != nil {
							if fid, ok := c.Fun.(*ast.Ident); ok {
								if fl := t.locals[t.p.info.Uses[fid]]; fl != nil && strings.HasPrefix(fl.kind, "cb:") {
									add(t.hst)
								}
							}
						}
						if !t.isSelfCall(c) && t.calleeThreads(c) {
							for _, a := range c.Args {
								wa := unparen(a)
								if u, ok := wa.(*ast.UnaryExpr); ok && u.Op == token.AND {
									wa = unparen(u.X)
								}
								if id, ok := wa.(*ast.Ident); ok {
									if al, ok := t.locals[t.p.info.Uses[id]]; ok {
										if al.kind == "writer" {
											add(al)
										}
										if al.fields != nil && strings.HasPrefix(al.kind, "rec:") {
											for _, fnm := range al.forder {
												add(al.fields[fnm])
											}
										}
									}
								}
							}
						}
						// a recursive call used for its results also threads the state parameters
						if t.isSelfCall(c) {
							for _, sv := range t.state {
								add(sv)
							}
							for _, a := range c.Args {
								if id, ok := unparen(a).(*ast.Ident); ok {
									if al, ok := t.locals[t.p.info.Uses[id]]; ok && al.fields != nil {
										for _, fnm := range al.forder {
											add(al.fields[fnm])
										}
									}
								}
							}
						}
					}
				}
			case *ast.RangeStmt:
				if x.Tok == token.ASSIGN {
					if x.Key != nil {
						target(x.Key, false)
					}
					if x.Value != nil {
						target(x.Value, false)
					}
				}
			case *ast.IncDecStmt:
				if se, ok := x.X.(*ast.SelectorExpr); ok {
					add(t.lvarOf(se))
				} else {
					target(x.X, false)
				}
			case *ast.ExprStmt:
				if c, ok := x.X.(*ast.CallExpr); ok {
					if se, isSel := c.Fun.(*ast.SelectorExpr); isSel && se.Sel.Name == "SetEscapeHTML" {
						if id, isId := se.X.(*ast.Ident); isId {
							if el, okL := t.locals[t.p.info.Uses[id]]; okL && el.kind == "jencoder" {
								add(el.fields["escapeHTML"])
							}
						}
					}
					if se, isSel := c.Fun.(*ast.SelectorExpr); isSel && se.Sel.Name == "UseNumber" {
						if id, isId := se.X.(*ast.Ident); isId {
							if dl, okL := t.locals[t.p.info.Uses[id]]; okL && dl.kind == "jdecoder" {
								add(dl.fields["usenum"])
							}
						}
					}
					if pk, nm, isPkg := t.pkgCall(c); isPkg && pk == "sort" && nm == "Sort" && len(c.Args) == 1 {
						if conv, isConv := c.Args[0].(*ast.CallExpr); isConv && len(conv.Args) == 1 {
							add(t.lvarOf(conv.Args[0]))
						}
					}
					if se, isSel := c.Fun.(*ast.SelectorExpr); isSel {
						if wl := t.lvarOf(se.X); wl != nil && wl.kind == "writer" {
							add(wl)
						}
						if rid, isId := se.X.(*ast.Ident); isId {
							if rl, okL := t.locals[t.p.info.Uses[rid]]; okL && rl.fields != nil && strings.HasPrefix(rl.kind, "rec:") {
								for _, fnm := range rl.forder {
									add(rl.fields[fnm])
								}
							}
						}
					}
				}
				// a recursive call writes through every out-parameter
				if c, ok := x.X.(*ast.CallExpr); ok && t.isSelfCall(c) {
					for _, sv := range t.state {
						add(sv)
					}
				} else if ok {
					for _, a := range c.Args {
						if u, ok := a.(*ast.UnaryExpr); ok && u.Op == token.AND {
							target(u.X, false)
						}
						// an out-parameter of this function handed on to the callee
						if pl := t.lvarOf(a); pl != nil && strings.HasPrefix(pl.kind, "ptr:") {
							add(pl)
						}
					}
				}
			}
			return true
		})
	}
	// variables declared inside the list are not part of the state that leaves it (their locals exist already when the list
	// is translated a second time)
	declared := map[*lvar]bool{}
	for _, s := range list {
		ast.Inspect(s, func(n ast.Node) bool {
			if id, ok := n.(*ast.Ident); ok {
				if o := t.p.info.Defs[id]; o != nil {
					if lv, ok := t.locals[o]; ok {
						declared[lv] = true
						for _, fl := range lv.fields {
							declared[fl] = true
						}
						if lv.nilFlag != nil {
							declared[lv.nilFlag] = true
						}
						if lv.idxVar != nil {
							declared[lv.idxVar] = true
						}
						if lv.putVar != nil {
							declared[lv.putVar] = true
						}
					}
				}
			}
			return true
		})
	}
	if len(declared) > 0 {
		kept := out[:0]
		for _, lv := range out {
			if !declared[lv] {
				kept = append(kept, lv)
			}
		}
		out = kept
	}
	return out
}

// selfArgs: the arguments of a recursive call; state parameters must be passed through unchanged.
func (t *fnTr) selfArgs(c *ast.CallExpr) []string {
	t.recurs = true
	t.wbAfterCall = nil
	sig := t.self.Type().(*types.Signature)
	if sig.Variadic() || len(c.Args) != sig.Params().Len() {
		t.unsupported(c, "recursive call form")
	}
	var args []string
	// what comes back for every state variable of the function, in the order of t.state: by default the variable
	// itself (passed through); for the fields of a struct-pointer parameter the fields of the struct local passed
	back := map[*lvar]string{}
	for i, a := range c.Args {
		if sv, isState := t.stateAt[i]; isState {
			if al := t.lvarOf(a); t.wb && al != nil && al != sv && (sv.kind == "val" || sv.kind == "vmap" || sv.kind == "vlist") {
				if _, isId := unparen(a).(*ast.Ident); !isId || al.kind != sv.kind {
					t.unsupported(c, "recursive call whose in-out argument is not a local of the parameter's type")
				}
				args = append(args, al.name)
				back[sv] = al.name
				t.wbAfterCall = append(t.wbAfterCall, al)
				continue
			}
			if t.lvarOf(a) != sv {
				t.unsupported(c, "recursive call that does not pass its state parameters through")
			}
			args = append(args, sv.name)
			continue
		}
		if sp, isStruct := t.structAt[i]; isStruct {
			var al *lvar
			if id, ok := unparen(a).(*ast.Ident); ok {
				al = t.locals[t.p.info.Uses[id]]
			}
			if al == nil || al.fields == nil || al.kind != sp.kind {
				t.unsupported(c, "recursive call whose struct-pointer argument is not a struct local of that type")
			}
			for _, fnm := range sp.forder {
				af := al.fields[fnm]
				if af == nil {
					t.unsupported(c, "recursive call whose struct-pointer argument lacks a field")
				}
				args = append(args, af.name)
				back[sp.fields[fnm]] = af.name
			}
			continue
		}
		if t.kindOfType(sig.Params().At(i).Type()) == "val" {
			args = append(args, t.boxVal(a))
		} else {
			args = append(args, t.expr(a))
		}
	}
	var pats []string
	for _, sv := range t.state {
		if b, ok := back[sv]; ok {
			pats = append(pats, b)
		} else {
			pats = append(pats, sv.name)
		}
	}
	switch len(pats) {
	case 0:
		t.retPat = "_"
	case 1:
		t.retPat = pats[0]
	default:
		t.retPat = "'(" + strings.Join(pats, ", ") + ")"
	}
	return args
}

// retState: retPat without the leading quote, for use inside a larger pattern
func (t *fnTr) retState() string { return strings.TrimPrefix(t.retPat, "'") }

// isPkgFunc: is c a call of a function / method of the package being translated?
func (t *fnTr) isPkgFunc(c *ast.CallExpr) bool {
	var callee types.Object
	switch f := c.Fun.(type) {
	case *ast.Ident:
		callee = t.p.info.Uses[f]
	case *ast.SelectorExpr:
		if sel, ok := t.p.info.Selections[f]; ok && sel.Kind() == types.MethodVal {
			callee = sel.Obj()
		}
	}
	fn, ok := callee.(*types.Func)
	return ok && fn.Pkg() == t.p.pkg
}

func (t *fnTr) isTopLabel(x *ast.LabeledStmt) bool {
	for _, st := range t.fn.Body.List {
		if st == ast.Stmt(x) {
			return true
		}
	}
	return false
}

// gotoStmt: `goto L` with L a label further down at the top level of the function body, in a function with results: the rest of
// the function from L on, with the variables as they are now, is what the function returns.  Every variable has one Gallina
// name for its whole life and the loop states carry the variables assigned in the loops, so the statements after L read the
// current values whatever the nesting of the goto is.  (Variables declared between the goto and L cannot be live at L: the
// Go compiler rejects a goto that jumps over a variable declaration in L's block.)
func (t *fnTr) gotoStmt(x *ast.BranchStmt) string {
	if t.sumJoin || len(t.resKind) == 0 || t.topEnd == nil {
		t.unsupported(x, "goto in a function without results / in join mode")
	}
	var cont []ast.Stmt
	for i, st := range t.fn.Body.List {
		if ls, ok := st.(*ast.LabeledStmt); ok && ls.Label.Name == x.Label.Name && ls.Pos() > x.Pos() {
			cont = append([]ast.Stmt{ls.Stmt}, t.fn.Body.List[i+1:]...)
		}
	}
	if cont == nil {
		t.unsupported(x, "goto other than forward to a label at the top level of the function body")
	}
	savedIn, savedEnd, savedBreak, savedS, savedRest := t.inLoop, t.loopEnd, t.breakEnd, t.curS, t.curRest
	t.inLoop, t.loopEnd, t.breakEnd, t.curS = false, nil, nil, "unit"
	body := t.stmts(cont, t.topEnd)
	t.inLoop, t.loopEnd, t.breakEnd, t.curS, t.curRest = savedIn, savedEnd, savedBreak, savedS, savedRest
	return "(go_jump (" + body + " : ctl unit " + t.resultType() + "))"
}

// calleeThreads: a call of a package function with a writer parameter or a pointer-to-package-struct parameter
func (t *fnTr) calleeThreads(c *ast.CallExpr) bool {
	var callee types.Object
	switch f := c.Fun.(type) {
	case *ast.Ident:
		callee = t.p.info.Uses[f]
	case *ast.SelectorExpr:
		if sel, ok := t.p.info.Selections[f]; ok && sel.Kind() == types.MethodVal {
			callee = sel.Obj()
		}
	}
	fn, ok := callee.(*types.Func)
	if !ok || fn.Pkg() != t.p.pkg {
		return false
	}
	sig := fn.Type().(*types.Signature)
	for i := 0; i < sig.Params().Len(); i++ {
		k := t.kindOfType(sig.Params().At(i).Type())
		_, isP := sig.Params().At(i).Type().(*types.Pointer)
		if k == "writer" && isP || strings.HasPrefix(k, "rec:") && isP {
			return true
		}
	}
	return false
}

func (t *fnTr) isSelfCall(c *ast.CallExpr) bool {
	id, ok := c.Fun.(*ast.Ident)
	return ok && t.self != nil && t.p.info.Uses[id] == t.self
}

func tuplePat(vs []*lvar) string {
	if len(vs) == 0 {
		return "_"
	}
	if len(vs) == 1 {
		return vs[0].name
	}
	names := make([]string, len(vs))
	for i, v := range vs {
		names[i] = v.name
	}
	return "'(" + strings.Join(names, ", ") + ")"
}

func tupleVal(vs []*lvar) string {
	if len(vs) == 0 {
		return "tt"
	}
	names := make([]string, len(vs))
	for i, v := range vs {
		names[i] = v.name
	}
	if len(vs) == 1 {
		return names[0]
	}
	return "(" + strings.Join(names, ", ") + ")"
}

func tupleType(vs []*lvar) string {
	if len(vs) == 0 {
		return "unit"
	}
	tys := make([]string, len(vs))
	for i, v := range vs {
		tys[i] = fnCoqType(v.kind)
	}
	if len(vs) == 1 {
		return tys[0]
	}
	return "(" + strings.Join(tys, " * ") + ")"
}

// pairResult: a (T, error) function one of whose returns gives a non-zero value together with a non-nil error
// expression: its result is the pair (T * option err) rather than res T.
func (t *fnTr) pairResult() bool {
	if t.pairMemo != 0 {
		return t.pairMemo == 1
	}
	t.pairMemo = 2
	if len(t.resKind) == 2 && t.resKind[1] == "err" && !strings.HasPrefix(t.resKind[0], "ptr:") {
		ast.Inspect(t.fn.Body, func(n ast.Node) bool {
			if r, ok := n.(*ast.ReturnStmt); ok && len(r.Results) == 2 {
				if !t.isZeroExpr(r.Results[0]) && !t.p.info.Types[r.Results[1]].IsNil() {
					// `return (err == nil && c), err` is handled on its own
					if be, ok := unparen(r.Results[0]).(*ast.BinaryExpr); !ok || be.Op != token.LAND {
						t.pairMemo = 1
					}
				}
			}
			return true
		})
	}
	return t.pairMemo == 1
}

func (t *fnTr) resultOnly() string {
	if t.lensRet && len(t.resKind) == 2 && t.resKind[1] == "err" && t.lensParam != nil {
		// (T, error) with T part of the parameter's tree: the value and the function that puts a new value back in its place
		return "(res (" + fnCoqType(t.resKind[0]) + " * (" + fnCoqType(t.resKind[0]) + " -> " + fnCoqType(t.lensParam.kind) + ")))"
	}
	if t.pairResult() {
		return "(" + fnCoqType(t.resKind[0]) + " * (option err))"
	}
	if len(t.resKind) == 2 && t.resKind[1] == "err" && strings.HasPrefix(t.resKind[0], "ptr:") {
		return "(" + fnCoqType(t.resKind[0]) + " * (option err))" // (*T, error): the value is returned together with the error
	}
	if len(t.resKind) == 2 && t.resKind[1] == "err" {
		return "(res " + fnCoqType(t.resKind[0]) + ")"
	}
	if len(t.resKind) == 3 && t.resKind[2] == "err" {
		return "(" + fnCoqType(t.resKind[0]) + " * " + fnCoqType(t.resKind[1]) + " * (option err))" // (T1, T2, error): the values together
	}
	if len(t.resKind) == 1 {
		return fnCoqType(t.resKind[0])
	}
	return "?"
}

// withState pairs a returned value with the final values of the out-parameters / the reader.
func (t *fnTr) withState(v string) string {
	if len(t.state) > 0 && len(t.resKind) > 0 {
		return "(" + v + ", " + tupleVal(t.state) + ")"
	}
	return v
}

func (t *fnTr) resultType() string {
	if len(t.resKind) == 0 && len(t.state) > 0 {
		return tupleType(t.state)
	}
	if len(t.state) > 0 && len(t.resKind) > 0 {
		return "(" + t.resultOnly() + " * " + tupleType(t.state) + ")"
	}
	if len(t.resKind) >= 2 {
		return t.resultOnly()
	}
	if len(t.resKind) == 1 {
		return fnCoqType(t.resKind[0])
	}
	return "?"
}

// branching sequences a statement with alternative bodies (if / switch) with what follows it.
//
//	mk(tr) builds the branching expression from the translation tr of each body;
//	bodies are all alternative statement lists (a missing else / default counts as an empty body).
func (t *fnTr) branching(s ast.Stmt, rest []ast.Stmt, end func() string, bodies [][]ast.Stmt, mk func(tr func([]ast.Stmt) string) string) string {
	// translate every body with its own scope of "escaped" structs
	_, isSw := s.(*ast.SwitchStmt)
	_, isTsw := s.(*ast.TypeSwitchStmt)
	run := func(endB func() string) string {
		savedBreak := t.breakEnd
		if isSw || isTsw {
			t.breakEnd = endB // `break` inside a case leaves the switch
		}
		defer func() { t.breakEnd = savedBreak }()
		return mk(func(b []ast.Stmt) string {
			saved := map[types.Object]bool{}
			for k, v := range t.escaped {
				saved[k] = v
			}
			out := t.stmts(b, endB)
			if !fallsThrough(b) {
				t.escaped = saved
			}
			return out
		})
	}
	if len(rest) == 0 {
		return run(end)
	}
	if t.sumJoin {
		// join mode for large functions: what follows the statement is translated ONCE.  A body ends normally (or by a
		// `break` of this switch) with inl of the assigned locals; a jump that leaves the statement (`continue`, `break`
		// of an enclosing loop / switch) ends it with inr of the jump's own result, which the join passes on.
		leaves := false
		var all []ast.Stmt
		for _, b := range bodies {
			leaves = leaves || jumpsOut(b, isSw || isTsw)
			all = append(all, b...)
		}
		as := t.assigned(all)
		if !leaves {
			savedS := t.curS
			t.curS = tupleType(as)
			inner := run(func() string { return "Next " + tupleVal(as) })
			t.curS = savedS
			return "bindc (S := " + tupleType(as) + ") (" + inner + ")\n  (fun " + tuplePat(as) + " => " + t.stmts(rest, end) + ")"
		}
		outerS := t.curS
		if outerS == "" {
			t.unsupported(s, "a jump that leaves a branch outside any loop")
		}
		sumTy := "(" + tupleType(as) + " + ctl " + outerS + " " + t.resultType() + ")%type"
		savedLoopEnd, savedBreak, savedS := t.loopEnd, t.breakEnd, t.curS
		t.curS = sumTy
		if savedLoopEnd != nil {
			t.loopEnd = func() string { return "Next (inr (" + savedLoopEnd() + "))" }
		}
		if savedBreak != nil {
			t.breakEnd = func() string { return "Next (inr (" + savedBreak() + "))" }
		}
		normal := func() string { return "Next (inl " + tupleVal(as) + ")" }
		inner := mk(func(b []ast.Stmt) string {
			if isSw || isTsw {
				t.breakEnd = normal // `break` inside a case leaves the switch only
			}
			return t.stmts(b, normal)
		})
		t.loopEnd, t.breakEnd, t.curS = savedLoopEnd, savedBreak, savedS
		pat := tuplePat(as)
		return "bindc (S := " + sumTy + ") (" + inner + ")\n  (fun x_ => match x_ with inl " + strings.TrimPrefix(pat, "'") + " => " + t.stmts(rest, end) + " | inr j_ => j_ end)"
	}
	// a `continue` inside a body leaves the join: translate what follows into every body that falls through instead
	for _, b := range bodies {
		if hasContinue(b) {
			outerBreak := t.breakEnd // what follows the statement is outside the switch: `break` there means the enclosing target
			return run(func() string {
				saved := t.breakEnd
				t.breakEnd = outerBreak
				defer func() { t.breakEnd = saved }()
				return t.stmts(rest, end)
			})
		}
	}
	anyFalls := false
	var all []ast.Stmt
	for _, b := range bodies {
		anyFalls = anyFalls || fallsThrough(b)
		if fallsThrough(b) {
			all = append(all, b...)
		}
	}
	if !anyFalls {
		t.unsupported(s, "statements after a branch that never falls through")
	}
	as := t.assigned(all)
	inner := run(func() string { return "Next " + tupleVal(as) })
	return "bindc (S := " + tupleType(as) + ") (" + inner + ")\n  (fun " + tuplePat(as) + " => " + t.stmts(rest, end) + ")"
}

// errExpr translates an expression of type error to an (option err): nil, a local error variable, fmt.Errorf / errors.New,
// or a package-level error variable (initialised with errors.New: its class is EOther whatever its text).
func (t *fnTr) errExpr(e ast.Expr) (string, bool) {
	if t.p.info.Types[e].IsNil() {
		return "None", true
	}
	switch r := e.(type) {
	case *ast.Ident:
		if el, ok := t.locals[t.p.info.Uses[r]]; ok && el.kind == "errv" {
			return el.name, true
		}
		if v, ok := t.p.info.Uses[r].(*types.Var); ok && v.Pkg() == t.p.pkg && v.Parent() == t.p.pkg.Scope() && t.kindOfType(v.Type()) == "err" {
			if v.Name() == "NoRoot" {
				return "(Some ENoRoot)", true // the one package error the callers test for
			}
			return "(Some EOther)", true
		}
	case *ast.SelectorExpr:
		switch types.ExprString(r) {
		case "io.EOF":
			return "(Some EEOF)", true
		case "io.ErrNoProgress", "io.ErrUnexpectedEOF":
			return "(Some EOther)", true
		}
	case *ast.CallExpr:
		if pkg, name, ok := t.pkgCall(r); ok && (pkg+"."+name == "fmt.Errorf" || pkg+"."+name == "errors.New") {
			return "(Some EOther)", true
		}
	}
	return "", false
}

// lvarOf: the local an identifier, or a (possibly nested: v.Name.Local) field selection on a struct local / receiver,
// stands for.  Fields of nested structs are registered under their dotted path.
func (t *fnTr) lvarOf(e ast.Expr) *lvar {
	switch x := unparen(e).(type) {
	case *ast.Ident:
		if o := t.p.info.Uses[x]; o != nil {
			return t.locals[o]
		}
		return t.locals[t.p.info.Defs[x]]
	case *ast.SelectorExpr:
		path := x.Sel.Name
		cur := x.X
		for {
			switch y := unparen(cur).(type) {
			case *ast.SelectorExpr:
				path = y.Sel.Name + "." + path
				cur = y.X
				continue
			case *ast.Ident:
				if lv, ok := t.locals[t.p.info.Uses[y]]; ok && lv.fields != nil {
					return lv.fields[path]
				}
			}
			return nil
		}
	}
	return nil
}

// decoderConfigIdiom: see the comment at its call in stmts.
func (t *fnTr) decoderConfigIdiom(list []ast.Stmt, end func() string) (string, bool) {
	if len(list) < 2 {
		return "", false
	}
	as, ok := list[0].(*ast.AssignStmt)
	if !ok || as.Tok != token.DEFINE || len(as.Lhs) != 1 || len(as.Rhs) != 1 {
		return "", false
	}
	pid, ok := as.Lhs[0].(*ast.Ident)
	if !ok {
		return "", false
	}
	c, ok := as.Rhs[0].(*ast.CallExpr)
	if !ok || len(c.Args) != 1 {
		return "", false
	}
	if pk, nm, isPkg := t.pkgCall(c); !isPkg || pk != "encoding/xml" || nm != "NewDecoder" {
		return "", false
	}
	bl := t.lvarOf(c.Args[0])
	if bl == nil || bl.kind != "breader" {
		return "", false
	}
	ifs, ok := list[1].(*ast.IfStmt)
	if !ok || ifs.Init != nil || ifs.Else == nil {
		return "", false
	}
	obj := t.p.info.Defs[pid]
	isP := func(e ast.Expr) bool {
		id, ok := unparen(e).(*ast.Ident)
		return ok && t.p.info.Uses[id] == obj
	}
	isGlobal := func(e ast.Expr, name string) bool {
		id, ok := unparen(e).(*ast.Ident)
		if !ok || id.Name != name {
			return false
		}
		o := t.p.info.Uses[id]
		return o != nil && o.Parent() == t.p.pkg.Scope()
	}
	// condition: CustomDecoder != nil
	be, ok := unparen(ifs.Cond).(*ast.BinaryExpr)
	if !ok || be.Op != token.NEQ || !isGlobal(be.X, "CustomDecoder") {
		return "", false
	}
	if nid, ok := unparen(be.Y).(*ast.Ident); !ok || nid.Name != "nil" {
		return "", false
	}
	// then: useCustomDecoder(p)
	if len(ifs.Body.List) != 1 {
		return "", false
	}
	es, ok := ifs.Body.List[0].(*ast.ExprStmt)
	if !ok {
		return "", false
	}
	uc, ok := es.X.(*ast.CallExpr)
	if !ok || len(uc.Args) != 1 || !isP(uc.Args[0]) || !isGlobal(uc.Fun, "useCustomDecoder") {
		return "", false
	}
	// else: p.CharsetReader = XmlCharsetReader
	eb, ok := ifs.Else.(*ast.BlockStmt)
	if !ok || len(eb.List) != 1 {
		return "", false
	}
	ea, ok := eb.List[0].(*ast.AssignStmt)
	if !ok || ea.Tok != token.ASSIGN || len(ea.Lhs) != 1 || len(ea.Rhs) != 1 || !isGlobal(ea.Rhs[0], "XmlCharsetReader") {
		return "", false
	}
	se, ok := ea.Lhs[0].(*ast.SelectorExpr)
	if !ok || se.Sel.Name != "CharsetReader" || !isP(se.X) {
		return "", false
	}
	// after the idiom p may only be handed to a package function (the parser)
	reg := func(name, typ string) {
		for _, e := range *t.externs {
			if e.name == name {
				return
			}
		}
		*t.externs = append(*t.externs, extern{name, typ})
	}
	reg("ext_xml_NewDecoder", "str -> xdecoder")
	reg("ext_useCustomDecoder", "(option nat) -> xdecoder -> xdecoder")
	reg("ext_xml_set_CharsetReader", "xdecoder -> (option nat) -> xdecoder")
	lv := t.newLocal(obj, pid.Name, "xdecoder")
	src := bl.fields["src"].name
	out := "let " + lv.name + " : xdecoder := (ext_xml_NewDecoder " + src + ") in\n  " +
		"let " + lv.name + " : xdecoder := (if (negb (match (g_CustomDecoder st) with None => true | Some _ => false end))\n" +
		"    then (ext_useCustomDecoder (g_CustomDecoder st) " + lv.name + ")\n" +
		"    else (ext_xml_set_CharsetReader " + lv.name + " (g_XmlCharsetReader st))) in\n  "
	return out + t.stmts(list[2:], end), true
}

// isZeroExpr: nil, "", 0 or false written literally - the zero value returned beside an error.
func (t *fnTr) isZeroExpr(e ast.Expr) bool {
	tv := t.p.info.Types[e]
	if tv.IsNil() {
		return true
	}
	if tv.Value != nil {
		switch tv.Value.Kind() {
		case constant.String:
			return constant.StringVal(tv.Value) == ""
		case constant.Int:
			v, ok := constant.Int64Val(tv.Value)
			return ok && v == 0
		case constant.Bool:
			return !constant.BoolVal(tv.Value)
		}
	}
	return false
}

// putBack: the function that stores a new value of the alias lv back into the lens parameter's tree
func (t *fnTr) putBack(lv *lvar) string {
	return "(fun x_ => let " + lv.name + " := x_ in " + t.writeBackStr(lv) + t.lensParam.name + ")"
}

func (t *fnTr) retExpr(x *ast.ReturnStmt) string {
	if t.lensRet && len(t.resKind) == 2 && len(x.Results) == 2 && t.p.info.Types[x.Results[1]].IsNil() && !t.p.info.Types[x.Results[0]].IsNil() {
		// return v, nil with v part of the parameter's tree
		vl := t.lvarOf(x.Results[0])
		if _, isId := unparen(x.Results[0]).(*ast.Ident); !isId || vl == nil || vl.kind != t.resKind[0] {
			t.unsupported(x, "a lens function returning something other than a variable of the result type")
		}
		root := vl
		for root.origin != nil {
			root = root.origin.parent
		}
		if root != t.lensParam {
			t.unsupported(x, "a lens function returning a value that is not taken from its tree parameter")
		}
		return "Ret " + t.withState("(Ok ("+vl.name+", "+t.putBack(vl)+"))")
	}
	if t.lensRet && len(x.Results) == 1 {
		if c, ok := x.Results[0].(*ast.CallExpr); ok && t.isSelfCall(c) {
			// return self(..., child, ...): the child's lens composed with the way back from the child
			mark := len(t.guards)
			var child *lvar
			sig := t.self.Type().(*types.Signature)
			var args []string
			for i, a := range c.Args {
				k := t.kindOfType(sig.Params().At(i).Type())
				if al := t.lvarOf(a); al != nil && al.origin != nil && child == nil && (k == "val" || k == "vmap" || k == "vlist") {
					child = al
				}
				if k == "val" {
					args = append(args, t.boxVal(a))
				} else {
					args = append(args, t.expr(a))
				}
			}
			if child == nil {
				t.unsupported(x, "a lens function calling itself on something that is not part of its tree parameter")
			}
			t.recurs = true
			return t.wrap(mark, "bindr ("+fnPrefix+t.self.Name()+" fuel_ st "+strings.Join(args, " ")+")\n  (fun rr_ => match rr_ with Ok (sub_, put_) => Ret (Ok (sub_, (fun x_ => let "+child.name+" := put_ x_ in "+t.writeBackStr(child)+t.lensParam.name+"))) | Err e_ => Ret (Err e_) | Panic => Crash end)")
		}
	}
	if t.pairResult() && len(x.Results) == 2 {
		mark := len(t.guards)
		var v string
		if t.p.info.Types[x.Results[0]].IsNil() {
			v = fnZero(t.resKind[0])
		} else if t.resKind[0] == "val" {
			v = t.boxVal(x.Results[0])
		} else {
			v = t.expr(x.Results[0])
		}
		e, ok := t.errExpr(x.Results[1])
		if !ok {
			t.unsupported(x, "error result of this form")
		}
		return t.wrap(mark, "Ret "+t.withState("("+v+", "+e+")"))
	}
	// return &local, err   for a (*T, error) result: value and error together
	if len(t.resKind) == 2 && t.resKind[1] == "err" && strings.HasPrefix(t.resKind[0], "ptr:") && len(x.Results) == 2 {
		u, ok := x.Results[0].(*ast.UnaryExpr)
		var lv *lvar
		if ok && u.Op == token.AND {
			if id, ok := u.X.(*ast.Ident); ok {
				lv = t.locals[t.p.info.Uses[id]]
			}
		}
		if lv == nil || lv.kind != t.resKind[0][4:] {
			t.unsupported(x, "pointer result other than &local")
		}
		e, ok := t.errExpr(x.Results[1])
		if !ok {
			t.unsupported(x, "error result of this form")
		}
		return "Ret " + t.withState("("+lv.name+", "+e+")")
	}
	// (T1, T2, error): the three values together
	if len(t.resKind) == 3 && t.resKind[2] == "err" && len(x.Results) == 3 {
		mark := len(t.guards)
		var vs []string
		for i := 0; i < 2; i++ {
			if t.p.info.Types[x.Results[i]].IsNil() {
				vs = append(vs, fnZero(t.resKind[i]))
			} else if t.resKind[i] == "val" {
				vs = append(vs, t.boxVal(x.Results[i]))
			} else {
				vs = append(vs, t.expr(x.Results[i]))
			}
		}
		e, ok := t.errExpr(x.Results[2])
		if !ok {
			t.unsupported(x, "error result of this form")
		}
		return t.wrap(mark, "Ret "+t.withState("("+vs[0]+", "+vs[1]+", "+e+")"))
	}
	if len(x.Results) == 1 {
		if c, ok := x.Results[0].(*ast.CallExpr); ok && t.isSelfCall(c) {
			// return self(...): the recursive call's results (and state) are this call's
			mark := len(t.guards)
			args := t.selfArgs(c)
			return t.wrap(mark, "bindr ("+fnPrefix+t.self.Name()+" fuel_ st "+strings.Join(args, " ")+") (fun r_ => Ret r_)")
		}
	}
	if len(t.resKind) == 2 && t.resKind[1] == "err" && len(x.Results) == 1 {
		if c, ok := x.Results[0].(*ast.CallExpr); ok {
			mark := len(t.guards)
			if ec, ok := t.externCall(c); ok && len(ec.results) == 2 && ec.results[1] == "err" && ec.results[0] == t.resKind[0] && len(ec.stateOut) == 0 && ec.rich == "" {
				if t.pairResult() {
					// this function returns its value together with its error: the callee's (value or error) as such a pair
					return t.wrap(mark, "match "+ec.term+" with Ok v => Ret "+t.withState("(v, None)")+" | Err e => Ret "+t.withState("("+fnZero(t.resKind[0])+", Some e)")+" | Panic => Crash end")
				}
				return t.wrap(mark, "match "+ec.term+" with Ok v => Ret "+t.withState("(Ok v)")+" | Err e => Ret "+t.withState("(Err e)")+" | Panic => Crash end")
			}
		}
	}
	if len(t.resKind) == 2 && t.resKind[1] == "err" && len(x.Results) == 2 && t.isZeroExpr(x.Results[0]) {
		if id, ok := x.Results[1].(*ast.Ident); ok {
			if lv, ok := t.locals[t.p.info.Uses[id]]; ok && lv.kind == "errv" {
				return "match " + lv.name + " with Some e => Ret " + t.withState("(Err e)") + " | None => Ret " + t.withState("(Ok "+fnZero(t.resKind[0])+")") + " end"
			}
		}
	}
	// return (err == nil && c), err : the value is false whenever the error is not nil
	if len(t.resKind) == 2 && t.resKind[0] == "bool" && t.resKind[1] == "err" && len(x.Results) == 2 {
		if eid, ok := x.Results[1].(*ast.Ident); ok {
			if el, ok := t.locals[t.p.info.Uses[eid]]; ok && el.kind == "errv" {
				if be, ok := unparen(x.Results[0]).(*ast.BinaryExpr); ok && be.Op == token.LAND {
					if ce, ok := unparen(be.X).(*ast.BinaryExpr); ok && ce.Op == token.EQL && t.p.info.Types[ce.Y].IsNil() {
						if cid, ok := ce.X.(*ast.Ident); ok && t.p.info.Uses[cid] == t.p.info.Uses[eid] {
							mark := len(t.guards)
							v := t.expr(be.Y)
							if len(t.guards) != mark {
								t.unsupported(x, "partial operation in the value returned beside an error")
							}
							return "match " + el.name + " with Some e => Ret " + t.withState("(Err e)") + " | None => Ret " + t.withState("(Ok "+v+")") + " end"
						}
					}
				}
			}
		}
	}
	switch {
	case len(t.resKind) == 0 && len(x.Results) == 0 && len(t.state) > 0:
		return "Ret " + tupleVal(t.state)
	case len(t.resKind) == 1 && len(x.Results) == 1 && t.resKind[0] == "err" && func() bool { c, ok := x.Results[0].(*ast.CallExpr); return ok && !t.isSelfCall(c) && t.isPkgFunc(c) }():
		// return f(args): the callee's error; its in-out arguments come back and are written back first
		mark := len(t.guards)
		ec, ok := t.externCall(x.Results[0].(*ast.CallExpr))
		if !ok || len(ec.results) != 1 || ec.results[0] != "err" || len(ec.stateOut) != 0 || ec.optOut {
			t.unsupported(x, "returned call with this signature")
		}
		if len(ec.outArgs) == 0 {
			return t.wrap(mark, "Ret "+t.withState(ec.term))
		}
		var ps []string
		unb, wbs := "", ""
		for _, oa := range ec.outArgs {
			if ec.unbox[oa] {
				ps = append(ps, oa.name+"_b")
				ctor := "VMap"
				if oa.kind == "vlist" {
					ctor = "VList"
				}
				unb += "let " + oa.name + " := match " + oa.name + "_b with " + ctor + " x_ => x_ | _ => " + oa.name + " end in "
			} else {
				ps = append(ps, oa.name)
			}
			if t.wb {
				wbs += t.writeBackStr(oa)
			}
		}
		return t.wrap(mark, "let '(re_, "+strings.Join(ps, ", ")+") := "+ec.term+" in "+unb+wbs+"Ret "+t.withState("re_"))
	case len(t.resKind) == 1 && len(x.Results) == 1 && t.resKind[0] == "err":
		e, ok := t.errExpr(x.Results[0])
		if !ok {
			t.unsupported(x, "error result of this form")
		}
		return "Ret " + t.withState(e)
	case len(t.resKind) == 1 && len(x.Results) == 1:
		mark := len(t.guards)
		var v string
		switch {
		case t.resKind[0] == "val":
			v = t.boxVal(x.Results[0])
		case t.p.info.Types[x.Results[0]].IsNil():
			v = fnZero(t.resKind[0]) // a nil slice / map and an empty one are the same model value
		default:
			v = t.expr(x.Results[0])
		}
		return t.wrap(mark, "Ret "+t.withState(v))
	case len(t.resKind) == 2 && t.resKind[1] == "err" && len(x.Results) == 2:
		if t.p.info.Types[x.Results[1]].IsNil() {
			mark := len(t.guards)
			var v string
			switch {
			case t.p.info.Types[x.Results[0]].IsNil():
				v = fnZero(t.resKind[0])
			case t.resKind[0] == "val":
				v = t.boxVal(x.Results[0])
			default:
				v = t.expr(x.Results[0])
			}
			return t.wrap(mark, "Ret "+t.withState("(Ok "+v+")"))
		}
		// a non-nil error: fmt.Errorf / errors.New / a package-level error value; the first result must be nil
		// (no partial value with an error)
		if !t.isZeroExpr(x.Results[0]) {
			t.unsupported(x, "a non-nil value returned together with an error")
		}
		if e, ok := t.errExpr(x.Results[1]); ok && e == "(Some EOther)" {
			return "Ret " + t.withState("(Err EOther)")
		}
		t.unsupported(x, "error value other than fmt.Errorf / errors.New")
	}
	t.unsupported(x, "return form")
	return ""
}

func (t *fnTr) stmts(list []ast.Stmt, end func() string) string {
	if len(list) == 0 {
		return end()
	}
	s, rest := list[0], list[1:]
	next := func() string { return t.stmts(rest, end) }
	t.curRest = rest
	// the decoder-configuration idiom of xmlToMap / xmlSeqToMap:
	//     p := xml.NewDecoder(b)                   (b := bytes.NewReader(doc))
	//     if CustomDecoder != nil { useCustomDecoder(p) } else { p.CharsetReader = XmlCharsetReader }
	// p is the token stream of the bytes under the configured decoder: ext_xml_NewDecoder gives the stream of a fresh
	// decoder, ext_useCustomDecoder / ext_xml_set_CharsetReader what the stream becomes when the public attributes of
	// CustomDecoder / the package's XmlCharsetReader are installed before the first Token call (environment functions:
	// encoding/xml's tokenizer).  The two statements are translated one after the other; only this exact shape is accepted.
	if out, ok := t.decoderConfigIdiom(list, end); ok {
		return out
	}
	switch x := s.(type) {
	case *ast.BlockStmt:
		return t.stmts(append(append([]ast.Stmt{}, x.List...), rest...), end)
	case *ast.EmptyStmt:
		return next()
	case *ast.ReturnStmt:
		return t.retExpr(x)
	case *ast.BranchStmt:
		if x.Tok == token.CONTINUE && t.inLoop && x.Label == nil {
			return t.loopEnd()
		}
		if x.Tok == token.BREAK && x.Label == nil && t.breakEnd != nil {
			return t.breakEnd() // the end of the innermost switch, or the exit of the innermost for loop
		}
		if x.Tok == token.GOTO && x.Label != nil {
			return t.gotoStmt(x)
		}
		t.unsupported(s, "branch statement "+x.Tok.String())
	case *ast.LabeledStmt:
		// a label at the top level of the function body, used by goto only (labelled break / continue are outside the fragment)
		if !t.isTopLabel(x) {
			t.unsupported(s, "label other than at the top level of the function body")
		}
		return t.stmts(append([]ast.Stmt{x.Stmt}, rest...), end)
	case *ast.DeferStmt:
		// defer fh.Close() on a file opened by this function: closing changes no value the function returns
		if se, ok := x.Call.Fun.(*ast.SelectorExpr); ok && se.Sel.Name == "Close" && len(x.Call.Args) == 0 && t.handler {
			if fl := t.lvarOf(se.X); fl != nil && fl.kind == "reader" && !fl.isState {
				return next()
			}
			if fid, isId := unparen(se.X).(*ast.Ident); isId {
				if fl := t.locals[t.p.info.Uses[fid]]; fl != nil && fl.kind == "fwriter" {
					return next()
				}
			}
		}
		t.unsupported(s, "defer")
	case *ast.DeclStmt:
		gd, ok := x.Decl.(*ast.GenDecl)
		if !ok || gd.Tok != token.VAR {
			t.unsupported(s, "declaration")
		}
		out := ""
		for _, sp := range gd.Specs {
			vs := sp.(*ast.ValueSpec)
			for i, id := range vs.Names {
				obj := t.p.info.Defs[id]
				k := t.kindOfType(obj.Type())
				if k == "err" {
					k = "errv"
				}
				if k == "" || strings.HasPrefix(k, "rec:") {
					t.unsupported(s, "local variable of this type")
				}
				val := fnZero(k)
				mark := len(t.guards)
				if i < len(vs.Values) {
					val = t.expr(vs.Values[i])
				}
				lv := t.newLocal(obj, id.Name, k)
				out += t.wrap(mark, "let "+lv.name+" : "+fnCoqType(k)+" := "+val+" in ")
				if (k == "vmap" || k == "bmap") && i >= len(vs.Values) {
					// var m map[...]...: nil until made; a store into a nil map panics (reads of it do not)
					fl := t.newLocal(nil, id.Name+"_made", "bool")
					lv.nilFlag = fl
					out += "let " + fl.name + " : bool := false in "
				}
				if t.cursor && k == "vmap" {
					ix := t.newLocal(nil, id.Name+"_idx", "nat")
					lv.idxVar = ix
					out += "let " + ix.name + " : nat := O in "
				}
			}
		}
		return out + next()
	case *ast.IncDecStmt:
		tx := x.X
		if st, ok := unparen(tx).(*ast.StarExpr); ok {
			tx = st.X
		}
		if se, isSel := tx.(*ast.SelectorExpr); isSel && tx == x.X {
			if fl := t.lvarOf(se); fl != nil && fl.kind == "int" {
				op := "+"
				if x.Tok == token.DEC {
					op = "-"
				}
				return "let " + fl.name + " := (" + fl.name + " " + op + " 1)%Z in\n  " + next()
			}
		}
		id, ok := tx.(*ast.Ident)
		if !ok {
			t.unsupported(s, "inc/dec target")
		}
		lv, ok := t.locals[t.p.info.Uses[id]]
		if !ok || (lv.kind != "int" && lv.kind != "ptr:int") || (lv.kind == "ptr:int") != (tx != x.X) {
			t.unsupported(s, "inc/dec target")
		}
		op := "+"
		if x.Tok == token.DEC {
			op = "-"
		}
		return "let " + lv.name + " := (" + lv.name + " " + op + " 1)%Z in\n  " + next()
	case *ast.AssignStmt:
		return t.assign(x, next)
	case *ast.IfStmt:
		var elseB []ast.Stmt
		if x.Else != nil {
			elseB = []ast.Stmt{x.Else}
		}
		ifPart := func() string {
			return t.branching(s, rest, end, [][]ast.Stmt{x.Body.List, elseB}, func(tr func([]ast.Stmt) string) string {
				// the order matters: the then-branch is translated before the else-branch
				th := tr(x.Body.List)
				el := tr(elseB)
				return t.condIf(x.Cond, th, el)
			})
		}
		if x.Init != nil {
			// the init statement scopes over the if only; names are unique per object, so a plain sequence is faithful
			as, ok := x.Init.(*ast.AssignStmt)
			if !ok || (as.Tok != token.DEFINE && as.Tok != token.ASSIGN) {
				t.unsupported(s, "if with this init statement")
			}
			return t.assign(as, ifPart)
		}
		return ifPart()
	case *ast.SwitchStmt:
		return t.switchStmt(x, rest, end)
	case *ast.TypeSwitchStmt:
		return t.typeSwitch(x, rest, end)
	case *ast.RangeStmt:
		return t.rangeStmt(x, rest, end)
	case *ast.ForStmt:
		return t.forStmt(x, rest, end)
	case *ast.ExprStmt:
		c, ok := x.X.(*ast.CallExpr)
		if ok {
			if se, isSel := c.Fun.(*ast.SelectorExpr); isSel && len(c.Args) == 1 && t.fs != nil {
				if fid, isId := unparen(se.X).(*ast.Ident); isId {
					if fl := t.locals[t.p.info.Uses[fid]]; fl != nil && fl.kind == "fwriter" && (se.Sel.Name == "WriteString" || se.Sel.Name == "Write") {
						// fh.WriteString(s) on a file this function created: appended to its entry (the count and the error are ignored
						// by the Go code as well)
						mark := len(t.guards)
						pv := t.expr(c.Args[0])
						return t.wrap(mark, "let "+t.fs.name+" := fs_append "+t.fs.name+" "+fl.fields["ix"].name+" "+pv+" in\n  "+next())
					}
				}
			}
			if se, isSel := c.Fun.(*ast.SelectorExpr); isSel && len(c.Args) == 1 {
				if wl := t.lvarOf(se.X); wl != nil && wl.kind == "writer" {
					// w.WriteString(s) / w.Write(b) / w.WriteByte(c) for its effect: the bytes are appended
					mark := len(t.guards)
					var pv string
					switch se.Sel.Name {
					case "WriteString", "Write":
						pv = t.expr(c.Args[0])
					case "WriteByte":
						pv = "[" + t.expr(c.Args[0]) + "]"
					default:
						t.unsupported(s, "method of a writer other than Write / WriteString / WriteByte")
					}
					return t.wrap(mark, "let "+wl.name+" := (app "+wl.name+" "+pv+") in\n  "+next())
				}
			}
		}
		if ok {
			if id, isId := c.Fun.(*ast.Ident); isId && id.Name == "delete" && len(c.Args) == 2 {
				if _, isB := t.p.info.Uses[id].(*types.Builtin); isB {
					// delete(m, k) on a map that is part of the tree being updated (write-back mode) or made by this function
					ml := t.lvarOf(c.Args[0])
					if ml == nil || ml.kind != "vmap" || !(ml.ownedMap() || (t.wb && (ml.origin != nil || ml.isState))) {
						t.unsupported(s, "delete on something other than a local map")
					}
					mark := len(t.guards)
					k := t.expr(c.Args[1])
					wbs := ""
					if t.wb {
						wbs = t.writeBackStr(ml)
					}
					return t.wrap(mark, "let "+ml.name+" := del "+k+" "+ml.name+" in "+wbs+"\n  "+next())
				}
			}
			if se, isSel := c.Fun.(*ast.SelectorExpr); isSel && se.Sel.Name == "SetEscapeHTML" && len(c.Args) == 1 {
				if id, isId := se.X.(*ast.Ident); isId {
					if el, okL := t.locals[t.p.info.Uses[id]]; okL && el.kind == "jencoder" {
						mark := len(t.guards)
						v := t.expr(c.Args[0])
						return t.wrap(mark, "let "+el.fields["escapeHTML"].name+" := "+v+" in\n  "+next())
					}
				}
			}
			if se, isSel := c.Fun.(*ast.SelectorExpr); isSel && se.Sel.Name == "UseNumber" && len(c.Args) == 0 {
				if id, isId := se.X.(*ast.Ident); isId {
					if dl, okL := t.locals[t.p.info.Uses[id]]; okL && dl.kind == "jdecoder" {
						return "let " + dl.fields["usenum"].name + " := true in\n  " + next()
					}
				}
			}
			if pk, nm, isPkg := t.pkgCall(c); isPkg && pk == "sort" && nm == "Sort" && len(c.Args) == 1 {
				// sort.Sort(T(xs)) on a local slice: xs is replaced by its sorted permutation, computed by the Section
				// variable ext_sort_T (the theorems instantiate it with a sorting function and say what they need of it)
				conv, isConv := c.Args[0].(*ast.CallExpr)
				if !isConv || len(conv.Args) != 1 {
					t.unsupported(s, "sort.Sort of something other than T(xs)")
				}
				tv := t.p.info.Types[conv.Fun]
				xl := t.lvarOf(conv.Args[0])
				nt, isNamed := tv.Type.(*types.Named)
				if !tv.IsType() || !isNamed || nt.Obj().Pkg() != t.p.pkg || xl == nil || !xl.ownedMap() {
					t.unsupported(s, "sort.Sort of something other than T(xs) with xs a local slice and T a type of the package")
				}
				name := "ext_sort_" + nt.Obj().Name()
				typ := fnCoqType(xl.kind) + " -> " + fnCoqType(xl.kind)
				found := false
				for _, e := range *t.externs {
					found = found || e.name == name
				}
				if !found {
					*t.externs = append(*t.externs, extern{name, typ})
				}
				return "let " + xl.name + " := (" + name + " " + xl.name + ") in\n  " + next()
			}
		}
		if ok && !t.isSelfCall(c) {
			// p.M(args) on a struct local p with a pointer-receiver method M of the package and no results: the callee
			// may assign the fields of *p, so it is a function from the fields (and the arguments) to the new fields
			if se, isSel := c.Fun.(*ast.SelectorExpr); isSel {
				if sel, okS := t.p.info.Selections[se]; okS && sel.Kind() == types.MethodVal {
					if rid, isId := se.X.(*ast.Ident); isId {
						if rl, okL := t.locals[t.p.info.Uses[rid]]; okL && rl.fields != nil && strings.HasPrefix(rl.kind, "rec:") {
							fn, _ := sel.Obj().(*types.Func)
							sig := fn.Type().(*types.Signature)
							if fn.Pkg() != t.p.pkg || sig.Results().Len() != 0 || sig.Variadic() || len(c.Args) != sig.Params().Len() {
								t.unsupported(s, "method call on a struct local other than a result-less method of the package")
							}
							if _, isPtr := sig.Recv().Type().(*types.Pointer); !isPtr {
								t.unsupported(s, "value-receiver method called for its effect")
							}
							mark := len(t.guards)
							var tys, args []string
							var flds []*lvar
							for _, fnm := range rl.forder {
								fl := rl.fields[fnm]
								flds = append(flds, fl)
								tys = append(tys, fnCoqType(fl.kind))
								args = append(args, fl.name)
							}
							for i, a := range c.Args {
								k := t.kindOfType(sig.Params().At(i).Type())
								if k == "" || k == "tok" || strings.HasPrefix(k, "ptr:") || k == "reader" || k == "writer" {
									t.unsupported(s, "argument of a method call on a struct local")
								}
								tys = append(tys, fnCoqType(k))
								if k == "val" {
									args = append(args, t.boxVal(a))
								} else {
									args = append(args, t.expr(a))
								}
							}
							name := "ext_" + strings.TrimPrefix(rl.kind, "rec:") + "_" + fn.Name()
							typ := strings.Join(append(tys, tupleType(flds)), " -> ")
							found := false
							for _, e := range *t.externs {
								found = found || e.name == name
							}
							if !found {
								*t.externs = append(*t.externs, extern{name, typ})
							}
							return t.wrap(mark, "let "+tuplePat(flds)+" := ("+name+" "+strings.Join(args, " ")+") in\n  "+next())
						}
					}
				}
			}
			mark := len(t.guards)
			if ec, isExt := t.externCall(c); isExt {
				if len(ec.results) != 0 || len(ec.outArgs) == 0 || ec.optOut {
					t.unsupported(s, "call for its effect other than a void function with out-parameters")
				}
				wbs := ""
				if t.wb {
					for _, oa := range ec.outArgs {
						wbs += t.writeBackStr(oa)
					}
				}
				pat := tuplePat(ec.outArgs)
				unb := ""
				if len(ec.unbox) > 0 {
					var ps []string
					for _, oa := range ec.outArgs {
						if ec.unbox[oa] {
							ps = append(ps, oa.name+"_b")
							ctor := "VMap"
							if oa.kind == "vlist" {
								ctor = "VList"
							}
							unb += "let " + oa.name + " := match " + oa.name + "_b with " + ctor + " x_ => x_ | _ => " + oa.name + " end in "
						} else {
							ps = append(ps, oa.name)
						}
					}
					pat = "'(" + strings.Join(ps, ", ") + ")"
					if len(ps) == 1 {
						pat = ps[0]
					}
				}
				return t.wrap(mark, "let "+pat+" := "+ec.term+" in "+unb+wbs+"\n  "+next())
			}
		}
		if ok {
			if pk, nm, isPkg := t.pkgCall(c); isPkg && pk == "time" && nm == "Sleep" && t.handler {
				return next() // waiting changes no value
			}
		}
		if u, isU := x.X.(*ast.UnaryExpr); isU && u.Op == token.ARROW && t.handler {
			if uc, isC := u.X.(*ast.CallExpr); isC {
				if pk, nm, isPkg := t.pkgCall(uc); isPkg && pk == "time" && nm == "After" {
					return next() // <-time.After(d): waiting changes no value
				}
			}
		}
		if ok {
			if pk, nm, isPkg := t.pkgCall(c); isPkg && pk == "strings" && (nm == "TrimSpace" || nm == "ToLower" || nm == "ToUpper" || nm == "Trim") {
				// a pure, total library function called with its result discarded: only its arguments are evaluated
				mark := len(t.guards)
				for _, a := range c.Args {
					_ = t.expr(a)
				}
				return t.wrap(mark, next())
			}
		}
		if !ok || !t.isSelfCall(c) {
			t.unsupported(s, "expression statement other than a recursive call")
		}
		if t.wb {
			// write-back mode: in-out arguments may be any local; the results come back into them and are written back
			mark := len(t.guards)
			args := t.selfArgs(c)
			pat := t.retPat
			wbs := ""
			for _, al := range t.wbAfterCall {
				wbs += t.writeBackStr(al)
			}
			return t.wrap(mark, "bindr ("+fnPrefix+t.self.Name()+" fuel_ st "+strings.Join(args, " ")+")\n  (fun "+pat+" => "+wbs+next()+")")
		}
		// the out-parameters must be passed through unchanged; the other arguments are evaluated now
		t.recurs = true
		mark := len(t.guards)
		var args []string
		for i, a := range c.Args {
			if sv, isState := t.stateAt[i]; isState {
				id, ok := a.(*ast.Ident)
				if !ok || t.locals[t.p.info.Uses[id]] != sv {
					t.unsupported(s, "recursive call that does not pass its out-parameters through")
				}
				args = append(args, sv.name)
				continue
			}
			sig := t.self.Type().(*types.Signature)
			if t.kindOfType(sig.Params().At(i).Type()) == "val" {
				args = append(args, t.boxVal(a))
			} else {
				args = append(args, t.expr(a))
			}
		}
		return t.wrap(mark, "bindr ("+fnPrefix+t.self.Name()+" fuel_ st "+strings.Join(args, " ")+")\n  (fun "+tuplePat(t.state)+" => "+next()+")")
	}
	t.unsupported(s, fmt.Sprintf("statement %T", s))
	return ""
}

func (t *fnTr) assign(x *ast.AssignStmt, next func() string) string {
	define := x.Tok == token.DEFINE
	if x.Tok == token.ADD_ASSIGN && len(x.Lhs) == 1 && len(x.Rhs) == 1 {
		// x += e  on a string / int local or field of a struct local
		lv := t.lvarOf(x.Lhs[0])
		if lv == nil || lv.fields != nil || (lv.kind != "str" && lv.kind != "int") {
			t.unsupported(x, "+= target")
		}
		mark := len(t.guards)
		v := t.expr(x.Rhs[0])
		if lv.kind == "str" {
			return t.wrap(mark, "let "+lv.name+" := (app "+lv.name+" "+v+") in\n  "+next())
		}
		return t.wrap(mark, "let "+lv.name+" := ("+lv.name+" + "+v+")%Z in\n  "+next())
	}
	if x.Tok != token.ASSIGN && !define {
		t.unsupported(x, "assignment operator "+x.Tok.String())
	}
	// *p = e on an out-parameter
	if len(x.Lhs) == 1 && len(x.Rhs) == 1 {
		if st, ok := x.Lhs[0].(*ast.StarExpr); ok {
			id, ok := st.X.(*ast.Ident)
			if !ok {
				t.unsupported(x, "assignment target")
			}
			lv, ok := t.locals[t.p.info.Uses[id]]
			if !ok || !strings.HasPrefix(lv.kind, "ptr:") {
				t.unsupported(x, "assignment through something other than an out-parameter")
			}
			mark := len(t.guards)
			v := t.expr(x.Rhs[0])
			return t.wrap(mark, "let "+lv.name+" := "+v+" in\n  "+next())
		}
	}
	// two-value forms
	if len(x.Lhs) == 2 && len(x.Rhs) == 1 {
		a, ok1 := x.Lhs[0].(*ast.Ident)
		b, ok2 := x.Lhs[1].(*ast.Ident)
		if !ok1 || !ok2 {
			t.unsupported(x, "two-value assignment form")
		}
		bind := func(id *ast.Ident, kind string) string {
			if id.Name == "_" {
				return "_"
			}
			if !define {
				lv, ok := t.locals[t.p.info.Uses[id]]
				if !ok || lv.kind != kind {
					t.unsupported(x, "two-value assignment to something other than locals of the result types")
				}
				if lv.nilFlag != nil {
					lv.nilUnknown = true
				}
				return lv.name
			}
			obj := t.p.info.Defs[id]
			if obj == nil {
				// v, err := f() with err declared before: an assignment to the existing variable
				if lv, ok := t.locals[t.p.info.Uses[id]]; ok && lv.kind == kind && t.handler {
					return lv.name
				}
				t.unsupported(x, "re-declaration in a two-value :=")
			}
			return t.newLocal(obj, id.Name, kind).name
		}
		// _, err = w.Write(p) / _, err := w.Write(p) on a writer: the bytes are appended, the error is nil (a bytes.Buffer)
		if c, isCall := x.Rhs[0].(*ast.CallExpr); isCall {
			if se, ok := c.Fun.(*ast.SelectorExpr); ok && (se.Sel.Name == "Write" || se.Sel.Name == "WriteString") && len(c.Args) == 1 {
				if wl := t.lvarOf(se.X); wl != nil && wl.kind == "writer" {
					if a.Name != "_" {
						t.unsupported(x, "the count returned by Write is used")
					}
					mark := len(t.guards)
					pv := t.expr(c.Args[0])
					vb := bind(b, "errv")
					ty := ""
					if define {
						ty = " : (option err)"
					}
					return t.wrap(mark, "let "+wl.name+" := (app "+wl.name+" "+pv+") in let "+vb+ty+" := None in\n  "+next())
				}
			}
		}
		// _, err = d.Token() on a local *xml.Decoder
		if c, isCall := x.Rhs[0].(*ast.CallExpr); isCall && !define {
			if se, ok := c.Fun.(*ast.SelectorExpr); ok && (se.Sel.Name == "Token" || se.Sel.Name == "RawToken") && len(c.Args) == 0 {
				if dl := t.lvarOf(se.X); dl != nil && dl.kind == "xdecoder" {
					va, vb := bind(a, "xtok"), bind(b, "errv")
					return "let '(" + va + ", " + vb + ", " + dl.name + ") := go_token " + dl.name + " in\n  " + next()
				}
			}
		}
		// n, err := rdr.Read(buf) on the io.Reader parameter with a local one-byte buffer
		if c, isCall := x.Rhs[0].(*ast.CallExpr); isCall && define {
			if se, ok := c.Fun.(*ast.SelectorExpr); ok && se.Sel.Name == "Read" && len(c.Args) == 1 {
				if rl := t.lvarOf(se.X); rl != nil && rl.kind == "reader" {
					bl := t.lvarOf(c.Args[0])
					if bl == nil || bl.kind != "str" {
						t.unsupported(x, "Read into something other than a local byte buffer")
					}
					va, vb := bind(a, "int"), bind(b, "errv")
					return "let '(" + va + ", " + vb + ", " + bl.name + ", " + rl.name + ") := go_read " + rl.name + " " + bl.name + " in\n  " + next()
				}
			}
			// t, err := p.Token() on the *xml.Decoder parameter
			if se, ok := c.Fun.(*ast.SelectorExpr); ok && (se.Sel.Name == "Token" || se.Sel.Name == "RawToken") && len(c.Args) == 0 {
				if dl := t.lvarOf(se.X); dl != nil && dl.kind == "xdecoder" {
					va, vb := bind(a, "xtok"), bind(b, "errv")
					return "let '(" + va + ", " + vb + ", " + dl.name + ") := go_token " + dl.name + " in\n  " + next()
				}
			}
			// _, werr := w.Write(p) on a writer: the bytes are appended, the error is nil (the writer is a bytes.Buffer)
			if se, ok := c.Fun.(*ast.SelectorExpr); ok && se.Sel.Name == "Write" && len(c.Args) == 1 {
				if wl := t.lvarOf(se.X); wl != nil && wl.kind == "writer" {
					if a.Name != "_" {
						t.unsupported(x, "the count returned by Write is used")
					}
					mark := len(t.guards)
					pv := t.expr(c.Args[0])
					vb := bind(b, "errv")
					return t.wrap(mark, "let "+wl.name+" := (app "+wl.name+" "+pv+") in let "+vb+" : (option err) := None in\n  "+next())
				}
			}
		}
		// v, err := self(...) for a recursive function returning (T, error); state parameters (a reader / decoder the
		// function consumes from) must be passed through and come back with the results
		if c, isCall := x.Rhs[0].(*ast.CallExpr); isCall && t.isSelfCall(c) {
			if len(t.resKind) != 2 || t.resKind[1] != "err" || strings.HasPrefix(t.resKind[0], "ptr:") {
				t.unsupported(x, "recursive call of a function with this signature used for its results")
			}
			mark := len(t.guards)
			args := t.selfArgs(c)
			va, vb := bind(a, t.resKind[0]), bind(b, "errv")
			if t.pairResult() {
				rp := "'(" + va + ", " + vb + ")"
				if len(t.state) > 0 {
					rp = "'((" + va + ", " + vb + "), " + t.retState() + ")"
				}
				return t.wrap(mark, "bindr ("+fnPrefix+t.self.Name()+" fuel_ st "+strings.Join(args, " ")+")\n  (fun "+rp+" =>\n  "+next()+")")
			}
			z := fnZero(t.resKind[0])
			rpat := "rr_"
			if len(t.state) > 0 {
				rpat = "'(rr_, " + t.retState() + ")"
			}
			return t.wrap(mark, "bindr ("+fnPrefix+t.self.Name()+" fuel_ st "+strings.Join(args, " ")+")\n  (fun "+rpat+" => match rr_ with Panic => Crash | _ => let '("+va+", "+vb+") := match rr_ with Ok v => (v, None) | Err e => ("+z+", Some e) | Panic => ("+z+", None) end in\n  "+next()+" end)")
		}
		// fi, err := os.Stat(name) / fh, err := os.Open(name): the file system is the environment (ext_os_Stat: is it a regular
		// file; ext_os_Open: the schedule of Read results the file delivers)
		if c, isCall := x.Rhs[0].(*ast.CallExpr); isCall && t.handler && len(c.Args) == 1 && t.fs != nil {
			if pk, nm, isPkg := t.pkgCall(c); isPkg && pk == "os" && nm == "Create" && define {
				// fh, err := os.Create(name): ext_os_Create says whether the file can be created; it is then a new, empty entry of the
				// log of files this function writes, and fh is its position
				mark := len(t.guards)
				arg := t.expr(c.Args[0])
				found := false
				for _, e := range *t.externs {
					found = found || e.name == "ext_os_Create"
				}
				if !found {
					*t.externs = append(*t.externs, extern{"ext_os_Create", "str -> (res unit)"})
				}
				aobj := t.p.info.Defs[a]
				if aobj == nil {
					t.unsupported(x, "os.Create result assigned to an existing variable")
				}
				lv := &lvar{name: "l_" + a.Name, kind: "fwriter", fields: map[string]*lvar{}}
				t.locals[aobj] = lv
				ix := t.newLocal(nil, a.Name+"_ix", "nat")
				lv.fields["ix"] = ix
				lv.forder = []string{"ix"}
				vb := bind(b, "errv")
				t.fresh++
				rr := fmt.Sprintf("rr%d", t.fresh)
				t.guards = append(t.guards, "match (ext_os_Create "+arg+") with Panic => Crash | "+rr+" =>")
				fsn := t.fs.name
				return t.wrap(mark, "let '("+ix.name+", "+fsn+", "+vb+") := match "+rr+" with Ok _ => (length "+fsn+", app "+fsn+" [("+arg+", ([] : str))], None) | Err e => (O, "+fsn+", Some e) | Panic => (O, "+fsn+", None) end in\n  "+next())
			}
		}
		if c, isCall := x.Rhs[0].(*ast.CallExpr); isCall && t.handler && len(c.Args) == 1 {
			if pk, nm, isPkg := t.pkgCall(c); isPkg && pk == "os" && (nm == "Stat" || nm == "Open") && define {
				mark := len(t.guards)
				arg := t.expr(c.Args[0])
				name, typ, zero := "ext_os_Stat", "str -> (res bool)", "false"
				if nm == "Open" {
					name, typ, zero = "ext_os_Open", "str -> (res (list rev))", "([] : list rev)"
				}
				found := false
				for _, e := range *t.externs {
					found = found || e.name == name
				}
				if !found {
					*t.externs = append(*t.externs, extern{name, typ})
				}
				aobj := t.p.info.Defs[a]
				if aobj == nil {
					t.unsupported(x, "os.Stat / os.Open result assigned to an existing variable")
				}
				var vn string
				if nm == "Stat" {
					lv := &lvar{name: "l_" + a.Name, kind: "finfo", fields: map[string]*lvar{}}
					t.locals[aobj] = lv
					fr := t.newLocal(nil, a.Name+"_regular", "bool")
					lv.fields["regular"] = fr
					lv.forder = []string{"regular"}
					vn = fr.name
				} else {
					vn = t.newLocal(aobj, a.Name, "reader").name
				}
				vb := bind(b, "errv")
				t.fresh++
				rr := fmt.Sprintf("rr%d", t.fresh)
				t.guards = append(t.guards, "match ("+name+" "+arg+") with Panic => Crash | "+rr+" =>")
				return t.wrap(mark, "let '("+vn+", "+vb+") := match "+rr+" with Ok v => (v, None) | Err e => ("+zero+", Some e) | Panic => ("+zero+", None) end in\n  "+next())
			}
		}
		// v, err := f(...) with f another function of the package returning (T, error)
		if c, isCall := x.Rhs[0].(*ast.CallExpr); isCall {
			mark := len(t.guards)
			if ec, ok := t.externCall(c); ok {
				if len(ec.results) != 2 || ec.results[1] != "err" || ec.optOut {
					t.unsupported(x, "two-value external call other than (T, error)")
				}
				if len(ec.stateOut) > 0 {
					// the callee consumes from the reader(s): None = it panicked
					va, vb := bind(a, ec.results[0]), bind(b, "errv")
					switch ec.rich {
					case "pair":
						return t.wrap(mark, "match "+ec.term+" with None => Crash | Some (("+va+", "+vb+"), "+tuplePat(ec.stateOut)+") =>\n  "+next()+" end")
					case "res":
						return t.wrap(mark, "match "+ec.term+" with None => Crash | Some (Panic, _) => Crash | Some (rr_, "+tuplePat(ec.stateOut)+") =>\n  let '("+va+", "+vb+") := match rr_ with Ok v => (v, None) | Err e => ("+fnZero(ec.results[0])+", Some e) | Panic => ("+fnZero(ec.results[0])+", None) end in\n  "+next()+" end")
					}
					t.unsupported(x, "two-value external call with this signature")
				}
				if ec.rich == "optpair" {
					va, vb := bind(a, ec.results[0]), bind(b, "errv")
					return t.wrap(mark, "match "+ec.term+" with None => Crash | Some ("+va+", "+vb+") =>\n  "+next()+" end")
				}
				if ec.lensArg != nil {
					t.fresh++
					rr := fmt.Sprintf("rr%d", t.fresh)
					t.guards = append(t.guards, "match "+ec.term+" with Panic => Crash | "+rr+" =>")
					va, vb := bind(a, ec.results[0]), bind(b, "errv")
					put := t.newLocal(nil, a.Name+"_put", "tok").name
					if al := t.lvarOf(a); al != nil {
						al.origin = &aliasOrigin{parent: ec.lensArg, how: "lens", key: put}
					}
					z := fnZero(ec.results[0])
					return t.wrap(mark, "let '("+va+", "+put+", "+vb+") := match "+rr+" with Ok (v_, p_) => (v_, p_, None) | Err e => ("+z+", (fun _ => "+ec.lensArg.name+"), Some e) | Panic => ("+z+", (fun _ => "+ec.lensArg.name+"), None) end in\n  "+next())
				}
				t.fresh++
				rr := fmt.Sprintf("rr%d", t.fresh)
				t.guards = append(t.guards, "match "+ec.term+" with Panic => Crash | "+rr+" =>")
				va, vb := bind(a, ec.results[0]), bind(b, "errv")
				return t.wrap(mark, "let '("+va+", "+vb+") := match "+rr+" with Ok v => (v, None) | Err e => ("+fnZero(ec.results[0])+", Some e) | Panic => ("+fnZero(ec.results[0])+", None) end in\n  "+next())
			}
		}
		if _, isCallR := x.Rhs[0].(*ast.CallExpr); !define && isCallR {
			t.unsupported(x, "two-value assignment form")
		}
		switch r := x.Rhs[0].(type) {
		case *ast.CallExpr: // x, err := strconv.ParseX(...)
			mark := len(t.guards)
			orc, k, ok := t.parseCall(r)
			if !ok {
				t.unsupported(x, "two-value call other than strconv.ParseInt/ParseUint/ParseFloat/ParseBool")
			}
			va, vb := bind(a, k), bind(b, "errnil")
			if lv, ok := t.locals[t.p.info.Defs[b]]; ok {
				lv.kind = "errnil" // a bool: the error IS nil
			}
			return t.wrap(mark, "let '("+va+", "+vb+") := match "+orc+" with Some v => (v, true) | None => ("+fnZero(k)+", false) end in\n  "+next())
		case *ast.IndexExpr: // v, ok := m[k]
			if t.kindOfExpr(r.X) != "vmap" {
				t.unsupported(x, "comma-ok index on a non-map")
			}
			mark := len(t.guards)
			m, k := t.expr(r.X), t.expr(r.Index)
			va, vb := bind(a, "val"), bind(b, "bool")
			pre := ""
			if t.wb && a.Name != "_" {
				// the entry is part of the tree below the map: remember where it came from (the key is fixed now)
				var parent *lvar
				if ta, ok := unparen(r.X).(*ast.TypeAssertExpr); ok {
					parent = t.lvarOf(ta.X)
				} else {
					parent = t.lvarOf(r.X)
				}
				if al := t.lvarOf(a); al != nil && parent != nil {
					t.fresh++
					kn := fmt.Sprintf("wbk%d", t.fresh)
					pre = "let " + kn + " := " + k + " in "
					k = kn
					al.origin = &aliasOrigin{parent: parent, how: "mapkey", key: kn}
				}
			}
			return t.wrap(mark, pre+"let '("+va+", "+vb+") := match lookup "+k+" "+m+" with Some v => (v, true) | None => (VNil, false) end in\n  "+next())
		case *ast.TypeAssertExpr: // v, ok := e.(T)
			pat, k := t.assertPat(t.p.info.Types[r.Type].Type, "v")
			if pat == "" {
				t.unsupported(x, "comma-ok assertion to this type")
			}
			mark := len(t.guards)
			e := t.expr(r.X)
			va, vb := bind(a, k), bind(b, "bool")
			if t.wb && a.Name != "_" && (k == "vmap" || k == "vlist") {
				if al, pl := t.lvarOf(a), t.lvarOf(r.X); al != nil && pl != nil {
					how := "asmap"
					if k == "vlist" {
						how = "aslist"
					}
					al.origin = &aliasOrigin{parent: pl, how: how}
				}
			}
			return t.wrap(mark, "let '("+va+", "+vb+") := match "+e+" with "+pat+" => (v, true) | _ => ("+fnZero(k)+", false) end in\n  "+next())
		}
		t.unsupported(x, "two-value assignment form")
	}
	if len(x.Lhs) == 3 && len(x.Rhs) == 1 && !define && t.handler {
		// p.M, p.R, err = f(rdr): fields of a struct local and existing variables receive the three results
		if c, isCall := x.Rhs[0].(*ast.CallExpr); isCall {
			mark := len(t.guards)
			if ec, ok := t.externCall(c); ok && ec.rich == "triple" && len(ec.stateOut) > 0 {
				var names []string
				for i, l := range x.Lhs {
					k := ec.results[i]
					if k == "err" {
						k = "errv"
					}
					if id, ok := l.(*ast.Ident); ok && id.Name == "_" {
						names = append(names, "_")
						continue
					}
					tl := t.lvarOf(l)
					if tl == nil || tl.kind != k || tl.fields != nil {
						t.unsupported(x, "three-value assignment to something other than variables / struct fields of the result types")
					}
					if base, ok := unparen(l).(*ast.SelectorExpr); ok {
						if bid, ok := unparen(base.X).(*ast.Ident); ok && t.escaped[t.p.info.Uses[bid]] {
							t.unsupported(x, "field assignment through a pointer that has already been stored (aliasing)")
						}
					}
					names = append(names, tl.name)
				}
				return t.wrap(mark, "match "+ec.term+" with None => Crash | Some (("+strings.Join(names, ", ")+"), "+tuplePat(ec.stateOut)+") =>\n  "+next()+" end")
			}
		}
		t.unsupported(x, "three-value assignment form")
	}
	if len(x.Lhs) == 3 && len(x.Rhs) == 1 && define {
		// m, raw, err := f(rdr) with f a package function that reads from the reader
		if c, isCall := x.Rhs[0].(*ast.CallExpr); isCall {
			mark := len(t.guards)
			if ec, ok := t.externCall(c); ok && ec.rich == "triple" && len(ec.stateOut) > 0 {
				var names []string
				for i, l := range x.Lhs {
					id, ok := l.(*ast.Ident)
					if !ok {
						t.unsupported(x, "three-value assignment form")
					}
					k := ec.results[i]
					if k == "err" {
						k = "errv"
					}
					if id.Name == "_" {
						names = append(names, "_")
						continue
					}
					obj := t.p.info.Defs[id]
					if obj == nil {
						t.unsupported(x, "re-declaration in a three-value :=")
					}
					names = append(names, t.newLocal(obj, id.Name, k).name)
				}
				return t.wrap(mark, "match "+ec.term+" with None => Crash | Some (("+strings.Join(names, ", ")+"), "+tuplePat(ec.stateOut)+") =>\n  "+next()+" end")
			}
		}
		t.unsupported(x, "three-value assignment form")
	}
	if len(x.Lhs) == len(x.Rhs) && len(x.Lhs) > 1 && !define {
		// a, b = e1, e2 on plain locals: all right-hand sides are evaluated first
		mark := len(t.guards)
		var names, vals []string
		for i, lh := range x.Lhs {
			lv := t.lvarOf(lh)
			if _, isId := lh.(*ast.Ident); !isId || lv == nil || lv.fields != nil || lv.elemOf != nil || lv.nilFlag != nil {
				t.unsupported(x, "parallel assignment to something other than plain locals")
			}
			names = append(names, lv.name)
			if lv.kind == "val" {
				vals = append(vals, t.boxVal(x.Rhs[i]))
			} else {
				vals = append(vals, t.expr(x.Rhs[i]))
			}
		}
		return t.wrap(mark, "let '("+strings.Join(names, ", ")+") := ("+strings.Join(vals, ", ")+") in\n  "+next())
	}
	if len(x.Lhs) != 1 || len(x.Rhs) != 1 {
		t.unsupported(x, "assignment form")
	}
	if c, isCall := x.Rhs[0].(*ast.CallExpr); isCall && t.isSelfCall(c) && len(t.resKind) == 1 {
		// v := self(...) for a recursive function with one result (typically `err`): the result and the state come back
		lid, isId := x.Lhs[0].(*ast.Ident)
		if !isId {
			t.unsupported(x, "recursive call assigned to something other than a variable")
		}
		k := t.resKind[0]
		if k == "err" {
			k = "errv"
		}
		mark := len(t.guards)
		args := t.selfArgs(c)
		var vn string
		if lid.Name == "_" {
			vn = "_"
		} else if define {
			vn = t.newLocal(t.p.info.Defs[lid], lid.Name, k).name
		} else {
			lv, ok := t.locals[t.p.info.Uses[lid]]
			if !ok || lv.kind != k {
				t.unsupported(x, "recursive call assigned to a variable of another type")
			}
			vn = lv.name
		}
		rp := vn
		if len(t.state) > 0 {
			rp = "'(" + vn + ", " + t.retState() + ")"
		}
		return t.wrap(mark, "bindr ("+fnPrefix+t.self.Name()+" fuel_ st "+strings.Join(args, " ")+")\n  (fun "+rp+" =>\n  "+next()+")")
	}
	if c, isCall := x.Rhs[0].(*ast.CallExpr); isCall && t.handler {
		if out, done := t.handlerCall(x, c, next); done {
			return out
		}
	}
	if c, isCall := x.Rhs[0].(*ast.CallExpr); isCall && !t.isSelfCall(c) && t.calleeThreads(c) {
		// err = f(..., b, ..., p) with b a writer local / p a struct local the callee updates: the result comes back together
		// with what has been written / the fields afterwards; None = the callee panicked
		lid, isId := x.Lhs[0].(*ast.Ident)
		if !isId {
			t.unsupported(x, "call with writer / struct-pointer arguments assigned to something other than a variable")
		}
		mark := len(t.guards)
		ec, ok := t.externCall(c)
		if !ok || !ec.optOut || len(ec.results) != 1 {
			t.unsupported(x, "call with writer / struct-pointer arguments and this signature")
		}
		k := ec.results[0]
		if k == "err" {
			k = "errv"
		}
		var vn string
		switch {
		case lid.Name == "_":
			vn = "_"
		case define:
			vn = t.newLocal(t.p.info.Defs[lid], lid.Name, k).name
		default:
			lv, ok := t.locals[t.p.info.Uses[lid]]
			if !ok || lv.kind != k || lv.fields != nil {
				t.unsupported(x, "call result assigned to a variable of another type")
			}
			vn = lv.name
		}
		return t.wrap(mark, "match "+ec.term+" with None => Crash | Some ("+vn+", "+strings.TrimPrefix(tuplePat(ec.outArgs), "'")+") =>\n  "+next()+" end")
	}
	switch l := x.Lhs[0].(type) {
	case *ast.Ident:
		var obj types.Object
		if define {
			obj = t.p.info.Defs[l]
		} else {
			obj = t.p.info.Uses[l]
		}
		if _, isG := t.vars[obj]; isG {
			t.unsupported(x, "assignment to a package-level variable in a pure function")
		}
		// tt := t.(xml.StartElement) on a token: a struct local with the fields Name (an xml.Name) and Attr
		if define {
			if ta, ok := x.Rhs[0].(*ast.TypeAssertExpr); ok && ta.Type != nil {
				if tl := t.lvarOf(ta.X); tl != nil && tl.kind == "xtok" {
					if types.ExprString(ta.Type) == "xml.EndElement" {
						// a copy of the end tag: its name, one local per field of the name (assignable)
						lv := &lvar{name: "l_" + l.Name, kind: "xend", fields: map[string]*lvar{}}
						t.locals[obj] = lv
						sp := t.newLocal(nil, l.Name+"_Name_Space", "str")
						lo := t.newLocal(nil, l.Name+"_Name_Local", "str")
						lv.fields["Name.Space"], lv.fields["Name.Local"] = sp, lo
						lv.forder = []string{"Name.Space", "Name.Local"}
						return "(match " + tl.name + " with Some (TEnd (Build_xname " + sp.name + " " + lo.name + ")) =>\n  " + next() + "\n  | _ => Crash end)"
					}
					if types.ExprString(ta.Type) != "xml.StartElement" {
						t.unsupported(x, "assertion on a token other than to xml.CharData / xml.StartElement")
					}
					lv := &lvar{name: "l_" + l.Name, kind: "xstart", fields: map[string]*lvar{}}
					t.locals[obj] = lv
					fn := t.newLocal(nil, l.Name+"_Name", "xname")
					fa := t.newLocal(nil, l.Name+"_Attr", "xattrs")
					lv.fields["Name"], lv.fields["Attr"] = fn, fa
					lv.forder = []string{"Name", "Attr"}
					return "(match " + tl.name + " with Some (TStart " + fn.name + " " + fa.name + ") =>\n  " + next() + "\n  | _ => Crash end)"
				}
			}
		}
		// d := xml.NewDecoder(bytes.NewReader(b)): the token stream of the bytes, computed by the environment function
		// ext_xml_NewDecoder (the tokenizer of encoding/xml); d may only be read with d.Token() / d.RawToken()
		if define {
			if c, ok := x.Rhs[0].(*ast.CallExpr); ok && len(c.Args) == 1 {
				if pk, nm, isPkg := t.pkgCall(c); isPkg && pk == "encoding/xml" && nm == "NewDecoder" {
					if rc, ok := c.Args[0].(*ast.CallExpr); ok && len(rc.Args) == 1 {
						if pk2, nm2, isPkg2 := t.pkgCall(rc); isPkg2 && pk2 == "bytes" && nm2 == "NewReader" && t.kindOfExpr(rc.Args[0]) == "str" {
							nUse, nTok := 0, 0
							ast.Inspect(t.fn.Body, func(n ast.Node) bool {
								if id, ok := n.(*ast.Ident); ok && t.p.info.Uses[id] == obj {
									nUse++
								}
								if ce, ok := n.(*ast.CallExpr); ok && len(ce.Args) == 0 {
									if se, ok := ce.Fun.(*ast.SelectorExpr); ok && (se.Sel.Name == "Token" || se.Sel.Name == "RawToken") {
										if id, ok := se.X.(*ast.Ident); ok && t.p.info.Uses[id] == obj {
											nTok++
										}
									}
								}
								return true
							})
							if nUse != nTok {
								t.unsupported(x, "a local xml.Decoder used other than by Token / RawToken")
							}
							mark := len(t.guards)
							src := t.expr(rc.Args[0])
							lv := t.newLocal(obj, l.Name, "xdecoder")
							found := false
							for _, e := range *t.externs {
								found = found || e.name == "ext_xml_NewDecoder"
							}
							if !found {
								*t.externs = append(*t.externs, extern{"ext_xml_NewDecoder", "str -> xdecoder"})
							}
							return t.wrap(mark, "let "+lv.name+" : xdecoder := (ext_xml_NewDecoder "+src+") in\n  "+next())
						}
					}
				}
			}
		}
		// dec := json.NewDecoder(bytes.NewReader(b)): the decoder is the bytes it reads and its UseNumber flag; its single
		// Decode is the environment function ext_json_Decode
		if define {
			if c, ok := x.Rhs[0].(*ast.CallExpr); ok && len(c.Args) == 1 {
				if pk, nm, isPkg := t.pkgCall(c); isPkg && pk == "encoding/json" && nm == "NewDecoder" {
					if rc, ok := c.Args[0].(*ast.CallExpr); ok && len(rc.Args) == 1 {
						if pk2, nm2, isPkg2 := t.pkgCall(rc); isPkg2 && pk2 == "bytes" && nm2 == "NewReader" && t.kindOfExpr(rc.Args[0]) == "str" {
							nDecode := 0
							ast.Inspect(t.fn.Body, func(n ast.Node) bool {
								if ce, ok := n.(*ast.CallExpr); ok {
									if se, ok := ce.Fun.(*ast.SelectorExpr); ok && se.Sel.Name == "Decode" {
										if id, ok := se.X.(*ast.Ident); ok && t.p.info.Uses[id] == obj {
											nDecode++
										}
									}
								}
								return true
							})
							if nDecode != 1 {
								t.unsupported(x, "a json.Decoder that is not decoded from exactly once")
							}
							mark := len(t.guards)
							src := t.expr(rc.Args[0])
							lv := &lvar{name: "l_" + l.Name, kind: "jdecoder", fields: map[string]*lvar{}}
							t.locals[obj] = lv
							fs := t.newLocal(nil, l.Name+"_src", "str")
							fu := t.newLocal(nil, l.Name+"_usenum", "bool")
							lv.fields["src"], lv.fields["usenum"] = fs, fu
							lv.forder = []string{"src", "usenum"}
							return t.wrap(mark, "let "+fs.name+" : str := "+src+" in let "+fu.name+" : bool := false in\n  "+next())
						}
					}
				}
			}
		}
		// r := regexp.MustCompile(<string constant>): the compiled pattern is its source text; its only use is r.ReplaceAll
		if define {
			if c, ok := x.Rhs[0].(*ast.CallExpr); ok && len(c.Args) == 1 {
				if pk, nm, isPkg := t.pkgCall(c); isPkg && pk == "regexp" && nm == "MustCompile" {
					tv := t.p.info.Types[c.Args[0]]
					if tv.Value == nil || tv.Value.Kind() != constant.String {
						t.unsupported(x, "regexp.MustCompile of something other than a string constant")
					}
					lv := &lvar{name: "l_" + l.Name, kind: "regexp", fields: map[string]*lvar{}}
					t.locals[obj] = lv
					fs := t.newLocal(nil, l.Name+"_pat", "str")
					lv.fields["pat"] = fs
					lv.forder = []string{"pat"}
					return "let " + fs.name + " : str := " + gstr(constant.StringVal(tv.Value)) + " in\n  " + next()
				}
			}
		}
		// r := bytes.NewReader(b): the bytes it will deliver (only handed to gob.NewDecoder)
		if define {
			if c, ok := x.Rhs[0].(*ast.CallExpr); ok && len(c.Args) == 1 {
				if pk, nm, isPkg := t.pkgCall(c); isPkg && pk == "bytes" && nm == "NewReader" && t.kindOfExpr(c.Args[0]) == "str" {
					mark := len(t.guards)
					src := t.expr(c.Args[0])
					lv := &lvar{name: "l_" + l.Name, kind: "breader", fields: map[string]*lvar{}}
					t.locals[obj] = lv
					fs := t.newLocal(nil, l.Name+"_src", "str")
					lv.fields["src"] = fs
					lv.forder = []string{"src"}
					return t.wrap(mark, "let "+fs.name+" : str := "+src+" in\n  "+next())
				}
				// dec := gob.NewDecoder(r) on such a reader: its single Decode(&m) is the environment function ext_gob_Decode
				if pk, nm, isPkg := t.pkgCall(c); isPkg && pk == "encoding/gob" && nm == "NewDecoder" {
					rl := t.lvarOf(c.Args[0])
					if rl == nil || rl.kind != "breader" {
						t.unsupported(x, "gob.NewDecoder on something other than a bytes.NewReader local")
					}
					lv := &lvar{name: "l_" + l.Name, kind: "gdecoder", fields: map[string]*lvar{"src": rl.fields["src"]}, forder: []string{"src"}}
					t.locals[obj] = lv
					return next()
				}
				// enc := gob.NewEncoder(&buf) on a writer local: Encode appends what the environment function ext_gob_Encode returns
				if pk, nm, isPkg := t.pkgCall(c); isPkg && pk == "encoding/gob" && nm == "NewEncoder" {
					var wl *lvar
					if u, ok := unparen(c.Args[0]).(*ast.UnaryExpr); ok && u.Op == token.AND {
						wl = t.lvarOf(u.X)
					}
					if wl == nil || wl.kind != "writer" {
						t.unsupported(x, "gob.NewEncoder on something other than &buf with buf a writer local")
					}
					lv := &lvar{name: "l_" + l.Name, kind: "gencoder", fields: map[string]*lvar{}, sink: wl}
					t.locals[obj] = lv
					return next()
				}
			}
		}
		// err := enc.Encode(v) / err := dec.Decode(&m) on the gob locals
		if c, ok := x.Rhs[0].(*ast.CallExpr); ok && len(c.Args) == 1 {
			if se, ok := c.Fun.(*ast.SelectorExpr); ok {
				if id, ok := se.X.(*ast.Ident); ok {
					if el, ok := t.locals[t.p.info.Uses[id]]; ok && (el.kind == "gencoder" && se.Sel.Name == "Encode" || el.kind == "gdecoder" && se.Sel.Name == "Decode") {
						var en string
						if define {
							en = t.newLocal(obj, l.Name, "errv").name
						} else if erl, ok := t.locals[obj]; ok && erl.kind == "errv" {
							en = erl.name
						} else {
							t.unsupported(x, "gob Encode / Decode result assigned to something other than an error variable")
						}
						reg := func(name, typ string) {
							for _, e := range *t.externs {
								if e.name == name {
									return
								}
							}
							*t.externs = append(*t.externs, extern{name, typ})
						}
						mark := len(t.guards)
						if el.kind == "gencoder" {
							v := t.boxVal(c.Args[0])
							reg("ext_gob_Encode", "value -> (res str)")
							w := el.sink.name
							return t.wrap(mark, "match (ext_gob_Encode "+v+") with Panic => Crash | rr_ => let '("+w+", "+en+") := match rr_ with Ok w_ => (app "+w+" w_, None) | Err e_ => ("+w+", Some e_) | Panic => ("+w+", None) end in\n  "+next()+" end")
						}
						u, isAddr := c.Args[0].(*ast.UnaryExpr)
						var ml *lvar
						if isAddr && u.Op == token.AND {
							ml = t.lvarOf(u.X)
						}
						if ml == nil || ml.kind != "vmap" || !ml.ownedMap() {
							t.unsupported(x, "gob Decode into something other than &m with m a map made by this function")
						}
						reg("ext_gob_Decode", "str -> entries -> (res entries)")
						return t.wrap(mark, "match (ext_gob_Decode "+el.fields["src"].name+" "+ml.name+") with Panic => Crash | rr_ => let '("+ml.name+", "+en+") := match rr_ with Ok v_ => (v_, None) | Err e_ => ("+ml.name+", Some e_) | Panic => ("+ml.name+", None) end in\n  "+next()+" end")
					}
				}
			}
		}
		// enc := json.NewEncoder(&buf) on a writer local: the encoder is the writer it appends to and its escapeHTML flag (true
		// until SetEscapeHTML); what Encode writes is the environment function ext_json_Encode
		if define {
			if c, ok := x.Rhs[0].(*ast.CallExpr); ok && len(c.Args) == 1 {
				if pk, nm, isPkg := t.pkgCall(c); isPkg && pk == "encoding/json" && nm == "NewEncoder" {
					var wl *lvar
					if u, ok := unparen(c.Args[0]).(*ast.UnaryExpr); ok && u.Op == token.AND {
						wl = t.lvarOf(u.X)
					} else {
						wl = t.lvarOf(c.Args[0])
					}
					if wl == nil || wl.kind != "writer" {
						t.unsupported(x, "json.NewEncoder on something other than a writer local")
					}
					nUse, nOk := 0, 0
					ast.Inspect(t.fn.Body, func(n ast.Node) bool {
						if id, ok := n.(*ast.Ident); ok && t.p.info.Uses[id] == obj {
							nUse++
						}
						if ce, ok := n.(*ast.CallExpr); ok && len(ce.Args) == 1 {
							if se, ok := ce.Fun.(*ast.SelectorExpr); ok && (se.Sel.Name == "Encode" || se.Sel.Name == "SetEscapeHTML") {
								if id, ok := se.X.(*ast.Ident); ok && t.p.info.Uses[id] == obj {
									nOk++
								}
							}
						}
						return true
					})
					if nUse != nOk {
						t.unsupported(x, "a json.Encoder used other than by Encode / SetEscapeHTML")
					}
					lv := &lvar{name: "l_" + l.Name, kind: "jencoder", fields: map[string]*lvar{}, sink: wl}
					t.locals[obj] = lv
					fe := t.newLocal(nil, l.Name+"_escapeHTML", "bool")
					lv.fields["escapeHTML"] = fe
					lv.forder = []string{"escapeHTML"}
					return "let " + fe.name + " : bool := true in\n  " + next()
				}
			}
		}
		// err := enc.Encode(v) on such an encoder: the bytes are appended to its writer; nothing is written when it fails
		if c, ok := x.Rhs[0].(*ast.CallExpr); ok && len(c.Args) == 1 {
			if se, ok := c.Fun.(*ast.SelectorExpr); ok && se.Sel.Name == "Encode" {
				if id, ok := se.X.(*ast.Ident); ok {
					if el, ok := t.locals[t.p.info.Uses[id]]; ok && el.kind == "jencoder" {
						var en string
						if define {
							en = t.newLocal(obj, l.Name, "errv").name
						} else if erl, ok := t.locals[obj]; ok && erl.kind == "errv" {
							en = erl.name
						} else {
							t.unsupported(x, "Encode result assigned to something other than an error variable")
						}
						mark := len(t.guards)
						v := t.boxVal(c.Args[0])
						name := "ext_json_Encode"
						found := false
						for _, e := range *t.externs {
							found = found || e.name == name
						}
						if !found {
							*t.externs = append(*t.externs, extern{name, "value -> bool -> (res str)"})
						}
						w := el.sink.name
						return t.wrap(mark, "match ("+name+" "+v+" "+el.fields["escapeHTML"].name+") with Panic => Crash | rr_ => let '("+w+", "+en+") := match rr_ with Ok w_ => (app "+w+" w_, None) | Err e_ => ("+w+", Some e_) | Panic => ("+w+", None) end in\n  "+next()+" end")
					}
				}
			}
		}
		// err = json.Indent(&buf, src, prefix, indent): what it appends to the writer local is the environment function
		// ext_json_Indent; nothing is appended when it fails (appendIndent hands back the buffer as it was)
		if c, ok := x.Rhs[0].(*ast.CallExpr); ok && len(c.Args) == 4 {
			if pk, nm, isPkg := t.pkgCall(c); isPkg && pk == "encoding/json" && nm == "Indent" {
				var wl *lvar
				if u, ok := unparen(c.Args[0]).(*ast.UnaryExpr); ok && u.Op == token.AND {
					wl = t.lvarOf(u.X)
				} else {
					wl = t.lvarOf(c.Args[0])
				}
				if wl == nil || wl.kind != "writer" {
					t.unsupported(x, "json.Indent into something other than a writer local")
				}
				var en string
				if define {
					en = t.newLocal(obj, l.Name, "errv").name
				} else if erl, ok := t.locals[obj]; ok && erl.kind == "errv" {
					en = erl.name
				} else {
					t.unsupported(x, "json.Indent result assigned to something other than an error variable")
				}
				mark := len(t.guards)
				a1, a2, a3 := t.expr(c.Args[1]), t.expr(c.Args[2]), t.expr(c.Args[3])
				name := "ext_json_Indent"
				found := false
				for _, e := range *t.externs {
					found = found || e.name == name
				}
				if !found {
					*t.externs = append(*t.externs, extern{name, "str -> str -> str -> (res str)"})
				}
				w := wl.name
				return t.wrap(mark, "match ("+name+" "+a1+" "+a2+" "+a3+") with Panic => Crash | rr_ => let '("+w+", "+en+") := match rr_ with Ok w_ => (app "+w+" w_, None) | Err e_ => ("+w+", Some e_) | Panic => ("+w+", None) end in\n  "+next()+" end")
			}
		}
		// err := dec.Decode(&v) on such a decoder
		if c, ok := x.Rhs[0].(*ast.CallExpr); ok && len(c.Args) == 1 {
			if se, ok := c.Fun.(*ast.SelectorExpr); ok && se.Sel.Name == "Decode" {
				if id, ok := se.X.(*ast.Ident); ok {
					if dl, ok := t.locals[t.p.info.Uses[id]]; ok && dl.kind == "jdecoder" {
						u, isAddr := c.Args[0].(*ast.UnaryExpr)
						var vl *lvar
						if isAddr && u.Op == token.AND {
							vl = t.lvarOf(u.X)
						}
						if vl == nil || vl.kind != "val" {
							t.unsupported(x, "Decode into something other than &v with v an interface{} local")
						}
						var en string
						if define {
							en = t.newLocal(obj, l.Name, "errv").name
						} else if el, ok := t.locals[obj]; ok && el.kind == "errv" {
							en = el.name
						} else {
							t.unsupported(x, "Decode result assigned to something other than an error variable")
						}
						name := "ext_json_Decode"
						found := false
						for _, e := range *t.externs {
							found = found || e.name == name
						}
						if !found {
							*t.externs = append(*t.externs, extern{name, "str -> bool -> (res value)"})
						}
						return "match (" + name + " " + dl.fields["src"].name + " " + dl.fields["usenum"].name + ") with Panic => Crash | rr_ => let '(" + vl.name + ", " + en + ") := match rr_ with Ok v_ => (v_, None) | Err e_ => (" + vl.name + ", Some e_) | Panic => (" + vl.name + ", None) end in\n  " + next() + " end"
					}
				}
			}
		}
		// struct local: p := &T{e1, ..., en} (all fields, positional or keyed): one local per field
		if define {
			if u, ok := x.Rhs[0].(*ast.UnaryExpr); ok && u.Op == token.AND {
				if cl, ok := u.X.(*ast.CompositeLit); ok {
					k := t.kindOfType(obj.Type())
					var st *types.Struct
					if pt, ok := obj.Type().(*types.Pointer); ok {
						st, _ = pt.Elem().Underlying().(*types.Struct)
					}
					if !strings.HasPrefix(k, "rec:") || st == nil || len(cl.Elts) != st.NumFields() {
						t.unsupported(x, "&T{...} other than a package struct with all its fields given")
					}
					lv := &lvar{name: "l_" + l.Name, kind: k, fields: map[string]*lvar{}}
					out := ""
					mark := len(t.guards)
					for i := 0; i < st.NumFields(); i++ {
						f := st.Field(i)
						fk := t.kindOfType(f.Type())
						if fk != "str" && fk != "int" && fk != "bool" && fk != "val" {
							t.unsupported(x, "&T{...} with a field of this type")
						}
						var el ast.Expr = cl.Elts[i]
						if kv, isKV := el.(*ast.KeyValueExpr); isKV {
							t.unsupported(kv, "keyed &T{...}")
						}
						var v string
						if fk == "val" {
							v = t.boxVal(el)
						} else {
							v = t.expr(el)
						}
						fl := t.newLocal(nil, l.Name+"_"+f.Name(), fk)
						lv.fields[f.Name()] = fl
						lv.forder = append(lv.forder, f.Name())
						out += "let " + fl.name + " : " + fnCoqType(fk) + " := " + v + " in "
					}
					t.locals[obj] = lv
					return t.wrap(mark, out+"\n  "+next())
				}
			}
		}
		// struct local: p := new(T) / &T{}
		if define {
			if c, ok := x.Rhs[0].(*ast.CallExpr); ok {
				if id, ok := c.Fun.(*ast.Ident); ok && id.Name == "new" {
					if _, isB := t.p.info.Uses[id].(*types.Builtin); isB {
						k := t.kindOfType(obj.Type())
						if k == "writer" {
							// b := new(bytes.Buffer): nothing written yet
							lv := t.newLocal(obj, l.Name, "writer")
							return "let " + lv.name + " : str := [] in\n  " + next()
						}
						if !strings.HasPrefix(k, "rec:") {
							t.unsupported(x, "new of this type")
						}
						st := t.structs[k[4:]]
						lv := &lvar{name: "l_" + l.Name, kind: k, fields: map[string]*lvar{}}
						t.locals[obj] = lv
						out := ""
						for i := 0; i < st.NumFields(); i++ {
							f := st.Field(i)
							fk := t.kindOfType(f.Type())
							if fk == "vmap" && t.handler {
								fk = "vmapn" // a Map field of a new struct is nil until assigned, and these functions test it
							}
							fl := t.newLocal(nil, l.Name+"_"+f.Name(), fk)
							lv.fields[f.Name()] = fl
							lv.forder = append(lv.forder, f.Name())
							out += "let " + fl.name + " : " + fnCoqType(fk) + " := " + fnZero(fk) + " in "
						}
						return out + "\n  " + next()
					}
				}
			}
		}
		mark := len(t.guards)
		k := t.kindOfExpr(x.Rhs[0])
		var val string
		if define {
			if k == "" || k == "nil" {
				t.unsupported(x, "local variable of this type")
			}
			if st, isStar := unparen(x.Rhs[0]).(*ast.StarExpr); isStar && k == "vmap" {
				// m := (*n) with n a *map parameter: the cursor (cursor.go)
				return t.cursorInit(x, st, obj, l.Name, next)
			}
			val = t.expr(x.Rhs[0])
			lv := t.newLocal(obj, l.Name, k)
			if t.wb && (k == "vmap" || k == "vlist" || k == "val") {
				// m := T(p) / m := p with p part of the tree being updated: another name for the same object
				src := x.Rhs[0]
				if c, ok := src.(*ast.CallExpr); ok && len(c.Args) == 1 {
					if tv, ok := t.p.info.Types[c.Fun]; ok && tv.IsType() {
						src = c.Args[0]
					}
				}
				if pl := t.lvarOf(src); pl != nil && pl != lv && (pl.isState || pl.origin != nil) {
					if _, isId := unparen(src).(*ast.Ident); isId {
						lv.origin = &aliasOrigin{parent: pl, how: "same"}
					}
				}
			}
			return t.wrap(mark, "let "+lv.name+" : "+fnCoqType(k)+" := "+val+" in\n  "+next())
		}
		lv, ok := t.locals[obj]
		if !ok || lv.fields != nil || lv.elemOf != nil {
			t.unsupported(x, "assignment to "+l.Name)
		}
		if t.cursor && (lv.kind == "vmap" || lv.kind == "vlist") {
			if out, done := t.cursorAssign(x, lv, next); done {
				return out
			}
		}
		flag := ""
		switch {
		case lv.kind == "val":
			val = t.boxVal(x.Rhs[0])
		case t.p.info.Types[x.Rhs[0]].IsNil() && lv.kind == "errv":
			val = "None" // err = nil
		case lv.kind == "errv" && func() bool { _, ok := t.errExpr(x.Rhs[0]); return ok }():
			val, _ = t.errExpr(x.Rhs[0]) // err = fmt.Errorf(...) / errors.New(...): a new error value (its class)
		case t.p.info.Types[x.Rhs[0]].IsNil() && (lv.kind == "vlist" || lv.kind == "strs" || lv.kind == "vmap"):
			val = fnZero(lv.kind) // a nil slice / map and an empty one are the same model value
			if lv.nilFlag != nil {
				flag = "let " + lv.nilFlag.name + " := false in "
			}
		default:
			val = t.expr(x.Rhs[0])
			if lv.nilFlag != nil {
				isMade := false
				switch r := x.Rhs[0].(type) {
				case *ast.CallExpr:
					if f, ok := r.Fun.(*ast.Ident); ok && f.Name == "make" {
						isMade = true
					}
					if f, ok := r.Fun.(*ast.Ident); ok {
						if fn, ok := t.p.info.Uses[f].(*types.Func); ok && t.calleeReturnsMade(fn) {
							isMade = true
						}
					}
				case *ast.CompositeLit:
					isMade = true
				}
				if !isMade {
					t.unsupported(x, "assignment to a map variable declared nil from something other than make / a literal / nil")
				}
				flag = "let " + lv.nilFlag.name + " := true in "
			}
		}
		if (lv.kind == "vmap" || lv.kind == "val") && !t.p.info.Types[x.Rhs[0]].IsNil() {
			t.freezeCheck(x, x.Rhs[0])
		}
		return t.wrap(mark, "let "+lv.name+" := "+val+" in "+flag+"\n  "+next())
	case *ast.SelectorExpr: // p.f = e (or v.Name.Local = e) on a struct local
		fl := t.lvarOf(l)
		if fl == nil {
			t.unsupported(x, "field assignment on something other than a struct local")
		}
		var base ast.Expr = l
		for {
			se, ok := unparen(base).(*ast.SelectorExpr)
			if !ok {
				break
			}
			base = se.X
		}
		if id, ok := unparen(base).(*ast.Ident); ok && t.escaped[t.p.info.Uses[id]] {
			t.unsupported(x, "field assignment through a pointer that has already been stored (aliasing)")
		}
		mark := len(t.guards)
		val := t.expr(x.Rhs[0])
		return t.wrap(mark, "let "+fl.name+" := "+val+" in\n  "+next())
	case *ast.IndexExpr: // m[k] = e on a local map
		if ta, isTA := unparen(l.X).(*ast.TypeAssertExpr); isTA && ta.Type != nil {
			return t.storeThroughAssert(x, l, ta, next)
		}
		if inner, isIdx := unparen(l.X).(*ast.IndexExpr); isIdx {
			// xs[i][c] = v on a slice of arrays made by this function: cell c of row i replaced
			xl := t.lvarOf(inner.X)
			xid, isId := unparen(inner.X).(*ast.Ident)
			if xl == nil || !isId || (xl.kind != "rows" && xl.kind != "vrows") || !xl.ownedMap() || t.sliceShared(t.p.info.Uses[xid]) {
				t.unsupported(x, "nested element assignment on something other than a local slice of arrays")
			}
			c, okc := t.constInt(l.Index)
			if !okc {
				t.unsupported(x, "nested element assignment with a computed column")
			}
			mark := len(t.guards)
			ix := t.expr(inner.Index)
			var v string
			if xl.kind == "vrows" {
				v = t.boxVal(x.Rhs[0])
			} else {
				v = t.expr(x.Rhs[0])
			}
			t.fresh++
			row := fmt.Sprintf("row%d", t.fresh)
			t.guards = append(t.guards, fmt.Sprintf("if Z.ltb %s 0 then Crash else", ix))
			t.guards = append(t.guards, fmt.Sprintf("match nth_error %s (Z.to_nat %s) with None => Crash | Some %s =>", xl.name, ix, row))
			t.guards = append(t.guards, fmt.Sprintf("if Nat.leb (length %s) %d then Crash else", row, c))
			return t.wrap(mark, fmt.Sprintf("let %s := lset %s (Z.to_nat %s) (lset %s %d %s) in\n  ", xl.name, xl.name, ix, row, c, v)+next())
		}
		if se, isStar := unparen(l.X).(*ast.StarExpr); isStar {
			// (*p)[k] = b on a *map[string]bool out-parameter
			pl := t.lvarOf(se.X)
			if pl == nil || pl.kind != "ptr:bmap" {
				t.unsupported(x, "store through a pointer other than a *map[string]bool out-parameter")
			}
			mark := len(t.guards)
			k := t.expr(l.Index)
			v := t.expr(x.Rhs[0])
			return t.wrap(mark, "let "+pl.name+" := bset "+k+" "+v+" "+pl.name+" in\n  "+next())
		}
		id, ok := l.X.(*ast.Ident)
		if !ok {
			t.unsupported(x, "assignment target")
		}
		lv, ok := t.locals[t.p.info.Uses[id]]
		if ok && lv.kind == "bmap" && lv.isState {
			mark := len(t.guards)
			k := t.expr(l.Index)
			v := t.expr(x.Rhs[0])
			return t.wrap(mark, "let "+lv.name+" := bset "+k+" "+v+" "+lv.name+" in\n  "+next())
		}
		if ok && (lv.kind == "strs" || lv.kind == "vlist" || strings.HasPrefix(lv.kind, "recs:")) && lv.ownedMap() && !t.sliceShared(t.p.info.Uses[id]) {
			// xs[i] = v on a slice made by this function and not copied to another variable: Go panics unless 0 <= i < len(xs)
			mark := len(t.guards)
			ix := t.expr(l.Index)
			var v string
			if lv.kind == "vlist" {
				v = t.boxVal(x.Rhs[0])
			} else {
				v = t.expr(x.Rhs[0])
			}
			t.guards = append(t.guards, fmt.Sprintf("if (Z.ltb %s 0 || Z.leb (Z.of_nat (length %s)) %s) then Crash else", ix, lv.name, ix))
			return t.wrap(mark, "let "+lv.name+" := lset "+lv.name+" (Z.to_nat "+ix+") "+v+" in\n  "+next())
		}
		if t.wb && ok && lv.kind == "vmap" && (lv.origin != nil || lv.isState) {
			// m[k] = v on a map that is part of the tree being updated: the map variable changes, and so does what it was taken from
			mark := len(t.guards)
			k := t.expr(l.Index)
			v := t.boxVal(x.Rhs[0])
			pre := ""
			if t.cursor {
				// a fresh local map / slice stored into the tree: from now on another name for that entry
				src := unparen(x.Rhs[0])
				if c, ok := src.(*ast.CallExpr); ok && len(c.Args) == 1 {
					if tv, ok := t.p.info.Types[c.Fun]; ok && tv.IsType() {
						src = unparen(c.Args[0])
					}
				}
				if sid, ok := src.(*ast.Ident); ok {
					if sl := t.locals[t.p.info.Uses[sid]]; sl != nil && sl != lv && (sl.kind == "vmap" || sl.kind == "vlist") && sl.ownedMap() {
						t.fresh++
						kn := fmt.Sprintf("wbk%d", t.fresh)
						pre = "let " + kn + " := " + k + " in "
						k = kn
						sl.origin = &aliasOrigin{parent: lv, how: "mapkey", key: kn}
					}
				}
			}
			return t.wrap(mark, pre+"let "+lv.name+" := set "+k+" "+v+" "+lv.name+" in "+t.writeBackStr(lv)+"\n  "+next())
		}
		if !ok || lv.kind != "vmap" || !lv.ownedMap() {
			t.unsupported(x, "element assignment on something other than a map made by this function")
		}
		mark := len(t.guards)
		k := t.expr(l.Index)
		v := t.boxVal(x.Rhs[0])
		t.freezeCheck(x, x.Rhs[0])
		if lv.nilFlag != nil {
			if lv.nilUnknown {
				t.unsupported(x, "store into a map that was assigned from a call (it may be nil)")
			}
			t.guards = append(t.guards, "if negb "+lv.nilFlag.name+" then Crash else") // assignment to entry in nil map
		}
		return t.wrap(mark, "let "+lv.name+" := set "+k+" "+v+" "+lv.name+" in\n  "+next())
	}
	t.unsupported(x, "assignment target")
	return ""
}

// sliceShared: is the slice local obj used in the function other than as obj[i] (read or store), len(obj), a range
// operand, `return obj` or its own declaration / assignment from make?  Only then could an element store be seen
// through another name.
func (t *fnTr) sliceShared(obj types.Object) bool {
	shared := false
	var stack []ast.Node
	ast.Inspect(t.fn.Body, func(n ast.Node) bool {
		if n == nil {
			stack = stack[:len(stack)-1]
			return true
		}
		if id, ok := n.(*ast.Ident); ok && (t.p.info.Uses[id] == obj) && len(stack) > 0 {
			switch par := stack[len(stack)-1].(type) {
			case *ast.IndexExpr:
				if par.X != id {
					shared = true
				}
			case *ast.SliceExpr:
				// xs = xs[lo:hi] (re-slicing itself) is the only slicing use allowed
				okSelf := false
				if len(stack) >= 2 {
					if as, isAs := stack[len(stack)-2].(*ast.AssignStmt); isAs && len(as.Lhs) == 1 && len(as.Rhs) == 1 && as.Rhs[0] == ast.Expr(par) {
						if lid, isId := as.Lhs[0].(*ast.Ident); isId && t.p.info.Uses[lid] == obj {
							okSelf = true
						}
					}
				}
				if !okSelf {
					shared = true
				}
			case *ast.CallExpr:
				f, isId := par.Fun.(*ast.Ident)
				okUse := isId && f.Name == "len"
				// sort.Sort(T(obj)): the slice is permuted in place (translated as obj := sort_T obj)
				if tv, isConv := t.p.info.Types[par.Fun]; isConv && tv.IsType() && len(stack) >= 2 {
					if outer, isCall := stack[len(stack)-2].(*ast.CallExpr); isCall {
						if pk, nm, isPkg := t.pkgCall(outer); isPkg && pk == "sort" && nm == "Sort" {
							okUse = true
						}
					}
				}
				if !okUse {
					shared = true
				}
			case *ast.RangeStmt:
				if par.X != id {
					shared = true
				}
			case *ast.ReturnStmt:
			case *ast.AssignStmt:
				// obj = make(...) / obj := make(...): on the left only
				onLeft := false
				for _, l := range par.Lhs {
					onLeft = onLeft || l == ast.Expr(id)
				}
				if !onLeft {
					shared = true
				} else if len(par.Rhs) != 1 {
					shared = true
				} else if sl, isSl := par.Rhs[0].(*ast.SliceExpr); isSl {
					if sid, ok := sl.X.(*ast.Ident); !ok || t.p.info.Uses[sid] != obj {
						shared = true
					}
				} else if c, ok := par.Rhs[0].(*ast.CallExpr); !ok {
					shared = true
				} else if f, ok := c.Fun.(*ast.Ident); !ok || f.Name != "make" {
					shared = true
				}
			default:
				shared = true
			}
		}
		stack = append(stack, n)
		return true
	})
	return shared
}

// storeThroughAssert: v.(map[string]interface{})[k] = e on an interface{} local v: v becomes the map with the entry set
// (a panic when v does not hold a map).  Go updates the map object in place; the translation updates v alone, which is
// the same as long as no other name for that object is read afterwards - checked: every local that v was taken from
// (by range or assignment) is not mentioned after this statement.
func (t *fnTr) storeThroughAssert(x *ast.AssignStmt, l *ast.IndexExpr, ta *ast.TypeAssertExpr, next func() string) string {
	vl := t.lvarOf(ta.X)
	vid, isId := unparen(ta.X).(*ast.Ident)
	if vl == nil || !isId || vl.kind != "val" || t.kindOfType(t.p.info.Types[ta.Type].Type) != "vmap" {
		t.unsupported(x, "store through a type assertion other than v.(map[string]interface{})[k] = e on an interface{} local")
	}
	if t.wb {
		mark := len(t.guards)
		k := t.expr(l.Index)
		v := t.boxVal(x.Rhs[0])
		if len(t.guards) != mark {
			t.unsupported(x, "partial operation in a store through a type assertion")
		}
		return "(match " + vl.name + " with VMap mm_ => let " + vl.name + " := VMap (set " + k + " " + v + " mm_) in " + t.writeBackStr(vl) + "\n  " + next() + "\n  | _ => Crash end)"
	}
	vobj := t.p.info.Uses[vid]
	sources := map[types.Object]bool{}
	collect := func(e ast.Expr) {
		ast.Inspect(e, func(m ast.Node) bool {
			if id, ok := m.(*ast.Ident); ok {
				if o := t.p.info.Uses[id]; o != nil && o != vobj {
					if lv, ok := t.locals[o]; ok && (lv.kind == "vmap" || lv.kind == "val" || lv.kind == "vlist") {
						sources[o] = true
					}
				}
			}
			return true
		})
	}
	isV := func(e ast.Expr) bool {
		id, ok := e.(*ast.Ident)
		return ok && (t.p.info.Uses[id] == vobj || t.p.info.Defs[id] == vobj)
	}
	ast.Inspect(t.fn.Body, func(n ast.Node) bool {
		switch y := n.(type) {
		case *ast.AssignStmt:
			for i, lh := range y.Lhs {
				if isV(lh) {
					if len(y.Rhs) == len(y.Lhs) {
						collect(y.Rhs[i])
					} else {
						for _, r := range y.Rhs {
							collect(r)
						}
					}
				}
			}
		case *ast.RangeStmt:
			if (y.Key != nil && isV(y.Key)) || (y.Value != nil && isV(y.Value)) {
				collect(y.X)
			}
		}
		return true
	})
	ast.Inspect(t.fn.Body, func(n ast.Node) bool {
		if id, ok := n.(*ast.Ident); ok && sources[t.p.info.Uses[id]] && id.Pos() > x.End() {
			t.unsupported(x, "store through a type assertion while another name of the map ("+id.Name+") is still used afterwards")
		}
		return true
	})
	mark := len(t.guards)
	k := t.expr(l.Index)
	v := t.boxVal(x.Rhs[0])
	if len(t.guards) != mark {
		t.unsupported(x, "partial operation in a store through a type assertion")
	}
	return "(match " + vl.name + " with VMap mm_ => let " + vl.name + " := VMap (set " + k + " " + v + " mm_) in\n  " + next() + "\n  | _ => Crash end)"
}

// freezeCheck: the statement s stores / assigns the value of e somewhere.  When e is a map local M of this function,
// M and the stored value are the same object in Go, so a later store into M would be seen through the other name, which
// the translation (values, no heap) cannot express.  Accepted only when no such store can follow:
//
//	(a) the statements after s in its list contain no store into M and end in a return, or
//	(b) no store into M stands after s in the function text, and M is declared inside every loop that contains s
//	    (a fresh map in every iteration).
func (t *fnTr) freezeCheck(s ast.Stmt, e ast.Expr) {
	id, ok := unparen(e).(*ast.Ident)
	if !ok {
		return
	}
	obj := t.p.info.Uses[id]
	lv, ok := t.locals[obj]
	if !ok || (lv.kind != "vmap" && lv.kind != "bmap") || !lv.ownedMap() {
		return
	}
	storesInto := func(n ast.Node) bool {
		found := false
		ast.Inspect(n, func(m ast.Node) bool {
			if as, ok := m.(*ast.AssignStmt); ok {
				for _, l := range as.Lhs {
					if ix, ok := l.(*ast.IndexExpr); ok {
						if b, ok := ix.X.(*ast.Ident); ok && t.p.info.Uses[b] == obj {
							found = true
						}
					}
				}
			}
			return true
		})
		return found
	}
	// (a): walk outwards from s; the statements that follow it at every level up to the enclosing loop / function
	if t.parents == nil {
		t.parents = map[ast.Node]ast.Node{}
		var stack []ast.Node
		ast.Inspect(t.fn.Body, func(m ast.Node) bool {
			if m == nil {
				stack = stack[:len(stack)-1]
				return true
			}
			if len(stack) > 0 {
				t.parents[m] = stack[len(stack)-1]
			}
			stack = append(stack, m)
			return true
		})
	}
	okA := false
	var cur ast.Node = s
walk:
	for {
		par, ok := t.parents[cur]
		if !ok {
			okA = true // fell off the end of the function body: it returns
			break
		}
		var list []ast.Stmt
		switch pp := par.(type) {
		case *ast.BlockStmt:
			list = pp.List
		case *ast.CaseClause:
			list = pp.Body
		case *ast.ForStmt, *ast.RangeStmt:
			break walk // the next iteration may store into the map
		default:
			cur = par
			continue
		}
		idx := -1
		for i, st := range list {
			if ast.Node(st) == cur {
				idx = i
			}
		}
		if idx < 0 {
			break
		}
		following := list[idx+1:]
		for _, r := range following {
			if storesInto(r) {
				break walk
			}
		}
		if len(following) > 0 {
			switch following[len(following)-1].(type) {
			case *ast.ReturnStmt:
				okA = true
				break walk
			case *ast.BranchStmt:
				break walk
			}
		}
		cur = par
	}
	if okA {
		return
	}
	// (b)
	later := false
	ast.Inspect(t.fn.Body, func(m ast.Node) bool {
		if as, ok := m.(*ast.AssignStmt); ok && as.Pos() > s.End() {
			for _, l := range as.Lhs {
				if ix, ok := l.(*ast.IndexExpr); ok {
					if b, ok := ix.X.(*ast.Ident); ok && t.p.info.Uses[b] == obj {
						later = true
					}
				}
			}
		}
		return true
	})
	inOuterLoop := false
	var stack []ast.Node
	ast.Inspect(t.fn.Body, func(m ast.Node) bool {
		if m == nil {
			stack = stack[:len(stack)-1]
			return true
		}
		if m == ast.Node(s) {
			for _, anc := range stack {
				switch anc.(type) {
				case *ast.ForStmt, *ast.RangeStmt:
					if !(obj.Pos() > anc.Pos() && obj.Pos() < anc.End()) {
						inOuterLoop = true
					}
				}
			}
		}
		stack = append(stack, m)
		return true
	})
	if later || inOuterLoop {
		t.unsupported(s, "the map "+id.Name+" is stored / assigned here and may be stored into afterwards (aliasing)")
	}
}

// ownedMap: maps created by make in this function (parameters are never written: the translated functions are read-only).
func (lv *lvar) ownedMap() bool { return strings.HasPrefix(lv.name, "l_") }

// parseCall recognises strconv.ParseX(...) and returns the Gallina option-valued call and the result kind.
func (t *fnTr) parseCall(x *ast.CallExpr) (string, string, bool) {
	pkg, name, ok := t.pkgCall(x)
	if !ok || pkg != "strconv" {
		return "", "", false
	}
	argInt := func(i int, wants ...int64) int64 {
		v, ok := t.constInt(x.Args[i])
		for _, w := range wants {
			if ok && v == w {
				return v
			}
		}
		t.unsupported(x, fmt.Sprintf("strconv.%s with this argument %d", name, i))
		return 0
	}
	switch name {
	case "ParseInt":
		argInt(1, 10)
		bits := argInt(2, 32, 64)
		return fmt.Sprintf("(parse_int %d %s)", bits, t.expr(x.Args[0])), "int", true
	case "ParseUint":
		argInt(1, 10)
		bits := argInt(2, 32, 64)
		return fmt.Sprintf("(parse_uint %d %s)", bits, t.expr(x.Args[0])), "int", true
	case "ParseFloat":
		argInt(1, 64)
		return "(ParseFloat " + t.expr(x.Args[0]) + ")", "flt", true
	case "ParseBool":
		return "(parse_bool " + t.expr(x.Args[0]) + ")", "bool", true
	}
	return "", "", false
}

func (t *fnTr) switchStmt(x *ast.SwitchStmt, rest []ast.Stmt, end func() string) string {
	if x.Init != nil {
		t.unsupported(x, "switch with init")
	}
	type arm struct {
		conds []ast.Expr
		body  []ast.Stmt
	}
	var arms []arm
	var def []ast.Stmt
	var bodies [][]ast.Stmt
	hasDef := false
	for _, c := range x.Body.List {
		cc := c.(*ast.CaseClause)
		for _, st := range cc.Body {
			if b, ok := st.(*ast.BranchStmt); ok && b.Tok == token.FALLTHROUGH {
				t.unsupported(st, "fallthrough in switch")
			}
		}
		if cc.List == nil {
			hasDef, def = true, cc.Body
		} else {
			arms = append(arms, arm{cc.List, cc.Body})
		}
		bodies = append(bodies, cc.Body)
	}
	if !hasDef {
		bodies = append(bodies, nil)
	}
	var tagK, sw string
	mark := len(t.guards)
	if x.Tag != nil {
		tagK = t.kindOfExpr(x.Tag)
		if tagK != "str" && tagK != "int" && tagK != "byte" {
			t.unsupported(x, "switch on this type")
		}
		tag := t.expr(x.Tag)
		t.fresh++
		sw = fmt.Sprintf("sw%d", t.fresh)
		return t.branching(x, rest, end, bodies, func(tr func([]ast.Stmt) string) string {
			var trs []string
			for _, a := range arms {
				trs = append(trs, tr(a.body))
			}
			out := tr(def)
			for i := len(arms) - 1; i >= 0; i-- {
				var cs []string
				for _, e := range arms[i].conds {
					tv := t.p.info.Types[e]
					if tv.Value == nil {
						t.unsupported(e, "non-constant case")
					}
					c, _ := constTerm(tv.Value, tagK)
					if tagK == "byte" {
						v, _ := constant.Int64Val(tv.Value)
						c = fmt.Sprintf("(ascii_of_nat %d)", v)
					}
					cs = append(cs, c)
				}
				eq := "str_eqb"
				if tagK == "int" {
					eq = "Z.eqb"
				} else if tagK == "byte" {
					eq = "Ascii.eqb"
				}
				out = "if existsb (" + eq + " " + sw + ") [" + strings.Join(cs, "; ") + "]\n    then (" + trs[i] + ")\n    else (" + out + ")"
			}
			return t.wrap(mark, "let "+sw+" := "+tag+" in "+out)
		})
	}
	// tagless switch: an if-chain
	return t.branching(x, rest, end, bodies, func(tr func([]ast.Stmt) string) string {
		var trs []string
		for _, a := range arms {
			trs = append(trs, tr(a.body))
		}
		out := tr(def)
		for i := len(arms) - 1; i >= 0; i-- {
			if len(arms[i].conds) != 1 {
				t.unsupported(x, "tagless case with several conditions")
			}
			out = t.condIf(arms[i].conds[0], trs[i], out)
		}
		return out
	})
}

func (t *fnTr) typeSwitch(x *ast.TypeSwitchStmt, rest []ast.Stmt, end func() string) string {
	if x.Init != nil {
		t.unsupported(x, "type switch with init")
	}
	var guard *ast.TypeAssertExpr
	var bindId *ast.Ident
	switch a := x.Assign.(type) {
	case *ast.ExprStmt:
		guard, _ = a.X.(*ast.TypeAssertExpr)
	case *ast.AssignStmt:
		if len(a.Lhs) == 1 && len(a.Rhs) == 1 {
			bindId, _ = a.Lhs[0].(*ast.Ident)
			guard, _ = a.Rhs[0].(*ast.TypeAssertExpr)
		}
	}
	if guard == nil || guard.Type != nil {
		t.unsupported(x, "type switch guard")
	}
	// switch x := v.(type): in a single-type case x is the payload of that type (bound by the pattern); in a
	// multi-type or default case x is v itself
	var bindObjs map[*ast.CaseClause]types.Object
	if bindId != nil {
		bindObjs = map[*ast.CaseClause]types.Object{}
		for _, c := range x.Body.List {
			cc := c.(*ast.CaseClause)
			bindObjs[cc] = t.p.info.Implicits[cc]
		}
	}
	var bodies [][]ast.Stmt
	hasDef := false
	for _, c := range x.Body.List {
		cc := c.(*ast.CaseClause)
		bodies = append(bodies, cc.Body)
		if cc.List == nil {
			hasDef = true
		}
	}
	if !hasDef {
		bodies = append(bodies, nil)
	}
	mark := len(t.guards)
	isTok := false
	if lv := t.lvarOf(guard.X); lv != nil && lv.kind == "xtok" {
		isTok = true
	}
	v := t.expr(guard.X)
	return t.branching(x, rest, end, bodies, func(tr func([]ast.Stmt) string) string {
		var sb strings.Builder
		sb.WriteString("match " + v + " with")
		var def []ast.Stmt
		for _, c := range x.Body.List {
			if cc := c.(*ast.CaseClause); cc.List == nil {
				def = cc.Body
			}
		}
		if bindObjs != nil {
			if gl := t.lvarOf(guard.X); gl != nil {
				for _, c := range x.Body.List {
					cc := c.(*ast.CaseClause)
					if len(cc.List) != 1 && bindObjs[cc] != nil {
						t.locals[bindObjs[cc]] = gl // x is v itself in a multi-type / default case
					}
				}
			}
		}
		catchAll := false
		var dropped []string
		for _, c := range x.Body.List {
			cc := c.(*ast.CaseClause)
			if cc.List == nil {
				continue
			}
			if catchAll {
				t.unsupported(cc, "type switch case after `case interface{}`")
			}
			var pats []string
			for _, te := range cc.List {
				var pat string
				switch {
				case isTok:
					switch types.ExprString(te) {
					case "xml.StartElement":
						pat = "Some (TStart _ _)"
					case "xml.EndElement":
						pat = "Some (TEnd _)"
					case "xml.CharData":
						pat = "Some (TChar _)"
					case "xml.Comment":
						pat = "Some (TComment _)"
					case "xml.ProcInst":
						pat = "Some (TProcInst _ _)"
					case "xml.Directive":
						pat = "Some (TDirective _)"
					}
				default:
					if bindObjs != nil && len(cc.List) == 1 && !t.p.info.Types[te].IsNil() && !outsideUniverse(t.p.info.Types[te].Type) {
						// the bound variable of this case: the payload
						bn := "bx_"
						if obj := bindObjs[cc]; obj != nil {
							bp, bk := t.assertPat(t.p.info.Types[te].Type, "")
							if bp == "" {
								t.unsupported(te, "type switch case of this type")
							}
							lv := t.newLocal(obj, bindId.Name, bk)
							if t.wb && (bk == "vmap" || bk == "vlist") {
								if gl := t.lvarOf(guard.X); gl != nil {
									how := "asmap"
									if bk == "vlist" {
										how = "aslist"
									}
									lv.origin = &aliasOrigin{parent: gl, how: how}
								}
							}
							bn = lv.name
							pat = bp + bn
							break
						}
					}
					if it, ok := t.p.info.Types[te].Type.Underlying().(*types.Interface); ok && it.NumMethods() == 0 && len(cc.List) == 1 {
						// case interface{}: any non-nil value (the nil interface goes to the default clause)
						sb.WriteString("\n  | VNil => " + t.tryBody(func() string { return tr(def) }) + "\n  | _ => " + t.tryBody(func() string { return tr(cc.Body) }))
						catchAll = true
						continue
					}
					if t.p.info.Types[te].IsNil() {
						pat = "VNil"
					} else if outsideUniverse(t.p.info.Types[te].Type) {
						dropped = append(dropped, types.ExprString(te))
						continue
					} else {
						pat, _ = t.assertPat(t.p.info.Types[te].Type, "_")
					}
				}
				if pat == "" {
					t.unsupported(te, "type switch case of this type")
				}
				pats = append(pats, pat)
			}
			if len(pats) > 0 {
				var uniq []string
				seenP := map[string]bool{}
				for _, pt := range pats {
					if !seenP[pt] {
						seenP[pt] = true
						uniq = append(uniq, pt)
					}
				}
				pats = uniq
				body := cc.Body
				sb.WriteString("\n  | " + strings.Join(pats, " | ") + " => " + t.tryBody(func() string { return tr(body) }))
			}
		}
		if !catchAll {
			sb.WriteString("\n  | _ => " + t.tryBody(func() string { return tr(def) }))
		}
		sb.WriteString("\n  end")
		if len(dropped) > 0 {
			sb.WriteString(" (* alternatives outside the value universe dropped: " + strings.Join(dropped, ", ") + " *)")
		}
		return t.wrap(mark, sb.String())
	})
}

// loop emits a range loop over the Gallina list xs; bindVars registers the loop variables (after the loop-carried
// locals have been determined, so that the loop variables are not among them) and returns the element pattern.
func (t *fnTr) loop(s ast.Stmt, body *ast.BlockStmt, xs string, bindVars func() string, elemTy string, rest []ast.Stmt, end func() string) string {
	spec := t.nextRebuild
	t.nextRebuild = nil
	as := t.assigned(body.List)
	if spec != nil {
		present := false
		for _, a := range as {
			present = present || a == spec.acc
		}
		if !present {
			as = append(as, spec.acc)
		}
	}
	pat := bindVars()
	savedIn, savedEnd, savedBreak := t.inLoop, t.loopEnd, t.breakEnd
	t.inLoop = true
	t.loopEnd = func() string { return "Next " + tupleVal(as) }
	if spec != nil {
		// a rebuilt collection: every pass (also one ended by `continue`) appends the element as it is now
		t.loopEnd = func() string {
			return "let " + spec.acc.name + " := (app " + spec.acc.name + " [" + spec.elem() + "]) in Next " + tupleVal(as)
		}
	}
	t.breakEnd = func() string { return "Brk " + tupleVal(as) }
	saved := map[types.Object]bool{}
	for k, v := range t.escaped {
		saved[k] = v
	}
	savedS := t.curS
	t.curS = tupleType(as)
	b := t.stmts(body.List, t.loopEnd)
	t.curS = savedS
	t.escaped = saved
	t.inLoop, t.loopEnd, t.breakEnd = savedIn, savedEnd, savedBreak // what follows the loop belongs to the enclosing loop again
	st := tupleType(as)
	fin := ""
	if spec != nil {
		fin = spec.finish()
	}
	return "bindc (S := " + st + ") (range_loop (fun (st_ : " + st + ") (el_ : " + elemTy + ") => let " + tuplePat(as) + " := st_ in let " + pat + " := el_ in\n    (" +
		b + " : ctl " + st + " " + t.resultType() + ")) " + xs + " " + tupleVal(as) + ")\n  (fun " + tuplePat(as) + " => " + fin + t.stmts(rest, end) + ")"
}

type rebuildSpec struct {
	acc    *lvar
	elem   func() string
	finish func() string
}

// rebuildLoop: for _, v := range C { ... } where the body updates the tree below v (write-back mode): the collection is
// rebuilt from the elements as they are at the end of every pass and stored back where it came from.
func (t *fnTr) rebuildLoop(x *ast.RangeStmt, rest []ast.Stmt, end func() string) string {
	k := t.kindOfExpr(x.X)
	if k != "vlist" && k != "vmap" {
		t.unsupported(x, "range over this type with a body that updates the element in place")
	}
	if loopExits(x.Body) {
		t.unsupported(x, "a loop that updates its elements in place and can be left early")
	}
	// where the collection lives: Y in Y.(T), or the variable itself
	var coll *lvar
	how := ""
	if ta, ok := unparen(x.X).(*ast.TypeAssertExpr); ok {
		coll = t.lvarOf(ta.X)
		how = "assert"
	} else {
		coll = t.lvarOf(x.X)
	}
	if coll == nil {
		t.unsupported(x, "range over something other than a variable (or an assertion on one) with a body that updates the element in place")
	}
	mark := len(t.guards)
	xs := t.expr(x.X)
	acc := t.newLocal(nil, "rb", k)
	var kn, vn *lvar
	bind := func() string {
		vid := x.Value.(*ast.Ident)
		vn = t.newLocal(t.p.info.Defs[vid], vid.Name, "val")
		if k == "vlist" {
			if id, ok := x.Key.(*ast.Ident); x.Key != nil && (!ok || id.Name != "_") {
				t.unsupported(x, "index variable in a loop that updates its elements in place")
			}
			return vn.name
		}
		if id, ok := x.Key.(*ast.Ident); ok && id.Name != "_" {
			kn = t.newLocal(t.p.info.Defs[id], id.Name, "str")
		} else {
			kn = t.newLocal(nil, "rbk", "str")
		}
		return "'(" + kn.name + ", " + vn.name + ")"
	}
	t.nextRebuild = &rebuildSpec{
		acc: acc,
		elem: func() string {
			if k == "vlist" {
				return vn.name
			}
			return "(" + kn.name + ", " + vn.name + ")"
		},
		finish: func() string {
			if how == "assert" {
				return "let " + coll.name + " := " + boxByKind(acc) + " in " + t.writeBackStr(coll)
			}
			return "let " + coll.name + " := " + acc.name + " in " + t.writeBackStr(coll)
		},
	}
	ety := "value"
	if k == "vmap" {
		ety = "(str * value)"
	}
	out := t.loop(x, x.Body, xs, bind, ety, rest, end)
	return t.wrap(mark, "let "+acc.name+" : "+fnCoqType(k)+" := "+fnZero(k)+" in "+out)
}

func (t *fnTr) rangeStmt(x *ast.RangeStmt, rest []ast.Stmt, end func() string) string {
	if x.Tok == token.ASSIGN && t.kindOfExpr(x.X) == "vmap" && len(x.Body.List) == 1 {
		// for k, v = range m { break }: some entry of the map (its first in iteration order), k and v unchanged when it is empty
		if br, ok := x.Body.List[0].(*ast.BranchStmt); ok && br.Tok == token.BREAK && br.Label == nil {
			kl, vl := t.lvarOf(x.Key), t.lvarOf(x.Value)
			if kl == nil || vl == nil || kl.kind != "str" || vl.kind != "val" {
				t.unsupported(x, "range with = into something other than a string and an interface{} local")
			}
			mark := len(t.guards)
			m := t.expr(x.X)
			return t.wrap(mark, "let '("+kl.name+", "+vl.name+") := match "+m+" with (k_, v_) :: _ => (k_, v_) | [] => ("+kl.name+", "+vl.name+") end in\n  "+t.stmts(rest, end))
		}
	}
	if x.Tok == token.ASSIGN && t.kindOfExpr(x.X) == "vmap" && len(x.Body.List) == 0 {
		// for k, v = range m { }: after the loop k and v hold the entry visited last (unchanged when the map is empty)
		kl, vl := t.lvarOf(x.Key), t.lvarOf(x.Value)
		if kl == nil || vl == nil || kl.kind != "str" || vl.kind != "val" {
			t.unsupported(x, "range with = into something other than a string and an interface{} local")
		}
		mark := len(t.guards)
		m := t.expr(x.X)
		return t.wrap(mark, "let '("+kl.name+", "+vl.name+") := last "+m+" ("+kl.name+", "+vl.name+") in\n  "+t.stmts(rest, end))
	}
	if x.Tok != token.DEFINE {
		t.unsupported(x, "range without :=")
	}
	if t.wb {
		if vid, ok := x.Value.(*ast.Ident); ok && vid.Name != "_" && t.mutates(x.Body.List, t.p.info.Defs[vid]) {
			return t.rebuildLoop(x, rest, end)
		}
	}
	k := t.kindOfExpr(x.X)
	name := func(e ast.Expr, kind string) string {
		id, ok := e.(*ast.Ident)
		if e == nil || (ok && id.Name == "_") {
			return "_"
		}
		if !ok {
			t.unsupported(x, "range variable")
		}
		return t.newLocal(t.p.info.Defs[id], id.Name, kind).name
	}
	isBlank := func(e ast.Expr) bool {
		id, ok := e.(*ast.Ident)
		return e == nil || (ok && id.Name == "_")
	}
	mark := len(t.guards)
	var xs string
	if id, ok := x.X.(*ast.Ident); ok {
		if tbl, ok := t.tables[t.p.info.Uses[id]]; ok {
			xs = tbl
			k = "rows"
		}
	}
	if xs == "" {
		xs = t.expr(x.X)
	}
	// an index variable enumerates the list: elements are (index, member); X[i] is the member
	withIndex := func(ek, et string) string {
		if isBlank(x.Key) {
			return t.loop(x, x.Body, xs, func() string { return name(x.Value, ek) }, et, rest, end)
		}
		return t.loop(x, x.Body, "(enumerate "+xs+")", func() string {
			in := name(x.Key, "int")
			vn := name(x.Value, ek)
			if vn == "_" {
				vn = t.newLocal(nil, "elem", ek).name
			}
			if id, ok := x.Key.(*ast.Ident); ok {
				lv := t.locals[t.p.info.Defs[id]]
				lv.rangeOf = types.ExprString(unparen(x.X))
				lv.elem = vn
			}
			return "'(" + in + ", " + vn + ")"
		}, "(Z * "+et+")", rest, end)
	}
	var out string
	switch k {
	case "vrows":
		out = withIndex("vlist", "(list value)")
	case "rows":
		if _, isTable := t.tables[func() types.Object {
			if id, ok := x.X.(*ast.Ident); ok {
				return t.p.info.Uses[id]
			}
			return nil
		}()]; !isTable {
			out = withIndex("strs", "(list str)")
			break
		}
		if !isBlank(x.Key) {
			t.unsupported(x, "range over a table with an index variable")
		}
		out = t.loop(x, x.Body, xs, func() string { return name(x.Value, "strs") }, "(list str)", rest, end)
	case "strs":
		out = withIndex("str", "str")
	case "vlist":
		out = withIndex("val", "value")
	case "vmaps":
		out = withIndex("vmap", "entries")
	case "vmap":
		out = t.loop(x, x.Body, xs, func() string {
			kn, vn := name(x.Key, "str"), name(x.Value, "val")
			if t.wb && vn != "_" {
				// the entry is part of the tree below the map: remember where it came from
				var parent *lvar
				if ta, ok := unparen(x.X).(*ast.TypeAssertExpr); ok {
					parent = t.lvarOf(ta.X)
				} else {
					parent = t.lvarOf(x.X)
				}
				if kn == "_" {
					kn = t.newLocal(nil, "rk", "str").name
				}
				if vl := t.lvarOf(x.Value); vl != nil && parent != nil {
					vl.origin = &aliasOrigin{parent: parent, how: "mapkey", key: kn}
				}
			}
			return "'(" + kn + ", " + vn + ")"
		}, "(str * value)", rest, end)
	case "xattrs":
		// for _, v := range attrs: v is a COPY of the attribute (a struct): one local per field, assignable in the body
		rxs := xs
		if !isBlank(x.Key) {
			rxs = "(enumerate " + xs + ")"
		}
		ety := "xattr"
		if !isBlank(x.Key) {
			ety = "(Z * xattr)"
		}
		out = t.loop(x, x.Body, rxs, func() string {
			wrapIdx := func(p string) string {
				if isBlank(x.Key) {
					return p
				}
				return "'(" + name(x.Key, "int") + ", " + strings.TrimPrefix(p, "'") + ")"
			}
			vid, ok := x.Value.(*ast.Ident)
			if !ok || vid.Name == "_" {
				return wrapIdx("_")
			}
			obj := t.p.info.Defs[vid]
			lv := &lvar{name: "l_" + vid.Name, kind: "xattr", fields: map[string]*lvar{}}
			t.locals[obj] = lv
			sp := t.newLocal(nil, vid.Name+"_Name_Space", "str")
			lo := t.newLocal(nil, vid.Name+"_Name_Local", "str")
			va := t.newLocal(nil, vid.Name+"_Value", "str")
			lv.fields["Name.Space"], lv.fields["Name.Local"], lv.fields["Value"] = sp, lo, va
			lv.forder = []string{"Name.Space", "Name.Local", "Value"}
			return wrapIdx("'(Build_xattr (Build_xname " + sp.name + " " + lo.name + ") " + va.name + ")")
		}, ety, rest, end)
	case "bmap":
		// the entries in list order, which stands for the (arbitrary) hash-iteration order of the run
		out = t.loop(x, x.Body, xs, func() string { return "'(" + name(x.Key, "str") + ", " + name(x.Value, "bool") + ")" }, "(str * bool)", rest, end)
	default:
		if strings.HasPrefix(k, "recs:") && t.structs[k[5:]] != nil {
			// a slice of package structs: the element is a record (read through its projections)
			out = withIndex("rec:"+k[5:], "t_"+k[5:])
			break
		}
		t.unsupported(x, "range over this type")
	}
	return t.wrap(mark, out)
}

func firstStmt(b *ast.BlockStmt) ast.Stmt {
	if b == nil || len(b.List) == 0 {
		return nil
	}
	return b.List[0]
}

// for i := c; i < len(xs); i++ { body } where i is read only as xs[i]: a range over (skipn c xs).
func (t *fnTr) forStmt(x *ast.ForStmt, rest []ast.Stmt, end func() string) string {
	if x.Init == nil && x.Cond == nil && x.Post == nil {
		// for { ... }: every iteration must consume one event of the io.Reader parameter (checked: the body starts with a
		// Read on it), so 1 + the length of the schedule bounds the number of iterations
		var rl *lvar
		for _, sv := range t.state {
			if sv.kind == "reader" || sv.kind == "xdecoder" {
				rl = sv
			}
		}
		first, _ := firstStmt(x.Body).(*ast.AssignStmt)
		if rl == nil && first != nil && len(first.Rhs) == 1 {
			// ... or one token of a local *xml.Decoder (made from bytes: a finite token stream)
			if c, ok := first.Rhs[0].(*ast.CallExpr); ok {
				if se, ok := c.Fun.(*ast.SelectorExpr); ok {
					if dl := t.lvarOf(se.X); dl != nil && dl.kind == "xdecoder" {
						rl = dl
					}
				}
			}
		}
		isRead := false
		if first != nil && len(first.Rhs) == 1 {
			if c, ok := first.Rhs[0].(*ast.CallExpr); ok {
				if se, ok := c.Fun.(*ast.SelectorExpr); ok && (se.Sel.Name == "Read" || se.Sel.Name == "Token" || se.Sel.Name == "RawToken") {
					if rid, ok := se.X.(*ast.Ident); ok && rl != nil && t.locals[t.p.info.Uses[rid]] == rl && (se.Sel.Name == "Read") == (rl.kind == "reader") {
						isRead = true
					}
				}
			}
		}
		handlerLoop := false
		if !isRead && t.handler && len(x.Body.List) >= 2 {
			// the reader call may be preceded by one declaration of a fresh struct (mr := new(T))
			if f0, ok := x.Body.List[0].(*ast.AssignStmt); ok && f0.Tok == token.DEFINE && len(f0.Rhs) == 1 {
				if c0, ok := f0.Rhs[0].(*ast.CallExpr); ok {
					if id0, ok := c0.Fun.(*ast.Ident); ok && id0.Name == "new" {
						if f1, ok := x.Body.List[1].(*ast.AssignStmt); ok {
							first = f1
						}
					}
				}
			}
		}
		if !isRead && t.handler && first != nil && len(first.Rhs) == 1 && rl == nil {
			// ... or a file this function opened
			if c, ok := first.Rhs[0].(*ast.CallExpr); ok {
				for _, a := range c.Args {
					if al := t.lvarOf(a); al != nil && al.kind == "reader" {
						rl = al
					}
				}
			}
		}
		if !isRead && t.handler && first != nil && len(first.Rhs) == 1 && rl != nil && rl.kind == "reader" {
			// for { m, err := f(rdr) ... } with f a package function reading from the reader parameter: the fuel is 2 + the length
			// of the schedule (a pass that neither consumes an event nor leaves the loop exhausts it: Crash, which the theorems exclude
			// by what they assume of f)
			if c, ok := first.Rhs[0].(*ast.CallExpr); ok && t.isPkgFunc(c) {
				for _, a := range c.Args {
					if t.lvarOf(a) == rl {
						isRead, handlerLoop = true, true
					}
				}
			}
		}
		if !isRead {
			t.unsupported(x, "unbounded for loop that does not start with a Read on the io.Reader parameter")
		}
		as := t.assigned(x.Body.List)
		savedIn, savedEnd, savedBreak := t.inLoop, t.loopEnd, t.breakEnd
		t.inLoop = true
		t.loopEnd = func() string { return "Next " + tupleVal(as) }
		t.breakEnd = func() string { return "Brk " + tupleVal(as) }
		savedS := t.curS
		t.curS = tupleType(as)
		b := t.stmts(x.Body.List, t.loopEnd)
		t.curS = savedS
		t.inLoop, t.loopEnd, t.breakEnd = savedIn, savedEnd, savedBreak
		st := tupleType(as)
		fuelOf := "(length " + rl.name + ")"
		if handlerLoop {
			fuelOf = "(S (length " + rl.name + "))"
		}
		if rl.kind == "xdecoder" {
			fuelOf = "(length (fst " + rl.name + "))" // every iteration consumes a token, or returns at the end of the stream
		}
		return "bindc (S := " + st + ") (for_loop (S " + fuelOf + ") (fun (st_ : " + st + ") => let " + tuplePat(as) + " := st_ in\n    (" +
			b + " : ctl " + st + " " + t.resultType() + ")) " + tupleVal(as) + ")\n  (fun " + tuplePat(as) + " => " + t.stmts(rest, end) + ")"
	}
	init, ok1 := x.Init.(*ast.AssignStmt)
	cond, ok2 := x.Cond.(*ast.BinaryExpr)
	post, ok3 := x.Post.(*ast.IncDecStmt)
	if !ok1 || !ok2 || !ok3 || init.Tok != token.DEFINE || len(init.Lhs) != 1 || len(init.Rhs) != 1 || (cond.Op != token.LSS && cond.Op != token.LEQ) || post.Tok != token.INC {
		t.unsupported(x, "for statement other than `for i := a; i < b; i++` / `i <= b`")
	}
	if !t.isIndexOnlyLoop(init, cond, post, x.Body) {
		return t.countingFor(x, init, cond, post, rest, end)
	}
	iId, _ := init.Lhs[0].(*ast.Ident)
	start, okc := t.constInt(init.Rhs[0])
	ci, _ := cond.X.(*ast.Ident)
	pi, _ := post.X.(*ast.Ident)
	lc, _ := cond.Y.(*ast.CallExpr)
	if iId == nil || !okc || ci == nil || pi == nil || lc == nil || len(lc.Args) != 1 {
		t.unsupported(x, "for statement other than `for i := c; i < len(xs); i++`")
	}
	iObj := t.p.info.Defs[iId]
	lf, _ := lc.Fun.(*ast.Ident)
	xsId, _ := lc.Args[0].(*ast.Ident)
	if t.p.info.Uses[ci] != iObj || t.p.info.Uses[pi] != iObj || lf == nil || lf.Name != "len" || xsId == nil {
		t.unsupported(x, "for statement other than `for i := c; i < len(xs); i++`")
	}
	xsObj := t.p.info.Uses[xsId]
	xsLv, ok := t.locals[xsObj]
	if !ok || xsLv.kind != "strs" {
		t.unsupported(x, "index loop over something other than a local []string")
	}
	// neither i nor xs may be assigned in the body
	ast.Inspect(x.Body, func(n ast.Node) bool {
		if as, ok := n.(*ast.AssignStmt); ok {
			for _, l := range as.Lhs {
				if id, ok := l.(*ast.Ident); ok && (t.p.info.Uses[id] == iObj || t.p.info.Uses[id] == xsObj) {
					t.unsupported(as, "assignment to the loop index / the ranged slice inside the loop")
				}
			}
		}
		return true
	})
	return t.loop(x, x.Body, fmt.Sprintf("(skipn %d %s)", start, xsLv.name), func() string {
		el := t.newLocal(nil, xsId.Name+"_i", "str")
		t.locals[iObj] = &lvar{name: "?", kind: "int", elemOf: xsObj, elem: el.name}
		return el.name
	}, "str", rest, end)
}

// isIndexOnlyLoop: `for i := c; i < len(xs); i++` over a local []string with neither i nor xs assigned in the body
// (translated as a range over skipn c xs).
func (t *fnTr) isIndexOnlyLoop(init *ast.AssignStmt, cond *ast.BinaryExpr, post *ast.IncDecStmt, body *ast.BlockStmt) bool {
	if cond.Op != token.LSS {
		return false
	}
	iId, _ := init.Lhs[0].(*ast.Ident)
	_, okc := t.constInt(init.Rhs[0])
	ci, _ := cond.X.(*ast.Ident)
	pi, _ := post.X.(*ast.Ident)
	lc, _ := cond.Y.(*ast.CallExpr)
	if iId == nil || !okc || ci == nil || pi == nil || lc == nil || len(lc.Args) != 1 {
		return false
	}
	iObj := t.p.info.Defs[iId]
	lf, _ := lc.Fun.(*ast.Ident)
	xsId, _ := lc.Args[0].(*ast.Ident)
	if t.p.info.Uses[ci] != iObj || t.p.info.Uses[pi] != iObj || lf == nil || lf.Name != "len" || xsId == nil {
		return false
	}
	xsObj := t.p.info.Uses[xsId]
	xsLv, ok := t.locals[xsObj]
	if !ok || xsLv.kind != "strs" {
		return false
	}
	okBody := true
	ast.Inspect(body, func(n ast.Node) bool {
		switch y := n.(type) {
		case *ast.AssignStmt:
			for _, l := range y.Lhs {
				if id, ok := l.(*ast.Ident); ok && (t.p.info.Uses[id] == iObj || t.p.info.Uses[id] == xsObj) {
					okBody = false
				}
			}
		case *ast.Ident:
			_ = y
		}
		return true
	})
	// the index may only be used as xs[i]
	nUse, nIdx := 0, 0
	ast.Inspect(body, func(n ast.Node) bool {
		switch y := n.(type) {
		case *ast.Ident:
			if t.p.info.Uses[y] == iObj {
				nUse++
			}
		case *ast.IndexExpr:
			if xi, ok := y.X.(*ast.Ident); ok && t.p.info.Uses[xi] == xsObj {
				if ii, ok := y.Index.(*ast.Ident); ok && t.p.info.Uses[ii] == iObj {
					nIdx++
				}
			}
		}
		return true
	})
	if nUse != nIdx {
		return false
	}
	return okBody
}

// countingFor: for i := a; i < b; i++ { body }  (or i <= b) where the body assigns neither i nor anything b mentions.
//
//	let i := a in for_loop fuel (fun state => if i < b then body' else Brk state) state
//
// body' ends every normal pass and every `continue` with i := i + 1; `break` is Brk.  The bound b is evaluated at
// every test, as in Go; since nothing it mentions changes, b - a + 1 passes and the final failing test fit into the fuel
// 2 + (b - a + 1) computed at loop entry (exhaustion = Crash, excluded by the theorems).
func (t *fnTr) countingFor(x *ast.ForStmt, init *ast.AssignStmt, cond *ast.BinaryExpr, post *ast.IncDecStmt, rest []ast.Stmt, end func() string) string {
	iId, _ := init.Lhs[0].(*ast.Ident)
	ci, _ := cond.X.(*ast.Ident)
	pi, _ := post.X.(*ast.Ident)
	if iId == nil || ci == nil || pi == nil {
		t.unsupported(x, "for statement other than `for i := a; i < b; i++` / `i <= b`")
	}
	iObj := t.p.info.Defs[iId]
	if iObj == nil || t.p.info.Uses[ci] != iObj || t.p.info.Uses[pi] != iObj || t.kindOfType(iObj.Type()) != "int" {
		t.unsupported(x, "for statement other than `for i := a; i < b; i++` / `i <= b`")
	}
	as := t.assigned(x.Body.List)
	// nothing the bound mentions, and not i itself, may be assigned in the body
	inAs := map[*lvar]bool{}
	for _, lv := range as {
		inAs[lv] = true
	}
	ast.Inspect(cond.Y, func(n ast.Node) bool {
		if id, ok := n.(*ast.Ident); ok {
			if lv, ok := t.locals[t.p.info.Uses[id]]; ok && inAs[lv] {
				t.unsupported(x, "loop bound that mentions a variable assigned in the loop body")
			}
		}
		return true
	})
	ast.Inspect(x.Body, func(n ast.Node) bool {
		switch y := n.(type) {
		case *ast.AssignStmt:
			for _, l := range y.Lhs {
				if id, ok := l.(*ast.Ident); ok && t.p.info.Uses[id] == iObj {
					t.unsupported(y, "assignment to the loop counter inside the loop")
				}
			}
		case *ast.IncDecStmt:
			if id, ok := y.X.(*ast.Ident); ok && t.p.info.Uses[id] == iObj {
				t.unsupported(y, "assignment to the loop counter inside the loop")
			}
		case *ast.UnaryExpr:
			if id, ok := y.X.(*ast.Ident); ok && y.Op == token.AND && t.p.info.Uses[id] == iObj {
				t.unsupported(y, "address of the loop counter")
			}
		}
		return true
	})
	mark := len(t.guards)
	a := t.expr(init.Rhs[0])
	if len(t.guards) != mark {
		t.unsupported(x, "partial operation in the initial value of the loop counter")
	}
	il := t.newLocal(iObj, iId.Name, "int")
	b := t.expr(cond.Y)
	if len(t.guards) != mark {
		t.unsupported(x, "partial operation in the loop bound")
	}
	st := append([]*lvar{il}, as...)
	op := "Z.ltb"
	if cond.Op == token.LEQ {
		op = "Z.leb"
	}
	savedIn, savedEnd, savedBreak := t.inLoop, t.loopEnd, t.breakEnd
	t.inLoop = true
	t.loopEnd = func() string { return "let " + il.name + " := (" + il.name + " + 1)%Z in Next " + tupleVal(st) }
	t.breakEnd = func() string { return "Brk " + tupleVal(st) }
	saved := map[types.Object]bool{}
	for k, v := range t.escaped {
		saved[k] = v
	}
	savedS := t.curS
	t.curS = tupleType(st)
	body := t.stmts(x.Body.List, t.loopEnd)
	t.curS = savedS
	t.escaped = saved
	t.inLoop, t.loopEnd, t.breakEnd = savedIn, savedEnd, savedBreak
	sty := tupleType(st)
	fuel := "(S (S (Z.to_nat ((" + b + ") - (" + a + ") + 1))))"
	return "let " + il.name + " : Z := " + a + " in bindc (S := " + sty + ") (for_loop " + fuel + " (fun (st_ : " + sty + ") => let " + tuplePat(st) + " := st_ in\n    (if (" + op + " " + il.name + " " + b + ")\n    then (" +
		body + ")\n    else (Brk " + tupleVal(st) + ") : ctl " + sty + " " + t.resultType() + ")) " + tupleVal(st) + ")\n  (fun " + tuplePat(st) + " => " + t.stmts(rest, end) + ")"
}

// ---------------------------------------------------------------- constant tables

func constTable(p *pkgInfo, vs *ast.ValueSpec, i int) (string, bool) {
	if i >= len(vs.Values) {
		return "", false
	}
	cl, ok := vs.Values[i].(*ast.CompositeLit)
	if !ok {
		return "", false
	}
	var rows []string
	for _, re := range cl.Elts {
		rl, ok := re.(*ast.CompositeLit)
		if !ok {
			return "", false
		}
		var cells []string
		for _, ce := range rl.Elts {
			if call, ok := ce.(*ast.CallExpr); ok && len(call.Args) == 1 {
				ce = call.Args[0]
			}
			tv := p.info.Types[ce]
			if tv.Value == nil || tv.Value.Kind() != constant.String {
				return "", false
			}
			cells = append(cells, gstr(constant.StringVal(tv.Value)))
		}
		rows = append(rows, "["+strings.Join(cells, "; ")+"]")
	}
	return "[" + strings.Join(rows, ";\n   ") + "]", true
}

// ---------------------------------------------------------------- driver

// the functions translated into Pure_gen.v ("Recv.Method" for methods)
var pureFuncs = []string{"cast", "escapeChars", "parsePath", "getSubKeyMap", "hasSubKeys", "Map.PathForKeyShortest", "valuesForKeyPath", "hasKey", "hasKeyPath", "getLeafNodes",
	"Map.ValuesForKey", "Map.oldValuesForPath", "Map.ValuesForPath", "Map.LeafNodes", "getJson", "NewMapJsonReader", "NewMapJsonReaderRaw", "Map.Exists", "Map.ValueForPath", "Map.ValueForKey", "Map.LeafPaths", "Map.LeafValues", "valuesForArray", "Map.PathsForKey", "byteReader.ReadByte", "teeReader.ReadByte", "Maps.JsonString", "Maps.JsonStringIndent", "Maps.XmlString", "Maps.XmlStringIndent", "BeautifyXml", "Map.Copy", "Map.Json", "Map.Root", "NewMapXml", "NewMapXmlSeq", "lastKey", "xmlToMapParser", "xmlSeqToMapParser", "Map.JsonWriter", "Map.JsonWriterRaw", "Map.JsonIndentWriter", "Map.JsonIndentWriterRaw", "Map.XmlWriter", "Map.XmlIndentWriter", "MapSeq.XmlWriter", "MapSeq.XmlIndentWriter", "mapToXmlSeqIndent", "pretty.Indent", "pretty.Outdent", "elemListSeq.Less", "marshalMapToXmlIndent", "attrList.Less", "elemList.Less", "NewMapJson", "updateValueForKey", "updateValue", "updateValuesForKeyPath", "Map.UpdateValuesForPath", "prevValueByPath", "remove", "renameKey", "Map.Remove", "Map.RenameKey", "parentPath", "Map.SetValueForPath", "Map.Xml", "Map.XmlIndent", "MapSeq.Xml", "MapSeq.XmlIndent", "AnyXml", "AnyXmlIndent", "marshalJSON", "Map.JsonIndent", "Map.NewMap", "addNewVal", "copyMapShallow", "NewMapGob", "Map.Gob", "HandleXmlReader", "HandleXmlReaderRaw", "HandleJsonReader", "HandleJsonReaderRaw", "NewMapsFromJsonFile", "NewMapsFromXmlFile", "NewMapsFromJsonFileRaw", "NewMapsFromXmlFileRaw", "Maps.JsonFile", "Maps.JsonFileIndent", "Maps.XmlFile", "Maps.XmlFileIndent", "Map.ValueForPathString", "Map.ValueOrEmptyForPathString", "xmlToMap", "xmlSeqToMap", "NewMapFormattedXmlSeq"}

// joinMode: functions translated in join mode (see branching): the statements after an if / switch are translated
// once instead of into every branch.  The continuation-passing translation of the other functions is kept as it is
// (their proofs are about that shape).
var joinMode = map[string]bool{"mapToXmlSeqIndent": true, "marshalMapToXmlIndent": true}

// lenientFuncs: functions whose type-switch case bodies may leave the fragment (see tryBody)
var lenientFuncs = map[string]bool{"marshalMapToXmlIndent": true}

// fnPrefix: the prefix of the Gallina names of translated functions ("fn_" for package mxj, "xfn_" for x2j-wrapper)
var fnPrefix = "fn_"

// the functions of package x2j-wrapper translated into PureX2j_gen.v: its own tree walkers (C20)
var pureX2jFuncs = []string{"hasKey", "ValuesForKey", "hasKeyPath", "PathsForKey", "PathForKeyShortest", "valuesFromKeyPath", "ValuesFromKeyPath", "ValuesAtKeyPath"}

func genPureX2j(core, p *pkgInfo) string {
	savedF, savedP := pureFuncs, fnPrefix
	pureFuncs, fnPrefix = pureX2jFuncs, "xfn_"
	defer func() { pureFuncs, fnPrefix = savedF, savedP }()
	return genPure(p)
}

func genPure(p *pkgInfo) string {
	ioInfo := computeInout(p)
	vars, _ := pkgVars(p)
	byObj := map[types.Object]*gvar{}
	for _, g := range vars {
		byObj[g.obj] = g
	}
	var sb strings.Builder
	sb.WriteString("(* GENERATED by /verif/translator (go2v pure) from the current sources of /repo - do not edit.\n")
	sb.WriteString("   Functions of package " + p.name + " (" + filepath.Base(p.dir) + ") translated statement by statement (scheme and fragment: translator/pure.go;\n")
	sb.WriteString("   vocabulary: Gen/PureSupport.v).  Crash = a run-time panic. *)\n")
	sb.WriteString("From Mxj Require Import Base.Str Base.Value Gen.GenSupport Gen.Setters_gen Gen.PureSupport.\nLocal Open Scope string_scope.\n\n")

	proto := &fnTr{p: p}
	// structs of the package whose fields are all in the fragment
	structs := map[string]*types.Struct{}
	var snames []string
	for _, name := range p.pkg.Scope().Names() {
		if tn, ok := p.pkg.Scope().Lookup(name).(*types.TypeName); ok {
			if st, ok := tn.Type().Underlying().(*types.Struct); ok {
				okAll := st.NumFields() > 0
				for i := 0; i < st.NumFields(); i++ {
					k := proto.kindOfType(st.Field(i).Type())
					okAll = okAll && (k == "bool" || k == "str" || k == "int" || k == "val" || k == "vmap")
				}
				if okAll {
					structs[name] = st
					snames = append(snames, name)
				}
			}
		}
	}
	// constant tables
	tables := map[types.Object]string{}
	var tableText strings.Builder
	for _, f := range p.files {
		for _, d := range f.Decls {
			gd, ok := d.(*ast.GenDecl)
			if !ok || gd.Tok != token.VAR {
				continue
			}
			for _, sp := range gd.Specs {
				vs := sp.(*ast.ValueSpec)
				for i, id := range vs.Names {
					obj := p.info.Defs[id]
					if obj == nil {
						continue
					}
					sl, ok := obj.Type().Underlying().(*types.Slice)
					if !ok || proto.kindOfType(sl.Elem()) != "strs" {
						continue
					}
					if body, ok := constTable(p, vs, i); ok {
						tables[obj] = "tbl_" + id.Name
						fmt.Fprintf(&tableText, "(* %s: var %s *)\nDefinition tbl_%s : list (list str) :=\n  %s.\n\n",
							strings.TrimPrefix(p.fset.Position(id.Pos()).String(), p.dir+"/"), id.Name, id.Name, body)
					}
				}
			}
		}
	}
	for _, f := range p.files {
		for _, d := range f.Decls {
			if fn, ok := d.(*ast.FuncDecl); ok && fn.Body != nil {
				for _, o := range assignsPkgVar(p, fn) {
					if _, isT := tables[o]; isT {
						fail("%s: function %s assigns the constant table %s", p.fset.Position(fn.Pos()), fn.Name.Name, o.Name())
					}
				}
				ast.Inspect(fn.Body, func(n ast.Node) bool {
					if as, ok := n.(*ast.AssignStmt); ok {
						for _, l := range as.Lhs {
							e := l
							for {
								if ix, ok := e.(*ast.IndexExpr); ok {
									e = ix.X
									continue
								}
								break
							}
							if id, ok := e.(*ast.Ident); ok && e != l {
								if _, isT := tables[p.info.Uses[id]]; isT {
									fail("%s: function %s stores into the constant table %s", p.fset.Position(as.Pos()), fn.Name.Name, id.Name)
								}
							}
						}
					}
					return true
				})
			}
		}
	}

	// translate the functions
	var externs []extern
	var bodies strings.Builder
	usedStructs := map[string]bool{}
	found := map[string]bool{}
	for _, f := range p.files {
		for _, d := range f.Decls {
			fn, ok := d.(*ast.FuncDecl)
			if !ok || fn.Body == nil {
				continue
			}
			qname := fn.Name.Name
			if fn.Recv != nil {
				rt := p.info.Defs[fn.Recv.List[0].Names[0]].Type()
				if pt, ok := rt.(*types.Pointer); ok {
					rt = pt.Elem()
				}
				if n, ok := rt.(*types.Named); ok {
					qname = n.Obj().Name() + "." + qname
				}
			}
			want := false
			for _, n := range pureFuncs {
				want = want || n == qname
			}
			if !want {
				continue
			}
			found[qname] = true
			if len(assignsPkgVar(p, fn)) != 0 {
				fail("%s: function %s assigns a package-level variable: it is not pure", p.fset.Position(fn.Pos()), qname)
			}
			t := &fnTr{p: p, vars: byObj, fn: fn, locals: map[types.Object]*lvar{}, used: map[string]int{}, tables: tables,
				externs: &externs, structs: structs, escaped: map[types.Object]bool{}}
			t.sumJoin, t.curS, t.lenient = joinMode[qname], "unit", lenientFuncs[qname]
			t.qname = qname
			t.cursor = cursorFuncs[qname]
			t.handler = handlerFuncs[qname]
			t.io, t.wb, t.aliases = ioInfo, writeBackFuncs[qname], aliasGraph(p, fn)
			if fo, ok := p.info.Defs[fn.Name].(*types.Func); ok && t.wb && ioInfo.lens[fo] {
				t.lensRet = true
			}
			params := ""
			t.stateAt = map[int]*lvar{}
			if fobj, ok := p.info.Defs[fn.Name].(*types.Func); ok {
				t.self = fobj
			}
			// map[string]bool parameters that the body stores into are out-parameters too
			mutated := map[types.Object]bool{}
			ast.Inspect(fn.Body, func(n ast.Node) bool {
				if as, ok := n.(*ast.AssignStmt); ok {
					for _, l := range as.Lhs {
						if ix, ok := l.(*ast.IndexExpr); ok {
							if id, ok := ix.X.(*ast.Ident); ok {
								mutated[p.info.Uses[id]] = true
							}
						}
					}
				}
				return true
			})
			pos := 0
			addParam := func(id *ast.Ident, isRecv bool) {
				obj := p.info.Defs[id]
				k := t.kindOfType(obj.Type())
				if strings.HasPrefix(k, "rec:") {
					// a pointer to a struct of the package whose fields are readers, writers and byte buffers (the single-byte
					// adaptors): one parameter per field, each threaded as state (the callee reads / writes through them)
					pt, isPtr := obj.Type().(*types.Pointer)
					var st *types.Struct
					if isPtr {
						st, _ = pt.Elem().Underlying().(*types.Struct)
					}
					if st == nil || st.NumFields() == 0 {
						t.unsupported(id, "parameter type "+obj.Type().String())
					}
					lv := &lvar{name: "p_" + id.Name, kind: k, fields: map[string]*lvar{}}
					for i := 0; i < st.NumFields(); i++ {
						f := st.Field(i)
						fk := t.kindOfType(f.Type())
						if fk != "reader" && fk != "writer" && fk != "str" && fk != "int" && fk != "bool" {
							t.unsupported(id, "parameter type "+obj.Type().String()+" (field "+f.Name()+")")
						}
						fl := &lvar{name: "p_" + id.Name + "_" + f.Name(), kind: fk, isState: true}
						t.used[fl.name] = 1
						lv.fields[f.Name()] = fl
						lv.forder = append(lv.forder, f.Name())
						params += fmt.Sprintf(" (%s : %s)", fl.name, fnCoqType(fk))
						t.state = append(t.state, fl)
					}
					t.locals[obj] = lv
					if !isRecv {
						if t.structAt == nil {
							t.structAt = map[int]*lvar{}
						}
						t.structAt[pos] = lv
						pos++
					}
					return
				}
				if k == "" || k == "tok" {
					t.unsupported(id, "parameter type "+obj.Type().String())
				}
				if strings.HasPrefix(k, "cb:") && t.hst == nil {
					t.hst = &lvar{name: "p_hst", kind: "hstate", isState: true}
					t.used["p_hst"] = 1
				}
				if strings.HasPrefix(k, "recs:") {
					// a slice of (pointers to) structs, read only: field stores go through struct locals only
					if _, ok := structs[k[5:]]; !ok {
						t.unsupported(id, "parameter type "+obj.Type().String())
					}
					usedStructs[k[5:]] = true
				}
				n := "p_" + id.Name
				lv := &lvar{name: n, kind: k}
				t.locals[obj] = lv
				t.used[n] = 1
				params += fmt.Sprintf(" (%s : %s)", n, fnCoqType(k))
				if t.lensRet && t.lensParam == nil && (k == "val" || k == "vmap" || k == "vlist") {
					t.lensParam = lv
				}
				ioPos := pos
				if isRecv {
					ioPos = -1
				}
				inout := false
				if fo, ok := p.info.Defs[fn.Name].(*types.Func); ok && ioInfo.params[fo][ioPos] && (k == "val" || k == "vmap" || k == "vlist") {
					if !t.wb {
						t.unsupported(id, "the function updates the tree below this parameter in place (not translated in write-back mode)")
					}
					inout = true
				}
				if strings.HasPrefix(k, "ptr:") || (k == "bmap" && mutated[obj]) || k == "reader" || k == "xdecoder" || k == "writer" || inout {
					lv.isState = true
					t.state = append(t.state, lv)
					if !isRecv {
						t.stateAt[pos] = lv
					}
				} else if mutated[obj] {
					t.unsupported(id, "a parameter of this type is stored into")
				}
				if !isRecv {
					pos++
				}
			}
			if fn.Recv != nil {
				addParam(fn.Recv.List[0].Names[0], true)
			}
			for _, fld := range fn.Type.Params.List {
				for _, id := range fld.Names {
					addParam(id, false)
				}
			}
			if t.hst != nil {
				params += " (p_hst : hstate)"
				t.state = append(t.state, t.hst)
			}
			if t.handler {
				creates := false
				ast.Inspect(fn.Body, func(n ast.Node) bool {
					if c, ok := n.(*ast.CallExpr); ok {
						if pk, nm, isPkg := t.pkgCall(c); isPkg && pk == "os" && nm == "Create" {
							creates = true
						}
					}
					return true
				})
				if creates {
					t.fs = &lvar{name: "p_fs", kind: "fslog", isState: true}
					t.used["p_fs"] = 1
					params += " (p_fs : fslog)"
					t.state = append(t.state, t.fs)
				}
			}
			if fn.Type.Results == nil {
				if len(t.state) == 0 {
					t.unsupported(fn, "no result and no out-parameter")
				}
				fn.Type.Results = &ast.FieldList{}
			}
			for _, r := range fn.Type.Results.List {
				if len(r.Names) > 0 {
					t.unsupported(fn, "named results")
				}
				k := t.kindOfType(p.info.Types[r.Type].Type)
				if k == "" {
					t.unsupported(fn, "result type")
				}
				if strings.HasPrefix(k, "recs:") {
					usedStructs[k[5:]] = true
				}
				t.resKind = append(t.resKind, k)
			}
			if t.resultType() == "?" {
				t.unsupported(fn, "result list")
			}
			fallEnd := func() string { return "Fall" }
			if len(t.resKind) == 0 {
				fallEnd = func() string { return "Ret " + tupleVal(t.state) }
				for _, sv := range t.state {
					if strings.HasPrefix(sv.kind, "ptr:recs:") {
						usedStructs[sv.kind[9:]] = true
					}
				}
			}
			t.topEnd = fallEnd
			body := t.stmts(fn.Body.List, fallEnd)
			for _, lv := range t.locals {
				if strings.HasPrefix(lv.kind, "rec:") {
					usedStructs[lv.kind[4:]] = true
				}
			}
			where := strings.TrimPrefix(p.fset.Position(fn.Pos()).String(), p.dir+"/")
			// methods of the same name on several receivers are told apart by the receiver type
			defName := fn.Name.Name
			nSame := 0
			for _, n := range pureFuncs {
				if n == fn.Name.Name || strings.HasSuffix(n, "."+fn.Name.Name) {
					nSame++
				}
			}
			if nSame > 1 {
				defName = strings.ReplaceAll(qname, ".", "_")
			}
			if t.recurs {
				// recursion on explicit fuel: running out of fuel is a Crash, excluded by the theorems' fuel hypothesis
				fmt.Fprintf(&bodies, "(* %s: func %s (recursive: fuel) *)\nFixpoint "+fnPrefix+"%s (fuel : nat) (st : gstate)%s {struct fuel} : ctl unit %s :=\n  match fuel with\n  | O => Crash\n  | S fuel_ =>\n  %s\n  end.\n\n",
					where, qname, defName, params, t.resultType(), body)
			} else {
				fmt.Fprintf(&bodies, "(* %s: func %s *)\nDefinition "+fnPrefix+"%s (st : gstate)%s : ctl unit %s :=\n  %s.\n\n",
					where, qname, defName, params, t.resultType(), body)
			}
		}
	}
	for _, n := range pureFuncs {
		if !found[n] {
			fail("function %s not found in package mxj", n)
		}
	}
	sort.Strings(snames)
	for _, name := range snames {
		if !usedStructs[name] {
			continue
		}
		st := structs[name]
		fmt.Fprintf(&sb, "(* type %s struct *)\nRecord t_%s := mk_%s {", name, name, name)
		for i := 0; i < st.NumFields(); i++ {
			if i > 0 {
				sb.WriteString(";")
			}
			fmt.Fprintf(&sb, " %s_%s : %s", name, st.Field(i).Name(), fnCoqType(proto.kindOfType(st.Field(i).Type())))
		}
		sb.WriteString(" }.\n\n")
	}
	sb.WriteString(tableText.String())
	sb.WriteString("Section Pure.\n")
	sb.WriteString("Variable ParseFloat : str -> option flt.      (* strconv.ParseFloat(s, 64): Some (the %v text) when err == nil *)\n")
	for _, g := range vars {
		if g.kind == "tok" {
			if sig, ok := g.obj.Type().Underlying().(*types.Signature); ok && sig.Params().Len() == 1 && sig.Results().Len() == 1 {
				fmt.Fprintf(&sb, "Variable call_%s : str -> bool.        (* the function stored in %s, when it is not nil *)\n", g.name, g.name)
			}
		}
	}
	// in alphabetical order: the order of the Section variables is the order of the corresponding arguments of the
	// translated functions once the Section is closed, and must not depend on which function mentions a callee first
	if strings.Contains(bodies.String(), "hstate") {
		sb.WriteString("Variable hstate : Type.        (* the common state of the handler functions handed to the bulk handlers (handlers.go) *)\n")
	}
	sort.Slice(externs, func(i, j int) bool { return externs[i].name < externs[j].name })
	for _, e := range externs {
		fmt.Fprintf(&sb, "Variable %s : %s.        (* external call: another function of the package *)\n", e.name, e.typ)
	}
	sb.WriteString("\n")
	sb.WriteString(bodies.String())
	sb.WriteString("End Pure.\n")
	return sb.String()
}
