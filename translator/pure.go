package main

// Pure_gen.v: small pure functions of package mxj translated statement by statement
// (DESIGN.md section 4.2, "as built"): cast (xml.go) and escapeChars (escapechars.go), plus the
// constant table escapeChars ranges over.  The theorems of GenProofs/PureG.v state that the
// translated functions ARE the hand-written model functions (Model/XmlDec.v cast, escape_chars),
// so every theorem about those model functions is re-checked against what the code says now.
//
// Fragment (fails closed outside it):
//   statements   return e | local := e | local = e | if [x, err := strconv.ParseX(..); err == nil] cond {..} [else ..]
//                | switch tag { case consts: .. [default: ..] } (no fallthrough/break)
//                | for _, v := range <package-level table> { .. } with `continue` and one loop-carried local
//   expressions  the setters' fragment (package option variables, parameters, locals, !, &&, ||, ==, !=, <, >,
//                len, s[a:b] with constant bounds, string literals, strings.ToLower) plus: calls of the function
//                value checkTagToSkip, strconv.ParseInt/ParseUint(s, 10, 64), strconv.ParseFloat(s, 64),
//                strconv.ParseBool(s), math.IsNaN(f), math.IsInf(f, 0), []byte(s), string(b), bytes.Count,
//                bytes.Replace, v[i] with constant i on a table row.
//   result       interface{} boxed by the static type of the returned expression (string -> VStr, int64 -> VI64,
//                uint64 -> VU64, float64 -> VFlt, bool -> VBool) or a plain string.
// Standard-library calls are mapped to the Gallina functions named in callTable below; that mapping is part
// of the trusted base (Base/Str.v parse_int/parse_uint/parse_bool are the transcriptions validated by the
// C14 correspondence run; ParseFloat is the Section variable ParseFloat, an oracle).

import (
	"fmt"
	"go/ast"
	"go/constant"
	"go/token"
	"go/types"
	"strings"
)

type pureTr struct {
	t        *setterTr
	inLoop   bool
	carried  string // Gallina name of the loop-carried local
	tables   map[types.Object]string
	retBox   bool // result type is interface{}: box returned values
	stateTy  string
	resultTy string
}

// pureKind extends kindOf for the pure fragment.
func pureKind(t types.Type) string {
	switch u := t.Underlying().(type) {
	case *types.Basic:
		if u.Info()&types.IsFloat != 0 {
			return "flt"
		}
	case *types.Slice:
		if b, ok := u.Elem().Underlying().(*types.Basic); ok && b.Kind() == types.Byte {
			return "str"
		}
		if isByteSlice(u.Elem()) {
			return "strs"
		}
	case *types.Array:
		if isByteSlice(u.Elem()) {
			return "strs"
		}
	}
	return ""
}

func isByteSlice(t types.Type) bool {
	if sl, ok := t.Underlying().(*types.Slice); ok {
		if b, ok := sl.Elem().Underlying().(*types.Basic); ok && b.Kind() == types.Byte {
			return true
		}
	}
	return false
}

func pureCoqType(k string) string {
	if k == "flt" {
		return "flt"
	}
	return coqType(k)
}

func (p *pureTr) pkgCall(x *ast.CallExpr) (pkg, name string, ok bool) {
	se, isSel := x.Fun.(*ast.SelectorExpr)
	if !isSel {
		return
	}
	id, isId := se.X.(*ast.Ident)
	if !isId {
		return
	}
	pn, isPkg := p.t.p.info.Uses[id].(*types.PkgName)
	if !isPkg {
		return
	}
	return pn.Imported().Path(), se.Sel.Name, true
}

// call translates the extra call forms of the pure fragment.
func (p *pureTr) call(t *setterTr, x *ast.CallExpr) (string, bool) {
	// conversions []byte(s), string(b)
	if tv, ok := t.p.info.Types[x.Fun]; ok && tv.IsType() && len(x.Args) == 1 {
		from, to := t.kindOfExpr(x.Args[0]), pureKind(tv.Type)
		if to == "" {
			to = kindOf(tv.Type)
		}
		if from == "str" && to == "str" {
			return t.expr(x.Args[0]), true
		}
		t.unsupported(x, "conversion "+types.ExprString(x.Fun))
	}
	// a call of a package-level function VALUE (checkTagToSkip): Go panics when it is nil
	if id, ok := x.Fun.(*ast.Ident); ok {
		if g, ok := t.vars[t.p.info.Uses[id]]; ok && g.kind == "tok" {
			if len(x.Args) != 1 || t.kindOfExpr(x.Args[0]) != "str" {
				t.unsupported(x, "call of function value "+id.Name)
			}
			a := t.expr(x.Args[0])
			t.guards = append(t.guards, fmt.Sprintf("match g_%s st with None => %s | Some _ =>", g.name, t.crashV()))
			return "(call_" + g.name + " " + a + ")", true
		}
	}
	pkg, name, ok := p.pkgCall(x)
	if !ok {
		return "", false
	}
	argInt := func(i int, want int64) {
		v, ok := t.constInt(x.Args[i])
		if !ok || v != want {
			t.unsupported(x, fmt.Sprintf("%s.%s with argument %d other than %d", pkg, name, i, want))
		}
	}
	switch pkg + "." + name {
	case "math.IsNaN":
		return "(flt_is_nan " + t.expr(x.Args[0]) + ")", true
	case "math.IsInf":
		argInt(1, 0)
		return "(flt_is_inf " + t.expr(x.Args[0]) + ")", true
	case "bytes.Count":
		return "(bytes_count " + t.expr(x.Args[0]) + " " + t.expr(x.Args[1]) + ")", true
	case "bytes.Replace":
		return "(bytes_replace " + t.expr(x.Args[0]) + " " + t.expr(x.Args[1]) + " " + t.expr(x.Args[2]) + " " + t.expr(x.Args[3]) + ")", true
	}
	return "", false
}

// parseCall recognises `strconv.ParseX(...)` and returns the Gallina option-valued oracle call and the result kind.
func (p *pureTr) parseCall(e ast.Expr) (string, string, bool) {
	x, ok := e.(*ast.CallExpr)
	if !ok {
		return "", "", false
	}
	pkg, name, ok := p.pkgCall(x)
	if !ok || pkg != "strconv" {
		return "", "", false
	}
	t := p.t
	argInt := func(i int, want int64) {
		v, ok := t.constInt(x.Args[i])
		if !ok || v != want {
			t.unsupported(x, fmt.Sprintf("strconv.%s with argument %d other than %d", name, i, want))
		}
	}
	switch name {
	case "ParseInt":
		argInt(1, 10)
		argInt(2, 64)
		return "(parse_int 64 " + t.expr(x.Args[0]) + ")", "int", true
	case "ParseUint":
		argInt(1, 10)
		argInt(2, 64)
		return "(parse_uint 64 " + t.expr(x.Args[0]) + ")", "int", true
	case "ParseFloat":
		argInt(1, 64)
		return "(ParseFloat " + t.expr(x.Args[0]) + ")", "flt", true
	case "ParseBool":
		return "(parse_bool " + t.expr(x.Args[0]) + ")", "bool", true
	}
	return "", "", false
}

func (p *pureTr) box(e ast.Expr) string {
	t := p.t
	v := t.expr(e)
	if !p.retBox {
		return v
	}
	tv := t.p.info.Types[e]
	b, ok := tv.Type.Underlying().(*types.Basic)
	if !ok {
		t.unsupported(e, "returned value of type "+tv.Type.String())
	}
	switch b.Kind() {
	case types.String:
		return "(VStr " + v + ")"
	case types.Int64:
		return "(VI64 " + v + ")"
	case types.Uint64:
		return "(VU64 " + v + ")"
	case types.Float64:
		return "(VFlt " + v + ")"
	case types.Bool:
		return "(VBool " + v + ")"
	case types.Int:
		return "(VInt " + v + ")"
	}
	t.unsupported(e, "returned value of type "+tv.Type.String())
	return ""
}

// fallsThrough: may control reach the end of the statement list?
func fallsThrough(list []ast.Stmt) bool {
	if len(list) == 0 {
		return true
	}
	switch x := list[len(list)-1].(type) {
	case *ast.ReturnStmt:
		return false
	case *ast.BranchStmt:
		return x.Tok != token.CONTINUE
	case *ast.BlockStmt:
		return fallsThrough(x.List)
	case *ast.IfStmt:
		if x.Else == nil {
			return true
		}
		return fallsThrough(x.Body.List) || fallsThrough([]ast.Stmt{x.Else})
	}
	return true
}

// assignsOuter: does the statement list assign (=) a local that was declared outside it?
func (p *pureTr) assignsOuter(list []ast.Stmt) bool {
	declared := map[types.Object]bool{}
	found := false
	for _, s := range list {
		ast.Inspect(s, func(n ast.Node) bool {
			if as, ok := n.(*ast.AssignStmt); ok {
				for _, l := range as.Lhs {
					if id, ok := l.(*ast.Ident); ok {
						if as.Tok == token.DEFINE {
							declared[p.t.p.info.Defs[id]] = true
						} else if o := p.t.p.info.Uses[id]; o != nil && !declared[o] {
							found = true
						}
					}
				}
			}
			if _, ok := n.(*ast.IncDecStmt); ok {
				found = true
			}
			return true
		})
	}
	return found
}

func (p *pureTr) end() string {
	if p.inLoop {
		return "Next " + p.carried
	}
	return "Fall"
}

// stmts translates a statement list; `end` is what falling off its end evaluates to.
func (p *pureTr) stmts(list []ast.Stmt, end func() string) string {
	t := p.t
	if len(list) == 0 {
		return end()
	}
	s, rest := list[0], list[1:]
	next := func() string { return p.stmts(rest, end) }
	// sequencing of a branching statement with what follows it
	seq := func(s ast.Stmt, bodies [][]ast.Stmt, hasDefault bool, mk func(tr func([]ast.Stmt) string) string) string {
		if len(rest) == 0 {
			return mk(func(b []ast.Stmt) string { return p.stmts(b, end) })
		}
		anyFalls := !hasDefault
		for _, b := range bodies {
			if fallsThrough(b) {
				anyFalls = true
			}
		}
		if !anyFalls {
			t.unsupported(s, "statements after a branch that never falls through")
		}
		for _, b := range bodies {
			if fallsThrough(b) && p.assignsOuter(b) {
				t.unsupported(s, "a branch that falls through after assigning an outer local, followed by more statements")
			}
		}
		inner := mk(func(b []ast.Stmt) string { return p.stmts(b, func() string { return "Fall" }) })
		return "seqc (" + inner + ")\n  (fun _ => " + next() + ")"
	}
	switch x := s.(type) {
	case *ast.BlockStmt:
		return p.stmts(append(append([]ast.Stmt{}, x.List...), rest...), end)
	case *ast.EmptyStmt:
		return next()
	case *ast.ReturnStmt:
		if len(x.Results) != 1 {
			t.unsupported(s, "return form")
		}
		mark := len(t.guards)
		v := p.box(x.Results[0])
		return t.guarded(mark, "Ret "+v)
	case *ast.BranchStmt:
		if x.Tok == token.CONTINUE && p.inLoop && x.Label == nil {
			return "Next " + p.carried
		}
		t.unsupported(s, "branch statement "+x.Tok.String())
	case *ast.AssignStmt:
		if len(x.Lhs) != 1 || len(x.Rhs) != 1 || (x.Tok != token.ASSIGN && x.Tok != token.DEFINE) {
			t.unsupported(s, "assignment form")
		}
		id, ok := x.Lhs[0].(*ast.Ident)
		if !ok {
			t.unsupported(s, "assignment target")
		}
		mark := len(t.guards)
		val := t.expr(x.Rhs[0])
		var obj types.Object
		if x.Tok == token.DEFINE {
			obj = t.p.info.Defs[id]
			if t.kindOfExpr(x.Rhs[0]) == "" {
				t.unsupported(s, "local variable of this type")
			}
			t.locals[obj] = "l_" + id.Name
		} else {
			obj = t.p.info.Uses[id]
		}
		if _, isG := t.vars[obj]; isG {
			t.unsupported(s, "assignment to a package-level variable in a pure function")
		}
		n, ok := t.locals[obj]
		if !ok {
			t.unsupported(s, "assignment to "+id.Name)
		}
		return t.guarded(mark, "let "+n+" := "+val+" in\n  "+next())
	case *ast.IfStmt:
		var elseB []ast.Stmt
		if x.Else != nil {
			elseB = []ast.Stmt{x.Else}
		}
		if x.Init != nil {
			// if v, err := strconv.ParseX(...); err == nil { body }
			as, ok := x.Init.(*ast.AssignStmt)
			if !ok || as.Tok != token.DEFINE || len(as.Lhs) != 2 || len(as.Rhs) != 1 || x.Else != nil {
				t.unsupported(s, "if with this init statement")
			}
			vId, ok1 := as.Lhs[0].(*ast.Ident)
			eId, ok2 := as.Lhs[1].(*ast.Ident)
			cond, ok3 := x.Cond.(*ast.BinaryExpr)
			if !ok1 || !ok2 || !ok3 || cond.Op != token.EQL {
				t.unsupported(s, "if with this init statement")
			}
			cl, okl := cond.X.(*ast.Ident)
			if !okl || t.p.info.Uses[cl] != t.p.info.Defs[eId] || !t.p.info.Types[cond.Y].IsNil() {
				t.unsupported(s, "if-init condition other than `err == nil`")
			}
			// err must not be used in the body
			errObj := t.p.info.Defs[eId]
			ast.Inspect(x.Body, func(n ast.Node) bool {
				if id, ok := n.(*ast.Ident); ok && t.p.info.Uses[id] == errObj {
					t.unsupported(s, "error value used in the body")
				}
				return true
			})
			mark := len(t.guards)
			orc, _, ok := p.parseCall(as.Rhs[0])
			if !ok {
				t.unsupported(s, "if-init call other than strconv.ParseInt/ParseUint/ParseFloat/ParseBool")
			}
			name := "l_" + vId.Name
			t.locals[t.p.info.Defs[vId]] = name
			return seq(s, [][]ast.Stmt{x.Body.List}, false, func(tr func([]ast.Stmt) string) string {
				return t.guarded(mark, "match "+orc+" with\n  | Some "+name+" => "+tr(x.Body.List)+"\n  | None => "+tr(nil)+"\n  end")
			})
		}
		return seq(s, [][]ast.Stmt{x.Body.List, elseB}, x.Else != nil, func(tr func([]ast.Stmt) string) string {
			return t.condIf(x.Cond, tr(x.Body.List), tr(elseB))
		})
	case *ast.SwitchStmt:
		if x.Init != nil || x.Tag == nil {
			t.unsupported(s, "switch without tag / with init")
		}
		if t.kindOfExpr(x.Tag) != "str" {
			t.unsupported(s, "switch on a non-string")
		}
		var bodies [][]ast.Stmt
		type arm struct {
			consts []string
			body   []ast.Stmt
		}
		var arms []arm
		var def []ast.Stmt
		hasDef := false
		for _, c := range x.Body.List {
			cc := c.(*ast.CaseClause)
			for _, st := range cc.Body {
				if b, ok := st.(*ast.BranchStmt); ok && b.Tok != token.CONTINUE {
					t.unsupported(st, "break/fallthrough in switch")
				}
			}
			if cc.List == nil {
				hasDef, def = true, cc.Body
				bodies = append(bodies, cc.Body)
				continue
			}
			a := arm{body: cc.Body}
			for _, e := range cc.List {
				tv := t.p.info.Types[e]
				if tv.Value == nil || tv.Value.Kind() != constant.String {
					t.unsupported(e, "non-constant case")
				}
				a.consts = append(a.consts, gstr(constant.StringVal(tv.Value)))
			}
			arms = append(arms, a)
			bodies = append(bodies, cc.Body)
		}
		mark := len(t.guards)
		tag := t.expr(x.Tag)
		t.fresh++
		sw := fmt.Sprintf("sw%d", t.fresh)
		return seq(s, bodies, hasDef, func(tr func([]ast.Stmt) string) string {
			out := tr(def)
			for i := len(arms) - 1; i >= 0; i-- {
				out = "if existsb (str_eqb " + sw + ") [" + strings.Join(arms[i].consts, "; ") + "]\n    then (" + tr(arms[i].body) + ")\n    else (" + out + ")"
			}
			return t.guarded(mark, "let "+sw+" := "+tag+" in "+out)
		})
	case *ast.RangeStmt:
		if p.inLoop {
			t.unsupported(s, "nested loop")
		}
		tid, ok := x.X.(*ast.Ident)
		if !ok {
			t.unsupported(s, "range over a non-identifier")
		}
		tbl, ok := p.tables[t.p.info.Uses[tid]]
		if !ok {
			t.unsupported(s, "range over something other than a package-level constant table")
		}
		if k, ok := x.Key.(*ast.Ident); !ok || k.Name != "_" || x.Tok != token.DEFINE {
			t.unsupported(s, "range with an index variable")
		}
		vId, ok := x.Value.(*ast.Ident)
		if !ok {
			t.unsupported(s, "range value")
		}
		// exactly one loop-carried local
		var carried []types.Object
		ast.Inspect(x.Body, func(n ast.Node) bool {
			if as, ok := n.(*ast.AssignStmt); ok && as.Tok == token.ASSIGN {
				for _, l := range as.Lhs {
					if id, ok := l.(*ast.Ident); ok {
						o := t.p.info.Uses[id]
						if _, isLocal := t.locals[o]; isLocal {
							dup := false
							for _, c := range carried {
								dup = dup || c == o
							}
							if !dup {
								carried = append(carried, o)
							}
						}
					}
				}
			}
			return true
		})
		if len(carried) != 1 {
			t.unsupported(s, fmt.Sprintf("loop with %d loop-carried locals (exactly one is supported)", len(carried)))
		}
		cname := t.locals[carried[0]]
		ckind := pureKind(carried[0].Type())
		if ckind == "" {
			ckind = kindOf(carried[0].Type())
		}
		t.locals[t.p.info.Defs[vId]] = "l_" + vId.Name
		p.inLoop, p.carried = true, cname
		body := p.stmts(x.Body.List, func() string { return "Next " + cname })
		p.inLoop = false
		return "match range_loop (fun (" + cname + " : " + pureCoqType(ckind) + ") (l_" + vId.Name + " : list str) =>\n    (" + body + " : ctl " + pureCoqType(ckind) + " " + p.resultTy + ")) " + tbl + " " + cname + " with\n  | Next " + cname + " => " + next() +
			"\n  | Ret a => Ret a\n  | Fall => Fall\n  | Crash => Crash\n  end"
	}
	t.unsupported(s, fmt.Sprintf("statement %T", s))
	return ""
}

// constTable renders a package-level [][2][]byte (or [][]string) composite literal as a list of string lists.
func constTable(p *pkgInfo, vs *ast.ValueSpec, i int) (string, bool) {
	if i >= len(vs.Values) {
		return "", false
	}
	cl, ok := vs.Values[i].(*ast.CompositeLit)
	if !ok {
		return "", false
	}
	var rows []string
	for _, re := range cl.Elts {
		rl, ok := re.(*ast.CompositeLit)
		if !ok {
			return "", false
		}
		var cells []string
		for _, ce := range rl.Elts {
			// []byte(`..`) or a string constant
			if call, ok := ce.(*ast.CallExpr); ok && len(call.Args) == 1 {
				ce = call.Args[0]
			}
			tv := p.info.Types[ce]
			if tv.Value == nil || tv.Value.Kind() != constant.String {
				return "", false
			}
			cells = append(cells, gstr(constant.StringVal(tv.Value)))
		}
		rows = append(rows, "["+strings.Join(cells, "; ")+"]")
	}
	return "[" + strings.Join(rows, ";\n   ") + "]", true
}

// the functions translated into Pure_gen.v
var pureFuncs = []string{"cast", "escapeChars"}

func genPure(p *pkgInfo) string {
	vars, _ := pkgVars(p)
	byObj := map[types.Object]*gvar{}
	for _, g := range vars {
		byObj[g.obj] = g
	}
	var sb strings.Builder
	sb.WriteString("(* GENERATED by /verif/translator (go2v pure) from the current sources of /repo - do not edit.\n")
	sb.WriteString("   Small pure functions of package mxj translated statement by statement; Crash = a run-time panic,\n")
	sb.WriteString("   Fall = control fell off the end of a block.  Vocabulary: Gen/PureSupport.v. *)\n")
	sb.WriteString("From Mxj Require Import Base.Str Base.Value Gen.GenSupport Gen.Setters_gen Gen.PureSupport.\nLocal Open Scope string_scope.\n\n")

	// constant tables: package-level variables of type [][k][]byte that no function assigns
	tables := map[types.Object]string{}
	for _, f := range p.files {
		for _, d := range f.Decls {
			gd, ok := d.(*ast.GenDecl)
			if !ok || gd.Tok != token.VAR {
				continue
			}
			for _, sp := range gd.Specs {
				vs := sp.(*ast.ValueSpec)
				for i, id := range vs.Names {
					obj := p.info.Defs[id]
					if obj == nil || pureKind(obj.Type()) != "" || kindOf(obj.Type()) != "" {
						continue
					}
					if sl, ok := obj.Type().Underlying().(*types.Slice); !ok || pureKind(sl.Elem()) != "strs" {
						continue
					}
					if body, ok := constTable(p, vs, i); ok {
						tables[obj] = "tbl_" + id.Name
						fmt.Fprintf(&sb, "(* %s: var %s *)\nDefinition tbl_%s : list (list str) :=\n  %s.\n\n",
							strings.TrimPrefix(p.fset.Position(id.Pos()).String(), p.dir+"/"), id.Name, id.Name, body)
					}
				}
			}
		}
	}
	// a table must never be assigned
	for _, f := range p.files {
		for _, d := range f.Decls {
			if fn, ok := d.(*ast.FuncDecl); ok && fn.Body != nil {
				for _, o := range assignsPkgVar(p, fn) {
					if _, isT := tables[o]; isT {
						fail("%s: function %s assigns the constant table %s", p.fset.Position(fn.Pos()), fn.Name.Name, o.Name())
					}
				}
				// element stores into a table
				ast.Inspect(fn.Body, func(n ast.Node) bool {
					if as, ok := n.(*ast.AssignStmt); ok {
						for _, l := range as.Lhs {
							e := l
							for {
								if ix, ok := e.(*ast.IndexExpr); ok {
									e = ix.X
									continue
								}
								break
							}
							if id, ok := e.(*ast.Ident); ok && e != l {
								if _, isT := tables[p.info.Uses[id]]; isT {
									fail("%s: function %s stores into the constant table %s", p.fset.Position(as.Pos()), fn.Name.Name, id.Name)
								}
							}
						}
					}
					return true
				})
			}
		}
	}

	sb.WriteString("Section Pure.\n")
	sb.WriteString("Variable ParseFloat : str -> option flt.      (* strconv.ParseFloat(s, 64): Some (the %v text) when err == nil *)\n")
	for _, g := range vars {
		if g.kind == "tok" {
			if sig, ok := g.obj.Type().Underlying().(*types.Signature); ok && sig.Params().Len() == 1 && sig.Results().Len() == 1 {
				fmt.Fprintf(&sb, "Variable call_%s : str -> bool.        (* the function stored in %s, when it is not nil *)\n", g.name, g.name)
			}
		}
	}
	sb.WriteString("\n")
	found := map[string]bool{}
	for _, f := range p.files {
		for _, d := range f.Decls {
			fn, ok := d.(*ast.FuncDecl)
			if !ok || fn.Body == nil || fn.Recv != nil {
				continue
			}
			want := false
			for _, n := range pureFuncs {
				want = want || n == fn.Name.Name
			}
			if !want {
				continue
			}
			found[fn.Name.Name] = true
			if len(assignsPkgVar(p, fn)) != 0 {
				fail("%s: function %s assigns a package-level variable: it is not pure", p.fset.Position(fn.Pos()), fn.Name.Name)
			}
			t := &setterTr{p: p, vars: byObj, fn: fn, locals: map[types.Object]string{}, lkind: map[types.Object]string{}, crash: "Crash"}
			pt := &pureTr{t: t, tables: tables}
			t.pure = pt
			params := ""
			for _, fld := range fn.Type.Params.List {
				for _, id := range fld.Names {
					obj := p.info.Defs[id]
					k := kindOf(obj.Type())
					if k == "" {
						k = pureKind(obj.Type())
					}
					if k == "" || k == "tok" {
						t.unsupported(fld, "parameter type "+obj.Type().String())
					}
					t.locals[obj] = "p_" + id.Name
					params += fmt.Sprintf(" (p_%s : %s)", id.Name, pureCoqType(k))
				}
			}
			if fn.Type.Results == nil || len(fn.Type.Results.List) != 1 || len(fn.Type.Results.List[0].Names) > 0 {
				t.unsupported(fn, "result list")
			}
			rtT := p.info.Types[fn.Type.Results.List[0].Type].Type
			if _, isIface := rtT.Underlying().(*types.Interface); isIface {
				pt.retBox, pt.resultTy = true, "value"
			} else if kindOf(rtT) == "str" {
				pt.resultTy = "str"
			} else {
				t.unsupported(fn, "result type "+rtT.String())
			}
			body := pt.stmts(fn.Body.List, func() string { return "Fall" })
			fmt.Fprintf(&sb, "(* %s: func %s *)\nDefinition fn_%s (st : gstate)%s : ctl unit %s :=\n  %s.\n\n",
				strings.TrimPrefix(p.fset.Position(fn.Pos()).String(), p.dir+"/"), fn.Name.Name, fn.Name.Name, params, pt.resultTy, body)
		}
	}
	for _, n := range pureFuncs {
		if !found[n] {
			fail("function %s not found in package mxj", n)
		}
	}
	sb.WriteString("End Pure.\n")
	return sb.String()
}
