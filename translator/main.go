// go2v: the Go -> Gallina translator of /verif (DESIGN.md section 4.2).
//
// It parses and type-checks the CURRENT sources of clbanning/mxj (package mxj in
// -repo and the three legacy sub-packages) with go/parser + go/types and writes
//
//	Setters_gen.v  the package-level option variables as a record, their initial
//	               values, and every function that assigns one of them, translated
//	               statement by statement (C18)
//	Effects_gen.v  per function: package variables read / written, heap writes
//	               through parameters, call edges with the argument flow (C17, C18)
//	Wrappers_gen.v thin wrappers as compositions of the functions they call (C16, C20)
//	Sites_gen.v    inventory of potentially panicking operations (C15)
//	Pure_gen.v     cast and escapeChars translated statement by statement, and the constant table (C14, C05)
//
// The translator fails closed: a construct outside its fragment in a function it
// must translate makes it exit non-zero and name the construct.
package main

import (
	"flag"
	"fmt"
	"go/ast"
	"go/build"
	"go/importer"
	"go/parser"
	"go/token"
	"go/types"
	"os"
	"path/filepath"
	"sort"
	"strings"
)

type pkgInfo struct {
	dir   string
	name  string
	fset  *token.FileSet
	files []*ast.File
	info  *types.Info
	pkg   *types.Package
}

// load parses the Go files of dir that the default build configuration selects
// (so files guarded by the verif tag are NOT part of what is translated) and type-checks them.
func load(fset *token.FileSet, dir, importPath string, imp types.Importer) (*pkgInfo, error) {
	bp, err := build.Default.ImportDir(dir, 0)
	if err != nil {
		return nil, fmt.Errorf("%s: %v", dir, err)
	}
	names := append([]string{}, bp.GoFiles...)
	sort.Strings(names)
	p := &pkgInfo{dir: dir, name: bp.Name, fset: fset}
	for _, n := range names {
		f, err := parser.ParseFile(fset, filepath.Join(dir, n), nil, parser.ParseComments)
		if err != nil {
			return nil, err
		}
		p.files = append(p.files, f)
	}
	p.info = &types.Info{
		Types:      map[ast.Expr]types.TypeAndValue{},
		Defs:       map[*ast.Ident]types.Object{},
		Uses:       map[*ast.Ident]types.Object{},
		Selections: map[*ast.SelectorExpr]*types.Selection{},
		Implicits:  map[ast.Node]types.Object{},
	}
	conf := types.Config{Importer: imp, Error: func(err error) {}}
	pkg, err := conf.Check(importPath, fset, p.files, p.info)
	if err != nil {
		return nil, fmt.Errorf("type-check %s: %v", dir, err)
	}
	p.pkg = pkg
	return p, nil
}

// chainImporter serves the already checked mxj package to the sub-packages and falls back to the source importer.
type chainImporter struct {
	known map[string]*types.Package
	next  types.Importer
}

func (c chainImporter) Import(path string) (*types.Package, error) {
	if p, ok := c.known[path]; ok {
		return p, nil
	}
	return c.next.Import(path)
}

func fail(format string, a ...interface{}) {
	fmt.Fprintf(os.Stderr, "go2v: "+format+"\n", a...)
	os.Exit(1)
}

func main() {
	repo := flag.String("repo", "/repo", "source tree of clbanning/mxj")
	out := flag.String("out", "", "output directory (coq/Gen)")
	flag.Parse()
	what := flag.Args()
	if len(what) == 0 {
		what = []string{"setters", "effects", "wrappers", "sites", "pure", "purex2j"}
	}
	if *out == "" {
		fail("-out required")
	}
	if err := os.MkdirAll(*out, 0o755); err != nil {
		fail("%v", err)
	}
	fset := token.NewFileSet()
	src := importer.ForCompiler(fset, "source", nil)
	core, err := load(fset, *repo, "github.com/clbanning/mxj/v2", src)
	if err != nil {
		fail("%v", err)
	}
	imp := chainImporter{known: map[string]*types.Package{"github.com/clbanning/mxj/v2": core.pkg, "github.com/clbanning/mxj": core.pkg}, next: src}
	var subs []*pkgInfo
	for _, d := range []string{"j2x", "x2j", "x2j-wrapper"} {
		dir := filepath.Join(*repo, d)
		if _, err := os.Stat(dir); err != nil {
			continue
		}
		sp, err := load(fset, dir, "github.com/clbanning/mxj/v2/"+d, imp)
		if err != nil {
			fail("%v", err)
		}
		subs = append(subs, sp)
	}
	for _, w := range what {
		switch w {
		case "setters":
			writeFile(*out, "Setters_gen.v", genSetters(core))
		case "effects":
			writeFile(*out, "Effects_gen.v", genEffects(core, subs))
		case "wrappers":
			writeFile(*out, "Wrappers_gen.v", genWrappers(core, subs))
		case "sites":
			writeFile(*out, "Sites_gen.v", genSites(core))
		case "pure":
			writeFile(*out, "Pure_gen.v", genPure(core))
		case "inout":
			io := computeInout(core)
			for fo, ps := range io.params {
				var is []int
				for i := range ps {
					is = append(is, i)
				}
				sort.Ints(is)
				fmt.Println(fo.FullName(), is)
			}
			for fo := range io.lens {
				fmt.Println("lens:", fo.FullName())
			}
		case "purex2j":
			for _, sp := range subs {
				if sp.name == "x2j" && strings.HasSuffix(sp.dir, "x2j-wrapper") {
					writeFile(*out, "PureX2j_gen.v", genPureX2j(core, sp))
				}
			}
		default:
			fail("unknown output %q", w)
		}
	}
}

func writeFile(dir, name, content string) {
	p := filepath.Join(dir, name)
	old, err := os.ReadFile(p)
	if err == nil && string(old) == content {
		fmt.Printf("go2v: %s unchanged\n", name)
		return // keep the timestamp: make does not rebuild what depends on it
	}
	if err := os.WriteFile(p, []byte(content), 0o644); err != nil {
		fail("%v", err)
	}
	fmt.Printf("go2v: %s written (%d bytes)\n", name, len(content))
}
