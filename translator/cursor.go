package main

// Cursor mode (write-back mode, functions in cursorFuncs): a function that walks DOWN the map it updates with one variable -
//
//	m := (*n); for ... { nm := <a new map>; m[k] = nm (or: a list holding nm); m = nm }; m[k] = v
//
// In Go the stores through m reach the root because m is another name for a map inside it.  The translation keeps, beside the
// cursor m, the function m_put that rebuilds the root from the map the cursor stands on: after every store through m the root
// is m_put m; when the cursor moves to a map nm that was stored below it, m_put becomes "put nm back where it was stored, then
// the old m_put".  A fresh local map or slice that is stored into the tree (m[k] = nm, a = append(a, nm), m[k] = a) is from
// then on another name for that place (its origin), until it is assigned again.
//
// Assumptions beyond write-back mode: the maps and slices involved are fresh locals (made in this function or by a callee that
// returns a made map) or the cursor itself; a slice that holds an alias is not appended to after it has been stored.

import (
	"fmt"
	"go/ast"
	"go/types"
)

var cursorFuncs = map[string]bool{"addNewVal": true}

// cursorInit: m := (*n)
func (t *fnTr) cursorInit(x *ast.AssignStmt, st *ast.StarExpr, obj types.Object, name string, next func() string) string {
	if !t.cursor || !t.wb {
		t.unsupported(x, "a map taken from behind a pointer parameter (another name for it) outside cursor mode")
	}
	id, ok := unparen(st.X).(*ast.Ident)
	var root *lvar
	if ok {
		root = t.locals[t.p.info.Uses[id]]
	}
	if root == nil || root.kind != "ptr:vmap" {
		t.unsupported(x, "cursor taken from something other than a *map parameter")
	}
	lv := t.newLocal(obj, name, "vmap")
	put := t.newLocal(nil, name+"_put", "putmap")
	lv.putVar = put
	lv.origin = &aliasOrigin{parent: root, how: "root"}
	return "let " + lv.name + " : entries := " + root.name + " in let " + put.name + " : (entries -> entries) := (fun x_ => x_) in\n  " + next()
}

// chainTo: the origins from lv up to (excluding) the cursor cur; ok = the chain ends at cur
func chainTo(lv, cur *lvar) bool {
	for n := 0; lv != nil && n < 16; n++ {
		if lv == cur {
			return true
		}
		if lv.origin == nil {
			return false
		}
		lv = lv.origin.parent
	}
	return false
}

// writeBackUpTo: the lets that store lv back where it came from, up to and including the update of stop (not beyond)
func (t *fnTr) writeBackUpTo(lv, stop *lvar) string {
	out := ""
	for lv != nil && lv != stop && lv.origin != nil {
		o := lv.origin
		p := o.parent
		switch o.how {
		case "mapkey":
			out += "let " + p.name + " := set " + o.key + " " + boxByKind(lv) + " " + p.name + " in "
		case "listidx":
			out += "let " + p.name + " := lset " + p.name + " " + o.key + " " + boxByKind(lv) + " in "
		case "same":
			out += "let " + p.name + " := " + lv.name + " in "
		default:
			t.unsupported(t.fn, "cursor moved along an alias of kind "+o.how)
		}
		lv = p
	}
	return out
}

// cursorAssign: an assignment X = E to a map / slice local in cursor mode.  done = it was handled here.
func (t *fnTr) cursorAssign(x *ast.AssignStmt, lv *lvar, next func() string) (string, bool) {
	rhs := unparen(x.Rhs[0])
	// ---- the cursor moves: m = nm  /  m = m[k].(map[string]interface{})
	if lv.putVar != nil {
		if rid, ok := rhs.(*ast.Ident); ok {
			nl := t.locals[t.p.info.Uses[rid]]
			if nl == nil || nl.kind != "vmap" || nl == lv || !chainTo(nl, lv) {
				t.unsupported(x, "the cursor is moved to a map that was not stored below it")
			}
			if nl.nilFlag != nil {
				t.guards = append(t.guards, "if negb "+nl.nilFlag.name+" then Crash else") // a nil map as cursor: the next store panics
			}
			mark := len(t.guards) - 1
			if nl.nilFlag == nil {
				mark = len(t.guards)
			}
			put := lv.putVar.name
			clo := "(let put_ := " + put + " in fun x_ : entries => let " + nl.name + " := x_ in " + t.writeBackUpTo(nl, lv) + "put_ " + lv.name + ")"
			out := "let " + put + " := " + clo + " in let " + lv.name + " := " + nl.name + " in "
			nl.origin = &aliasOrigin{parent: lv, how: "same"}
			return t.wrap(mark, out+"\n  "+next()), true
		}
		if ta, ok := rhs.(*ast.TypeAssertExpr); ok && ta.Type != nil {
			if ix, ok := unparen(ta.X).(*ast.IndexExpr); ok {
				if bid, ok := unparen(ix.X).(*ast.Ident); ok && t.locals[t.p.info.Uses[bid]] == lv && t.kindOfType(t.p.info.Types[ta.Type].Type) == "vmap" {
					mark := len(t.guards)
					k := t.expr(ix.Index)
					t.fresh++
					kn := fmt.Sprintf("wbk%d", t.fresh)
					t.fresh++
					an := fmt.Sprintf("as%d", t.fresh)
					put := lv.putVar.name
					t.guards = append(t.guards, "match (match lookup "+kn+" "+lv.name+" with Some (VMap a_) => Some a_ | _ => None end) with None => Crash | Some "+an+" =>")
					body := "let " + put + " := (let put_ := " + put + " in let old_ := " + lv.name + " in fun x_ : entries => put_ (set " + kn + " (VMap x_) old_)) in let " + lv.name + " := " + an + " in\n  " + next()
					return "let " + kn + " := " + k + " in " + t.wrap(mark, body), true
				}
			}
		}
		t.unsupported(x, "assignment to the cursor of this form")
	}
	// ---- a = append(a, e1, ..., en) with a fresh map local among the elements: it is from now on member len(a)+i of a
	if c, ok := rhs.(*ast.CallExpr); ok && lv.kind == "vlist" {
		if id, ok := c.Fun.(*ast.Ident); ok && id.Name == "append" && !c.Ellipsis.IsValid() && len(c.Args) >= 2 {
			if _, isB := t.p.info.Uses[id].(*types.Builtin); isB {
				if a0, ok := unparen(c.Args[0]).(*ast.Ident); ok && t.locals[t.p.info.Uses[a0]] == lv {
					pre := ""
					for i, e := range c.Args[1:] {
						src := unparen(e)
						if cc, ok := src.(*ast.CallExpr); ok && len(cc.Args) == 1 {
							if tv, ok := t.p.info.Types[cc.Fun]; ok && tv.IsType() {
								src = unparen(cc.Args[0])
							}
						}
						if sid, ok := src.(*ast.Ident); ok {
							if sl := t.locals[t.p.info.Uses[sid]]; sl != nil && sl.kind == "vmap" && sl.ownedMap() && sl.putVar == nil {
								if sl.idxVar == nil {
									t.unsupported(x, "a map appended to a slice that was not declared with `var`")
								}
								pre += fmt.Sprintf("let %s := (length %s + %d)%%nat in ", sl.idxVar.name, lv.name, i)
								sl.origin = &aliasOrigin{parent: lv, how: "listidx", key: sl.idxVar.name}
							}
						}
					}
					if lv.origin != nil {
						t.unsupported(x, "append to a slice that has been stored into the tree")
					}
					mark := len(t.guards)
					val := t.expr(x.Rhs[0])
					return t.wrap(mark, pre+"let "+lv.name+" := "+val+" in\n  "+next()), true
				}
			}
		}
	}
	// ---- any other assignment gives the variable a new value: it is no longer a name for a place in the tree
	if _, isId := rhs.(*ast.Ident); isId {
		t.unsupported(x, "a map / slice variable assigned from another variable in cursor mode")
	}
	lv.origin = nil
	return "", false
}
