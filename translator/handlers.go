package main

// Handler mode (functions in handlerFuncs): the bulk handlers HandleXmlReader[Raw] / HandleJsonReader[Raw].
//
//   - A parameter of type func(Map) bool, func(error) bool, func(Map, []byte) bool or func(error, []byte) bool is a HANDLER: user
//     code that may have effects and whose answers may depend on what it has seen.  It is translated as a function of the
//     handlers' common state `hstate` (an abstract type: Gen/PureSupport.v) and its arguments to its answer and the new state;
//     the state is a hidden parameter p_hst of the translated function, threaded through every handler call and returned with
//     the results.  Handlers are assumed non-nil and not to panic.
//   - The Map a reader function (NewMapXmlReader, ...) returns may be nil, and the handlers test it: in these functions such
//     a callee is the Section variable ext_<name>_nil whose Map result is `option entries` (None = nil).
//   - time.Sleep / <-time.After change no value.
//   - The loop `for { m, err := f(rdr); ... }` runs on fuel 2 + the length of the reader's schedule.
//   - The file readers NewMapsFromJsonFile / NewMapsFromXmlFile are translated in the same mode: os.Stat / os.Open are the
//     environment functions ext_os_Stat (is it a regular file) and ext_os_Open (the schedule of Read results the file delivers),
//     `defer fh.Close()` changes no value.
//   - The file writers Maps.JsonFile[Indent] / Maps.XmlFile[Indent]: the files a function creates are a hidden state `p_fs : fslog`
//     (name and content, in creation order); os.Create is ext_os_Create (can it be created) and adds an empty entry, fh.WriteString
//     appends to that entry (the Go code ignores the count and the error of the write as well).

import (
	"go/ast"
	"strings"
)

var handlerFuncs = map[string]bool{"HandleXmlReader": true, "HandleXmlReaderRaw": true, "HandleJsonReader": true, "HandleJsonReaderRaw": true,
	"NewMapsFromJsonFile": true, "NewMapsFromXmlFile": true, "NewMapsFromJsonFileRaw": true, "NewMapsFromXmlFileRaw": true,
	"Maps.JsonFile": true, "Maps.JsonFileIndent": true, "Maps.XmlFile": true, "Maps.XmlFileIndent": true}

// handlerCall: ok := h(a1, ..., an) with h a handler parameter.  done = it was handled here.
func (t *fnTr) handlerCall(x *ast.AssignStmt, c *ast.CallExpr, next func() string) (string, bool) {
	fid, ok := c.Fun.(*ast.Ident)
	if !ok {
		return "", false
	}
	fl := t.locals[t.p.info.Uses[fid]]
	if fl == nil || !strings.HasPrefix(fl.kind, "cb:") {
		return "", false
	}
	ks := strings.Split(fl.kind[3:], ",")
	if len(c.Args) != len(ks) || len(x.Lhs) != 1 {
		t.unsupported(x, "handler call form")
	}
	lid, isId := x.Lhs[0].(*ast.Ident)
	if !isId {
		t.unsupported(x, "handler result assigned to something other than a variable")
	}
	mark := len(t.guards)
	var args []string
	for i, a := range c.Args {
		al := t.lvarOf(a)
		switch ks[i] {
		case "vmap":
			args = append(args, t.expr(a))
		case "errc":
			if al == nil || al.kind != "errv" {
				t.unsupported(x, "error argument of a handler other than an error variable")
			}
			args = append(args, "(match "+al.name+" with Some e_ => e_ | None => EOther end)")
		default:
			args = append(args, t.expr(a))
		}
	}
	var vn string
	switch {
	case lid.Name == "_":
		vn = "_"
	case x.Tok.String() == ":=":
		vn = t.newLocal(t.p.info.Defs[lid], lid.Name, "bool").name
	default:
		lv, ok := t.locals[t.p.info.Uses[lid]]
		if !ok || lv.kind != "bool" {
			t.unsupported(x, "handler result assigned to a variable of another type")
		}
		vn = lv.name
	}
	return t.wrap(mark, "let '("+vn+", "+t.hst.name+") := "+fl.name+" "+t.hst.name+" "+strings.Join(args, " ")+" in\n  "+next()), true
}
