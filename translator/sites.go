package main

import (
	"fmt"
	"go/ast"
	"go/constant"
	"go/token"
	"go/types"
	"sort"
	"strings"
)

// Sites_gen.v: the inventory of operations that can panic at run time, per function of package mxj,
// after syntactic discharge:
//
//   assert   x.(T) without comma-ok          discharged inside `switch x.(type)` under a case that lists only T
//   index    s[i] on a slice / string / array discharged when i is the variable of `for i := range s` /
//                                             `for i := 0; i < len(s); i++`, or when an enclosing condition
//                                             or an earlier early-exit `if` of an enclosing block tests len(s)
//   slice    s[a:b]                           same rules on len(s); `s[:len(s)-k]`-style bounds count as tested
//   deref    *p of a pointer-typed local / result
//   nilmap   m[k] = v where m is a map variable declared without a value (`var m map[...]`)
//
// GenProofs/SitesG.v compares the per-function counts with the hand-written table that says which model
// function represents them (as explicit Panic branches or as branches proved unreachable).

type site struct {
	fn, kind, text string
	line           int
}

type siteScan struct {
	p       *pkgInfo
	fn      *ast.FuncDecl
	out     []site
	guards  []lguard          // lower bounds on len(x) established by enclosing conditions / earlier early exits
	ranged  map[string]string // index variable -> ranged expression text
	tsw     []tswCtx
	nilmaps map[types.Object]bool
}

type lguard struct {
	expr string
	lb   int64
}

type tswCtx struct {
	expr string   // the switched expression text
	typs []string // the types of the current case clause
}

func (s *siteScan) text(e ast.Expr) string { return types.ExprString(e) }

func (s *siteScan) add(kind string, e ast.Expr) {
	s.out = append(s.out, site{fn: "", kind: kind, text: s.text(e), line: s.p.fset.Position(e.Pos()).Line})
}

// lenOf returns x when e is len(x).
func (s *siteScan) lenOf(e ast.Expr) (string, bool) {
	if c, ok := e.(*ast.CallExpr); ok {
		if id, ok := c.Fun.(*ast.Ident); ok && id.Name == "len" && len(c.Args) == 1 {
			return s.text(c.Args[0]), true
		}
	}
	return "", false
}

func (s *siteScan) constOf(e ast.Expr) (int64, bool) {
	if tv, ok := s.p.info.Types[e]; ok && tv.Value != nil && tv.Value.Kind() == constant.Int {
		return constant.Int64Val(tv.Value)
	}
	return 0, false
}

// lenNames lists the x of every len(x) in e (for the loop rule `for i := 0; i < len(x); i++`).
func (s *siteScan) lenNames(e ast.Expr) []string {
	var out []string
	if e == nil {
		return nil
	}
	ast.Inspect(e, func(n ast.Node) bool {
		if ex, ok := n.(ast.Expr); ok {
			if x, ok := s.lenOf(ex); ok {
				out = append(out, x)
			}
		}
		return true
	})
	return out
}

// bounds returns the lower bounds on lengths that hold when cond is true (neg = false) or false (neg = true).
func (s *siteScan) bounds(cond ast.Expr, neg bool) []lguard {
	switch x := cond.(type) {
	case nil:
		return nil
	case *ast.ParenExpr:
		return s.bounds(x.X, neg)
	case *ast.UnaryExpr:
		if x.Op == token.NOT {
			return s.bounds(x.X, !neg)
		}
	case *ast.BinaryExpr:
		if (x.Op == token.LAND && !neg) || (x.Op == token.LOR && neg) {
			return append(s.bounds(x.X, neg), s.bounds(x.Y, neg)...)
		}
		if x.Op == token.LAND || x.Op == token.LOR {
			return nil
		}
		l, r, op := x.X, x.Y, x.Op
		flip := map[token.Token]token.Token{token.LSS: token.GTR, token.GTR: token.LSS, token.LEQ: token.GEQ, token.GEQ: token.LEQ, token.EQL: token.EQL, token.NEQ: token.NEQ}
		if _, ok := s.lenOf(r); ok { // c < len(x)  ==>  len(x) > c
			l, r = r, l
			op = flip[op]
		}
		xt, ok := s.lenOf(l)
		if !ok {
			return nil
		}
		c, isConst := s.constOf(r)
		if !isConst {
			return nil // i < len(x) with a variable i: the loop / range rule handles it
		}
		if neg {
			op = map[token.Token]token.Token{token.LSS: token.GEQ, token.GTR: token.LEQ, token.LEQ: token.GTR, token.GEQ: token.LSS, token.EQL: token.NEQ, token.NEQ: token.EQL}[op]
		}
		switch op {
		case token.GTR:
			return []lguard{{xt, c + 1}}
		case token.GEQ, token.EQL:
			return []lguard{{xt, c}}
		case token.NEQ:
			if c == 0 {
				return []lguard{{xt, 1}}
			}
		}
	}
	return nil
}

// lb is the best known lower bound on len(x).
func (s *siteScan) lb(x string) int64 {
	var best int64
	for _, g := range s.guards {
		if g.expr == x && g.lb > best {
			best = g.lb
		}
	}
	return best
}

// need is the length x must have for the index / bound expression e to be in range (-1: unknown).
func (s *siteScan) need(x string, e ast.Expr, isIndex bool) int64 {
	if e == nil {
		return 0
	}
	if c, ok := s.constOf(e); ok {
		if isIndex {
			return c + 1
		}
		return c
	}
	// len(x) - k
	if be, ok := e.(*ast.BinaryExpr); ok && be.Op == token.SUB {
		if y, ok := s.lenOf(be.X); ok && y == x {
			if k, ok := s.constOf(be.Y); ok {
				if isIndex && k >= 1 {
					return k
				}
				if !isIndex {
					return k
				}
			}
		}
	}
	if y, ok := s.lenOf(e); ok && y == x && !isIndex {
		return 0
	}
	return -1
}

func exits(b *ast.BlockStmt) bool {
	if b == nil || len(b.List) == 0 {
		return false
	}
	switch b.List[len(b.List)-1].(type) {
	case *ast.ReturnStmt, *ast.BranchStmt:
		return true
	}
	return false
}

func (s *siteScan) expr(e ast.Expr) {
	if e == nil {
		return
	}
	switch x := e.(type) {
	case *ast.TypeAssertExpr:
		s.expr(x.X)
		if x.Type == nil {
			return // the guard of a type switch
		}
		xt, tt := s.text(x.X), s.text(x.Type)
		for i := len(s.tsw) - 1; i >= 0; i-- {
			c := s.tsw[i]
			if c.expr == xt && len(c.typs) == 1 && c.typs[0] == tt {
				return // discharged by the enclosing type switch
			}
		}
		s.add("assert", e)
	case *ast.IndexExpr:
		s.expr(x.X)
		s.expr(x.Index)
		t := s.p.info.Types[x.X].Type
		if t == nil {
			return
		}
		switch t.Underlying().(type) {
		case *types.Map:
			return
		case *types.Slice, *types.Basic, *types.Array, *types.Pointer:
		default:
			return
		}
		xt := s.text(x.X)
		if id, ok := x.Index.(*ast.Ident); ok {
			if r, ok := s.ranged[id.Name]; ok && r == xt {
				return
			}
		}
		if n := s.need(xt, x.Index, true); n >= 0 && s.lb(xt) >= n {
			return
		}
		s.add("index", e)
	case *ast.SliceExpr:
		s.expr(x.X)
		s.expr(x.Low)
		s.expr(x.High)
		s.expr(x.Max)
		xt := s.text(x.X)
		nl, nh := s.need(xt, x.Low, false), s.need(xt, x.High, false)
		if nl >= 0 && nh >= 0 && s.lb(xt) >= nl && s.lb(xt) >= nh {
			return
		}
		s.add("slice", e)
	case *ast.StarExpr:
		s.expr(x.X)
		if _, isPtr := s.p.info.Types[x.X].Type.(*types.Pointer); isPtr {
			if id, ok := x.X.(*ast.Ident); ok {
				// parameters are the caller's responsibility; locals come from calls
				if o := s.p.info.Uses[id]; o != nil {
					if v, ok := o.(*types.Var); ok && !isParam(s.fn, s.p, v) {
						s.add("deref", e)
					}
				}
			}
		}
	case *ast.CallExpr:
		s.expr(x.Fun)
		for _, a := range x.Args {
			s.expr(a)
		}
	case *ast.BinaryExpr:
		s.expr(x.X)
		if x.Op == token.LAND {
			// the right operand is evaluated only when the left one holds
			n := len(s.guards)
			s.guards = append(s.guards, s.bounds(x.X, false)...)
			s.expr(x.Y)
			s.guards = s.guards[:n]
			return
		}
		s.expr(x.Y)
	case *ast.UnaryExpr:
		s.expr(x.X)
	case *ast.ParenExpr:
		s.expr(x.X)
	case *ast.SelectorExpr:
		s.expr(x.X)
	case *ast.CompositeLit:
		for _, el := range x.Elts {
			s.expr(el)
		}
	case *ast.KeyValueExpr:
		s.expr(x.Key)
		s.expr(x.Value)
	case *ast.FuncLit:
		s.block(x.Body)
	}
}

func isParam(fn *ast.FuncDecl, p *pkgInfo, v *types.Var) bool {
	for _, fld := range fn.Type.Params.List {
		for _, id := range fld.Names {
			if p.info.Defs[id] == v {
				return true
			}
		}
	}
	if fn.Recv != nil {
		for _, fld := range fn.Recv.List {
			for _, id := range fld.Names {
				if p.info.Defs[id] == v {
					return true
				}
			}
		}
	}
	return false
}

func (s *siteScan) block(b *ast.BlockStmt) {
	if b == nil {
		return
	}
	n := len(s.guards)
	for _, st := range b.List {
		s.stmt(st)
		// an early exit on a len test guards the rest of the block
		if ifs, ok := st.(*ast.IfStmt); ok && ifs.Else == nil && exits(ifs.Body) {
			s.guards = append(s.guards, s.bounds(ifs.Cond, true)...)
		}
	}
	s.guards = s.guards[:n]
}

func (s *siteScan) stmt(st ast.Stmt) {
	switch x := st.(type) {
	case nil:
	case *ast.BlockStmt:
		s.block(x)
	case *ast.ExprStmt:
		s.expr(x.X)
	case *ast.AssignStmt:
		commaOk := len(x.Lhs) == 2 && len(x.Rhs) == 1
		for _, r := range x.Rhs {
			if ta, ok := r.(*ast.TypeAssertExpr); ok && commaOk {
				s.expr(ta.X)
				continue
			}
			s.expr(r)
		}
		for _, l := range x.Lhs {
			if ie, ok := l.(*ast.IndexExpr); ok {
				if id, ok := ie.X.(*ast.Ident); ok {
					if o := s.p.info.Uses[id]; o != nil && s.nilmaps[o] {
						s.add("nilmap", l)
					}
				}
			}
			s.expr(l)
		}
		// a map variable that gets a value is no longer a nil-map candidate in this (flow-insensitive) scan only if assigned unconditionally at top level; keep it simple: never cleared
	case *ast.DeclStmt:
		if gd, ok := x.Decl.(*ast.GenDecl); ok {
			for _, sp := range gd.Specs {
				if vs, ok := sp.(*ast.ValueSpec); ok {
					for _, v := range vs.Values {
						s.expr(v)
					}
					if len(vs.Values) == 0 {
						for _, id := range vs.Names {
							if o := s.p.info.Defs[id]; o != nil {
								if _, isMap := o.Type().Underlying().(*types.Map); isMap {
									s.nilmaps[o] = true
								}
							}
						}
					}
				}
			}
		}
	case *ast.IncDecStmt:
		s.expr(x.X)
	case *ast.ReturnStmt:
		for _, r := range x.Results {
			s.expr(r)
		}
	case *ast.IfStmt:
		s.stmt(x.Init)
		s.expr(x.Cond)
		n := len(s.guards)
		s.guards = append(s.guards, s.bounds(x.Cond, false)...)
		s.block(x.Body)
		s.guards = s.guards[:n]
		s.guards = append(s.guards, s.bounds(x.Cond, true)...)
		s.stmt(x.Else)
		s.guards = s.guards[:n]
	case *ast.ForStmt:
		s.stmt(x.Init)
		s.expr(x.Cond)
		s.stmt(x.Post)
		n := len(s.guards)
		// for i := 0; i < len(x); i++
		if be, ok := x.Cond.(*ast.BinaryExpr); ok {
			if id, ok := be.X.(*ast.Ident); ok {
				if be.Op == token.LSS {
					for _, lt := range s.lenNames(be.Y) {
						s.ranged[id.Name] = lt
					}
				}
			}
		}
		s.guards = append(s.guards, s.bounds(x.Cond, false)...)
		s.block(x.Body)
		s.guards = s.guards[:n]
	case *ast.RangeStmt:
		s.expr(x.X)
		if id, ok := x.Key.(*ast.Ident); ok && id.Name != "_" {
			s.ranged[id.Name] = s.text(x.X)
		}
		s.block(x.Body)
	case *ast.SwitchStmt:
		s.stmt(x.Init)
		s.expr(x.Tag)
		for _, c := range x.Body.List {
			cc := c.(*ast.CaseClause)
			for _, e := range cc.List {
				s.expr(e)
			}
			for _, b := range cc.Body {
				s.stmt(b)
			}
		}
	case *ast.TypeSwitchStmt:
		s.stmt(x.Init)
		var sw ast.Expr
		bound := ""
		switch a := x.Assign.(type) {
		case *ast.AssignStmt:
			if ta, ok := a.Rhs[0].(*ast.TypeAssertExpr); ok {
				sw = ta.X
				bound = a.Lhs[0].(*ast.Ident).Name
			}
		case *ast.ExprStmt:
			if ta, ok := a.X.(*ast.TypeAssertExpr); ok {
				sw = ta.X
			}
		}
		s.expr(sw)
		for _, c := range x.Body.List {
			cc := c.(*ast.CaseClause)
			var typs []string
			for _, e := range cc.List {
				typs = append(typs, s.text(e))
			}
			ctx := tswCtx{expr: s.text(sw), typs: typs}
			s.tsw = append(s.tsw, ctx)
			if bound != "" {
				s.tsw = append(s.tsw, tswCtx{expr: bound, typs: typs})
			}
			for _, b := range cc.Body {
				s.stmt(b)
			}
			if bound != "" {
				s.tsw = s.tsw[:len(s.tsw)-1]
			}
			s.tsw = s.tsw[:len(s.tsw)-1]
		}
	case *ast.GoStmt:
		s.expr(x.Call)
	case *ast.DeferStmt:
		s.expr(x.Call)
	case *ast.LabeledStmt:
		s.stmt(x.Stmt)
	case *ast.SendStmt:
		s.expr(x.Chan)
		s.expr(x.Value)
	}
}

func genSites(core *pkgInfo) string {
	type fent struct {
		name  string
		sites []site
	}
	var fns []fent
	for _, f := range core.files {
		for _, d := range f.Decls {
			fn, ok := d.(*ast.FuncDecl)
			if !ok || fn.Body == nil {
				continue
			}
			obj := core.info.Defs[fn.Name].(*types.Func)
			sc := &siteScan{p: core, fn: fn, ranged: map[string]string{}, nilmaps: map[types.Object]bool{}}
			sc.block(fn.Body)
			if len(sc.out) > 0 {
				fns = append(fns, fent{name: funcName(core.pkg, obj), sites: sc.out})
			}
		}
	}
	sort.Slice(fns, func(i, j int) bool { return fns[i].name < fns[j].name })
	var sb strings.Builder
	sb.WriteString("(* GENERATED by /verif/translator (go2v) from the current sources of /repo - do not edit.\n")
	sb.WriteString("   Operations of package mxj that can panic at run time and are not discharged syntactically\n")
	sb.WriteString("   (see translator/sites.go for the kinds and the discharge rules): (function, [(kind, expression)]). *)\n")
	sb.WriteString("From Mxj Require Import Gen.GenSupport.\nLocal Open Scope string_scope.\n\n")
	sb.WriteString("Definition panic_sites : list (string * list (string * string)) := [\n")
	for i, f := range fns {
		sep := ";"
		if i == len(fns)-1 {
			sep = ""
		}
		var parts []string
		for _, s := range f.sites {
			parts = append(parts, fmt.Sprintf("(%s, %s)", q(s.kind), q(s.text)))
		}
		fmt.Fprintf(&sb, "  (%s, [%s])%s\n", q(f.name), strings.Join(parts, "; "), sep)
	}
	sb.WriteString("].\n")
	return sb.String()
}
