package main

import (
	"encoding/hex"
	"fmt"
	"go/ast"
	"go/constant"
	"go/token"
	"go/types"
	"sort"
	"strings"
)

// ---------------------------------------------------------------- package-level variables

type gvar struct {
	name string
	obj  *types.Var
	kind string // bool | str | int | tok (func / pointer value: nil or "some value")
	init string // Gallina term
	file string
}

func kindOf(t types.Type) string {
	switch u := t.Underlying().(type) {
	case *types.Basic:
		switch {
		case u.Info()&types.IsBoolean != 0:
			return "bool"
		case u.Info()&types.IsString != 0:
			return "str"
		case u.Info()&types.IsInteger != 0:
			return "int"
		}
	case *types.Signature, *types.Pointer:
		return "tok"
	}
	return ""
}

func coqType(kind string) string {
	switch kind {
	case "bool":
		return "bool"
	case "str":
		return "str"
	case "int":
		return "Z"
	case "tok":
		return "option nat"
	case "bools":
		return "list bool"
	case "strs":
		return "list str"
	}
	return "?"
}

func gstr(s string) string {
	if s == "" {
		return "[]"
	}
	plain := true
	for i := 0; i < len(s); i++ {
		if s[i] < 0x20 || s[i] > 0x7e || s[i] == '"' {
			plain = false
		}
	}
	if plain {
		return `(s"` + s + `")`
	}
	return `(hx"` + hex.EncodeToString([]byte(s)) + `")`
}

func constTerm(v constant.Value, kind string) (string, bool) {
	if v == nil {
		return "", false
	}
	switch kind {
	case "bool":
		if v.Kind() == constant.Bool {
			if constant.BoolVal(v) {
				return "true", true
			}
			return "false", true
		}
	case "str":
		if v.Kind() == constant.String {
			return gstr(constant.StringVal(v)), true
		}
	case "int":
		if v.Kind() == constant.Int {
			return "(" + v.ExactString() + ")%Z", true
		}
	}
	return "", false
}

func zeroOf(kind string) string {
	switch kind {
	case "bool":
		return "false"
	case "str":
		return "[]"
	case "int":
		return "0%Z"
	case "tok":
		return "None"
	}
	return "?"
}

// pkgVars lists the package-level variables in source order; unmodelled ones (types outside the fragment) separately.
func pkgVars(p *pkgInfo) (vars []*gvar, unmodelled []string) {
	for _, f := range p.files {
		for _, d := range f.Decls {
			gd, ok := d.(*ast.GenDecl)
			if !ok || gd.Tok != token.VAR {
				continue
			}
			for _, sp := range gd.Specs {
				vs := sp.(*ast.ValueSpec)
				for i, id := range vs.Names {
					obj, _ := p.info.Defs[id].(*types.Var)
					if obj == nil {
						continue
					}
					k := kindOf(obj.Type())
					if k == "" {
						unmodelled = append(unmodelled, id.Name)
						continue
					}
					g := &gvar{name: id.Name, obj: obj, kind: k, init: zeroOf(k), file: p.fset.Position(id.Pos()).Filename}
					if i < len(vs.Values) {
						tv := p.info.Types[vs.Values[i]]
						if t, ok := constTerm(tv.Value, k); ok {
							g.init = t
						} else if k == "tok" {
							if tv.IsNil() {
								g.init = "None"
							} else {
								unmodelled = append(unmodelled, id.Name) // initialised by a call: not an option switch
								continue
							}
						} else {
							fail("%s: initialiser of package variable %s is not a constant", p.fset.Position(id.Pos()), id.Name)
						}
					}
					vars = append(vars, g)
				}
			}
		}
	}
	return
}

// ---------------------------------------------------------------- statement translation

type setterTr struct {
	p      *pkgInfo
	vars   map[types.Object]*gvar
	fn     *ast.FuncDecl
	locals map[types.Object]string // local / parameter -> Gallina name
	lkind  map[types.Object]string
	hasRet bool
	retK   string
	fresh  int
	guards []string // partial operations of the expression being translated; each is a prefix that ends in "=>" or "else"
	crash  string   // what a failed partial operation evaluates to ("None" for setters)
}

func (t *setterTr) crashV() string {
	if t.crash == "" {
		return "None"
	}
	return t.crash
}

func (t *setterTr) pos(n ast.Node) string { return t.p.fset.Position(n.Pos()).String() }

func (t *setterTr) unsupported(n ast.Node, what string) {
	fail("%s: function %s assigns a package-level option variable but uses a construct outside the translated fragment: %s",
		t.pos(n), t.fn.Name.Name, what)
}

func (t *setterTr) kindOfExpr(e ast.Expr) string {
	tv, ok := t.p.info.Types[e]
	if !ok {
		return ""
	}
	if k := kindOf(tv.Type); k != "" {
		return k
	}
	if sl, ok := tv.Type.Underlying().(*types.Slice); ok {
		switch kindOf(sl.Elem()) {
		case "bool":
			return "bools"
		case "str":
			return "strs"
		}
	}
	return ""
}

func (t *setterTr) constInt(e ast.Expr) (int64, bool) {
	tv := t.p.info.Types[e]
	if tv.Value != nil && tv.Value.Kind() == constant.Int {
		v, ok := constant.Int64Val(tv.Value)
		return v, ok
	}
	return 0, false
}

// expr translates a side-effect free expression; partial operations push guards.
func (t *setterTr) expr(e ast.Expr) string {
	tv := t.p.info.Types[e]
	if tv.Value != nil {
		if s, ok := constTerm(tv.Value, kindOf(tv.Type)); ok {
			return s
		}
	}
	switch x := e.(type) {
	case *ast.ParenExpr:
		return "(" + t.expr(x.X) + ")"
	case *ast.Ident:
		obj := t.p.info.Uses[x]
		if g, ok := t.vars[obj]; ok {
			return "(g_" + g.name + " st)"
		}
		if n, ok := t.locals[obj]; ok {
			return n
		}
		if tv.IsNil() {
			return "None"
		}
		t.unsupported(e, "identifier "+x.Name)
	case *ast.UnaryExpr:
		if x.Op == token.NOT {
			return "(negb " + t.expr(x.X) + ")"
		}
		t.unsupported(e, "unary "+x.Op.String())
	case *ast.BinaryExpr:
		k := t.kindOfExpr(x.X)
		switch x.Op {
		case token.LAND, token.LOR:
			a := t.expr(x.X)
			n := len(t.guards)
			b := t.expr(x.Y)
			if len(t.guards) != n {
				t.unsupported(e, "partial operation on the right of a short-circuit operator")
			}
			if x.Op == token.LAND {
				return "(" + a + " && " + b + ")"
			}
			return "(" + a + " || " + b + ")"
		case token.EQL, token.NEQ:
			var r string
			a, b := t.expr(x.X), t.expr(x.Y)
			switch k {
			case "bool":
				r = "(Bool.eqb " + a + " " + b + ")"
			case "str":
				r = "(str_eqb " + a + " " + b + ")"
			case "int":
				r = "(Z.eqb " + a + " " + b + ")"
			case "tok":
				if t.p.info.Types[x.Y].IsNil() {
					r = "(match " + a + " with None => true | Some _ => false end)"
				} else {
					t.unsupported(e, "comparison of function values")
				}
			default:
				t.unsupported(e, "== on this type")
			}
			if x.Op == token.NEQ {
				return "(negb " + r + ")"
			}
			return r
		case token.GTR, token.LSS, token.GEQ, token.LEQ:
			if k != "int" {
				t.unsupported(e, "ordering on a non-integer")
			}
			op := map[token.Token]string{token.GTR: "Z.gtb", token.LSS: "Z.ltb", token.GEQ: "Z.geb", token.LEQ: "Z.leb"}[x.Op]
			return "(" + op + " " + t.expr(x.X) + " " + t.expr(x.Y) + ")"
		case token.ADD:
			if k == "str" {
				return "(" + t.expr(x.X) + " ++ " + t.expr(x.Y) + ")"
			}
			if k == "int" {
				return "(" + t.expr(x.X) + " + " + t.expr(x.Y) + ")%Z"
			}
		}
		t.unsupported(e, "binary "+x.Op.String())
	case *ast.CallExpr:
		if id, ok := x.Fun.(*ast.Ident); ok && id.Name == "len" && len(x.Args) == 1 {
			if _, isB := t.p.info.Uses[id].(*types.Builtin); isB {
				return "(Z.of_nat (length " + t.expr(x.Args[0]) + "))"
			}
		}
		if se, ok := x.Fun.(*ast.SelectorExpr); ok {
			if pk, ok := se.X.(*ast.Ident); ok {
				if pn, ok := t.p.info.Uses[pk].(*types.PkgName); ok && pn.Imported().Path() == "strings" {
					switch se.Sel.Name {
					case "ReplaceAll":
						return "(replace_all " + t.expr(x.Args[0]) + " " + t.expr(x.Args[1]) + " " + t.expr(x.Args[2]) + ")"
					case "ToLower":
						return "(to_lower " + t.expr(x.Args[0]) + ")"
					}
				}
			}
		}
		t.unsupported(e, "call "+types.ExprString(x.Fun))
	case *ast.IndexExpr:
		i, ok := t.constInt(x.Index)
		k := t.kindOfExpr(x.X)
		if !ok || (k != "bools" && k != "strs") {
			t.unsupported(e, "index expression")
		}
		base := t.expr(x.X)
		t.fresh++
		n := fmt.Sprintf("idx%d", t.fresh)
		// Go panics when the index is out of range
		t.guards = append(t.guards, fmt.Sprintf("match nth_error %s %d with None => %s | Some %s =>", base, i, t.crashV(), n))
		return n
	case *ast.SliceExpr:
		if t.kindOfExpr(x.X) != "str" || x.Slice3 {
			t.unsupported(e, "slice expression")
		}
		var lo, hi int64
		var ok bool
		if x.Low != nil {
			if lo, ok = t.constInt(x.Low); !ok {
				t.unsupported(e, "slice bound")
			}
		}
		if x.High == nil {
			t.unsupported(e, "open slice")
		}
		if hi, ok = t.constInt(x.High); !ok {
			t.unsupported(e, "slice bound")
		}
		base := t.expr(x.X)
		// Go panics when hi > len
		t.guards = append(t.guards, fmt.Sprintf("if Nat.ltb (length %s) %d then %s else", base, hi, t.crashV()))
		return fmt.Sprintf("(firstn %d (skipn %d %s))", hi-lo, lo, base)
	}
	t.unsupported(e, fmt.Sprintf("expression %T", e))
	return ""
}

// condIf translates `if cond then thenS else elseS` with Go's short-circuit evaluation of && and ||,
// so that a partial operation on the right of an operator is evaluated only when Go evaluates it.
func (t *setterTr) condIf(cond ast.Expr, thenS, elseS string) string {
	switch x := cond.(type) {
	case *ast.ParenExpr:
		return t.condIf(x.X, thenS, elseS)
	case *ast.BinaryExpr:
		if x.Op == token.LOR {
			return t.condIf(x.X, thenS, t.condIf(x.Y, thenS, elseS))
		}
		if x.Op == token.LAND {
			return t.condIf(x.X, t.condIf(x.Y, thenS, elseS), elseS)
		}
	}
	mark := len(t.guards)
	c := t.expr(cond)
	return t.guarded(mark, "if "+c+"\n    then ("+thenS+")\n    else ("+elseS+")")
}

// guarded wraps body in the guards collected since mark.
func (t *setterTr) guarded(mark int, body string) string {
	gs := t.guards[mark:]
	t.guards = t.guards[:mark]
	var sb strings.Builder
	for _, g := range gs {
		sb.WriteString(g + " ")
	}
	sb.WriteString(body)
	for _, g := range gs {
		if strings.HasPrefix(g, "match") {
			sb.WriteString(" end")
		}
	}
	if len(gs) > 0 {
		return "(" + sb.String() + ")"
	}
	return sb.String()
}

func (t *setterTr) ret(val string) string {
	if t.hasRet {
		return "Some (st, " + val + ")"
	}
	return "Some st"
}

// stmts translates a statement list followed by the continuation k (what happens when the list falls through).
func (t *setterTr) stmts(list []ast.Stmt, k func() string) string {
	if len(list) == 0 {
		return k()
	}
	s, rest := list[0], list[1:]
	next := func() string { return t.stmts(rest, k) }
	switch x := s.(type) {
	case *ast.BlockStmt:
		return t.stmts(append(append([]ast.Stmt{}, x.List...), rest...), k)
	case *ast.EmptyStmt:
		return next()
	case *ast.DeclStmt:
		gd, ok := x.Decl.(*ast.GenDecl)
		if !ok || gd.Tok != token.VAR {
			t.unsupported(s, "declaration")
		}
		out := ""
		closeN := 0
		for _, sp := range gd.Specs {
			vs := sp.(*ast.ValueSpec)
			for i, id := range vs.Names {
				obj := t.p.info.Defs[id]
				kd := kindOf(obj.Type())
				if kd == "" {
					t.unsupported(s, "local variable of this type")
				}
				val := zeroOf(kd)
				mark := len(t.guards)
				if i < len(vs.Values) {
					val = t.expr(vs.Values[i])
				}
				name := "l_" + id.Name
				t.locals[obj] = name
				out += t.guarded(mark, "let "+name+" := "+val+" in ")
				_ = closeN
			}
		}
		return out + next()
	case *ast.AssignStmt:
		if len(x.Lhs) != 1 || len(x.Rhs) != 1 || (x.Tok != token.ASSIGN && x.Tok != token.DEFINE) {
			t.unsupported(s, "assignment form")
		}
		id, ok := x.Lhs[0].(*ast.Ident)
		if !ok {
			t.unsupported(s, "assignment target")
		}
		mark := len(t.guards)
		val := t.expr(x.Rhs[0])
		var obj types.Object
		if x.Tok == token.DEFINE {
			obj = t.p.info.Defs[id]
		} else {
			obj = t.p.info.Uses[id]
		}
		if g, ok := t.vars[obj]; ok {
			return t.guarded(mark, "let st := with_"+g.name+" "+val+" st in "+next())
		}
		if x.Tok == token.DEFINE {
			if kindOf(obj.Type()) == "" {
				t.unsupported(s, "local variable of this type")
			}
			t.locals[obj] = "l_" + id.Name
		}
		if n, ok := t.locals[obj]; ok {
			return t.guarded(mark, "let "+n+" := "+val+" in "+next())
		}
		t.unsupported(s, "assignment to "+id.Name)
	case *ast.IfStmt:
		if x.Init != nil {
			t.unsupported(s, "if with init statement")
		}
		thenS := t.stmts(x.Body.List, next)
		var elseS string
		if x.Else != nil {
			elseS = t.stmts([]ast.Stmt{x.Else}, next)
		} else {
			elseS = next()
		}
		return t.condIf(x.Cond, thenS, elseS)
	case *ast.ReturnStmt:
		if len(x.Results) == 0 {
			if t.hasRet {
				t.unsupported(s, "bare return in a function with a result")
			}
			return "Some st"
		}
		if len(x.Results) != 1 || !t.hasRet {
			t.unsupported(s, "return form")
		}
		mark := len(t.guards)
		v := t.expr(x.Results[0])
		return t.guarded(mark, t.ret(v))
	}
	t.unsupported(s, fmt.Sprintf("statement %T", s))
	return ""
}

// assignsPkgVar reports whether fn assigns (or takes the address of) a package-level variable directly.
func assignsPkgVar(p *pkgInfo, fn *ast.FuncDecl) []types.Object {
	var out []types.Object
	seen := map[types.Object]bool{}
	add := func(e ast.Expr) {
		if id, ok := e.(*ast.Ident); ok {
			if v, ok := p.info.Uses[id].(*types.Var); ok && v.Parent() == p.pkg.Scope() && !seen[v] {
				seen[v] = true
				out = append(out, v)
			}
		}
	}
	ast.Inspect(fn.Body, func(n ast.Node) bool {
		switch x := n.(type) {
		case *ast.AssignStmt:
			for _, l := range x.Lhs {
				add(l)
			}
		case *ast.IncDecStmt:
			add(x.X)
		case *ast.UnaryExpr:
			if x.Op == token.AND {
				add(x.X)
			}
		}
		return true
	})
	return out
}

func genSetters(p *pkgInfo) string {
	vars, unmodelled := pkgVars(p)
	byObj := map[types.Object]*gvar{}
	for _, g := range vars {
		byObj[g.obj] = g
	}
	var sb strings.Builder
	sb.WriteString("(* GENERATED by /verif/translator (go2v) from the current sources of /repo - do not edit.\n")
	sb.WriteString("   The package-level option variables of package mxj as a record, their initial values,\n")
	sb.WriteString("   and every function that assigns one of them, translated statement by statement.\n")
	sb.WriteString("   A result of None is a run-time panic (index / slice bound). *)\n")
	sb.WriteString("From Mxj Require Import Base.Str Gen.GenSupport.\nLocal Open Scope string_scope.\n\n")
	sb.WriteString("Record gstate := {\n")
	for i, g := range vars {
		sep := ";"
		if i == len(vars)-1 {
			sep = ""
		}
		fmt.Fprintf(&sb, "  g_%s : %s%s\n", g.name, coqType(g.kind), sep)
	}
	sb.WriteString("}.\n\n(* the state of a fresh process: the initialisers of the var declarations *)\nDefinition gstate0 : gstate := {|\n")
	for i, g := range vars {
		sep := ";"
		if i == len(vars)-1 {
			sep = ""
		}
		fmt.Fprintf(&sb, "  g_%s := %s%s\n", g.name, g.init, sep)
	}
	sb.WriteString("|}.\n\n")
	for _, g := range vars {
		fmt.Fprintf(&sb, "Definition with_%s (v : %s) (st : gstate) : gstate := {|", g.name, coqType(g.kind))
		for i, h := range vars {
			if i > 0 {
				sb.WriteString(";")
			}
			if h == g {
				fmt.Fprintf(&sb, " g_%s := v", h.name)
			} else {
				fmt.Fprintf(&sb, " g_%s := g_%s st", h.name, h.name)
			}
		}
		sb.WriteString(" |}.\n")
	}
	sb.WriteString("\nDefinition option_vars : list string := [")
	for i, g := range vars {
		if i > 0 {
			sb.WriteString("; ")
		}
		fmt.Fprintf(&sb, "\"%s\"", g.name)
	}
	sb.WriteString("].\n")
	sort.Strings(unmodelled)
	sb.WriteString("(* package-level variables outside the record (never assigned by any function, checked below): " + strings.Join(unmodelled, ", ") + " *)\n\n")

	// the setters
	var names []string
	type setter struct {
		name   string
		ptypes []string
		hasRet bool
		writes []string
	}
	var setters []setter
	for _, f := range p.files {
		for _, d := range f.Decls {
			fn, ok := d.(*ast.FuncDecl)
			if !ok || fn.Body == nil {
				continue
			}
			objs := assignsPkgVar(p, fn)
			if len(objs) == 0 {
				continue
			}
			t := &setterTr{p: p, vars: byObj, fn: fn, locals: map[types.Object]string{}, lkind: map[types.Object]string{}}
			var ws []string
			for _, o := range objs {
				g, ok := byObj[o]
				if !ok {
					fail("%s: function %s assigns package-level variable %s, whose type is outside the translated fragment",
						p.fset.Position(fn.Pos()), fn.Name.Name, o.Name())
				}
				ws = append(ws, g.name)
			}
			if fn.Recv != nil {
				t.unsupported(fn, "method")
			}
			params := ""
			var ptypes []string
			for _, fld := range fn.Type.Params.List {
				for _, id := range fld.Names {
					obj := p.info.Defs[id]
					k := kindOf(obj.Type())
					if sl, ok := obj.Type().Underlying().(*types.Slice); ok {
						switch kindOf(sl.Elem()) {
						case "bool":
							k = "bools"
						case "str":
							k = "strs"
						}
					}
					if k == "" {
						t.unsupported(fld, "parameter type "+obj.Type().String())
					}
					t.locals[obj] = "p_" + id.Name
					params += fmt.Sprintf(" (p_%s : %s)", id.Name, coqType(k))
					ptypes = append(ptypes, coqType(k))
				}
			}
			rt := "option gstate"
			if fn.Type.Results != nil && len(fn.Type.Results.List) > 0 {
				if len(fn.Type.Results.List) != 1 || len(fn.Type.Results.List[0].Names) > 0 {
					t.unsupported(fn, "result list")
				}
				k := kindOf(p.info.Types[fn.Type.Results.List[0].Type].Type)
				if k == "" {
					t.unsupported(fn, "result type")
				}
				t.hasRet, t.retK = true, k
				rt = "option (gstate * " + coqType(k) + ")"
			}
			body := t.stmts(fn.Body.List, func() string {
				if t.hasRet {
					t.unsupported(fn, "falls off the end of a function with a result")
				}
				return "Some st"
			})
			fmt.Fprintf(&sb, "(* %s: func %s *)\nDefinition set_%s (st : gstate)%s : %s :=\n  %s.\n\n",
				strings.TrimPrefix(p.fset.Position(fn.Pos()).String(), p.dir+"/"), fn.Name.Name, fn.Name.Name, params, rt, body)
			names = append(names, fn.Name.Name)
			setters = append(setters, setter{name: fn.Name.Name, writes: ws, ptypes: ptypes, hasRet: t.hasRet})
		}
	}
	sb.WriteString("(* every function of package mxj that assigns a package-level variable, with the variables it assigns *)\n")
	sb.WriteString("Definition setter_writes : list (string * list string) := [\n")
	for i, s := range setters {
		sep := ";"
		if i == len(setters)-1 {
			sep = ""
		}
		q := make([]string, len(s.writes))
		for j, w := range s.writes {
			q[j] = `"` + w + `"`
		}
		fmt.Fprintf(&sb, "  (\"%s\", [%s])%s\n", s.name, strings.Join(q, "; "), sep)
	}
	sb.WriteString("].\n\n")
	// generic field access
	sb.WriteString("(* every option variable by name *)\nDefinition fields (st : gstate) : list (string * fval) := [\n")
	for i, g := range vars {
		sep := ";"
		if i == len(vars)-1 {
			sep = ""
		}
		c := map[string]string{"bool": "FB", "str": "FS", "int": "FZ", "tok": "FT"}[g.kind]
		fmt.Fprintf(&sb, "  (\"%s\", %s (g_%s st))%s\n", g.name, c, g.name, sep)
	}
	sb.WriteString("].\n\n")
	// one constructor per setter call, and per exported variable that a user may assign directly
	sb.WriteString("(* a call of an option setter, or a direct assignment to an exported option variable *)\nInductive call :=\n")
	for _, st := range setters {
		fmt.Fprintf(&sb, "| C_%s", st.name)
		for i, pt := range st.ptypes {
			fmt.Fprintf(&sb, " (a%d : %s)", i, pt)
		}
		sb.WriteString("\n")
	}
	for _, g := range vars {
		if g.obj.Exported() {
			fmt.Fprintf(&sb, "| C_assign_%s (v : %s)\n", g.name, coqType(g.kind))
		}
	}
	sb.WriteString(".\n\nDefinition apply_call (st : gstate) (c : call) : option gstate :=\n  match c with\n")
	for _, st := range setters {
		args := ""
		for i := range st.ptypes {
			args += fmt.Sprintf(" a%d", i)
		}
		if st.hasRet {
			fmt.Fprintf(&sb, "  | C_%s%s => match set_%s st%s with Some (st', _) => Some st' | None => None end\n", st.name, args, st.name, args)
		} else {
			fmt.Fprintf(&sb, "  | C_%s%s => set_%s st%s\n", st.name, args, st.name, args)
		}
	}
	for _, g := range vars {
		if g.obj.Exported() {
			fmt.Fprintf(&sb, "  | C_assign_%s v => Some (with_%s v st)\n", g.name, g.name)
		}
	}
	sb.WriteString("  end.\n")
	return sb.String()
}
