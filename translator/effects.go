package main

import (
	"fmt"
	"go/ast"
	"go/token"
	"go/types"
	"os"
	"sort"
	"strings"
)

// ---------------------------------------------------------------- abstract roots
//
// Storage is abstracted by roots:
//   Pt i  the referent of parameter i itself (i = 0 is the receiver, parameters count from 1)
//   Pd i  anything stored inside the referent of parameter i (elements, fields, transitively)
//   G     storage reachable from a package-level variable
//   F     storage allocated by the function itself
// Every expression has a pair (top, deep): the roots its own referent belongs to and the
// roots of what is stored inside it.  The analysis is flow-insensitive (a fixpoint over all
// assignments of the function) and errs on the side of MORE aliasing.

type root struct {
	kind byte // 't', 'd', 'G', 'F'
	idx  int
}

type rset map[root]bool

func (s rset) addAll(o rset) bool {
	ch := false
	for r := range o {
		if !s[r] {
			s[r] = true
			ch = true
		}
	}
	return ch
}
func union(a, b rset) rset {
	o := rset{}
	o.addAll(a)
	o.addAll(b)
	return o
}
func (s rset) sorted() []root {
	var out []root
	for r := range s {
		if r.kind != 'F' {
			out = append(out, r)
		}
	}
	sort.Slice(out, func(i, j int) bool {
		if out[i].kind != out[j].kind {
			return out[i].kind < out[j].kind
		}
		return out[i].idx < out[j].idx
	})
	return out
}
func (r root) coq() string {
	switch r.kind {
	case 't':
		return fmt.Sprintf("Pt %d", r.idx)
	case 'd':
		return fmt.Sprintf("Pd %d", r.idx)
	}
	return "G"
}
func rootsCoq(s rset) string {
	rs := s.sorted()
	parts := make([]string, len(rs))
	for i, r := range rs {
		parts[i] = r.coq()
	}
	return "[" + strings.Join(parts, "; ") + "]"
}

type callEdge struct {
	callee string
	args   map[int][2]rset // callee parameter index -> (top, deep) of the argument
}

type finfo struct {
	name       string
	pkg        string
	exported   bool
	recv       string
	nparams    int
	greads     map[string]bool
	gwrites    map[string]bool
	writes     rset // roots written directly by the function's own statements
	calls      []callEdge
	ext        map[string]bool // external callees (assumed not to write through their arguments unless listed in extMutators)
	retT, retD rset            // what the results may refer to, in terms of the function's own roots
	callback   bool            // calls a function value (user callback)
	spawns     bool            // has a go statement
	pos        string
}

// external functions / methods that write through an argument: name -> parameter indices (0 = receiver) whose referent they write
var extMutators = map[string][]int{
	"sort.Sort": {1}, "sort.Stable": {1}, "sort.Strings": {1}, "sort.Slice": {1}, "sort.SliceStable": {1}, "sort.Ints": {1},
	"encoding/json.Unmarshal": {2}, "encoding/xml.Unmarshal": {2},
	"(*encoding/json.Decoder).Decode": {0, 1}, "(*encoding/xml.Decoder).Decode": {0, 1}, "(*encoding/gob.Decoder).Decode": {0, 1},
	"(*encoding/xml.Decoder).Token": {0}, "(*encoding/xml.Decoder).RawToken": {0}, "(*encoding/xml.Decoder).Skip": {0},
	"(*encoding/json.Decoder).UseNumber": {0}, "(*encoding/json.Encoder).Encode": {0}, "(*encoding/json.Encoder).SetIndent": {0},
	"(*encoding/json.Encoder).SetEscapeHTML": {0}, "(*encoding/gob.Encoder).Encode": {0},
	"(*bytes.Buffer).Write": {0}, "(*bytes.Buffer).WriteString": {0}, "(*bytes.Buffer).WriteByte": {0}, "(*bytes.Buffer).WriteRune": {0},
	"(*bytes.Buffer).Reset": {0}, "(*bytes.Buffer).ReadFrom": {0, 1}, "(*bytes.Buffer).Read": {0, 1}, "(*bytes.Buffer).ReadByte": {0},
	"(*bytes.Buffer).Truncate": {0}, "(*bytes.Buffer).ReadBytes": {0}, "(*bytes.Buffer).Next": {0}, "(*bytes.Buffer).UnreadByte": {0},
	"(*strings.Builder).WriteString": {0}, "(*strings.Builder).WriteByte": {0}, "(*strings.Builder).Write": {0}, "(*strings.Builder).Reset": {0},
	"(*bytes.Reader).ReadByte": {0}, "(*bytes.Reader).Read": {0, 1}, "(*bytes.Reader).UnreadByte": {0},
	"(io.Reader).Read": {0, 1}, "(io.Writer).Write": {0}, "(io.ByteReader).ReadByte": {0}, "io.WriteString": {1}, "io.ReadFull": {1, 2},
	"(*os.File).Write": {0}, "(*os.File).WriteString": {0}, "(*os.File).Read": {0, 1}, "(*os.File).Close": {0}, "(*os.File).Seek": {0},
	"(*bufio.Reader).ReadByte": {0}, "(*bufio.Reader).Read": {0, 1}, "(*bufio.Writer).Write": {0}, "(*bufio.Writer).Flush": {0},
	"encoding/json.Indent": {1}, "encoding/json.Compact": {1}, "encoding/json.HTMLEscape": {1},
	"fmt.Fprint": {1}, "fmt.Fprintf": {1}, "fmt.Fprintln": {1}, "fmt.Sscanf": {3}, "fmt.Sscan": {2},
	"(reflect.Value).Set": {0}, "(reflect.Value).SetMapIndex": {0}, "(reflect.Value).SetString": {0},
}

type fnAnalysis struct {
	p      *pkgInfo
	core   *pkgInfo
	pkgs   map[*types.Package]*pkgInfo
	fi     *finfo
	top    map[types.Object]rset
	deep   map[types.Object]rset
	pidx   map[types.Object]int
	change bool
	record bool               // second phase: record effects
	named  []types.Object     // named results
	rets   map[string][2]rset // return summaries of the internal functions (previous global round)
}

func isBasicValue(t types.Type) bool {
	if t == nil {
		return true
	}
	if n, ok := t.(*types.Named); ok && n.Obj().Pkg() == nil && n.Obj().Name() == "error" {
		return true // error values are immutable and opaque
	}
	switch u := t.Underlying().(type) {
	case *types.Basic:
		return u.Kind() != types.UnsafePointer && u.Kind() != types.UntypedNil
	case *types.Struct:
		for i := 0; i < u.NumFields(); i++ {
			if !isBasicValue(u.Field(i).Type()) {
				return false
			}
		}
		return true
	case *types.Array:
		return isBasicValue(u.Elem())
	}
	return false
}

func (a *fnAnalysis) typeOf(e ast.Expr) types.Type {
	if tv, ok := a.p.info.Types[e]; ok {
		return tv.Type
	}
	return nil
}

func (a *fnAnalysis) objOf(id *ast.Ident) types.Object {
	if o := a.p.info.Uses[id]; o != nil {
		return o
	}
	return a.p.info.Defs[id]
}

func (a *fnAnalysis) isCoreGlobal(o types.Object) bool {
	v, ok := o.(*types.Var)
	if !ok || v.Pkg() == nil {
		return false
	}
	if pi, ok := a.pkgs[v.Pkg()]; ok {
		return v.Parent() == pi.pkg.Scope()
	}
	return false
}

func (a *fnAnalysis) gname(o types.Object) string {
	if o.Pkg() == a.core.pkg {
		return o.Name()
	}
	return pkgShort(o.Pkg()) + "." + o.Name()
}

func (a *fnAnalysis) get(m map[types.Object]rset, o types.Object) rset {
	s, ok := m[o]
	if !ok {
		s = rset{}
		m[o] = s
	}
	return s
}

// eval returns (top, deep) of an expression and records global reads / calls met on the way.
func (a *fnAnalysis) eval(e ast.Expr) (rset, rset) {
	if e == nil {
		return rset{}, rset{}
	}
	switch x := e.(type) {
	case *ast.ParenExpr:
		return a.eval(x.X)
	case *ast.Ident:
		o := a.objOf(x)
		if o == nil {
			return rset{}, rset{}
		}
		if a.isCoreGlobal(o) {
			if a.record {
				a.fi.greads[a.gname(o)] = true
			}
			if isBasicValue(o.Type()) {
				return rset{}, rset{}
			}
			return rset{{'G', 0}: true}, rset{{'G', 0}: true}
		}
		if _, ok := o.(*types.Var); ok {
			if isBasicValue(o.Type()) {
				return rset{}, rset{}
			}
			return a.get(a.top, o), a.get(a.deep, o)
		}
		return rset{}, rset{}
	case *ast.BasicLit:
		return rset{}, rset{}
	case *ast.FuncLit:
		a.funcLit(x)
		return rset{}, rset{}
	case *ast.CompositeLit:
		d := rset{}
		for _, el := range x.Elts {
			if kv, ok := el.(*ast.KeyValueExpr); ok {
				el = kv.Value
				a.eval(kv.Key)
			}
			t, dd := a.eval(el)
			d.addAll(t)
			d.addAll(dd)
		}
		return rset{{'F', 0}: true}, d
	case *ast.SelectorExpr:
		// qualified identifier of another package
		if id, ok := x.X.(*ast.Ident); ok {
			if _, isPkg := a.objOf(id).(*types.PkgName); isPkg {
				o := a.objOf(x.Sel)
				if o != nil && a.isCoreGlobal(o) {
					if a.record {
						a.fi.greads[a.gname(o)] = true
					}
					if isBasicValue(o.Type()) {
						return rset{}, rset{}
					}
					return rset{{'G', 0}: true}, rset{{'G', 0}: true}
				}
				return rset{}, rset{}
			}
		}
		t, d := a.eval(x.X)
		if sel := a.p.info.Selections[x]; sel != nil && sel.Kind() == types.MethodVal {
			return t, d // method value: bound receiver
		}
		if isBasicValue(a.typeOf(e)) {
			return rset{}, rset{}
		}
		// field of a struct VALUE (not through a pointer): the field is stored inline, what it refers to is what the struct refers to
		if _, isPtr := a.typeOf(x.X).Underlying().(*types.Pointer); !isPtr {
			return t, d
		}
		return d, d
	case *ast.IndexExpr:
		t, d := a.eval(x.X)
		a.eval(x.Index)
		if isBasicValue(a.typeOf(e)) {
			return rset{}, rset{}
		}
		if _, isArr := a.typeOf(x.X).Underlying().(*types.Array); isArr {
			return t, d // element of an array VALUE: stored inline
		}
		return d, d
	case *ast.SliceExpr:
		t, d := a.eval(x.X)
		a.eval(x.Low)
		a.eval(x.High)
		a.eval(x.Max)
		if isBasicValue(a.typeOf(e)) {
			return rset{}, rset{}
		}
		return t, d
	case *ast.StarExpr:
		t, d := a.eval(x.X)
		if isBasicValue(a.typeOf(e)) {
			return rset{}, rset{}
		}
		return t, d
	case *ast.UnaryExpr:
		t, d := a.eval(x.X)
		if x.Op == token.AND {
			if id, ok := x.X.(*ast.Ident); ok {
				if o := a.objOf(id); o != nil && a.isCoreGlobal(o) && a.record {
					a.fi.gwrites[a.gname(o)] = true // address taken: treated as a write
				}
			}
			return t, d
		}
		return rset{}, rset{}
	case *ast.BinaryExpr:
		a.eval(x.X)
		a.eval(x.Y)
		return rset{}, rset{}
	case *ast.TypeAssertExpr:
		t, d := a.eval(x.X)
		if isBasicValue(a.typeOf(e)) {
			return rset{}, rset{}
		}
		return t, d
	case *ast.KeyValueExpr:
		a.eval(x.Key)
		return a.eval(x.Value)
	case *ast.CallExpr:
		return a.call(x)
	case *ast.ArrayType, *ast.MapType, *ast.InterfaceType, *ast.FuncType, *ast.StructType, *ast.ChanType, *ast.Ellipsis:
		return rset{}, rset{}
	}
	return rset{}, rset{}
}

func (a *fnAnalysis) funcLit(x *ast.FuncLit) {
	// parameters of a closure: may alias anything the enclosing function can reach
	all := rset{}
	for _, s := range a.top {
		all.addAll(s)
	}
	for _, s := range a.deep {
		all.addAll(s)
	}
	for _, fld := range x.Type.Params.List {
		for _, id := range fld.Names {
			if o := a.p.info.Defs[id]; o != nil && !isBasicValue(o.Type()) {
				if a.get(a.top, o).addAll(all) {
					a.change = true
				}
				if a.get(a.deep, o).addAll(all) {
					a.change = true
				}
			}
		}
	}
	a.block(x.Body)
}

func funcName(core *types.Package, f *types.Func) string {
	sig := f.Type().(*types.Signature)
	name := f.Name()
	if r := sig.Recv(); r != nil {
		t := r.Type()
		if p, ok := t.(*types.Pointer); ok {
			t = p.Elem()
		}
		if n, ok := t.(*types.Named); ok {
			name = n.Obj().Name() + "." + name
		}
	}
	if f.Pkg() != nil && f.Pkg() != core {
		name = pkgShort(f.Pkg()) + "." + name
	}
	return name
}

// pkgShort names a sub-package by its directory (x2j and x2j-wrapper both declare `package x2j`).
func pkgShort(p *types.Package) string {
	path := p.Path()
	if i := strings.LastIndex(path, "/"); i >= 0 {
		path = path[i+1:]
	}
	if path == "x2j-wrapper" {
		return "x2jw"
	}
	if path == "v2" || path == "mxj" {
		return "mxj"
	}
	return path
}

func extName(f *types.Func) string {
	sig := f.Type().(*types.Signature)
	if r := sig.Recv(); r != nil {
		return "(" + types.TypeString(r.Type(), nil) + ")." + f.Name()
	}
	if f.Pkg() != nil {
		return f.Pkg().Path() + "." + f.Name()
	}
	return f.Name()
}

// write records a store into the referent described by roots t.
func (a *fnAnalysis) write(t rset) {
	if a.record {
		for r := range t {
			if r.kind != 'F' {
				a.fi.writes[r] = true
			}
		}
	}
}

// baseObj finds the variable at the root of an lvalue / argument expression.
func (a *fnAnalysis) baseObj(e ast.Expr) types.Object {
	for {
		switch x := e.(type) {
		case *ast.ParenExpr:
			e = x.X
		case *ast.IndexExpr:
			e = x.X
		case *ast.SliceExpr:
			e = x.X
		case *ast.StarExpr:
			e = x.X
		case *ast.SelectorExpr:
			if id, ok := x.X.(*ast.Ident); ok {
				if _, isPkg := a.objOf(id).(*types.PkgName); isPkg {
					return a.objOf(x.Sel)
				}
			}
			e = x.X
		case *ast.TypeAssertExpr:
			e = x.X
		case *ast.UnaryExpr:
			if x.Op != token.AND {
				return nil
			}
			e = x.X
		case *ast.CallExpr:
			// conversion T(x)
			if len(x.Args) == 1 {
				if tv, ok := a.p.info.Types[x.Fun]; ok && tv.IsType() {
					e = x.Args[0]
					continue
				}
			}
			return nil
		case *ast.Ident:
			return a.objOf(x)
		default:
			return nil
		}
	}
}

func (a *fnAnalysis) growDeep(o types.Object, s rset) {
	if o == nil {
		return
	}
	if _, ok := o.(*types.Var); !ok || a.isCoreGlobal(o) {
		return
	}
	if a.get(a.deep, o).addAll(s) {
		a.change = true
	}
}

func (a *fnAnalysis) call(x *ast.CallExpr) (rset, rset) {
	// conversion
	if tv, ok := a.p.info.Types[x.Fun]; ok && tv.IsType() {
		if len(x.Args) == 1 {
			t, d := a.eval(x.Args[0])
			if isBasicValue(tv.Type) {
				return rset{}, rset{}
			}
			return t, d
		}
		return rset{}, rset{}
	}
	// builtins
	if id, ok := x.Fun.(*ast.Ident); ok {
		if b, ok := a.objOf(id).(*types.Builtin); ok {
			var ts, ds []rset
			for _, arg := range x.Args {
				t, d := a.eval(arg)
				ts, ds = append(ts, t), append(ds, d)
			}
			switch b.Name() {
			case "append":
				t := rset{{'F', 0}: true}
				d := rset{}
				if len(ts) > 0 {
					t.addAll(ts[0])
					d.addAll(ds[0])
				}
				for i := 1; i < len(ts); i++ {
					d.addAll(ts[i])
					d.addAll(ds[i])
				}
				return t, d
			case "make", "new":
				return rset{{'F', 0}: true}, rset{}
			case "delete":
				if len(ts) > 0 {
					a.write(ts[0])
				}
			case "copy":
				if len(ts) > 1 {
					a.write(ts[0])
					a.growDeep(a.baseObj(x.Args[0]), union(ts[1], ds[1]))
				}
			}
			return rset{}, rset{}
		}
	}
	// evaluate receiver and arguments
	type argv struct{ t, d rset }
	args := map[int]argv{}
	var argExprs = map[int][]ast.Expr{}
	var callee *types.Func
	isMethod := false
	switch f := x.Fun.(type) {
	case *ast.Ident:
		callee, _ = a.objOf(f).(*types.Func)
		if callee == nil {
			a.eval(f)
		}
	case *ast.SelectorExpr:
		if sel := a.p.info.Selections[f]; sel != nil {
			if fn, ok := sel.Obj().(*types.Func); ok {
				callee = fn
				isMethod = true
				t, d := a.eval(f.X)
				args[0] = argv{t, d}
				argExprs[0] = []ast.Expr{f.X}
			} else {
				a.eval(f) // field holding a function value
			}
		} else {
			callee, _ = a.objOf(f.Sel).(*types.Func) // pkg.Func
			if callee == nil {
				a.eval(f)
			}
		}
	default:
		a.eval(x.Fun)
	}
	_ = isMethod
	np := 0
	variadic := false
	if callee != nil {
		sig := callee.Type().(*types.Signature)
		np = sig.Params().Len()
		variadic = sig.Variadic()
	}
	all := rset{}
	for i, arg := range x.Args {
		t, d := a.eval(arg)
		j := i + 1
		if callee != nil && j > np {
			j = np
		}
		if callee != nil && variadic && j == np && x.Ellipsis == token.NoPos {
			// packed into a fresh slice: the elements are the arguments
			old := args[j]
			nd := union(union(old.d, t), d)
			args[j] = argv{rset{{'F', 0}: true}, nd}
		} else {
			old := args[j]
			args[j] = argv{union(old.t, t), union(old.d, d)}
		}
		argExprs[j] = append(argExprs[j], arg)
		if !isBasicValue(a.typeOf(arg)) {
			all.addAll(t)
			all.addAll(d)
		}
	}
	if r, ok := args[0]; ok {
		all.addAll(r.t)
		all.addAll(r.d)
	}
	res := union(all, rset{{'F', 0}: true})
	if callee == nil {
		// call of a function value
		if a.record {
			a.fi.callback = true
		}
		return res, res
	}
	// what a callee stores through one argument may come from any other argument
	for j, es := range argExprs {
		_ = j
		for _, e := range es {
			if !isBasicValue(a.typeOf(e)) {
				a.growDeep(a.baseObj(e), all)
			}
		}
	}
	if _, internal := a.pkgs[callee.Pkg()]; internal && callee.Pkg() != nil {
		if a.record {
			ce := callEdge{callee: funcName(a.core.pkg, callee), args: map[int][2]rset{}}
			for j, v := range args {
				ce.args[j] = [2]rset{v.t, v.d}
			}
			a.fi.calls = append(a.fi.calls, ce)
		}
	} else {
		n := extName(callee)
		if a.record {
			a.fi.ext[n] = true
		}
		if idxs, ok := extMutators[n]; ok {
			for _, j := range idxs {
				if v, ok := args[j]; ok {
					a.write(v.t)
				}
			}
		}
	}
	if sig := callee.Type().(*types.Signature); sig.Results().Len() == 0 {
		return rset{}, rset{}
	}
	if _, internal := a.pkgs[callee.Pkg()]; !internal {
		if !extAliasing[extName(callee)] {
			// a standard-library function returns an object of its own; only what is stored inside it may come from the arguments
			return rset{{'F', 0}: true}, res
		}
		return res, res
	}
	// internal callee: its return summary (from the previous global round), instantiated at this call site
	sum, ok := a.rets[funcName(a.core.pkg, callee)]
	if !ok {
		return rset{{'F', 0}: true}, rset{}
	}
	inst := func(s rset) rset {
		o := rset{}
		for r := range s {
			switch r.kind {
			case 't':
				o.addAll(args[r.idx].t)
			case 'd':
				o.addAll(args[r.idx].d)
			default:
				o[r] = true
			}
		}
		return o
	}
	return inst(sum[0]), inst(sum[1])
}

// external functions whose result IS (part of) an argument's referent rather than a new object
var extAliasing = map[string]bool{
	"reflect.ValueOf": true, "(reflect.Value).Interface": true, "(reflect.Value).MapIndex": true, "(reflect.Value).Index": true,
	"(reflect.Value).Elem": true, "(reflect.Value).Field": true, "(reflect.Value).MapKeys": true,
	"(*bytes.Buffer).Bytes": true, "bytes.NewBuffer": true, "bytes.NewReader": true, "(*bytes.Buffer).Next": true,
	"bytes.TrimSpace": true, "bytes.Trim": true, "bytes.TrimLeft": true, "bytes.TrimRight": true, "bytes.TrimPrefix": true, "bytes.TrimSuffix": true,
}

// assign models `lhs = rhs-value (t, d)`.
func (a *fnAnalysis) assign(lhs ast.Expr, t, d rset, define bool) {
	switch l := lhs.(type) {
	case *ast.Ident:
		if l.Name == "_" {
			return
		}
		o := a.objOf(l)
		if o == nil {
			return
		}
		if a.isCoreGlobal(o) {
			if a.record {
				a.fi.gwrites[a.gname(o)] = true
			}
			return
		}
		if isBasicValue(o.Type()) {
			return
		}
		if a.get(a.top, o).addAll(t) {
			a.change = true
		}
		if a.get(a.deep, o).addAll(d) {
			a.change = true
		}
	case *ast.ParenExpr:
		a.assign(l.X, t, d, define)
	case *ast.IndexExpr, *ast.SelectorExpr, *ast.StarExpr:
		a.write(a.loc(lhs))
		base := a.baseObj(lhs)
		a.growDeep(base, union(t, d))
		if base != nil && a.isCoreGlobal(base) && a.record {
			a.fi.writes[root{'G', 0}] = true
		}
		// an aggregate VALUE held in a local variable (array / struct): its references are the variable's top
		if base != nil && !a.isCoreGlobal(base) && a.inlinePath(lhs) {
			if a.get(a.top, base).addAll(t) {
				a.change = true
			}
		}
	}
}

// inlinePath reports whether the lvalue is a component of an aggregate value stored inline in a variable
// (x.f, x[i] with x a struct / array variable, nested).
func (a *fnAnalysis) inlinePath(e ast.Expr) bool {
	switch x := e.(type) {
	case *ast.ParenExpr:
		return a.inlinePath(x.X)
	case *ast.Ident:
		return true
	case *ast.IndexExpr:
		if _, isArr := a.typeOf(x.X).Underlying().(*types.Array); isArr {
			return a.inlinePath(x.X)
		}
	case *ast.SelectorExpr:
		if _, isPtr := a.typeOf(x.X).Underlying().(*types.Pointer); !isPtr {
			if _, isStruct := a.typeOf(x.X).Underlying().(*types.Struct); isStruct {
				return a.inlinePath(x.X)
			}
		}
	}
	return false
}

// loc returns the roots of the object that CONTAINS the location denoted by an lvalue
// (empty for a local variable and for components of an aggregate value held in one).
func (a *fnAnalysis) loc(e ast.Expr) rset {
	switch x := e.(type) {
	case *ast.ParenExpr:
		return a.loc(x.X)
	case *ast.Ident:
		if o := a.objOf(x); o != nil && a.isCoreGlobal(o) {
			return rset{{'G', 0}: true}
		}
		return rset{}
	case *ast.IndexExpr:
		a.eval(x.Index)
		if _, isArr := a.typeOf(x.X).Underlying().(*types.Array); isArr {
			return a.loc(x.X)
		}
		t, _ := a.eval(x.X)
		return t
	case *ast.SelectorExpr:
		if _, isPtr := a.typeOf(x.X).Underlying().(*types.Pointer); !isPtr {
			if _, isStruct := a.typeOf(x.X).Underlying().(*types.Struct); isStruct {
				return a.loc(x.X)
			}
		}
		t, _ := a.eval(x.X)
		return t
	case *ast.StarExpr:
		t, _ := a.eval(x.X)
		return t
	}
	t, _ := a.eval(e)
	return t
}

func (a *fnAnalysis) block(b *ast.BlockStmt) {
	if b == nil {
		return
	}
	for _, s := range b.List {
		a.stmt(s)
	}
}

func (a *fnAnalysis) stmt(s ast.Stmt) {
	switch x := s.(type) {
	case nil:
	case *ast.BlockStmt:
		a.block(x)
	case *ast.ExprStmt:
		a.eval(x.X)
	case *ast.AssignStmt:
		if len(x.Lhs) == len(x.Rhs) {
			for i := range x.Lhs {
				t, d := a.eval(x.Rhs[i])
				if x.Tok != token.ASSIGN && x.Tok != token.DEFINE {
					a.eval(x.Lhs[i]) // op-assign reads the target
				}
				a.assign(x.Lhs[i], t, d, x.Tok == token.DEFINE)
			}
		} else if len(x.Rhs) == 1 {
			t, d := a.eval(x.Rhs[0])
			for _, l := range x.Lhs {
				a.assign(l, t, d, x.Tok == token.DEFINE)
			}
		}
	case *ast.IncDecStmt:
		a.eval(x.X)
		a.assign(x.X, rset{}, rset{}, false)
	case *ast.DeclStmt:
		if gd, ok := x.Decl.(*ast.GenDecl); ok {
			for _, sp := range gd.Specs {
				if vs, ok := sp.(*ast.ValueSpec); ok {
					for i, id := range vs.Names {
						if i < len(vs.Values) {
							t, d := a.eval(vs.Values[i])
							a.assign(id, t, d, true)
						} else if len(vs.Values) == 1 {
							t, d := a.eval(vs.Values[0])
							a.assign(id, t, d, true)
						} else if o := a.p.info.Defs[id]; o != nil && !isBasicValue(o.Type()) {
							a.get(a.top, o)[root{'F', 0}] = true
						}
					}
				}
			}
		}
	case *ast.IfStmt:
		a.stmt(x.Init)
		a.eval(x.Cond)
		a.block(x.Body)
		a.stmt(x.Else)
	case *ast.ForStmt:
		a.stmt(x.Init)
		a.eval(x.Cond)
		a.stmt(x.Post)
		a.block(x.Body)
	case *ast.RangeStmt:
		_, d := a.eval(x.X)
		if x.Key != nil {
			// map keys / indexes: values of basic type in this code base; a non-basic key aliases the contents
			a.assign(x.Key, d, d, x.Tok == token.DEFINE)
		}
		if x.Value != nil {
			a.assign(x.Value, d, d, x.Tok == token.DEFINE)
		}
		a.block(x.Body)
	case *ast.SwitchStmt:
		a.stmt(x.Init)
		a.eval(x.Tag)
		a.block(x.Body)
	case *ast.TypeSwitchStmt:
		a.stmt(x.Init)
		var t, d rset
		switch as := x.Assign.(type) {
		case *ast.AssignStmt:
			if ta, ok := as.Rhs[0].(*ast.TypeAssertExpr); ok {
				t, d = a.eval(ta.X)
			}
		case *ast.ExprStmt:
			if ta, ok := as.X.(*ast.TypeAssertExpr); ok {
				a.eval(ta.X)
			}
		}
		for _, c := range x.Body.List {
			cc := c.(*ast.CaseClause)
			if o := a.p.info.Implicits[cc]; o != nil && t != nil && !isBasicValue(o.Type()) {
				if a.get(a.top, o).addAll(t) {
					a.change = true
				}
				if a.get(a.deep, o).addAll(d) {
					a.change = true
				}
			}
			for _, st := range cc.Body {
				a.stmt(st)
			}
		}
	case *ast.CaseClause:
		for _, e := range x.List {
			a.eval(e)
		}
		for _, st := range x.Body {
			a.stmt(st)
		}
	case *ast.ReturnStmt:
		for _, e := range x.Results {
			t, d := a.eval(e)
			if !isBasicValue(a.typeOf(e)) {
				a.fi.retT.addAll(t)
				a.fi.retD.addAll(d)
			}
		}
		if len(x.Results) == 0 {
			for _, o := range a.named {
				a.fi.retT.addAll(a.get(a.top, o))
				a.fi.retD.addAll(a.get(a.deep, o))
			}
		}
	case *ast.GoStmt:
		if a.record {
			a.fi.spawns = true
		}
		a.eval(x.Call)
	case *ast.DeferStmt:
		a.eval(x.Call)
	case *ast.LabeledStmt:
		a.stmt(x.Stmt)
	case *ast.SendStmt:
		a.eval(x.Chan)
		a.eval(x.Value)
	case *ast.SelectStmt:
		a.block(x.Body)
	case *ast.CommClause:
		a.stmt(x.Comm)
		for _, st := range x.Body {
			a.stmt(st)
		}
	case *ast.BranchStmt, *ast.EmptyStmt:
	}
}

func analyseFunc(p, core *pkgInfo, pkgs map[*types.Package]*pkgInfo, fn *ast.FuncDecl, rets map[string][2]rset) *finfo {
	obj := p.info.Defs[fn.Name].(*types.Func)
	fi := &finfo{name: funcName(core.pkg, obj), pkg: pkgShort(p.pkg), exported: fn.Name.IsExported(), greads: map[string]bool{}, gwrites: map[string]bool{},
		writes: rset{}, retT: rset{}, retD: rset{}, ext: map[string]bool{}, pos: strings.TrimPrefix(p.fset.Position(fn.Pos()).String(), core.dir+"/")}
	a := &fnAnalysis{p: p, core: core, pkgs: pkgs, fi: fi, top: map[types.Object]rset{}, deep: map[types.Object]rset{}, pidx: map[types.Object]int{}, rets: rets}
	if fn.Type.Results != nil {
		for _, fld := range fn.Type.Results.List {
			for _, id := range fld.Names {
				if o := p.info.Defs[id]; o != nil && !isBasicValue(o.Type()) {
					a.named = append(a.named, o)
				}
			}
		}
	}
	if fn.Recv != nil && len(fn.Recv.List) > 0 {
		if len(fn.Recv.List[0].Names) > 0 {
			o := p.info.Defs[fn.Recv.List[0].Names[0]]
			if o != nil {
				a.top[o] = rset{{'t', 0}: true}
				a.deep[o] = rset{{'d', 0}: true}
			}
		}
		t := obj.Type().(*types.Signature).Recv().Type()
		if pt, ok := t.(*types.Pointer); ok {
			t = pt.Elem()
		}
		if n, ok := t.(*types.Named); ok {
			fi.recv = n.Obj().Name()
			fi.exported = fi.exported && n.Obj().Exported()
		}
	}
	i := 0
	for _, fld := range fn.Type.Params.List {
		if len(fld.Names) == 0 {
			i++
		}
		for _, id := range fld.Names {
			i++
			if o := p.info.Defs[id]; o != nil {
				a.top[o] = rset{{'t', i}: true}
				a.deep[o] = rset{{'d', i}: true}
			}
		}
	}
	fi.nparams = i
	if fn.Body == nil {
		return fi
	}
	for iter := 0; iter < 50; iter++ {
		a.change = false
		a.block(fn.Body)
		if !a.change {
			break
		}
	}
	a.record = true
	a.block(fn.Body)
	return fi
}

func sortedKeys(m map[string]bool) []string {
	var out []string
	for k := range m {
		out = append(out, k)
	}
	sort.Strings(out)
	return out
}

func coqStrList(xs []string) string {
	q := make([]string, len(xs))
	for i, x := range xs {
		q[i] = `"` + x + `"`
	}
	return "[" + strings.Join(q, "; ") + "]"
}

func genEffects(core *pkgInfo, subs []*pkgInfo) string {
	pkgs := map[*types.Package]*pkgInfo{core.pkg: core}
	for _, s := range subs {
		pkgs[s.pkg] = s
	}
	var infos []*finfo
	extAll := map[string]bool{}
	// global rounds until the return summaries are stable
	rets := map[string][2]rset{}
	for round := 0; round < 30; round++ {
		infos = nil
		changed := false
		for _, p := range append([]*pkgInfo{core}, subs...) {
			for _, f := range p.files {
				for _, d := range f.Decls {
					if fn, ok := d.(*ast.FuncDecl); ok {
						fi := analyseFunc(p, core, pkgs, fn, rets)
						infos = append(infos, fi)
					}
				}
			}
		}
		for _, fi := range infos {
			old := rets[fi.name]
			if old[0] == nil {
				old = [2]rset{{}, {}}
			}
			if old[0].addAll(fi.retT) {
				changed = true
			}
			if old[1].addAll(fi.retD) {
				changed = true
			}
			rets[fi.name] = old
		}
		if !changed {
			break
		}
	}
	if os.Getenv("GO2V_DEBUG") != "" {
		for _, fi := range infos {
			fmt.Fprintf(os.Stderr, "ret %s T=%s D=%s\n", fi.name, rootsCoq(rets[fi.name][0]), rootsCoq(rets[fi.name][1]))
		}
	}
	for _, fi := range infos {
		for e := range fi.ext {
			extAll[e] = true
		}
	}
	sort.Slice(infos, func(i, j int) bool { return infos[i].name < infos[j].name })
	var sb strings.Builder
	sb.WriteString("(* GENERATED by /verif/translator (go2v) from the current sources of /repo - do not edit.\n")
	sb.WriteString("   Effect summary of every function of package mxj and of j2x, x2j, x2j-wrapper:\n")
	sb.WriteString("   package-level variables read / assigned, roots written by the function's own statements,\n")
	sb.WriteString("   call edges with the roots each argument may refer to (Gen/GenSupport.v explains the roots). *)\n")
	sb.WriteString("From Mxj Require Import Gen.GenSupport.\nLocal Open Scope string_scope.\n\n")
	sb.WriteString("Definition effects : list finfo := [\n")
	for i, fi := range infos {
		var calls []string
		for _, c := range fi.calls {
			var idxs []int
			for j := range c.args {
				idxs = append(idxs, j)
			}
			sort.Ints(idxs)
			var as []string
			for _, j := range idxs {
				as = append(as, fmt.Sprintf("(%d, %s, %s)", j, rootsCoq(c.args[j][0]), rootsCoq(c.args[j][1])))
			}
			calls = append(calls, fmt.Sprintf("(\"%s\", [%s])", c.callee, strings.Join(as, "; ")))
		}
		sort.Strings(calls)
		calls = dedup(calls)
		sep := ";"
		if i == len(infos)-1 {
			sep = ""
		}
		fmt.Fprintf(&sb, "  (* %s *)\n  {| f_name := \"%s\"; f_pkg := \"%s\"; f_recv := \"%s\"; f_exported := %v; f_nparams := %d;\n     f_greads := %s;\n     f_gwrites := %s;\n     f_writes := %s; f_callback := %v; f_spawns := %v;\n     f_calls := [%s] |}%s\n",
			fi.pos, fi.name, fi.pkg, fi.recv, fi.exported, fi.nparams, coqStrList(sortedKeys(fi.greads)), coqStrList(sortedKeys(fi.gwrites)),
			rootsCoq(fi.writes), fi.callback, fi.spawns, strings.Join(calls, ";\n                 "), sep)
	}
	sb.WriteString("].\n\n")
	sb.WriteString("(* external (standard library) callees; those in ext_mutators are taken to write the referent of the listed\n   argument positions (0 = receiver), all others are assumed not to write through their arguments *)\n")
	sb.WriteString("Definition ext_callees : list string := " + coqStrList(sortedKeys(extAll)) + ".\n")
	var ms []string
	for k, v := range extMutators {
		if extAll[k] {
			q := make([]string, len(v))
			for i, j := range v {
				q[i] = fmt.Sprint(j)
			}
			ms = append(ms, fmt.Sprintf("(\"%s\", [%s])", k, strings.Join(q, "; ")))
		}
	}
	sort.Strings(ms)
	sb.WriteString("Definition ext_mutators : list (string * list nat) := [" + strings.Join(ms, "; ") + "].\n")
	return sb.String()
}

func dedup(xs []string) []string {
	var out []string
	for i, x := range xs {
		if i == 0 || x != xs[i-1] {
			out = append(out, x)
		}
	}
	return out
}
