module go2v

go 1.21
