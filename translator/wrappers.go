package main

import (
	"fmt"
	"go/ast"
	"go/constant"
	"go/token"
	"go/types"
	"sort"
	"strings"
)

// Thin wrappers: functions whose body is a straight line of
//     x, err := f(args)      (or = ; any number of results)
//     if err != nil { return ... }
//     return e1, e2, ...
// over variables, literals, conversions and (nested) calls.  Each is rendered as a term of the small
// language of coq/Gen/GenSupport.v (wstmt / wexpr); GenProofs compare the terms with the documented
// compositions and give them a semantics.  A function that does not fit is simply not listed.

type wrapTr struct {
	p    *pkgInfo
	core *pkgInfo
	pkgs map[*types.Package]*pkgInfo
	ok   bool
}

func (t *wrapTr) bad() string { t.ok = false; return "EBad" }

func q(s string) string { return `"` + strings.ReplaceAll(s, `"`, `""`) + `"` }

func (t *wrapTr) expr(e ast.Expr) string {
	tv := t.p.info.Types[e]
	if tv.Value != nil {
		switch tv.Value.Kind() {
		case constant.Bool:
			if constant.BoolVal(tv.Value) {
				return "(EBool true)"
			}
			return "(EBool false)"
		case constant.String:
			return "(ELit " + q(constant.StringVal(tv.Value)) + ")"
		case constant.Int:
			return "(ELit " + q(tv.Value.ExactString()) + ")"
		}
		return t.bad()
	}
	switch x := e.(type) {
	case *ast.ParenExpr:
		return t.expr(x.X)
	case *ast.Ident:
		if tv.IsNil() {
			return "ENil"
		}
		if o := t.p.info.Uses[x]; o != nil {
			if v, ok := o.(*types.Var); ok {
				if pi, internal := t.pkgs[v.Pkg()]; internal && v.Parent() == pi.pkg.Scope() {
					return "(EGlobal " + q(x.Name) + ")"
				}
				return "(EVar " + q(x.Name) + ")"
			}
		}
		return t.bad()
	case *ast.UnaryExpr:
		if x.Op == token.AND {
			return "(EAddr " + t.expr(x.X) + ")"
		}
		return t.bad()
	case *ast.CallExpr:
		// conversion
		if ftv, ok := t.p.info.Types[x.Fun]; ok && ftv.IsType() && len(x.Args) == 1 {
			return "(EConv " + q(types.TypeString(ftv.Type, func(p *types.Package) string { return p.Name() })) + " " + t.expr(x.Args[0]) + ")"
		}
		var callee *types.Func
		var args []string
		switch f := x.Fun.(type) {
		case *ast.Ident:
			if b, ok := t.p.info.Uses[f].(*types.Builtin); ok {
				if b.Name() == "len" || b.Name() == "string" {
					return t.bad()
				}
				return t.bad()
			}
			callee, _ = t.p.info.Uses[f].(*types.Func)
		case *ast.SelectorExpr:
			if sel := t.p.info.Selections[f]; sel != nil {
				if fn, ok := sel.Obj().(*types.Func); ok {
					callee = fn
					args = append(args, t.expr(f.X))
				}
			} else {
				callee, _ = t.p.info.Uses[f.Sel].(*types.Func)
			}
		}
		if callee == nil {
			return t.bad()
		}
		name := ""
		if _, internal := t.pkgs[callee.Pkg()]; internal {
			name = funcName(t.core.pkg, callee)
		} else {
			name = extName(callee)
		}
		for i, a := range x.Args {
			if i == len(x.Args)-1 && x.Ellipsis != token.NoPos {
				args = append(args, "(ESpread "+t.expr(a)+")")
			} else {
				args = append(args, t.expr(a))
			}
		}
		return "(ECall " + q(name) + " [" + strings.Join(args, "; ") + "])"
	}
	return t.bad()
}

func (t *wrapTr) lhsNames(es []ast.Expr) string {
	var out []string
	for _, e := range es {
		id, ok := e.(*ast.Ident)
		if !ok {
			t.ok = false
			return "[]"
		}
		out = append(out, q(id.Name))
	}
	return "[" + strings.Join(out, "; ") + "]"
}

func (t *wrapTr) exprs(es []ast.Expr) string {
	var out []string
	for _, e := range es {
		out = append(out, t.expr(e))
	}
	return "[" + strings.Join(out, "; ") + "]"
}

func (t *wrapTr) stmt(s ast.Stmt) string {
	switch x := s.(type) {
	case *ast.AssignStmt:
		if len(x.Rhs) != 1 || (x.Tok != token.ASSIGN && x.Tok != token.DEFINE) {
			t.ok = false
			return ""
		}
		return "SAssign " + t.lhsNames(x.Lhs) + " " + t.expr(x.Rhs[0])
	case *ast.IfStmt:
		// if err != nil { return ... }
		if x.Init != nil || x.Else != nil || len(x.Body.List) != 1 {
			t.ok = false
			return ""
		}
		be, ok := x.Cond.(*ast.BinaryExpr)
		if !ok || be.Op != token.NEQ || !t.p.info.Types[be.Y].IsNil() {
			t.ok = false
			return ""
		}
		id, ok := be.X.(*ast.Ident)
		if !ok {
			t.ok = false
			return ""
		}
		rs, ok := x.Body.List[0].(*ast.ReturnStmt)
		if !ok {
			t.ok = false
			return ""
		}
		return "SIfErr " + q(id.Name) + " " + t.exprs(rs.Results)
	case *ast.ReturnStmt:
		return "SRet " + t.exprs(x.Results)
	case *ast.ExprStmt:
		if _, ok := x.X.(*ast.CallExpr); ok {
			return "SAssign [] " + t.expr(x.X)
		}
	}
	t.ok = false
	return ""
}

func genWrappers(core *pkgInfo, subs []*pkgInfo) string {
	pkgs := map[*types.Package]*pkgInfo{core.pkg: core}
	for _, s := range subs {
		pkgs[s.pkg] = s
	}
	type entry struct{ name, params, body, pos string }
	var ents []entry
	for _, p := range append([]*pkgInfo{core}, subs...) {
		for _, f := range p.files {
			for _, d := range f.Decls {
				fn, ok := d.(*ast.FuncDecl)
				if !ok || fn.Body == nil || len(fn.Body.List) == 0 || len(fn.Body.List) > 12 {
					continue
				}
				obj := p.info.Defs[fn.Name].(*types.Func)
				t := &wrapTr{p: p, core: core, pkgs: pkgs, ok: true}
				var params []string
				if fn.Recv != nil && len(fn.Recv.List) > 0 && len(fn.Recv.List[0].Names) > 0 {
					params = append(params, q(fn.Recv.List[0].Names[0].Name))
				}
				for _, fld := range fn.Type.Params.List {
					for _, id := range fld.Names {
						params = append(params, q(id.Name))
					}
				}
				var stmts []string
				calls := 0
				for _, s := range fn.Body.List {
					st := t.stmt(s)
					if !t.ok {
						break
					}
					calls += strings.Count(st, "ECall")
					stmts = append(stmts, st)
				}
				// a wrapper calls something and ends in a return (or in the call itself)
				if !t.ok || calls == 0 {
					continue
				}
				ents = append(ents, entry{name: funcName(core.pkg, obj), params: "[" + strings.Join(params, "; ") + "]",
					body: "[" + strings.Join(stmts, ";\n      ") + "]", pos: strings.TrimPrefix(p.fset.Position(fn.Pos()).String(), core.dir+"/")})
			}
		}
	}
	sort.Slice(ents, func(i, j int) bool { return ents[i].name < ents[j].name })
	var sb strings.Builder
	sb.WriteString("(* GENERATED by /verif/translator (go2v) from the current sources of /repo - do not edit.\n")
	sb.WriteString("   Every function of mxj, j2x, x2j and x2j-wrapper whose body is a straight line of calls,\n")
	sb.WriteString("   `if err != nil { return ... }` and a final return: (name, (parameters, body)). *)\n")
	sb.WriteString("From Mxj Require Import Gen.GenSupport.\nLocal Open Scope string_scope.\n\n")
	sb.WriteString("Definition wrappers : list (string * (list string * list wstmt)) := [\n")
	for i, e := range ents {
		sep := ";"
		if i == len(ents)-1 {
			sep = ""
		}
		fmt.Fprintf(&sb, "  (* %s *)\n  (%s, (%s,\n     %s))%s\n", e.pos, q(e.name), e.params, e.body, sep)
	}
	sb.WriteString("].\n")
	return sb.String()
}
