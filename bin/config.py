"""Per-property configuration shared by bin/check and bin/gen-manifest."""

TRUSTED_BASE = [
    "Coq 8.16.1 kernel and coqc; vm_compute (bytecode VM) for evaluating the model on cases and for finite table theorems; no native_compute; the thorough tier re-checks the compiled property file and its dependencies with coqchk -o (expected: Axioms: <none>)",
    "no Axiom/Parameter/Admitted in the development (grepped on every run); Print Assumptions output captured per theorem",
    "hand-written Gallina model of the mxj functions named in the theorems (coq/Model/*.v), tied to /repo by the correspondence check on every run",
    "harness mxjh (Go): generators, projection of observables (values with Go dynamic type tags, error class, panic flag, receiver after the call), Go-side oracle",
    "Go standard library (encoding/xml tokenizer, encoding/json, encoding/gob, strconv, fmt, sort, os) is the environment: modelled as tokens/oracles/Section variables, not verified",
    "translator go2v (/verif/translator: Go -> Gallina, statement by statement; fragment, modes (CPS, join, lenient, write-back, cursor, handler) and the mapping of library calls in its sources; vocabulary coq/Gen/PureSupport.v): the *_code_* theorems re-exported in Props/<id>.v are about its output Gen/Pure_gen.v, regenerated from /repo on this run and proved equal to the hand-written model (coq/GenProofs); it fails closed on constructs outside its fragment; its assumptions are listed in DESIGN.md 11.3",
]

KV_ASSUME = [
    "strconv.ParseFloat is an oracle (per-case table filled by the real function); float64 equality is compared on the %v text",
    "the receiver Map is a tree (no sub-map reachable twice), as every decoder produces; Go map iteration order = list order of the model's association lists, results that depend on it are compared as multisets",
]

PROPS = {
    "C07": {
        "title": "ValuesForPath returns exactly the values a dot/wildcard/indexed path denotes",
        "gen": ["setters", "pure"],
        "run_modules": ["RunKV"],
        "n": {"quick": 4000, "thorough": 60000},
        "level": "proof",
        "technique": "Coq refinement proof (model of valuesForKeyPath/valuesForArray = declarative path semantics, all Maps and paths) + go2v translation of func parsePath from the current keyvalues.go proved equal to the model's parse_path (GenProofs/PureG2.v), and of every function below Map.ValuesForPath, Map.ValueForPath, Map.ValueForPathString, Map.ValueOrEmptyForPathString and Map.Exists, each proved equal to the model (PureG3, PureG5, PureG7, PureG9, PureG39) + model/implementation correspondence by vm_compute",
        "design_ref": "DESIGN.md section 6, C07",
        "assumptions": KV_ASSUME,
        "level_text": "Machine-checked refinement theorems over the executable model of ValuesForPath/ValueForPath/Exists (unbounded: every Map, every key list / path string), with the model tied to the current /repo by differential correspondence evaluated inside Coq and a Go-side oracle that evaluates the path semantics on the implementation's own results.",
        "level_note": "Trusted: Coq kernel + vm_compute; the hand-written model is only as good as the correspondence run (4000 cases quick); parse/render of decimal indexes is exercised by correspondence, not yet proved; stdlib strings.Split/ParseInt transcribed by hand.",
    },
}

def _kv(pid, title, n, text, note, technique="Coq theorems over the executable model + model/implementation correspondence by vm_compute + Go-side oracle"):
    return {"title": title, "run_modules": ["RunKV"], "n": n, "level": "proof", "technique": technique,
            "design_ref": "DESIGN.md section 6, " + pid, "assumptions": KV_ASSUME, "level_text": text, "level_note": note}

PROPS["C08"] = _kv("C08", "Key search and sub-key filters are complete, exact and mutually consistent", {"quick": 4000, "thorough": 60000},
    "Theorems over the model of hasKey/hasKeyPath/hasSubKeys/getSubKeyMap (all Maps, keys and sub-key lists); correspondence of ValuesForKey, PathsForKey, PathForKeyShortest and ValuesForPath-with-sub-keys with the current /repo; Go-side oracle evaluates the statement's clauses on the implementation.",
    "Trusted: Coq kernel; hand-written model validated by correspondence; getSubKeyMap, hasSubKeys and Map.PathForKeyShortest additionally translated from the current source by go2v and proved equal to the model (GenProofs/PureG2.v; translator fragment and stdlib mapping in translator/pure.go); ParseFloat oracle; nested-list inconsistency is a recorded finding.",
    technique="go2v translation of getSubKeyMap / hasSubKeys / Map.PathForKeyShortest proved equal to the model + Coq theorems over the executable model + model/implementation correspondence by vm_compute + Go-side oracle")
PROPS["C08"]["gen"] = ["setters", "pure"]
_C09_GEN = True
PROPS["C09"] = _kv("C09", "LeafNodes lists every terminal value once, with a path that resolves to it", {"quick": 4000, "thorough": 60000},
    "Theorems over the model of getLeafNodes (all Maps, keys, option combinations); correspondence of LeafNodes/LeafPaths/LeafValues under all option combinations; oracle resolves every leaf path through ValuesForPath on the implementation.",
    "Trusted: Coq kernel; model validated by correspondence; strconv.Itoa transcribed.")
PROPS["C09"]["gen"] = ["setters", "pure"]
PROPS["C10"] = _kv("C10", "UpdateValuesForPath changes only the addressed values and reports how many", {"quick": 4000, "thorough": 60000},
    "Theorems over the model of updateValuesForKeyPath/updateValue (functional rebuild of the in-place update); correspondence of the resulting Map and count; oracle compares with the addressed-positions specification.",
    "Trusted: Coq kernel; model validated by correspondence; getSubKeyMap and hasSubKeys (the sub-key conditions) additionally re-translated from the current source by go2v on every run and proved equal to the model (C10_get_sub_key_map_code_is_model, C10_has_sub_keys_code_is_model), and the four updater functions themselves in write-back mode (C10_update_values_for_path_code_is_model and the three below it); two recorded findings (create-on-absent, list node before the last key).")
PROPS["C10"]["gen"] = ["setters", "pure"]
PROPS["C11"] = _kv("C11", "SetValueForPath, Remove, RenameKey touch exactly one entry or fail cleanly", {"quick": 4000, "thorough": 60000},
    "Theorems over the models of SetValueForPath (located ValuesForPath + write), Remove and RenameKey (prevValueByPath + write); correspondence of the Map after the call and of the error class; oracle checks post-condition, frame and fail-clean on the implementation.",
    "Trusted: Coq kernel; model validated by correspondence; Map.Exists and Map.ValuesForPath (RenameKey's pre-checks, SetValueForPath's lookup) additionally re-translated from the current source by go2v on every run and proved equal to the model (C11_exists_code_is_model, C11_values_for_path_code_is_model), and SetValueForPath, Remove, RenameKey with their helpers themselves (write-back mode; C11_SetValueForPath_code_is_model, C11_Remove_code_is_model, C11_RenameKey_code_is_model).")
PROPS["C11"]["gen"] = ["setters", "pure"]
PROPS["C12"] = _kv("C12", "NewMap builds exactly the requested projection and leaves the source unchanged", {"quick": 4000, "thorough": 60000},
    "Theorems over the model of NewMap/addNewVal; correspondence of the built Map, the error class and the receiver after the call; oracle checks receiver deep-equality and the projection content.",
    "Trusted: Coq kernel; model validated by correspondence; immutability of Gallina values hides aliasing, so non-modification of the receiver is observed by the harness (deep comparison) on every case; Map.ValuesForPath (the source of the old values) additionally re-translated from the current source by go2v on every run and proved equal to the model (C12_values_for_path_code_is_model), and NewMap, addNewVal and copyMapShallow themselves (cursor mode; C12_new_map_code_is_model_full, C12_add_new_val_code_is_model).")
PROPS["C12"]["gen"] = ["setters", "pure"]

XML_ASSUME = [
    "encoding/xml's tokenizer is the environment: the decoder model consumes the token list the real Decoder.Token returned for the same bytes (recorded by the harness); toks_of_* in Spec/ state what it returns on rendered trees and are validated on every run",
    "strconv.ParseFloat is an oracle (per-case table filled by the real function); float64 values are carried as their %v text",
    "package-level options are set through the exported setters before each implementation call and restored afterwards",
]
PROPS["C01"] = {"title": "XML decodes to the Map the documented conventions prescribe, under all options", "run_modules": ["RunXml"], "gen": ["setters", "pure"],
    "n": {"quick": 2500, "thorough": 40000}, "level": "proof",
    "technique": "Coq proof that the model decoder = the declarative conventions conv (Spec/Conv.v, all options) + go2v translation of NewMapXml / xmlToMap / xmlToMapParser / cast / escapeChars from the current xml.go, each proved equal to the model (GenProofs/PureG, PureG13, PureG14, PureG39: NewMapXml(doc) = model decoder on the configured token stream) + model/implementation correspondence by vm_compute on real token streams + Go-side oracle transcribing the conventions",
    "design_ref": "DESIGN.md section 6, C01", "assumptions": XML_ASSUME,
    "level_text": "Executable Coq model of the decoder (all options, cast, escaping, tag sequence numbers) tied to the current /repo on real token streams; theorems over the model; the Go-side oracle compares NewMapXml with a direct transcription of the conventions on abstract documents rendered with random lexical choices.",
    "level_note": "Trusted: Coq kernel; encoding/xml tokenizer (ext_xml_NewDecoder and the two decoder-configuration functions ext_useCustomDecoder / ext_xml_set_CharsetReader, arbitrary in the theorems) and strconv as environment; hand-written model validated by correspondence on every run and additionally equal to the translation of the current source (C01_xml_parser_code_is_model, C01_xml_to_map_code_is_model, C01_new_map_xml_code_is_model); the reader entry points NewMapXmlReader[Raw] are tied by correspondence only."}

# further properties: one file bin/props.d/<id>.py each, defining PROP = {...} (same keys as above)
import glob as _glob, os as _os
for _f in sorted(_glob.glob(_os.path.join(_os.path.dirname(_os.path.abspath(__file__)), "props.d", "C*.py"))):
    _ns = {"KV_ASSUME": KV_ASSUME, "XML_ASSUME": XML_ASSUME, "TRUSTED_BASE": TRUSTED_BASE}
    exec(compile(open(_f).read(), _f, "exec"), _ns)
    PROPS[_os.path.basename(_f)[:-3]] = _ns["PROP"]

# properties not (yet) claimed; kept current as checks are added
_ALL = ["C%02d" % i for i in range(1, 21)]
NOT_APPLICABLE = [{"property_id": p, "reason": "check not built yet in this round (planned, see DESIGN.md section 6); not a limit of the technique"}
                  for p in _ALL if p not in PROPS]
