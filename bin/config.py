"""Per-property configuration shared by bin/check and bin/gen-manifest."""

TRUSTED_BASE = [
    "Coq 8.16.1 kernel and coqc; vm_compute (bytecode VM) for evaluating the model on cases and for finite table theorems; no native_compute",
    "no Axiom/Parameter/Admitted in the development (grepped on every run); Print Assumptions output captured per theorem",
    "hand-written Gallina model of the mxj functions named in the theorems (coq/Model/*.v), tied to /repo by the correspondence check on every run",
    "harness mxjh (Go): generators, projection of observables (values with Go dynamic type tags, error class, panic flag, receiver after the call), Go-side oracle",
    "Go standard library (encoding/xml tokenizer, encoding/json, strconv, fmt, sort) is the environment: modelled as tokens/oracles, not verified",
]

KV_ASSUME = [
    "strconv.ParseFloat is an oracle (per-case table filled by the real function); float64 equality is compared on the %v text",
    "the receiver Map is a tree (no sub-map reachable twice), as every decoder produces; Go map iteration order = list order of the model's association lists, results that depend on it are compared as multisets",
]

PROPS = {
    "C07": {
        "title": "ValuesForPath returns exactly the values a dot/wildcard/indexed path denotes",
        "run_modules": ["RunKV"],
        "n": {"quick": 4000, "thorough": 60000},
        "level": "proof",
        "technique": "Coq refinement proof (model of valuesForKeyPath/valuesForArray = declarative path semantics, all Maps and paths) + model/implementation correspondence by vm_compute",
        "design_ref": "DESIGN.md section 6, C07",
        "assumptions": KV_ASSUME,
        "level_text": "Machine-checked refinement theorems over the executable model of ValuesForPath/ValueForPath/Exists (unbounded: every Map, every key list / path string), with the model tied to the current /repo by differential correspondence evaluated inside Coq and a Go-side oracle that evaluates the path semantics on the implementation's own results.",
        "level_note": "Trusted: Coq kernel + vm_compute; the hand-written model is only as good as the correspondence run (4000 cases quick); parse/render of decimal indexes is exercised by correspondence, not yet proved; stdlib strings.Split/ParseInt transcribed by hand.",
    },
}

# properties not (yet) claimed; kept current as checks are added
_ALL = ["C%02d" % i for i in range(1, 21)]
NOT_APPLICABLE = [{"property_id": p, "reason": "check not built yet in this round (planned, see DESIGN.md section 6); not a limit of the technique"}
                  for p in _ALL if p not in PROPS]
