PROP = {
    "title": "Decoders and string-argument APIs are total: errors are returned, never panics",
    "run_modules": ["RunXml", "RunKV"],
    "gen": ["sites", "setters", "pure"],
    "n": {"quick": 3000, "thorough": 40000},
    "level": "proof",
    "technique": "Coq no-panic / fails-iff theorems over the executable models (all token lists, all Maps, all argument strings) + correspondence on malformed inputs (panic compared as a result class) + Go-side oracle in a crash-isolated worker process under a timeout",
    "design_ref": "DESIGN.md section 6, C15",
    "assumptions": XML_ASSUME + KV_ASSUME + [
        "PARTIAL (termination): the model functions are total by construction; that the Go loops terminate on the same inputs is observed under a 10 s timeout in a worker process (a fatal error such as a stack overflow is observed as a violation), not proved",
    ],
    "level_text": "For every modelled decoder and string-argument API the theorem `f args <> Panic` holds for ALL token lists / Maps / strings, and the Map decoder fails exactly when the token stream ends before the root element is complete, returning no Map; the models are tied to /repo by the correspondence on malformed inputs, where a panic of the implementation is a result class of its own; the worker-process oracle additionally covers the entry points that are not modelled (gob, bulk handlers).",
    "level_note": "50 theorems: every modelled function (queries, updates, leaf walkers, key search, both decoders over all token lists, encoders on any value, JSON scanner / readers / handlers / file loops, x2j-wrapper walkers, argument parsers); sequence-codec output encodable under seq_keys_ok (default keys: always), refuted for a key prefix that is an XML name start (recorded finding seq-keyprefix-name-collision). Trusted: Coq kernel; hand-written models validated by correspondence; encoding/xml, encoding/json, encoding/gob as environment. Termination is observed, not proved.",
}
