PROP = {
    "title": "JSON encode/decode is lossless and agrees with encoding/json",
    "run_modules": ["RunJson"],
    "n": {"quick": 4000, "thorough": 60000},
    "level": "proof",
    "technique": "Coq transcription of encoding/json's string encoder/decoder and of Map.Json's post-marshal rewrite (bytes.Replace x3) + theorems over all strings / all Maps + model/implementation correspondence by vm_compute (all single bytes, hazardous fragments, random Maps, arbitrary byte strings for NewMapJson) + Go-side oracle",
    "design_ref": "DESIGN.md section 6, C06",
    "assumptions": [
        "encoding/json is the environment and is modelled at the string layer only: quote_body / unquote_body transcribe appendString (go1.23, escapeHTML on as json.Marshal does) and unquoteBytes after the scanner; both are compared with the real functions on every run (all single bytes, fragment strings)",
        "the structure around string literals is carried as segments (objects with sorted keys, arrays, numbers as the text encoding/json prints, true/false/null); decode_segs is the structural inverse and is compared with NewMapJson(Json(m)) on every run",
        "NewMapJson is a function of the stdlib decoder oracle (Decoder.Decode into a map[string]interface{}; per-case table filled by the real decoder)",
        "package variable JsonUseNumber is set before and restored after each call",
    ],
    "level_text": "Machine-checked theorems over the executable model of Map.Json / Map.JsonIndent (marshal + the three bytes.Replace passes) and of the string codec of encoding/json, for all strings and all Maps; the defect of the default encoding is a _refuted witness and the positive theorems carry the exact side condition (no string contains backslash-u003c, -u003e, -u0026); the model is tied to the current /repo by differential correspondence and a Go-side oracle evaluates the property statement on the implementation.",
    "level_note": "Trusted: Coq kernel + vm_compute; encoding/json's structure (segments) and its decoder (oracle) are the environment, validated by correspondence; recorded findings: literal escape text in default mode, NewMapJson acceptance deviations (leading blank before '[', data after an array, null, empty input).",
}
