PROP = {
    "title": "JSON encode/decode is lossless and agrees with encoding/json",
    "run_modules": ["RunJson"],
    "gen": ["setters", "pure"],
    "n": {"quick": 4000, "thorough": 60000},
    "level": "proof",
    "technique": "Coq transcription of encoding/json's string encoder (HTML escaping on/off) and decoder, of Map.Json / JsonIndent (marshalJSON + json.Indent) and of the former post-marshal rewrite (bytes.Replace x3, kept as a specification artefact) + theorems over all strings / all Maps + model/implementation correspondence by vm_compute (all single bytes, hazardous fragments, random Maps, arbitrary byte strings for NewMapJson) + Go-side oracle",
    "design_ref": "DESIGN.md section 6, C06",
    "assumptions": [
        "encoding/json is the environment and is modelled at the string layer only: quote_body / unquote_body transcribe appendString (go1.23, escapeHTML on or off) and unquoteBytes after the scanner; both are compared with the real functions on every run (all single bytes, fragment strings); the former rewrite of Spec/JsonSpec.v is compared with the real bytes.Replace",
        "the structure around string literals is carried as segments (objects with sorted keys, arrays, numbers as the text encoding/json prints, true/false/null); decode_segs is the structural inverse and is compared with NewMapJson(Json(m)) on every run",
        "NewMapJson is a function of the stdlib decoder oracle (Decoder.Decode of the first value into an interface{}; per-case table filled by the real decoder)",
        "package variable JsonUseNumber is set before and restored after each call",
    ],
    "level_text": "Machine-checked theorems over the executable model of Map.Json / Map.JsonIndent and of the string codec of encoding/json, for all valid UTF-8 strings and all Maps of JSON types, both encodings: per-string law, every literal of the output decodes to its string, safe encoding has no literal < > &, NewMapJson = the acceptance specification on non-empty input; the former default encoding (repaired in /repo b2598e9) is kept as a specification artefact with its refutation and the byte-for-byte compatibility theorem; the model is tied to the current /repo by differential correspondence and a Go-side oracle evaluates the property statement on the implementation.",
    "level_note": "Map.Json and Map.Copy re-translated by go2v on every run and proved to be marshalJSON(mv, flag) / Json then NewMapJson (C06_json_code, C06_copy_code); Trusted: Coq kernel + vm_compute; encoding/json's structure (segments, decode_segs) and its decoder (oracle) are the environment, validated by correspondence; the structural round trip decode_segs (segments v) = canonical v is PROVED for all JSON-shaped Maps in both number modes (C06_json_roundtrip, also for JsonIndent with blank prefix/indent and for Copy), over the segment model of encoding/json; the byte-level scanner of encoding/json is not transcribed (environment); one recorded finding (NewMapJson accepts the empty input, documented).",
}
