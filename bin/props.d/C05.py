# C05 - special characters survive encoding; invalid output is an error, never silent
PROP = {
    "gen": ["setters", "pure"],
    "title": "Special characters survive encoding; invalid output is an error, never silent",
    "run_modules": ["RunEsc"],
    "n": {"quick": 3000, "thorough": 50000},
    "shards": {"quick": 16, "thorough": 64},
    "level": "proof",
    "technique": "go2v translation of func escapeChars and its table from the current escapechars.go (Gen/Pure_gen.v) proved equal to the model for every string (GenProofs/PureG.v) + Coq theorems over the executable model (escapeChars at character level for all strings: one pass, inverse, safety; the Map encoder escapes each leaf exactly once; decoder-side escaping as a leaf map of the decoded Map; the two setters never both on; soundness of the post-encode check parametric in the tokenizer) + model/implementation correspondence by vm_compute (escapeChars on all bytes and random strings, setter histories, Map.Xml bytes, NewMapXml under decoder escaping) + Go-side oracle on the four encoders x three escaping modes x check on/off",
    "design_ref": "DESIGN.md section 6, C05",
    "assumptions": XML_ASSUME + [
        "unescape (Spec/EscSpec.v) states how encoding/xml's tokenizer reads the five predefined entities; validated on every run by running the real tokenizer over the escaped strings (character data and attribute value)",
        "the acceptance function of the validity check is a parameter of checked_sound; the correspondence run feeds it the real tokenizer's verdict on the unchecked output",
        "the MapSeq encoders (MapSeq.Xml, MapSeq.XmlIndent) and NewMapXmlSeq are not modelled here (C04): their clauses are checked by the Go-side oracle only (recorded finding: they panic on text beside child elements, the C04 defect)",
    ],
    "level_text": "Machine-checked theorems for all strings, Maps, token lists and option records: escaping is a single pass whose inverse recovers the string exactly and whose output is safe in text and attribute position; Map.Xml writes every string leaf through escaping exactly once; decoder-side escaping is the plain decoding with every leaf escaped, and re-encoding writes only safe texts; the two switches are never both on; with the check on a nil error implies acceptance by the tokenizer (all four encoders since fix 122e022; before it MapSeq.Xml's check read an empty string). The model is tied to /repo on every run by correspondence, and the statement is evaluated on the four encoders by a Go-side oracle.",
    "level_note": "Trusted: Coq kernel + vm_compute; encoding/xml tokenizer as environment (unescape validated, not proved; acceptance is a parameter); hand-written model validated by correspondence; MapSeq codec covered by the oracle only; Map.XmlIndent bytes are not compared with the model (its items equal Map.Xml's up to whitespace), only evaluated by the oracle.",
}
