PROP = {
    "title": "Queries and encoders never modify their receiver and may run concurrently",
    "run_modules": [],
    "gen": ["setters", "effects", "wrappers"],
    "n": {"quick": 1500, "thorough": 30000},
    "race_stress": {"quick": 150, "thorough": 4000},
    "level": "proof",
    "technique": "Coq theorems decided by kernel evaluation over effect summaries REGENERATED from the current Go source by go2v (no store into receiver / package-level storage through any call chain, closure proved sound) + generic interleaving theorem + Go-side deep-equality and goroutine oracle, race detector stress",
    "design_ref": "DESIGN.md section 6, C17",
    "assumptions": [
        "PARTIAL: the theorems are about mxj's own statements; the Go memory model, the runtime's map implementation and the internals of encoding/xml, encoding/json, encoding/gob, fmt, reflect, sort are not modelled",
        "the effect analysis of go2v (flow-insensitive may-alias roots Pt/Pd/G per parameter, return summaries, call-edge argument maps) is trusted; standard-library callees are taken to write only the argument positions listed in ext_mutators (printed in Gen/Effects_gen.v)",
        "Map.NewMap is classified separately (receiver purity is C12's path-sensitive ownership theorem)",
    ],
    "level_text": "Receiver purity and absence of writes to shared state are decided statically, for every read-only entry point and every chain of calls, on summaries recomputed from /repo's current source on every run (a new exported method must be classified or the proof breaks); a generic theorem shows that threads performing no write to shared locations are race free and compute in every interleaving what they compute alone. The dynamic checks (deep equality around every call, Copy independence, goroutines vs sequential results, -race stress) search for a failing input and cover the stdlib internals the static theorem leaves out.",
    "level_note": "Partial by nature (runtime behaviour). Trusted: Coq kernel, go2v effect analysis, the list of standard-library mutators.",
    "trusted_extra": ["translator /verif/translator (go2v): effect summaries; Go race detector (search only)"],
}
