PROP = {
    "title": "Package options have only their documented effect and can always be restored",
    "run_modules": ["RunOpts"],
    "gen": ["setters", "effects"],
    "n": {"quick": 3000, "thorough": 40000},
    "level": "proof",
    "technique": "Coq theorems over the option setters TRANSLATED from the current Go source by go2v (Gen/Setters_gen.v) and over the regenerated read sets (Gen/Effects_gen.v) + correspondence of the complete option state after every call of generated histories (hook VerifOptionState) + Go-side oracle",
    "design_ref": "DESIGN.md section 6, C18",
    "assumptions": [
        "the translator go2v (go/parser + go/types; fragment: if/else, early return, assignments to package variables and locals, len, constant index / slice, ==, !=, !, &&, ||, >, string/bool/int constants, strings.ReplaceAll) is trusted to render the setters faithfully; it fails closed on anything else and is cross-checked on every run by the state correspondence",
        "the option state is observed through the add-only hook /repo/verif_hooks.go (build tag verif)",
        "key prefixes range over single ASCII punctuation characters (the property's domain)",
    ],
    "level_text": "Every function of package mxj that assigns a package-level variable is re-translated from /repo's current source into Gallina on every run; idempotence, argument-less semantics, frame, the reachable-state invariant, restore-to-defaults (induction over all histories) and non-interference (from the regenerated transitive read sets) are proved against that translation, so a change to a setter breaks a proof obligation; the correspondence compares the whole option state after every call of 3000 generated histories with the translated model.",
    "level_note": "Trusted: Coq kernel, go2v translator (cross-checked by the state correspondence on every run), the hook. Non-interference is decided on read sets of mxj's own statements (standard library internals are outside).",
    "trusted_extra": ["translator /verif/translator (go2v): Go -> Gallina for the option setters and effect summaries; fails closed outside its fragment"],
}
