PROP = {
    "title": "MapSeq round trip preserves order, attributes, comments and instructions",
    "run_modules": ["RunSeq"],
    "gen": ["setters", "pure"],
    "n": {"quick": 3000, "thorough": 40000},
    "shards": {"quick": 16, "thorough": 64},
    "level": "proof",
    "technique": "Coq models of xmlSeqToMapParser (over RawToken lists) and of MapSeq.Xml/XmlIndent/mapToXmlSeqIndent/elemListSeq.Less (items) + "
                 "round-trip theorem over abstract documents with the sort-by-sequence-number lemma (any entry order) + correspondence by vm_compute on "
                 "real RawToken streams + go2v translation of NewMapXmlSeq / NewMapFormattedXmlSeq / xmlSeqToMap / xmlSeqToMapParser / BeautifyXml / MapSeq.Xml / XmlIndent / mapToXmlSeqIndent from the current xmlseq.go, each proved equal to the model (GenProofs/PureG13, PureG15, PureG17, PureG25-31, PureG39) + Go-side round-trip oracle on NewMapXmlSeq/Xml/XmlIndent/BeautifyXml/NewMapFormattedXmlSeq",
    "design_ref": "DESIGN.md section 6, C04",
    "assumptions": XML_ASSUME + [
        "rawtoks_of_items (Spec/SeqSpec.v) states what Decoder.RawToken returns on the emitted items (names compared as written, the five predefined entities unescaped); it is compared with the real RawToken stream of every indented / beautified output of the run",
        "sort.Sort is modelled as Go's insertion sort with Less(i,j) = seq_i <= seq_j; on pairwise distinct sequence numbers (all the theorem needs) every sorting algorithm agrees, ties are never generated because their outcome depends on hash-iteration order",
    ],
    "level_text": "Executable Coq models of the sequence-preserving decoder and encoder, tied to the current /repo on real RawToken streams (decoder: Map, error class, panic; compact encoder: bytes; indented encoder and BeautifyXml: RawToken stream), with machine-checked theorems: the round trip (decode, then Xml / XmlIndent / BeautifyXml with any blank indentation) reproduces the normalised RawToken stream for every document of the property's domain (unbounded; text alone or before child elements), sorting by sequence number recovers document order for every entry order, attributes come back in their original order, BeautifyXml is XmlIndent after NewMapXmlSeq.",
    "level_note": "BeautifyXml and NewMapXmlSeq re-translated by go2v on every run and proved to be the compositions the model is stated with (C04_beautify_code, C04_new_map_xml_seq_code); xmlSeqToMap (decoder creation and configuration) and NewMapFormattedXmlSeq likewise (C04_xml_seq_to_map_code_is_model, C04_new_map_xml_seq_code_is_model, C04_new_map_formatted_xml_seq_code[_is_model]; package regexp is the environment function ext_regexp_ReplaceAll applied to the pattern text, arbitrary in the theorems); Trusted: Coq kernel + vm_compute; encoding/xml tokenizer, fmt and sort as environment; hand-written models validated by correspondence on every run. The defect the machinery found on the pinned tree (text before child elements made the encoders panic in elemListSeq.Less) was repaired by fix 3cc484a; the models follow the repaired code and the theorem covers the full domain. The round-trip theorem is stated for the model's own entry order of the decoded MapSeq (deep permutation invariance of the whole encoder is C16's statement; the sort lemma is proved for every order). XmlCheckIsValid is kept off in the MapSeq cases (C05).",
}
