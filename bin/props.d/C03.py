PROP = {
    "gen": ["setters", "pure"],
    "title": "Encoding any JSON-shaped Map or value as XML preserves all of its data",
    "run_modules": ["RunXml2"],
    "n": {"quick": 1300, "thorough": 40000},
    "shards": {"quick": 16, "thorough": 64},
    "level": "proof",
    "technique": "Coq item model of Map.Xml / Map.XmlIndent / AnyXml / AnyXmlIndent (Model/XmlEnc.v) + declarative image img (Spec/Img.v) + "
                 "tokenizer specification toks_of_items (Spec/Items.v) + correspondence by vm_compute on the bytes of the compact encoders and on "
                 "the real token streams of all four encoders + Go-side oracle NewMapXml(encode(v)) == img(v)",
    "design_ref": "DESIGN.md section 6, C03",
    "assumptions": XML_ASSUME + [
        "toks_of_items (Spec/Items.v) is the specification of what encoding/xml's tokenizer returns on the encoders' output; it is compared "
        "with the real token stream of the real output on every run (XToks cases)",
        "fmt.Sprintf(\"%v\") of int / float64 / json.Number / bool is carried as text (the harness prints the number the way the encoder formats it)",
    ],
    "level_text": "Theorems over the executable model of the four Map/value XML encoders and the decoder model: for every JSON-shaped value in "
                  "the stated domain the encoders' items are well formed, have one root, and decode (with any whitespace the indented encoders "
                  "insert) to img(v); the models are tied to the current /repo by differential correspondence evaluated inside Coq (bytes of "
                  "Map.Xml / AnyXml, real token streams of Map.Xml, Map.XmlIndent, AnyXml, AnyXmlIndent) and a Go-side oracle compares "
                  "NewMapXml(encoder output) with a Go transcription of img on the implementation's own results.",
    "level_note": "Trusted: Coq kernel + vm_compute; encoding/xml tokenizer, fmt and sort as environment (toks_of_items validated on every run); "
                  "the hand-written encoder/decoder models are only as good as the correspondence run; character legality (control characters, \\r) "
                  "is outside wf_items; the Go transcription of img is a search aid, not evidence.",
}
