# C14 - casting changes only leaf types, predictably, and never yields NaN or Inf
PROP = {
    "gen": ["setters", "pure"],
    "title": "Casting changes only leaf types, predictably, and never yields NaN or Inf",
    "run_modules": ["RunCast"],
    "n": {"quick": 2400, "thorough": 30000},
    "shards": {"quick": 16, "thorough": 64},
    "level": "proof",
    "technique": "go2v translation of func cast from the current xml.go (Gen/Pure_gen.v) proved equal to the model for every package state and argument (GenProofs/PureG.v) + Coq theorems over the executable model of cast / xmlToMapParser (decision table, relational parametricity of the decoder in the cast flag, NaN/Inf exclusion) + model/implementation correspondence by vm_compute (decoder on real token streams, cast through the verif hook, exhaustive sweep of the NaN/Inf spellings against strconv.ParseFloat) + Go-side oracle on NewMapXml, NewMapXmlSeq and Map.Json",
    "design_ref": "DESIGN.md section 6, C14",
    "assumptions": XML_ASSUME + [
        "H1: strconv.ParseFloat returns NaN or an infinity with a nil error exactly for the spellings nan, [+-]inf, [+-]infinity (ASCII case-insensitive; Spec/CastSpec.v special); a Section-style hypothesis of cast_spec / special_never_cast, validated on all 816 signed case variants and on every generated numeral on every run",
        "H0: strconv.ParseFloat rejects the empty string (hypothesis of cast_structure); validated on every run",
        "the sequence codec (NewMapXmlSeq) is not modelled here (C04): its cast clauses are checked by the Go-side oracle only",
    ],
    "level_text": "Machine-checked theorems over the model of cast and of the Map decoder, for all token lists, option records, leaf texts, tags and ParseFloat oracles: the decision chain equals the declarative table; decoding with the cast flag gives the same structure and keys as without it with every string leaf replaced by the cast of its own text (an equation when no skip function is set); un-cast decoding yields only strings; unless CastNanInf is on no NaN/Inf float64 occurs anywhere in a decoded Map. The model is tied to /repo on every run by correspondence on real token streams and through the verif hook, and the property is evaluated on the implementation (NewMapXml, NewMapXmlSeq, Json) by a Go-side oracle.",
    "level_note": "Trusted: Coq kernel + vm_compute; the translator go2v (fragment and stdlib mapping in translator/pure.go); encoding/xml tokenizer and strconv as environment (H1/H0 validated, not proved); hand-written model validated by correspondence; NewMapXmlSeq covered by the oracle only; json.Marshal's acceptance is modelled as 'no NaN/Inf float64' (json_ok).",
}
