PROP = {
    "gen": ["setters", "pure"],
    "title": "XML -> Map -> XML -> Map is a fixed point; re-encoded XML is well formed",
    "run_modules": ["RunXml2"],
    "n": {"quick": 650, "thorough": 6000},
    "shards": {"quick": 16, "thorough": 64},
    "level": "proof",
    "technique": "Coq models of xmlToMapParser/cast (Model/XmlDec.v) and of Map.Xml / Map.XmlIndent (Model/XmlEnc.v) + tokenizer specification "
                 "toks_of_items (Spec/Items.v) + correspondence by vm_compute on both decodes, the compact encoder's bytes and the real token "
                 "streams of both encoders + Go-side round-trip oracle over the symmetric option cube",
    "design_ref": "DESIGN.md section 6, C02",
    "assumptions": XML_ASSUME + [
        "toks_of_items (Spec/Items.v) is the specification of what encoding/xml's tokenizer returns on the encoders' output; it is compared "
        "with the real token stream of the real output on every run (XToks cases)",
        "pf_hyps (Proofs/C02Cast.v; a named hypothesis of xml_fixed_point, used only when the cast argument is true): for every float64 f the cast "
        "produced, ParseFloat(%v text of f) == f, that text consists of the characters 0-9 + - . e E or is NaN/+Inf/-Inf, and ParseFloat "
        "rejects \"true\" and \"false\"; "
        "print/parse round trip of floats: strconv.ParseFloat(fmt.Sprintf(\"%v\", f), 64) == f for every float64 the cast produced "
        "(checked by the harness on every float leaf of every decoded Map; a failure is reported as violation key assumption-parsefloat)",
    ],
    "level_text": "Theorems over the executable decoder and encoder models: for every document of the stated domain and every symmetric option "
                  "vector the re-encoded items are well formed, have one root and decode (with the whitespace the indented encoder may insert, "
                  "as far as the options trim it) to the first Map; the models are tied to the current /repo by differential correspondence "
                  "evaluated inside Coq (NewMapXml on the generated document and on both encoders' real output, bytes of Map.Xml, real token "
                  "streams of Map.Xml and Map.XmlIndent) and a Go-side oracle runs the round trip on the implementation for both encoders.",
    "level_note": "Trusted: Coq kernel + vm_compute; encoding/xml tokenizer, strconv, fmt and sort as environment (toks_of_items and the "
                  "ParseFloat print/parse assumption validated on every run); hand-written models only as good as the correspondence run; "
                  "keep-spaces with a blank indentation is a recorded by-design finding (the theorem is stated with ws_ok); \\r excluded from values.",
}
