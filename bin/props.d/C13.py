PROP = {
    "title": "Stream decoding is independent of how the io.Reader delivers bytes",
    "run_modules": ["RunReader"],
    "gen": ["setters", "pure"],
    "n": {"quick": 3000, "thorough": 40000},
    "level": "proof",
    "technique": "go2v translation of func getJson from the current json.go (Gen/Pure_gen.v: the for loop around rdr.Read, break/continue, the byte switch) proved equal to the model scanner on every reader schedule (GenProofs/PureG6.v) + Coq model of the byteReader/teeReader adaptors, the getJson scanner, the reader entry points, bulk handlers and file readers over reader schedules + theorems over all schedules/streams + model/implementation correspondence under scripted io.Readers by vm_compute + Go-side oracle",
    "design_ref": "DESIGN.md section 6, C13",
    "assumptions": [
        "encoding/xml's Decoder with xmlToMapParser/xmlSeqToMapParser is an abstract deterministic consumer of ReadByte results that tests the error before the byte (Decoder.getc); in the correspondence its behaviour is a table filled on every run by running the same exported functions over a bytes.Reader (an io.ByteReader, so no mxj adaptor is involved)",
        "decoder consumption: on a well-formed document followed by anything the decoder stops right after the root element's closing '>' (hypothesis stops_at of the theorems; checked on every clean case: bytes handed out == end offset of the document)",
        "NewMapJson is an oracle str -> result (table filled by the real function); the adaptors and getJson always pass one-byte buffers to Read (a Read call with any other buffer length makes the case fail)",
        "the XML theorems are stated for schedules without 100 consecutive (0, nil) reads: byteReader / teeReader then return io.ErrNoProgress (as bufio.Reader does); such scripts are generated for the correspondence (ErrNoProgress path) and excluded from the oracle",
        "an *os.File delivers every byte with a nil error and then (0, io.EOF)",
    ],
    "level_text": "Machine-checked theorems over the executable model of the two single-byte adaptors, getJson, NewMapXmlReader[Raw], NewMapXmlSeqReader[Raw], NewMapJsonReader[Raw], the four bulk handlers and the file readers, for all legal schedules (every split, final data with io.EOF or before it, interspersed (0,nil) reads) and all streams; the model follows the repaired code (a2b77a7, 419ac2a, fd230a2, 9f7e6ef) and the former _refuted statements are now positive theorems; getJson itself is re-translated from the current json.go on every run and the translation is proved equal to the model scanner (C13_get_json_code_is_model; always returns: C13_get_json_code_returns; reads no package variable: C13_get_json_code_reads_no_option); the rest of the model is tied to the current /repo by differential correspondence under scripted io.Readers and a Go-side oracle evaluates the property statement on the implementation.",
    "level_note": "Trusted: Coq kernel + vm_compute; the go2v translator and its vocabulary (Gen/PureSupport.v: for_loop, go_read = one event of the schedule per Read into a one-byte buffer, io.EOF the only reader error); the XML decoder is the environment (table oracle, consumption assumption validated per run); hand-written model validated by correspondence on every run; one recorded finding (the raw value of the JSON Raw readers omits blanks); side condition of the XML theorems: fewer than 100 consecutive (0,nil) reads (witness C13_adaptor_no_progress).",
}
