# C16 - Encoders are deterministic and all their variants agree
PROP = {
    "title": "Encoders are deterministic and all their variants agree",
    "run_modules": ["RunC16"],
    "gen": ["setters", "pure"],
    "n": {"quick": 800, "thorough": 8000},
    "shards": {"quick": 16, "thorough": 64},
    "level": "proof",
    "technique": "Coq proof that the Map encoder model is invariant under every permutation of every entry list (= every Go hash-iteration order), "
                 "that its output is ordered (attributes strictly ascending, sibling elements ascending, at every depth) and that the indented root rule "
                 "agrees with the compact one except on one stated shape; model of Map.Json/JsonIndent on top of encoding/json's Encoder and Indent, of the Writer forms and of the Maps string/file forms (concatenation theorems; the four Maps string functions of files.go re-translated by go2v on every run and proved equal to the model loop, C16_maps_*_code_is_model; refutation "
                 "witness for JsonStringIndent's newline separator); model/implementation correspondence by vm_compute on Maps rebuilt with other insertion orders and "
                 "capacities; byte-level Go-side oracle over all 24 encoder entry points",
    "design_ref": "DESIGN.md section 3 (Go maps are association lists), section 6 C16, section 10",
    "assumptions": XML_ASSUME[2:] + [
        "a Go map is modelled as an association list whose order stands for the hash-iteration order of one run; 'however the Map was built' = every permutation of every entry list at every depth (veq), with pairwise distinct keys (wf)",
        "encoding/json is the environment: it writes map keys in sorted order (explicit hypothesis of C16_json_perm_invariant; observed by the oracle on every run); Map.Json/JsonIndent are modelled as a function of the bytes json.Encoder.Encode wrote under SetEscapeHTML(safe) (minus the final newline; JsonIndent = json.Indent of them), as json.go does after fix b2598e9",
        "io.Writer sinks obey the io.Writer contract (no short write without an error); os.File and the file system are the environment",
        "indentation is not modelled as bytes: XmlIndent writes the items of map_xml_indent_items with blanks between them; tied by the run with prefix = indent = \"\" (newlines removed) and, for every other blank prefix/indent, by the token-stream oracle",
        "the MapSeq encoder model (Model/SeqEnc.v, tied to /repo by the C04 correspondence) is proved invariant under entry reordering when siblings carry distinct sequence numbers, which every decoder output does (C16_seq_encode_perm_invariant, C16_seq_decoded_deterministic)",
    ],
    "level_text": "Machine-checked theorems over the executable model of Map.Xml / Map.XmlIndent / AnyXml (all option records, all values of any nesting): "
                  "equal Maps (veq, decided by veqb) give the same items and bytes; the items are ordered; the two root rules agree except for a single key with a list of maps. "
                  "The model is tied to the current /repo by differential correspondence evaluated inside Coq on rebuilt Map variants printed in shuffled entry order; the byte-level "
                  "oracle compares every entry point across 4 variants x 2 calls, the Writer forms on three sinks, and the Maps string/file forms with the per-Map encodings.",
    "level_note": "Trusted: Coq kernel + vm_compute; the hand-written encoder model is only as good as the correspondence run; determinism of encoding/json and of the Go runtime's "
                  "map implementation under 'all capacities / insertion orders' is sampled (4 variants per Map), not proved; MapSeq determinism is proved over the C04 model (correspondence of that model runs in the C04 check, the C16 oracle evaluates it on the implementation); "
                  "found and fixed: Maps.JsonString / JsonStringIndent ignored safeEncoding (da6537e), XmlGoEmptyElemSyntax wrote <a x=\"1\"</a> (b04ec07); recorded finding: JsonStringIndent separates documents by a newline.",
}
