PROP = {
    "title": "The legacy x2j, j2x and x2j-wrapper packages agree with the core they wrap",
    "run_modules": ["RunX2j"],
    "gen": ["setters", "wrappers", "pure", "purex2j"],
    "n": {"quick": 3000, "thorough": 48000},
    "level": "proof",
    "technique": "Coq model of the re-implemented x2j-wrapper walkers (hasKeyPath, hasKey, valuesFromKeyPath, ValuesAtKeyPath; following the repaired code) proved equal to the core walkers / the declarative path semantics with the attribute filter; thin wrapper bodies = documented compositions over an abstract codec; model/implementation correspondence by vm_compute; Go-side oracle running every exported wrapper next to the documented composition of core functions",
    "design_ref": "DESIGN.md section 6, C20; Appendix D",
    "assumptions": KV_ASSUME + [
        "thin wrappers (j2x, x2j, conversion/reader/bulk functions of x2j-wrapper): the codec (NewMapXml/Json, Map.Json/Xml, readers, writers) is an abstract environment in the theorems; their bodies are hand-transcribed until the translator generates Gen/Wrappers_gen.v, and are tied to /repo by the Go-side oracle (wrapper vs composition on the same input), not by the in-kernel correspondence",
        "path domain of the ValuesFrom*/ValuesAt* agreement: dot paths of keys and '*' without '[' whose last segment is not empty (the core drops one trailing empty segment and reads [i] as an index; the wrapper does neither)",
    ],
    "level_text": "Machine-checked theorems over the executable model of x2j-wrapper's own walkers (all Maps, keys, key lists and path strings, no side condition on the Map): PathsForKey equals the core's crumb for crumb, PathForKeyShortest is the core's shortest path, ValuesForKey equals the core's after expanding stored lists (key other than *), ValuesFromKeyPath equals the path semantics with attribute entries filtered at * and Map.ValuesForPath when attributes are requested or the path has no *, ValuesAtKeyPath equals its documented relation; every thin wrapper body equals its documented composition (MapToJson with its flag, CastNanInf = mxj.CastNanInf). The walker model is tied to the current /repo by differential correspondence evaluated inside Coq; a Go-side oracle runs each of the 62 exported functions with a core counterpart (5 re-implemented walkers, 57 thin wrappers) next to the composition of core functions on generated documents, Maps, streams and temp files.",
    "level_note": "Trusted: Coq kernel + vm_compute; hand-written walker model validated by correspondence (3000 cases quick); thin wrappers are validated by the oracle only (about 50 inputs per function quick); bulk handlers (XmlMsgsFrom*) and Unmarshal are oracle-only (no Gallina body). The four defects this check found (PathsForKey crumb, MapToJson safeEncoding, CastNanInf no-op, empty key under * panics) are repaired in /repo (5ff47ea, 6251df7, a59bf47, 3b36840); a regression is an oracle VIOLATION and a correspondence mismatch.",
}
