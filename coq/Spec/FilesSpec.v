(* Declarative vocabulary of property C19: what it means that the one-document
   reader reads a document from the front of a file, where a cut falls, and
   which Maps a read-back is expected to return. *)
From Mxj Require Export Model.Files.

Section FilesSpec.
  Variable D : Type.
  Variable take : bytes -> taken bytes D.   (* the one-document reader over the unread bytes *)
  Variable keep : D -> bool.

  (* The reader takes exactly the document b from the front, whatever follows it,
     and returns d with a nil error.  This is the codec hypothesis of the
     round-trip theorems (b = the text a writer produced for one Map, d = what
     that text decodes to); the harness validates it on every generated file. *)
  Definition Reads (b : bytes) (d : D) : Prop :=
    forall rest, take (b ++ rest) = mkTaken d RNil rest.

  (* at the end of the file the reader reports io.EOF and no Map *)
  Definition AtEOF : Prop :=
    t_err (take []) = REOF /\ keep (t_doc (take [])) = false.

  (* the Maps the loop collects from the documents' values *)
  Definition kept (ds : list D) : list D := filter keep ds.

  (* NewMapsFrom...File on a regular, readable file with this content *)
  Definition read_all (file : bytes) : file_res D :=
    maps_from_file take keep (file_fuel file) (Opened file).
End FilesSpec.
Arguments Reads {D}. Arguments AtEOF {D}. Arguments kept {D}. Arguments read_all {D}.

(* position n of the concatenation of bs = i whole documents and k bytes of document i *)
Fixpoint locate (bs : list bytes) (n : nat) : nat * nat :=
  match bs with
  | [] => (0, 0)
  | b :: t => if n <? length b then (0, n)
              else let '(i, k) := locate t (n - length b) in (S i, k)
  end.

(* the documents of a file written with a separator before every document but the first *)
Definition sep_docs (sep : bytes) (encs : list bytes) : list bytes :=
  match encs with
  | [] => []
  | e :: t => e :: map (fun x => sep ++ x) t
  end.

(* image of a loop result under a projection of the collected items *)
Definition file_res_map {A B} (f : A -> B) (r : file_res A) : file_res B :=
  match r with
  | FR n am e => FR n (map f am) e
  | FRPanic => FRPanic
  | FRFuel => FRFuel
  end.

(* JSON string literals as the getJson scanner sees them: a body is a sequence of units, a
   unit is one byte other than the double quote and the backslash, or a backslash followed
   by any byte (an escape pair).  Every body encoding/json writes has this shape. *)
Inductive junit := UPlain (c : ascii) | UEsc (c : ascii).
Definition unit_ok (u : junit) : bool :=
  match u with
  | UPlain c => negb (Ascii.eqb c """"%char) && negb (Ascii.eqb c bsl)
  | UEsc _ => true
  end.
Definition render_unit (u : junit) : bytes :=
  match u with UPlain c => [c] | UEsc c => [bsl; c] end.
Definition render_body (us : list junit) : bytes := flat_map render_unit us.

(* the compact document {"<key>":"<value>"} *)
Definition field_doc (k v : list junit) : bytes :=
  "{"%char :: """"%char :: (render_body k ++ """"%char :: ":"%char :: """"%char :: (render_body v ++ """"%char :: "}"%char :: [])).
