(* C03: the Map that must come back when a JSON-shaped value is written as XML
   and read again (DESIGN.md section 6, C03, "img, written out").
   Declarative; no cast, no decoder-side escaping, no simple-values-as-map:
   the statement is about the encoders under the decoder's default conventions.
   [o] supplies only the attribute prefix, the text key and the trim set. *)
From Mxj Require Export Spec.Items Spec.Conv.

Section Img.
Variable o : opts.

Definition trimv (x : str) : str := trim (trimRunes o) x.

(* the text a scalar is written as: "%v"; null is the empty text *)
Definition scalar_txt (v : value) : str :=
  match v with VStr x => x | VNil => [] | _ => fmt_v v end.

Definition is_elem_key (k : str) : bool := negb (is_attr_key o k) && negb (str_eqb k (textK o)).

(* the attribute entries of a map: (name without prefix, text), text NOT trimmed *)
Definition attr_list (vv : entries) : list (str * str) :=
  flat_map (fun kv => if is_attr_key o (fst kv)
                      then [(skipn (lenAttrPrefix o) (fst kv), scalar_txt (snd kv))] else []) vv.

(* one value, or the list of them *)
Definition collapse (xs : list value) : value := match xs with [x] => x | _ => VList xs end.

(* [imgs v]: the images of the elements v is written as under one key -
   one for a scalar or a map, one per member for a list (a list directly inside
   a list is flattened in order; an empty list is one empty element) *)
Fixpoint imgs (v : value) : list value :=
  match v with
  | VMap vv =>
      (* attributes, sorted by name, as strings *)
      let A := map (fun nx => (attrPrefix o ++ fst nx, VStr (snd nx))) (sort_by_key (attr_list vv)) in
      (* the text entry, trimmed; dropped when empty *)
      let t := match lookup (textK o) vv with Some tv => trimv (scalar_txt tv) | None => [] end in
      (* child entries, sorted by key; a one-member list collapses *)
      let C := map (fun kx => (fst kx, collapse (snd kx)))
                   (sort_by_key (filter (fun kx => is_elem_key (fst kx))
                                        (map (fun kv => (fst kv, imgs (snd kv))) vv))) in
      [ match t with
        | [] => match A ++ C with [] => VStr [] | e => VMap e end
        | _ => match A, C with
               | [], [] => VStr t                                   (* {textK: s} only: collapses to s *)
               | [], _ => VMap (C ++ [(textK o, VStr t)])
               | _, _ => VMap (A ++ (textK o, VStr t) :: C)
               end
        end ]
  | VList l => match l with [] => [VStr []] | _ => flat_map imgs l end
  | _ => [VStr (trimv (scalar_txt v))]
  end.

Definition img (v : value) : value := collapse (imgs v).

(* ---- the root rule ---- *)
(* NewMapXml (Map.Xml m) / NewMapXml (Map.XmlIndent m): the single key when its value is not a list, else "doc" *)
Definition img_map (m : entries) : value :=
  match m with
  | [(k, v)] => if is_list v then VMap [(default_root, img (VMap m))] else VMap [(k, img v)]
  | _ => VMap [(default_root, img (VMap m))]
  end.

(* NewMapXml (AnyXml v rt et): a list becomes the children of rt, a single-key map member
   under its own key, any other member under et; repeated keys are grouped in order *)
Definition any_children (et : str) (l : list value) : list (str * value) :=
  flat_map (fun vv => match vv with
                      | VMap [(tag, val)] => map (pair tag) (imgs val)
                      | _ => map (pair et) (imgs vv)
                      end) l.
Definition img_any (v : value) (rt et : str) : value :=
  match v with
  | VList l => VMap [(rt, match group_children (any_children et l) [] with [] => VStr [] | e => VMap e end)]
  | _ => VMap [(rt, img v)]
  end.

(* ---- the domain of the quantifier ---- *)
Definition special_free (x : str) : bool :=
  forallb (fun c => negb (mem_ascii c (s "&<>""'"))) x.
(* a string value can be written: escaping is on, or there is nothing to escape *)
Definition str_dom (x : str) : bool := xmlEscapeChars o || special_free x.
(* a scalar that can be an ATTRIBUTE value: the attribute switch of marshalMapToXmlIndent has no uint64 case
   ("invalid attribute value"), so uint64 is not among them *)
Definition attr_scalar (v : value) : bool :=
  match v with
  | VStr x => str_dom x
  | VFlt f | VJNum f => special_free f
  | VBool _ | VInt _ | VI64 _ => true
  | _ => false
  end.
(* a scalar that can be an ELEMENT value or the text entry: the same, and uint64 *)
Definition elem_scalar (v : value) : bool :=
  match v with VU64 _ => true | _ => attr_scalar v end.
Definition text_scalar (v : value) : bool :=
  match v with VNil => true | _ => elem_scalar v end.
(* JSON-shaped, distinct keys, keys valid XML names (attribute keys: prefix + name; the text key),
   attribute entries non-nil scalars other than uint64, the text entry a scalar *)
Fixpoint dom03 (v : value) : bool :=
  match v with
  | VMap vv =>
      nodup_keys (map fst vv) &&
      forallb (fun kv =>
                 if is_attr_key o (fst kv) then name_okb (skipn (lenAttrPrefix o) (fst kv)) && attr_scalar (snd kv)
                 else if str_eqb (fst kv) (textK o) then text_scalar (snd kv)
                 else name_okb (fst kv) && dom03 (snd kv)) vv
  | VList l => forallb dom03 l
  | VNil => true
  | _ => elem_scalar v
  end.
(* the members of a list given to AnyXml: the key of a single-key map is used as a tag *)
Definition any_member_ok (vv : value) : bool :=
  match vv with VMap [(tag, val)] => name_okb tag && dom03 val | _ => dom03 vv end.
End Img.

(* the root of the quantifier for Map.Xml / Map.XmlIndent: a multi-key (or empty) map, or a
   single-key map whose key is an element name and whose value is not a list *)
Definition root_ok (o : opts) (m : entries) : bool :=
  match m with
  | [(k, v)] => negb (is_list v) && name_okb k && dom03 o v
  | _ => dom03 o (VMap m)
  end.
(* any value for AnyXml: the root and element tags are names; list members as [any_member_ok] *)
Definition any_ok (o : opts) (v : value) (rt et : str) : bool :=
  name_okb rt && name_okb et &&
  match v with VList l => forallb (any_member_ok o) l | _ => dom03 o v end.

(* the option records the statement is about: the decoder's default conventions (no key
   folding, no tag sequence numbers, no simple-values-as-map, no decoder-side escaping);
   the attribute prefix, the key prefix, the empty-element syntax, keep-spaces and
   XMLEscapeChars are free *)
Record opts03 (o : opts) : Prop := {
  o3_lower : lowerCase o = false;
  o3_snake : snakeCaseKeys o = false;
  o3_seq : includeTagSeqNum o = false;
  o3_xmpp : handleXMPPStreamTag o = false;
  o3_simple : decodeSimpleValuesAsMap o = false;
  o3_escdec : xmlEscapeCharsDecoder o = false;
  o3_tk : is_attr_key o (textK o) = false;          (* the text key is not an attribute key *)
  o3_tkne : textK o <> []
}.

(* the defaults with XMLEscapeChars(true) *)
Definition opts0e : opts := {|
  attrPrefix := s "-"; lenAttrPrefix := 1;
  includeTagSeqNum := false; lowerCase := false; snakeCaseKeys := false;
  disableTrimWhiteSpace := false; trimRunes := trim_all;
  decodeSimpleValuesAsMap := false;
  castToInt := false; castToFloat := true; castToBool := true; castNanInf := false;
  handleXMPPStreamTag := false; useGoXmlEmptyElemSyntax := false; xmlCheckIsValid := false;
  xmlEscapeChars := true; xmlEscapeCharsDecoder := false;
  textK := s "#text"; seqK := s "#seq"; commentK := s "#comment"; attrK := s "#attr";
  directiveK := s "#directive"; procinstK := s "#procinst"; targetK := s "#target"; instK := s "#inst";
  fieldSep := s ":"; useDotNotation := false; defaultArraySize := 32; jsonUseNumber := false
|}.
