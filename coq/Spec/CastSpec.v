(* C14 - the declarative side of casting.
   [special]    Go's spellings of NaN and the infinities accepted by strconv.ParseFloat
                (strconv/atof.go, func special): "nan" without a sign, "inf" and
                "infinity" with an optional sign, all case-insensitive (ASCII).
                Validated against the real ParseFloat on every run (exhaustive sweep).
   [cast_table] the decision table of cast, row by row, in terms of the TEXT of the leaf.
   [vrel]       "same structure and keys, leaves related by Lf" - the shape relation
                between two decoded Maps.
   [map_leaves] replaces every string leaf of a Map.
   [json_ok]    no NaN / Inf float64 anywhere in a Map (what makes encoding/json fail).
   NO proofs here. *)
From Mxj Require Export Model.XmlDec.
Local Open Scope string_scope.

(* ---------------- the spellings strconv.ParseFloat reads as NaN / Inf ---------------- *)
Inductive spec_float := SNaN | SPosInf | SNegInf.

Definition special (x : str) : option spec_float :=
  let l := to_lower x in
  if str_eqb l (s "nan") then Some SNaN
  else if existsb (str_eqb l) [s "inf"; s "+inf"; s "infinity"; s "+infinity"] then Some SPosInf
  else if existsb (str_eqb l) [s "-inf"; s "-infinity"] then Some SNegInf
  else None.
Definition is_special (x : str) : bool :=
  match special x with Some _ => true | None => false end.
(* the %v text of the value *)
Definition special_text (k : spec_float) : flt :=
  match k with SNaN => s "NaN" | SPosInf => s "+Inf" | SNegInf => s "-Inf" end.

(* H1, the only fact assumed about the ParseFloat oracle in C14: a nil-error result is
   NaN or an infinity exactly for the special spellings (overflowing numerals such as
   1e400 return an error, hence are [None]) *)
Definition H1 (pf : str -> option flt) : Prop :=
  forall x f, pf x = Some f -> (is_naninf f = true <-> is_special x = true).
(* H0: ParseFloat rejects the empty string (an empty element stays the empty string) *)
Definition H0 (pf : str -> option flt) : Prop := pf [] = None.

(* ---------------- the decision table ---------------- *)
Section Table.
Variable pf : str -> option flt.
Variable skip : str -> bool.
Variable o : opts.

Definition nonempty (x : str) : bool := match x with [] => false | _ => true end.

(* row "skip function": a non-empty tag the user's function refuses *)
Definition skipped (t : str) : bool := nonempty t && skip t.

(* what a text denotes, each under its switch *)
Definition denotes_int (x : str) : option value :=
  if castToInt o then
    match parse_int 64 x with
    | Some z => Some (VI64 z)                     (* a decimal in the int64 range *)
    | None => match parse_uint 64 x with
              | Some z => Some (VU64 z)           (* else a decimal in the uint64 range *)
              | None => None
              end
    end
  else None.
Definition denotes_float (x : str) : option value :=
  if castToFloat o then match pf x with Some f => Some (VFlt f) | None => None end else None.
(* the ParseBool spellings that start with t, T, f or F ("1" and "0" are numbers, not booleans) *)
Definition denotes_bool (x : str) : option value :=
  if castToBool o then
    if existsb (str_eqb x) [s "t"; s "T"; s "TRUE"; s "true"; s "True"] then Some (VBool true)
    else if existsb (str_eqb x) [s "f"; s "F"; s "FALSE"; s "false"; s "False"] then Some (VBool false)
    else None
  else None.

Definition first_some (l : list (option value)) (d : value) : value :=
  fold_right (fun a r => match a with Some v => v | None => r end) d l.

Definition cast_table (x : str) (r : bool) (t : str) : value :=
  if skipped t then VStr x                                      (* 1  tag skipped          *)
  else if negb r then VStr x                                    (* 2  cast flag off        *)
  else if negb (castNanInf o) && is_special x then VStr x       (* 3  NaN/Inf guard        *)
  else first_some [denotes_int x;                               (* 4,5 int64, uint64       *)
                   denotes_float x;                             (* 6  float64              *)
                   denotes_bool x]                              (* 7  bool                 *)
                  (VStr x).                                     (* 8  the identical string *)

(* the same table as rows *)
Definition active (x : str) (r : bool) (t : str) : Prop :=
  skipped t = false /\ r = true /\ (castNanInf o = true \/ is_special x = false).
Inductive cast_row (x : str) (r : bool) (t : str) : value -> Prop :=
| RowSkip : skipped t = true -> cast_row x r t (VStr x)
| RowNoCast : r = false -> cast_row x r t (VStr x)
| RowGuard : castNanInf o = false -> is_special x = true -> cast_row x r t (VStr x)
| RowInt z : active x r t -> castToInt o = true -> parse_int 64 x = Some z -> cast_row x r t (VI64 z)
| RowUint z : active x r t -> castToInt o = true -> parse_int 64 x = None -> parse_uint 64 x = Some z ->
              cast_row x r t (VU64 z)
| RowFloat f : active x r t -> denotes_int x = None -> castToFloat o = true -> pf x = Some f ->
               cast_row x r t (VFlt f)
| RowBool b : active x r t -> denotes_int x = None -> denotes_float x = None ->
              denotes_bool x = Some (VBool b) -> cast_row x r t (VBool b)
| RowStr : active x r t -> denotes_int x = None -> denotes_float x = None -> denotes_bool x = None ->
           cast_row x r t (VStr x).
End Table.

(* two option records that agree on everything cast reads *)
Definition cast_opts_eq (o o' : opts) : Prop :=
  castToInt o = castToInt o' /\ castToFloat o = castToFloat o' /\ castToBool o = castToBool o' /\
  castNanInf o = castNanInf o'.

(* ---------------- shape relation between two Maps ---------------- *)
(* a leaf the decoder can produce: not a container, not nil *)
Definition plain (v : value) : bool :=
  match v with VMap _ | VList _ | VNil => false | _ => true end.

Section Shape.
Variable Lf : value -> value -> Prop.       (* how corresponding leaves are related *)
Inductive vrel : value -> value -> Prop :=
| VRLeaf v0 v1 : plain v0 = true -> plain v1 = true -> Lf v0 v1 -> vrel v0 v1
| VRMap m0 m1 :                               (* same keys, in the same order, related values *)
    Forall2 (fun a b => fst a = fst b /\ vrel (snd a) (snd b)) m0 m1 -> vrel (VMap m0) (VMap m1)
| VRList l0 l1 : Forall2 vrel l0 l1 -> vrel (VList l0) (VList l1).
Definition erel (m0 m1 : entries) : Prop :=
  Forall2 (fun a b => fst a = fst b /\ vrel (snd a) (snd b)) m0 m1.
(* outcomes of two decoder runs: same error class, or related Maps *)
Definition rrel (r0 r1 : res value) : Prop :=
  match r0, r1 with
  | Ok v0, Ok v1 => vrel v0 v1
  | Err e0, Err e1 => e0 = e1
  | Panic, Panic => True
  | _, _ => False
  end.
End Shape.

(* replace every string leaf *)
Fixpoint map_leaves (f : str -> value) (v : value) : value :=
  match v with
  | VStr x => f x
  | VMap m => VMap (map (fun kv => (fst kv, map_leaves f (snd kv))) m)
  | VList l => VList (map (map_leaves f) l)
  | _ => v
  end.
Definition map_leaves_res (f : str -> value) (r : res value) : res value :=
  match r with Ok v => Ok (map_leaves f v) | Err e => Err e | Panic => Panic end.

(* a predicate on every leaf of a Map *)
Fixpoint all_leaves (p : value -> bool) (v : value) : bool :=
  match v with
  | VMap m => forallb (fun kv => all_leaves p (snd kv)) m
  | VList l => forallb (all_leaves p) l
  | _ => p v
  end.

(* no NaN / Inf float64 anywhere: json.Marshal accepts every other value of the model *)
Definition finite_leaf (v : value) : bool :=
  match v with VFlt f => negb (is_naninf f) | _ => true end.
Definition json_ok (v : value) : bool := all_leaves finite_leaf v.

(* every leaf is a string (or the int of a "_seq" entry) *)
Definition string_leaf (v : value) : bool :=
  match v with VStr _ | VInt _ => true | _ => false end.
Definition only_strings (v : value) : bool := all_leaves string_leaf v.

(* options that may differ between two decoder runs without changing the structure of the
   result: the cast switches and decoder-side escaping *)
Definition same_structure_opts (o0 o1 : opts) : Prop :=
  attrPrefix o0 = attrPrefix o1 /\ includeTagSeqNum o0 = includeTagSeqNum o1 /\
  lowerCase o0 = lowerCase o1 /\ snakeCaseKeys o0 = snakeCaseKeys o1 /\
  trimRunes o0 = trimRunes o1 /\ decodeSimpleValuesAsMap o0 = decodeSimpleValuesAsMap o1 /\
  handleXMPPStreamTag o0 = handleXMPPStreamTag o1 /\ textK o0 = textK o1.
