(* C02: the symmetric option records, the documents of the domain, and the shape
   invariant [eshape] of the values the Map decoder produces (the induction hypothesis
   of the fixed-point theorem: decoder outputs satisfy it, and every value that
   satisfies it is written and read back unchanged). *)
From Mxj Require Export Spec.Items Spec.Conv.


(* the symmetric option combinations of the statement: any non-empty attribute prefix,
   any key prefix, lower/snake folding, simple-values-as-map, keep-spaces, escaping on
   exactly one side, float/bool cast; NOT integer cast, tag sequence numbers, XMPP mode *)
Record sym02 (o : opts) : Prop := {
  s2_seq : includeTagSeqNum o = false;
  s2_xmpp : handleXMPPStreamTag o = false;
  s2_int : castToInt o = false;
  s2_len : lenAttrPrefix o = length (attrPrefix o);
  s2_pre : attrPrefix o <> [];
  s2_esc : xmlEscapeChars o = negb (xmlEscapeCharsDecoder o);     (* value escaping enabled, on one side *)
  s2_tk : is_attr_key o (textK o) = false;                          (* attribute prefix <> key prefix *)
  s2_tkn : name_okb (textK o) = false;                              (* the text key is not an element name *)
  s2_tkne : textK o <> [];
  s2_trim : trimRunes o = trim_all \/ trimRunes o = trim_keep_space
}.

(* the documents: element and attribute names are names (no colon in the local part), and no
   element key (after case / snake folding) begins with the attribute prefix *)
Definition tok02 (o : opts) (t : tok) : bool :=
  match t with
  | TStart nm a =>
      name_okb (xlocal nm) && negb (is_attr_key o (xform_key o (xlocal nm))) &&
      forallb (fun at_ => name_okb (xlocal (aname at_))) a
  | _ => true
  end.
Definition toks02 (o : opts) (ts : list tok) : bool := forallb (tok02 o) ts.
Definition dom02 (o : opts) (d : doc) : bool := toks02 o (toks_of_doc d).

Section Shape.
Variable pf : str -> option flt.
Variable o : opts.
Variable c : bool.

Definition dec_str (x : str) : str := if xmlEscapeCharsDecoder o then escape_chars x else x.
Definition castv (x : str) : value := cast pf nskip o x c [].

(* a value stored for character data: written as text and read back, it is itself *)
Definition text_ok (v : value) : Prop :=
  is_scalar v = true /\ raw_okb (text_text o v) = true /\
  trim (trimRunes o) (unescape (text_text o v)) <> [] /\
  castv (dec_str (trim (trimRunes o) (unescape (text_text o v)))) = v.
(* a value stored for an attribute *)
Definition attr_ok (v : value) : Prop :=
  exists raw, attr_text o v = Some raw /\ raw_okb raw = true /\ castv (dec_str (unescape raw)) = v.

Definition elem_key_ok (k : str) : Prop :=
  name_okb k = true /\ is_attr_key o k = false /\ xform_key o k = k.
Definition attr_key_ok (k : str) : Prop :=
  is_attr_key o k = true /\ name_okb (skipn (lenAttrPrefix o) k) = true /\
  attr_key o (skipn (lenAttrPrefix o) k) = k.

(* a map that consists of the text entry alone *)
Definition only_text (na : entries) : bool :=
  match na with [(k, _)] => str_eqb k (textK o) | _ => false end.

(* [eshape v]: v is the value of one element; [kshape v]: v is stored under an element key
   (one element, or the list of two or more repeated elements - members are never lists) *)
Inductive eshape : value -> Prop :=
| ES_empty : eshape (VStr [])
| ES_scalar v : decodeSimpleValuesAsMap o = false -> text_ok v -> eshape v
| ES_map na :
    na <> [] -> NoDup (map fst na) ->
    (decodeSimpleValuesAsMap o = false -> only_text na = false) ->
    Forall (fun kx =>
              (is_attr_key o (fst kx) = true -> attr_key_ok (fst kx) /\ attr_ok (snd kx)) /\
              (is_attr_key o (fst kx) = false -> str_eqb (fst kx) (textK o) = true -> text_ok (snd kx)) /\
              (is_attr_key o (fst kx) = false -> str_eqb (fst kx) (textK o) = false ->
               elem_key_ok (fst kx) /\ kshape (snd kx))) na ->
    eshape (VMap na)
with kshape : value -> Prop :=
| KS_one x : is_list x = false -> eshape x -> kshape x
| KS_list l : 2 <= length l -> Forall (fun y => is_list y = false /\ eshape y) l -> kshape (VList l).

Definition entry_ok (kx : str * value) : Prop :=
  (is_attr_key o (fst kx) = true -> attr_key_ok (fst kx) /\ attr_ok (snd kx)) /\
  (is_attr_key o (fst kx) = false -> str_eqb (fst kx) (textK o) = true -> text_ok (snd kx)) /\
  (is_attr_key o (fst kx) = false -> str_eqb (fst kx) (textK o) = false ->
   elem_key_ok (fst kx) /\ kshape (snd kx)).
End Shape.
