(* Encoder output as items: what the standard tokenizer reads back from it
   ([toks_of_items]), structural well-formedness ([wf_items], [single_root]) and
   the indented encoders' whitespace ([insert_ws]).  Specifications only.

   [toks_of_items its] is the SPECIFICATION of what encoding/xml's Decoder.Token
   returns on the bytes [emit its] when [wf_items its] holds; it is validated
   against the real tokenizer on the implementation's real output on every run
   (case kind XToks of Run/RunXml2.v: exact for the compact
   encoders, modulo the inserted whitespace for the indented ones).  Legality of the individual
   characters (control characters, the tokenizer's \r normalisation, UTF-8
   validity) is not part of [wf_items]: values range over legal XML characters
   without \r (DESIGN.md section 6, C02 Dom). *)
From Mxj Require Export Model.XmlEnc.

(* ---------------- unescape: the five predefined entities ---------------- *)
Definition amp : ascii := "&"%char.
Definition entity_table : list (str * ascii) :=
  [(s "amp;", "&"%char); (s "lt;", "<"%char); (s "gt;", ">"%char); (s "quot;", """"%char); (s "apos;", "'"%char)].
(* the entity whose body (after '&') the text starts with: its character and the length of the body *)
Definition entity_at (t : str) : option (ascii * nat) :=
  match filter (fun e => prefixb (fst e) t) entity_table with
  | e :: _ => Some (snd e, length (fst e))
  | [] => None
  end.
Fixpoint unesc (skip : nat) (x : str) : str :=
  match x with
  | [] => []
  | c :: t =>
      match skip with
      | S k => unesc k t
      | O => if Ascii.eqb c amp
             then match entity_at t with
                  | Some (ch, n) => ch :: unesc n t
                  | None => c :: unesc 0 t
                  end
             else c :: unesc 0 t
      end
  end.
Definition unescape (x : str) : str := unesc 0 x.

(* ---------------- lexical conditions ---------------- *)
Definition is_letter (c : ascii) : bool :=
  let n := N_of_ascii c in ((65 <=? n)%N && (n <=? 90)%N) || ((97 <=? n)%N && (n <=? 122)%N).
Definition name_start (c : ascii) : bool :=
  is_letter c || Ascii.eqb c "_"%char || (128 <=? N_of_ascii c)%N.
Definition name_char (c : ascii) : bool :=
  name_start c || is_digit c || Ascii.eqb c "-"%char || Ascii.eqb c "."%char.
(* an XML name without a colon (bytes >= 0x80 stand for non-ASCII letters) *)
Definition name_okb (n : str) : bool :=
  match n with [] => false | c :: t => name_start c && forallb name_char t end.

(* character data / attribute value as written: no markup character and every '&' begins one of the five entities *)
Fixpoint raw_okb (x : str) : bool :=
  match x with
  | [] => true
  | c :: t =>
      (if Ascii.eqb c amp then match entity_at t with Some _ => true | None => false end
       else negb (Ascii.eqb c "<"%char) && negb (Ascii.eqb c ">"%char) && negb (Ascii.eqb c """"%char))
      && raw_okb t
  end.
Definition attrs_okb (a : list (str * str)) : bool :=
  forallb (fun kv => name_okb (fst kv) && raw_okb (snd kv)) a && nodup_keys (map fst a).

(* ---------------- what the tokenizer returns ---------------- *)
Definition mkname (n : str) : xname := {| xspace := []; xlocal := n |}.
Definition mkattr (kv : str * str) : xattr := {| aname := mkname (fst kv); avalue := unescape (snd kv) |}.
Definition flush (acc : str) : list tok := match acc with [] => [] | _ => [TChar acc] end.
(* [acc]: the character data read since the last tag (adjacent runs are one CharData token) *)
Fixpoint toks_acc (acc : str) (its : list item) : list tok :=
  match its with
  | [] => flush acc
  | IText r :: t => toks_acc (acc ++ unescape r) t
  | IOpen n a :: t => flush acc ++ TStart (mkname n) (map mkattr a) :: toks_acc [] t
  | IClose n :: t => flush acc ++ TEnd (mkname n) :: toks_acc [] t
  | IEmpty n a :: t => flush acc ++ TStart (mkname n) (map mkattr a) :: TEnd (mkname n) :: toks_acc [] t
  end.
Definition toks_of_items (its : list item) : list tok := toks_acc [] its.

(* ---------------- well-formedness ---------------- *)
(* one left-to-right pass with the stack of open names; counts the elements opened at depth 0.
   None: unbalanced, a bad name, a bad raw text, duplicate attribute names, or text outside the root *)
Fixpoint scan (st : list str) (roots : nat) (its : list item) : option nat :=
  match its with
  | [] => match st with [] => Some roots | _ => None end
  | IOpen n a :: t =>
      if name_okb n && attrs_okb a
      then scan (n :: st) (match st with [] => S roots | _ => roots end) t
      else None
  | IEmpty n a :: t =>
      if name_okb n && attrs_okb a
      then scan st (match st with [] => S roots | _ => roots end) t
      else None
  | IClose n :: t =>
      match st with
      | m :: st' => if str_eqb n m then scan st' roots t else None
      | [] => None
      end
  | IText r :: t =>
      match st with
      | [] => None
      | _ => if raw_okb r then scan st roots t else None
      end
  end.
Definition wf_items (its : list item) : Prop := scan [] 0 its <> None.
Definition single_root (its : list item) : Prop := scan [] 0 its = Some 1.

(* ---------------- indentation ---------------- *)
(* whitespace-only character data in every gap between two items, before the
   first and after the last one: [ws i] is what is written in gap i.  The
   indented encoders write blanks/newlines in some of these gaps. *)
Fixpoint ins (ws : nat -> str) (i : nat) (its : list item) : list item :=
  match its with
  | [] => []
  | it :: t => IText (ws i) :: it :: ins ws (S i) t
  end.
Definition insert_ws (ws : nat -> str) (its : list item) : list item :=
  ins ws 0 its ++ [IText (ws (length its))].

Definition ws_chars : str := [" "%char; ascii_of_nat 9; ascii_of_nat 10].
(* whitespace the decoder trims under the options in effect: blank, tab, newline when
   trimming is on; tab and newline only under DisableTrimWhiteSpace *)
Definition ws_str (o : opts) (w : str) : bool :=
  forallb (fun ch => mem_ascii ch ws_chars && mem_ascii ch (trimRunes o)) w.
Definition ws_ok (o : opts) (ws : nat -> str) : Prop := forall i, ws_str o (ws i) = true.
Definition no_ws : nat -> str := fun _ => [].

(* checkTagToSkip when SetCheckTagToSkipFunc was not called *)
Definition nskip (t : str) : bool := false.
