(* Specification vocabulary for C12, second part: the Map a list of (new path, value)
   items denotes - plain nested insertion, nothing converted to a list, nothing merged.
   NO proofs in this file (see Proofs/C12Q.v). *)
From Mxj Require Export Spec.NewMapSpec.

(* put x at key path p: walk through maps, create the maps that are missing *)
Fixpoint put_path (p : list str) (x : value) (n : entries) : entries :=
  match p with
  | [] => set [] x n
  | [k] => set k x n
  | k :: rest =>
      match lookup k n with
      | Some (VMap mm) => set k (VMap (put_path rest x mm)) n
      | _ => set k (VMap (put_path rest x [])) n
      end
  end.

(* the Map the items denote *)
Definition build_from (n : entries) (items : list (list str * value)) : entries :=
  fold_left (fun n it => put_path (fst it) (snd it) n) items n.
Definition build (items : list (list str * value)) : entries := build_from [] items.

(* the new paths a list of key pairs names (accepted pairs only), in order *)
Fixpoint new_paths (pairs : list str) : list (list str) :=
  match pairs with
  | [] => []
  | v :: t => match classify v with
              | PGood _ nw => path_keys nw :: new_paths t
              | _ => new_paths t
              end
  end.

(* proper prefix *)
Definition proper_prefix (q p : list str) : Prop := exists r, r <> [] /\ p = q ++ r.
