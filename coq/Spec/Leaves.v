(* Declarative vocabulary for C09 (LeafNodes / LeafPaths / LeafValues).
   Only definitions, short enough to read against the property text.
   Depends on Base only; "[" "]" are written out ("lbr"/"rbr" of the model are the same bytes). *)
From Mxj Require Export Base.Value.

(* ---- the scalar (terminal) values of a tree, depth first, in entry / member order ---- *)
Fixpoint scalars (v : value) : list value :=
  match v with
  | VMap m => flat_map (fun kv => scalars (snd kv)) m
  | VList l => flat_map scalars l
  | _ => [v]
  end.

(* ---- attribute entries: key has the (non-empty) attribute prefix ---- *)
Definition is_attr (attrPrefix k : str) : bool :=
  match attrPrefix with [] => false | _ => prefixb attrPrefix k end.

(* remove, at every depth, the map entries [drop] selects *)
Fixpoint prune (drop : str -> bool) (v : value) : value :=
  match v with
  | VMap m => VMap (flat_map (fun kv => if drop (fst kv) then []
                                        else [(fst kv, prune drop (snd kv))]) m)
  | VList l => VList (map (prune drop) l)
  | _ => v
  end.
Definition strip_attrs (attrPrefix : str) : value -> value := prune (is_attr attrPrefix).

(* ---- addresses: the position of a value inside a tree ---- *)
Inductive step := SKey (k : str) | SIdx (i : nat).
Definition addr := list step.

(* f i x for the members x of l, numbered from i *)
Definition indexed_flat {A B} (f : nat -> A -> list B) : list A -> nat -> list B :=
  fix go (l : list A) (i : nat) : list B :=
    match l with
    | [] => []
    | x :: t => f i x ++ go t (S i)
    end.

Definition under (st : step) (pv : addr * value) : addr * value := (st :: fst pv, snd pv).

(* every scalar with its address *)
Fixpoint leaves (v : value) : list (addr * value) :=
  match v with
  | VMap m => flat_map (fun kv => map (under (SKey (fst kv))) (leaves (snd kv))) m
  | VList l => indexed_flat (fun i x => map (under (SIdx i)) (leaves x)) l 0
  | _ => [([], v)]
  end.

(* the value at an address (maps with distinct keys) *)
Fixpoint at_addr (p : addr) (v : value) : option value :=
  match p with
  | [] => Some v
  | SKey k :: p' => match v with
                    | VMap m => match lookup k m with Some y => at_addr p' y | None => None end
                    | _ => None
                    end
  | SIdx i :: p' => match v with
                    | VList l => match nth_error l i with Some y => at_addr p' y | None => None end
                    | _ => None
                    end
  end.

(* ---- how LeafNodes writes an address ---- *)
Definition nonempty (x : str) : bool := match x with [] => false | _ => true end.

(* list members: "[N]", or "N" under LeafUseDotNotation *)
Definition node_of (dotn : bool) (st : step) : str :=
  match st with
  | SKey k => k
  | SIdx i => if dotn then itoa i else ["["%char] ++ itoa i ++ ["]"%char]
  end.

(* append one node: "." between nodes, except before "[N]" and at the start *)
Definition add_seg (path node : str) : str :=
  (if nonempty path && negb (prefixb ["["%char] node) then path ++ sdot else path) ++ node.

(* with the no-attributes option, nodes equal to the text key are left out of the path *)
Definition keep_node (textK : str) (noattr : bool) (node : str) : bool :=
  negb (noattr && str_eqb node textK).

Definition render (textK : str) (dotn noattr : bool) (p : addr) : str :=
  fold_left add_seg (filter (keep_node textK noattr) (map (node_of dotn) p)) [].

(* the specification of LeafNodes *)
Definition leaf_spec (attrPrefix textK : str) (dotn : bool) (m : value) (noattr : bool)
  : list (str * value) :=
  map (fun pv => (render textK dotn noattr (fst pv), snd pv))
      (leaves (if noattr then strip_attrs attrPrefix m else m)).

(* ---- side conditions of the resolution clause (all decidable) ---- *)
(* key free of "." and "[", not the wildcard "*", not empty *)
Definition clean_key (k : str) : bool :=
  negb (mem_ascii dot k) && negb (mem_ascii "["%char k) && negb (str_eqb k star) && nonempty k.
Fixpoint keys_clean (v : value) : bool :=
  match v with
  | VMap m => forallb (fun kv => clean_key (fst kv) && keys_clean (snd kv)) m
  | VList l => forallb keys_clean l
  | _ => true
  end.
(* XML / JSON-object shape: no list directly inside a list *)
Fixpoint no_nested_lists (v : value) : bool :=
  match v with
  | VMap m => forallb (fun kv => no_nested_lists (snd kv)) m
  | VList l => forallb (fun x => negb (is_list x) && no_nested_lists x) l
  | _ => true
  end.
(* list indices fit the int32 that parsePath reads them into *)
Fixpoint lists_indexable (v : value) : bool :=
  match v with
  | VMap m => forallb (fun kv => lists_indexable (snd kv)) m
  | VList l => (Z.of_nat (length l) <=? 2 ^ 31)%Z && forallb lists_indexable l
  | _ => true
  end.
