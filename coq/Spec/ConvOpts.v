(* Vocabulary for the option clauses of C01: "an option changes only the keys" is stated as
   "decoding under the option prescribes the same Map as decoding the document with its
   element and attribute names rewritten"; "an option does not matter" as "two option
   records that agree on the listed fields prescribe the same Map". *)
From Mxj Require Export Spec.Conv.

Section Rename.
Variable g : str -> str.
Definition rename_name (n : xname) : xname := {| xspace := xspace n; xlocal := g (xlocal n) |}.
Definition rename_attr (a : xattr) : xattr := {| aname := rename_name (aname a); avalue := avalue a |}.
(* the document with every element and attribute local name passed through g *)
Fixpoint rename (e : elem) : elem :=
  match e with
  | Elem n attrs kids =>
      Elem (rename_name n) (map rename_attr attrs)
           ((fix go (kids : list node) : list node :=
               match kids with
               | [] => []
               | NElem c :: t => NElem (rename c) :: go t
               | nd :: t => nd :: go t
               end) kids)
  end.
End Rename.

(* the option fields, other than the three key options, the prescribed Map depends on *)
Definition same_value_opts (o o' : opts) : Prop :=
  includeTagSeqNum o' = includeTagSeqNum o /\ trimRunes o' = trimRunes o /\
  decodeSimpleValuesAsMap o' = decodeSimpleValuesAsMap o /\
  castToInt o' = castToInt o /\ castToFloat o' = castToFloat o /\ castToBool o' = castToBool o /\
  castNanInf o' = castNanInf o /\ xmlEscapeCharsDecoder o' = xmlEscapeCharsDecoder o /\
  textK o' = textK o.

Definition same_key_opts (o o' : opts) : Prop :=
  attrPrefix o' = attrPrefix o /\ lowerCase o' = lowerCase o /\ snakeCaseKeys o' = snakeCaseKeys o.

(* record updates *)
Definition set_lower (b : bool) (o : opts) : opts := {|
  attrPrefix := attrPrefix o; lenAttrPrefix := lenAttrPrefix o;
  includeTagSeqNum := includeTagSeqNum o; lowerCase := b; snakeCaseKeys := snakeCaseKeys o;
  disableTrimWhiteSpace := disableTrimWhiteSpace o; trimRunes := trimRunes o;
  decodeSimpleValuesAsMap := decodeSimpleValuesAsMap o;
  castToInt := castToInt o; castToFloat := castToFloat o; castToBool := castToBool o; castNanInf := castNanInf o;
  handleXMPPStreamTag := handleXMPPStreamTag o; useGoXmlEmptyElemSyntax := useGoXmlEmptyElemSyntax o;
  xmlCheckIsValid := xmlCheckIsValid o; xmlEscapeChars := xmlEscapeChars o;
  xmlEscapeCharsDecoder := xmlEscapeCharsDecoder o;
  textK := textK o; seqK := seqK o; commentK := commentK o; attrK := attrK o;
  directiveK := directiveK o; procinstK := procinstK o; targetK := targetK o; instK := instK o;
  fieldSep := fieldSep o; useDotNotation := useDotNotation o; defaultArraySize := defaultArraySize o;
  jsonUseNumber := jsonUseNumber o |}.

Definition set_snake (b : bool) (o : opts) : opts := {|
  attrPrefix := attrPrefix o; lenAttrPrefix := lenAttrPrefix o;
  includeTagSeqNum := includeTagSeqNum o; lowerCase := lowerCase o; snakeCaseKeys := b;
  disableTrimWhiteSpace := disableTrimWhiteSpace o; trimRunes := trimRunes o;
  decodeSimpleValuesAsMap := decodeSimpleValuesAsMap o;
  castToInt := castToInt o; castToFloat := castToFloat o; castToBool := castToBool o; castNanInf := castNanInf o;
  handleXMPPStreamTag := handleXMPPStreamTag o; useGoXmlEmptyElemSyntax := useGoXmlEmptyElemSyntax o;
  xmlCheckIsValid := xmlCheckIsValid o; xmlEscapeChars := xmlEscapeChars o;
  xmlEscapeCharsDecoder := xmlEscapeCharsDecoder o;
  textK := textK o; seqK := seqK o; commentK := commentK o; attrK := attrK o;
  directiveK := directiveK o; procinstK := procinstK o; targetK := targetK o; instK := instK o;
  fieldSep := fieldSep o; useDotNotation := useDotNotation o; defaultArraySize := defaultArraySize o;
  jsonUseNumber := jsonUseNumber o |}.

Definition snake (k : str) : str := replace_char "-"%char "_"%char k.
