(* Declarative meaning of UpdateValuesForPath (C10): WHICH tree positions a
   call writes, stated with the step relation of Spec/PathSem.v carrying
   positions along.  The theorem of Props/C10.v says that the model of
   updatevalues.go writes the new value at exactly these positions, one count
   per position, and nothing else.

   Two clauses below describe what the code does although the documentation
   reads otherwise; they are recorded as findings (see Props/C10.v,
   C10_create_on_absent_refuted and C10_list_node_refuted):
     (F1) [entry_rel] with e = None : the path ends in the key, the reached map
          has no such entry -> the entry is created (and counted);
     (F2) [node_targets] on a list node : the last path key is ignored, the key
          is replaced in the list's map members. *)
From Mxj Require Export Model.TreeOps Spec.PathSem.

(* ---------- positions ---------- *)
Definition step_eqb (a b : step) : bool :=
  match a, b with
  | SK x, SK y => str_eqb x y
  | SI i, SI j => Nat.eqb i j
  | _, _ => false
  end.
Fixpoint is_prefix (p q : pos) : bool :=
  match p, q with
  | [], _ => true
  | a :: p', b :: q' => step_eqb a b && is_prefix p' q'
  | _ :: _, [] => false
  end.
(* one position lies on the path from the root to the other *)
Definition comparable (p q : pos) : bool := is_prefix p q || is_prefix q p.

(* write at a position.  Like [update_at] of Model/TreeOps.v (lemma
   write_at_update_at), except that a final map step on an absent key creates
   the entry - Go's m[k] = v *)
Fixpoint write_at (p : pos) (nv : value) (m : value) : value :=
  match p with
  | [] => nv
  | SK k :: p' =>
      match m with
      | VMap mm => match lookup k mm with
                   | Some v => VMap (set k (write_at p' nv v) mm)
                   | None => match p' with [] => VMap (set k nv mm) | _ => m end
                   end
      | _ => m
      end
  | SI i :: p' =>
      match m with
      | VList l => match nth_error l i with
                   | Some v => VList (set_nth i (write_at p' nv v) l)
                   | None => m
                   end
      | _ => m
      end
  end.
(* the same value written at each of a list of positions *)
Definition writes (ps : list pos) (nv : value) (m : value) : value :=
  fold_left (fun acc p => write_at p nv acc) ps m.

(* positions below one step / inside every member of a list / inside every entry of a map *)
Definition under (st : step) (ps : list pos) : list pos := map (cons st) ps.
Definition in_list (f : value -> list pos) (l : list value) : list pos :=
  flat_mapi (fun i v => under (SI i) (f v)) l 0.
Definition in_map (f : value -> list pos) (mm : entries) : list pos :=
  flat_map (fun kv => under (SK (fst kv)) (f (snd kv))) mm.

(* ---------- one path step with positions: [sel] of PathSem.v ---------- *)
Definition sel_map_loc (k : str) (mm : entries) : list (pos * value) :=
  if str_eqb k star then map (fun kv => ([SK (fst kv)], snd kv)) mm
  else match lookup k mm with Some x => [([SK k], x)] | None => [] end.
Definition sel_loc (k : str) (v : value) : list (pos * value) :=
  match v with
  | VMap mm => sel_map_loc k mm
  | VList l => flat_mapi (fun i x => match x with
                 | VMap mm => map (fun pv => (SI i :: fst pv, snd pv)) (sel_map_loc k mm)
                 | _ => if str_eqb k star then [([SI i], x)] else []
                 end) l 0
  | _ => []
  end.

Section Addressed.
Variable key : str.          (* the key of newVal *)
Variable sk : entries.       (* the sub-key conditions *)

Definition hit (v : value) : bool := has_sub_keys v sk.

(* a member of a list: a map that holds [key] and meets the sub-keys gets its [key] entry replaced *)
Definition member_rel (v : value) : list pos :=
  match v with
  | VMap mm => if has_key key mm && hit v then [[SK key]] else []
  | _ => []
  end.

(* the last path key [c] applied to a map: positions relative to the entry [c],
   which holds [e] (None = no such entry); [b] = the map itself meets the sub-keys.
   c = key : the entry itself - or, when only members of a list-valued entry
             meet the sub-keys, those members;
   c <> key: the [key] entry of the map stored under c, or of the map members of
             the list stored under c *)
Definition entry_rel (c : str) (b : bool) (e : option value) : list pos :=
  if str_eqb key c then
    if b then [[]]
    else match e with
         | Some (VList l) => in_list (fun v => if hit v then [[]] else []) l
         | _ => []
         end
  else
    match e with
    | Some (VMap em) => if hit (VMap em) && has_key key em then [[SK key]] else []
    | Some (VList l) => in_list member_rel l
    | _ => []
    end.
Definition entry_targets (P : entries) (c : str) : list pos :=
  under (SK c) (entry_rel c (hit (VMap P)) (lookup c P)).

(* the last path key applied to a node the rest of the path has reached *)
Definition node_targets (c : str) (node : value) : list pos :=
  match node with
  | VMap P => if str_eqb c star then flat_map (entry_targets P) (keys P) else entry_targets P c
  | VList l => in_list member_rel l
  | _ => []
  end.

(* the positions UpdateValuesForPath writes: walk all keys but the last as
   ValuesForPath does ([sel_loc]), apply the last key to every node reached *)
Fixpoint addressed (ks : list str) (m : value) : list pos :=
  match ks with
  | [] => []
  | [c] => node_targets c m
  | k :: rest => flat_map (fun pv => map (app (fst pv)) (addressed rest (snd pv))) (sel_loc k m)
  end.
End Addressed.

(* how a changed position relates to the key of newVal: its last step is that
   key, or it is a member of a list stored under that key *)
Definition under_key (key : str) (p : pos) : Prop :=
  (exists q, p = q ++ [SK key]) \/ (exists q i, p = q ++ [SK key; SI i]).
