(* C16, MapSeq part: the side condition under which the MapSeq encoder (Model/SeqEnc.v) is
   deterministic - the members the encoder sorts with elemListSeq.Less carry pairwise distinct
   sequence numbers: the attributes of one element among themselves, and the sub-elements of one
   element (list members unrolled, as the encoder unrolls them) among themselves.
   Short decidable definitions; NO proofs in this file. *)
From Mxj Require Export Model.SeqEnc.

Fixpoint nodupZ (l : list Z) : bool :=
  match l with [] => true | x :: t => negb (existsb (Z.eqb x) t) && nodupZ t end.

Section Distinct.
Variable o : opts.

(* the three keys that are no sub-elements *)
Definition seq_skip_key (k : str) : bool :=
  str_eqb k (attrK o) || str_eqb k (seqK o) || str_eqb k (textK o).

(* the (key, value) pairs mapToXmlSeqIndent collects and sorts: every entry other than "#attr", "#seq",
   "#text"; the members of a list one by one under the key of the list *)
Definition seq_kids (m : entries) : list (str * value) :=
  flat_map (fun kv => if seq_skip_key (fst kv) then []
                      else match snd kv with
                           | VList l => map (fun x => (fst kv, x)) l
                           | _ => [(fst kv, snd kv)]
                           end) m.

(* the sequence numbers elemListSeq.Less compares *)
Definition kid_seqs (m : entries) : list Z := map (fun kv => seq_num o (snd kv)) (seq_kids m).
Definition attr_seqs (aa : entries) : list Z := map (fun kv => seq_num o (snd kv)) aa.

Definition attrs_distinct (m : entries) : bool :=
  match lookup (attrK o) m with
  | Some (VMap aa) => nodupZ (attr_seqs aa)
  | _ => true
  end.

(* [distinct_seq v k]: in the value v stored under (or encoded with) key k, at every depth the
   encoder reaches, siblings carry pairwise distinct sequence numbers and so do the attributes
   of one element.  A map under "#comment" / "#directive" / "#procinst" is not an element:
   nothing in it is sorted. *)
Fixpoint distinct_seq (v : value) (k : str) {struct v} : bool :=
  match v with
  | VMap m =>
      if is_special_key o k then true
      else attrs_distinct m && nodupZ (kid_seqs m) &&
           (fix go (m : entries) : bool :=
              match m with
              | [] => true
              | kx :: t => (seq_skip_key (fst kx) || distinct_seq (snd kx) (fst kx)) && go t
              end) m
  | VList l =>
      (fix go (l : list value) : bool :=
         match l with [] => true | x :: t => distinct_seq x k && go t end) l
  | _ => true
  end.

(* the condition for MapSeq.Xml / MapSeq.XmlIndent, whose root rule may encode the single value
   of the Map under its own key instead of the Map under the root tag *)
Definition distinct_seq_doc (m : entries) (rootTag : option str) : bool :=
  match rootTag with
  | Some rt => distinct_seq (VMap m) rt
  | None =>
      distinct_seq (VMap m) default_root &&
      match m with [(k, v)] => distinct_seq v k | _ => true end
  end.

End Distinct.
