(* Declarative meaning of the sub-key conditions "key:val[:type]", "key:*",
   "!key:val", "!key:*" of ValuesForKey / ValuesForPath (property C08).
   Short enough to read against the documentation of ValuesForPath. *)
From Mxj Require Export Base.Value.

(* one condition: [c_neg] = written with a leading "!", [c_key] the key the
   condition talks about, [c_val] the typed value ("*" = any value) *)
Record cond := { c_neg : bool; c_key : str; c_val : value }.

(* the condition value "*" (an untyped, i.e. string, star) *)
Definition is_wild (c : value) : bool :=
  match c with VStr x => str_eqb x star | _ => false end.

(* typed equality: a string / bool / number condition matches only a value of
   the same type with the same content *)
Definition val_matches (c v : value) : bool :=
  match c, v with
  | VStr a, VStr b => str_eqb a b
  | VBool a, VBool b => Bool.eqb a b
  | VFlt a, VFlt b => str_eqb a b
  | _, _ => false
  end.

(* a map satisfies one condition:
     key absent           : only "!k:*" is satisfied
     key present, "k:*"   : satisfied;   "!k:*" : not satisfied
     key present, "k:v"   : typed equality, negated under "!" *)
Definition sat1 (m : entries) (c : cond) : bool :=
  match lookup (c_key c) m with
  | None => c_neg c && is_wild (c_val c)
  | Some v => if is_wild (c_val c) then negb (c_neg c)
              else xorb (c_neg c) (val_matches (c_val c) v)
  end.

(* a value satisfies a list of conditions: no condition is satisfied by
   everything; otherwise the value must be a map satisfying each of them *)
Definition sat_all (cs : list cond) (v : value) : bool :=
  match cs with
  | [] => true
  | _ => match v with VMap m => forallb (sat1 m) cs | _ => false end
  end.

(* the sub-key map built by getSubKeyMap, read as conditions: a leading "!"
   of the map key is the negation mark *)
Definition cond_of (kv : str * value) : cond :=
  match fst kv with
  | "!"%char :: t => {| c_neg := true; c_key := t; c_val := snd kv |}
  | k => {| c_neg := false; c_key := k; c_val := snd kv |}
  end.
Definition conds_of (sk : entries) : list cond := map cond_of sk.
