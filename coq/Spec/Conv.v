(* The documented XML -> Map conventions (readme "XML parsing conventions" and
   the option docs), as a declarative function of an abstract document tree.
   [toks_of_elem] is the specification of what encoding/xml's Decoder.Token
   returns on (any rendering of) the tree; it is validated against the real
   tokenizer by the harness on every run. *)
From Mxj Require Export Model.XmlDec.

Inductive node :=
| NElem (e : elem)
| NText (x : str)                     (* one character-data token *)
| NOther (t : tok)                    (* a comment, processing instruction or directive *)
with elem := Elem (n : xname) (attrs : list xattr) (kids : list node).

Definition other_ok (t : tok) : bool :=
  match t with TComment _ | TProcInst _ _ | TDirective _ => true | _ => false end.

Fixpoint toks_of_elem (e : elem) : list tok :=
  match e with
  | Elem n a kids => TStart n a :: flat_map toks_of_node kids ++ [TEnd n]
  end
with toks_of_node (nd : node) : list tok :=
  match nd with NElem e => toks_of_elem e | NText x => [TChar x] | NOther t => [t] end.

(* a document: prolog (whitespace, comments, the XML declaration), the root, anything after it *)
Record doc := { d_prolog : list node; d_root : elem; d_trailer : list tok }.
Definition toks_of_doc (d : doc) : list tok :=
  flat_map toks_of_node (d_prolog d) ++ toks_of_elem (d_root d) ++ d_trailer d.

Section Conv.
Variable pf : str -> option flt.
Variable skip : str -> bool.
Variable o : opts.
Variable r : bool.

(* repeated sibling keys are collected into one list, in document order, at the
   position of the first occurrence (an element value is never itself a list) *)
Fixpoint insert_grouped (k : str) (v : value) (m : entries) : entries :=
  match m with
  | [] => [(k, v)]
  | (k', v') :: t =>
      if str_eqb k k'
      then (k', match v' with VList l => VList (l ++ [v]) | _ => VList [v'; v] end) :: t
      else (k', v') :: insert_grouped k v t
  end.
Definition group_children (es : list (str * value)) (m : entries) : entries :=
  fold_left (fun m kv => insert_grouped (fst kv) (snd kv) m) es m.

(* the text value of an element: its non-blank character data, trimmed (and escaped
   under decoder-side escaping) *)
Definition text_val (x : str) : str :=
  let tx := trim (trimRunes o) x in
  if xmlEscapeCharsDecoder o then escape_chars tx else tx.
Fixpoint text_runs (kids : list node) : list str :=
  match kids with
  | [] => []
  | NText x :: t => match text_val x with [] => text_runs t | tx => tx :: text_runs t end
  | _ :: t => text_runs t
  end.

Definition attr_entry (a : xattr) : str * value :=
  let key := attr_key o (xlocal (aname a)) in
  let v := if xmlEscapeCharsDecoder o then escape_chars (avalue a) else avalue a in
  (key, cast pf skip o v r key).

(* tag sequence numbers: the i-th child element gets "_seq": i *)
Definition wrap_seq (i : Z) (v : value) : value :=
  if includeTagSeqNum o then
    match v with
    | VMap m => VMap (set seq_key (VInt i) m)
    | _ => VMap [(textK o, v); (seq_key, VInt i)]
    end
  else v.

(* does the text run come before every child element? (decides the cast tag of an
   attribute-less element's text, see the note at SetCheckTagToSkipFunc) *)
Fixpoint text_first (kids : list node) : bool :=
  match kids with
  | [] => true
  | NText x :: t => match text_val x with [] => text_first t | _ => true end
  | NElem _ :: _ => false
  | NOther _ :: t => text_first t
  end.

Fixpoint conv (e : elem) : value :=
  match e with
  | Elem n attrs kids =>
      let key := xform_key o (xlocal n) in
      let aents := map attr_entry attrs in
      let cents :=
        (fix go (kids : list node) (i : Z) : list (str * value) :=
           match kids with
           | [] => []
           | NElem (Elem cn ca ck as c) :: t =>
               (xform_key o (xlocal cn), wrap_seq i (conv c)) :: go t (i + 1)%Z
           | _ :: t => go t i
           end) kids 0%Z in
      let ents := group_children cents aents in
      match text_runs kids with
      | [] => match ents with [] => VStr [] | _ => VMap ents end
      | tx :: _ =>
          match ents with
          | [] => if decodeSimpleValuesAsMap o
                  then VMap [(textK o, cast pf skip o tx r (textK o))]
                  else cast pf skip o tx r key
          | _ =>
              let tag := if negb (decodeSimpleValuesAsMap o) && (match attrs with [] => true | _ => false end)
                            && text_first kids then key else textK o in
              VMap (ents ++ [(textK o, cast pf skip o tx r tag)])
          end
      end
  end.

(* the Map NewMapXml returns for a document: one root key *)
Definition conv_doc (d : doc) : value :=
  match d_root d with
  | Elem n _ _ => VMap [(xform_key o (xlocal n), conv (d_root d))]
  end.
End Conv.
