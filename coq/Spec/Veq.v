(* C16 - "equal Maps, however they were built": equality of values up to the
   order of map entries at every depth, as a relation, and well-formedness
   (a Go map has pairwise distinct keys).  The list order of a [VMap] stands
   for the hash-iteration order of one run; two Go maps with the same content
   are two entry lists that are permutations of each other (recursively). *)
From Coq Require Export Permutation.
From Mxj Require Export Base.Value.

(* one entry against one entry: same key, related values *)
Definition entry_rel (R : value -> value -> Prop) (a b : str * value) : Prop :=
  fst a = fst b /\ R (snd a) (snd b).

Inductive veq : value -> value -> Prop :=
| veq_scalar v : is_scalar v = true -> veq v v
| veq_map m p m' :
    Forall2 (entry_rel veq) m p ->      (* entry by entry ... *)
    Permutation p m' ->                 (* ... then in any order *)
    veq (VMap m) (VMap m')
| veq_list l l' : Forall2 veq l l' -> veq (VList l) (VList l').

(* distinct keys in every map, at every depth *)
Definition wf (v : value) : Prop := wfb v = true.
