(* Ownership model for NewMap (C12, "the receiver is never modified").

   Gallina values are immutable, so aliasing between the receiver and the
   returned Map cannot be seen on [value].  Here every node carries its owner:

     TSrc v    a subtree that belongs to the receiver (it is shared with the
               result by reference; it must never be written)
     TMap m    a map allocated by NewMap / addNewVal / copyMapShallow
     TList l   a slice allocated by addNewVal

   addNewVal (newmap.go:96-190) is re-stated on tagged trees.  Every Go write
   -  m[k] = x  and  a = append(a, x)  - goes through [tset] / [tappend], which
   return the written container together with a log entry saying whether the
   container was one NewMap had allocated ([false]) or not ([true] = a write
   into receiver-owned memory).  [walk true] is the code after the fix (maps
   met on the way are copied before they are entered, the final list is copied
   before the append); [walk false] is the pinned code (no copies).

   In-place mutation through a reference becomes "return the new container and
   put it back"; when the container that holds the reference is not itself
   written by the Go code ([walk false], map arm) the put-back is [trepl], which
   logs nothing.  The order of the entries of a log is not the execution order
   (the Go code stores the reference first and fills the map later); only the
   set of entries is meaningful.  NO proofs in this file. *)
From Mxj Require Export Model.TreeOps.

Inductive tval :=
| TSrc (v : value)
| TMap (m : list (str * tval))
| TList (l : list tval).
Definition tentries := list (str * tval).

(* forget the owners *)
Fixpoint erase (t : tval) : value :=
  match t with
  | TSrc v => v
  | TMap m => VMap (map (fun kv => (fst kv, erase (snd kv))) m)
  | TList l => VList (map erase l)
  end.
Definition erase_entries (m : tentries) : entries := map (fun kv => (fst kv, erase (snd kv))) m.

(* the members of a receiver-owned container are receiver-owned *)
Definition tag_entries (mm : entries) : tentries := map (fun kv => (fst kv, TSrc (snd kv))) mm.

(* ---- m[k] and m[k] = x on allocated maps ---- *)
Fixpoint tlookup (k : str) (m : tentries) : option tval :=
  match m with [] => None | (k', v) :: t => if str_eqb k k' then Some v else tlookup k t end.
Fixpoint tput (k : str) (v : tval) (m : tentries) : tentries :=
  match m with
  | [] => [(k, v)]
  | (k', v') :: t => if str_eqb k k' then (k', v) :: t else (k', v') :: tput k v t
  end.

(* ---- the Go type switch  switch x.(type) { case nil: case map: case []interface{}: default: } ---- *)
Inductive kind := KNil | KMap | KList | KOther.
Definition kind_of (x : tval) : kind :=
  match x with
  | TSrc VNil => KNil
  | TSrc (VMap _) | TMap _ => KMap
  | TSrc (VList _) | TList _ => KList
  | TSrc _ => KOther
  end.
(* x.(map[string]interface{}) and x.([]interface{}) read as tagged content *)
Definition entries_of (x : tval) : tentries :=
  match x with TMap m => m | TSrc (VMap mm) => tag_entries mm | _ => [] end.
Definition members_of (x : tval) : list tval :=
  match x with TList l => l | TSrc (VList l) => map TSrc l | _ => [] end.

(* ---- writes ---- *)
Inductive write_event :=
| WSet (k : str) (on_src : bool)     (* c[k] = x *)
| WAppend (on_src : bool).           (* append(c, x) writing into c's backing array *)
Definition ev_on_src (e : write_event) : bool := match e with WSet _ b | WAppend b => b end.
Definition writes_to_src (log : list write_event) : list write_event := filter ev_on_src log.

(* m[k] *)
Definition tget (k : str) (c : tval) : option tval :=
  match c with
  | TMap m => tlookup k m
  | TSrc (VMap mm) => option_map TSrc (lookup k mm)
  | _ => None
  end.
(* c[k] = x.  A receiver-owned map stays receiver-owned after the (illegal)
   write, and what was stored in it is from then on reachable from the receiver. *)
Definition tset (k : str) (x : tval) (c : tval) : tval * list write_event :=
  match c with
  | TMap m => (TMap (tput k x m), [WSet k false])
  | TSrc (VMap mm) => (TSrc (VMap (set k (erase x) mm)), [WSet k true])
  | _ => (c, [WSet k true])                         (* not a map: unreachable *)
  end.
(* the map reached through c[k] was mutated in place; c itself is not written *)
Definition trepl (k : str) (x : tval) (c : tval) : tval :=
  match c with
  | TMap m => TMap (tput k x m)
  | TSrc (VMap mm) => TSrc (VMap (set k (erase x) mm))
  | _ => c
  end.
(* c = append(c, x) *)
Definition tappend (x : tval) (c : tval) : tval * list write_event :=
  match c with
  | TList l => (TList (l ++ [x]), [WAppend false])
  | TSrc (VList l) => (TSrc (VList (l ++ [erase x])), [WAppend true])
  | _ => (c, [WAppend true])                        (* not a slice: unreachable *)
  end.
Fixpoint tappends (xs : list tval) (c : tval) : tval * list write_event :=
  match xs with
  | [] => (c, [])
  | x :: t => let '(c1, e) := tappend x c in let '(c2, l) := tappends t c1 in (c2, e ++ l)
  end.

(* copyMapShallow: c := make(map, len(m)); for k, v := range m { c[k] = v } *)
Definition copy_map (x : tval) : tval := TMap (entries_of x).
(* a := make([]interface{}, 0, len+1); a = append(a, v...) *)
Definition copy_list (x : tval) : tval * list write_event := tappends (members_of x) (TList []).

Section Walk.
Variable copy : bool.     (* true: newmap.go after the fix; false: the pinned code *)

(* the switch after the loop (newmap.go:175-189) *)
Definition add_final_t (k : str) (v : tval) (c : tval) : tval * list write_event :=
  let fresh_pair x :=                               (* a := make(..); a = append(a, v, newVal); m[k] = a *)
    let '(a, e1) := tappends [x; v] (TList []) in
    let '(c', e2) := tset k a c in (c', e1 ++ e2) in
  match tget k c with
  | None => tset k v c
  | Some x =>
      match kind_of x with
      | KNil => tset k v c
      | KList =>
          let '(a0, e0) := if copy then copy_list x else (x, []) in
          let '(a, e1) := tappend v a0 in
          let '(c', e2) := tset k a c in (c', e0 ++ e1 ++ e2)
      | _ => fresh_pair x
      end
  end.

(* the range loop of the []interface{} arm (newmap.go:132-156): [a] is the
   slice being built, [down] the rest of the walk applied to the map chosen as nm *)
Fixpoint list_arm (down : tval -> tval * list write_event) (vs : list tval) (a : tval) (found : bool)
  : tval * bool * list write_event :=
  match vs with
  | [] => (a, found, [])
  | vv :: t =>
      let enter := if found then None
                   else match kind_of vv with
                        | KNil => Some (TMap [])                                (* nm = make(map) *)
                        | KMap => Some (if copy then copy_map vv else vv)       (* nm = copyMapShallow(vv) / nm = vv *)
                        | _ => None
                        end in
      match enter with
      | Some nm =>
          let '(nm', il) := down nm in
          let '(a1, e) := tappend nm' a in
          let '(r, l) := list_arm down t a1 true in (r, e ++ il ++ l)
      | None =>
          let '(a1, e) := tappend vv a in
          let '(r, l) := list_arm down t a1 found in (r, e ++ l)
      end
  end.

(* addNewVal with walker m = [c] *)
Fixpoint walk (path : list str) (v : tval) (c : tval) : tval * list write_event :=
  match path with
  | [] => add_final_t [] v c                        (* unreachable: k stays "" *)
  | [k] => add_final_t k v c
  | k :: rest =>
      let down := walk rest v in
      let nil_arm :=                                (* nm = make(map); m[k] = nm; m = nm *)
        let '(nm', il) := down (TMap []) in
        let '(c', e) := tset k nm' c in (c', e ++ il) in
      match tget k c with
      | None => nil_arm
      | Some x =>
          match kind_of x with
          | KNil => nil_arm
          | KMap =>
              if copy then                          (* nm = copyMapShallow(m[k]); m[k] = nm; m = nm *)
                let '(nm', il) := down (copy_map x) in
                let '(c', e) := tset k nm' c in (c', e ++ il)
              else                                  (* m = m[k].(map[string]interface{}) *)
                let '(nm', il) := down x in (trepl k nm' c, il)
          | KList =>
              let '(a, found, l1) := list_arm down (members_of x) (TList []) false in
              let '(a', l2) :=
                if found then (a, [])
                else let '(nm', il) := down (TMap []) in      (* no map found in array *)
                     let '(a1, e) := tappend nm' a in (a1, e ++ il) in
              let '(c', e) := tset k a' c in (c', l1 ++ l2 ++ e)
          | KOther =>                               (* aa = append(aa, m[k], nm); m[k] = aa; m = nm *)
              let '(nm', il) := down (TMap []) in
              let '(aa, e1) := tappends [x; nm'] (TList []) in
              let '(c', e2) := tset k aa c in (c', e1 ++ e2 ++ il)
          end
      end
  end.
End Walk.

(* addNewVal(&n, path, val) where n is the map NewMap allocated *)
Definition add_new_val_t (path : list str) (v : tval) (n : tentries) : tentries * list write_event :=
  let '(c, log) := walk true path v (TMap n) in (entries_of c, log).
Definition add_new_val_t_nocopy (path : list str) (v : tval) (n : tentries) : tentries * list write_event :=
  let '(c, log) := walk false path v (TMap n) in (entries_of c, log).
