(* C05 - the declarative side of escaping and of the validity check.
   [esc1]        what one character becomes under escaping
   [unescape]    the inverse the XML tokenizer applies to the five predefined entities
   [safe_raw]    a raw text that can be written as character data or as a quoted attribute value:
                 no less-than, greater-than, double or single quote, and every ampersand opens
                 one of the five entities
   [checked_enc] (Model/EscOpts.v) the post-encode validity check, parametric in the acceptance function
   [raw_texts]   the raw texts (character data and attribute values) an encoder wrote
   [set_esc]/[set_escdec]  (Model/EscOpts.v) the two setters XMLEscapeChars / XMLEscapeCharsDecoder
   NO proofs here. *)
From Mxj Require Export Model.XmlEnc Model.EscOpts.
Local Open Scope string_scope.

Definition c_amp : ascii := "&"%char.
Definition c_lt : ascii := "<"%char.
Definition c_gt : ascii := ">"%char.
Definition c_quot : ascii := """"%char.
Definition c_apos : ascii := "'"%char.

Definition esc1 (c : ascii) : str :=
  if Ascii.eqb c c_amp then s "&amp;"
  else if Ascii.eqb c c_lt then s "&lt;"
  else if Ascii.eqb c c_gt then s "&gt;"
  else if Ascii.eqb c c_quot then s "&quot;"
  else if Ascii.eqb c c_apos then s "&apos;"
  else [c].

(* entity names (after the '&', with the ';') and the character each stands for *)
Definition entities : list (str * ascii) :=
  [(s "amp;", c_amp); (s "lt;", c_lt); (s "gt;", c_gt); (s "quot;", c_quot); (s "apos;", c_apos)].

Fixpoint strip_entity (tbl : list (str * ascii)) (t : str) : option (ascii * str) :=
  match tbl with
  | [] => None
  | (nm, ch) :: tb => if prefixb nm t then Some (ch, skipn (length nm) t) else strip_entity tb t
  end.

(* None = a '&' that does not open one of the five entities (the tokenizer reports a syntax error) *)
Fixpoint unescape_aux (fuel : nat) (x : str) : option str :=
  match x with
  | [] => Some []
  | c :: t =>
      match fuel with
      | O => None                                         (* unreachable with fuel = length x *)
      | S f =>
          if Ascii.eqb c c_amp then
            match strip_entity entities t with
            | Some (ch, r) => option_map (cons ch) (unescape_aux f r)
            | None => None
            end
          else option_map (cons c) (unescape_aux f t)
      end
  end.
Definition unescape (x : str) : option str := unescape_aux (length x) x.

Definition forbidden (c : ascii) : bool := mem_ascii c [c_lt; c_gt; c_quot; c_apos].
Fixpoint amps_ok (y : str) : bool :=
  match y with
  | [] => true
  | c :: t => (if Ascii.eqb c c_amp then existsb (fun e => prefixb (fst e) t) entities else true) && amps_ok t
  end.
Definition safe_raw (y : str) : bool := forallb (fun c => negb (forbidden c)) y && amps_ok y.

(* ---- what an encoder wrote ---- *)
Definition raw_texts (its : list item) : list str :=
  flat_map (fun i => match i with
                     | IOpen _ a | IEmpty _ a => map snd a
                     | IText x => [x]
                     | IClose _ => []
                     end) its.
(* the attribute values, which emit writes between double quotes: a well-formed output needs them free of it *)
Definition attr_values (its : list item) : list str :=
  flat_map (fun i => match i with IOpen _ a | IEmpty _ a => map snd a | _ => [] end) its.
Definition attrs_quote_free (its : list item) : bool :=
  forallb (fun v => negb (mem_ascii c_quot v)) (attr_values its).
Fixpoint scalar_leaves (v : value) : list value :=
  match v with
  | VMap m => flat_map (fun kv => scalar_leaves (snd kv)) m
  | VList l => flat_map scalar_leaves l
  | _ => [v]
  end.
(* the text a scalar leaf is written as: strings through [esc] exactly once, nil as nothing, others %v *)
Definition leaf_raw (o : opts) (v : value) : str :=
  match v with VStr x => esc o x | VNil => [] | _ => fmt_v v end.

