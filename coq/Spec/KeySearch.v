(* Declarative vocabulary for key search (property C08): which key lists lead
   to an entry of a Map, which values are stored under a key, what the
   shortest of a list of paths is. *)
From Mxj Require Export Base.Value Spec.PathSem.

(* ---- key paths ----
   [path_exists ks v]: starting at [v], the keys [ks] can be followed one map
   entry after the other; a list met on the way stands for all of its members
   (any one of them may be entered, lists add no key). *)
Inductive path_exists : list str -> value -> Prop :=
| pe_nil  : forall v, path_exists [] v
| pe_key  : forall k ks m x, In (k, x) m -> path_exists ks x -> path_exists (k :: ks) (VMap m)
| pe_list : forall k ks l x, In x l -> path_exists (k :: ks) x -> path_exists (k :: ks) (VList l).

(* the same, computable: used for examples and for side conditions *)
Fixpoint path_existsb (ks : list str) : value -> bool :=
  match ks with
  | [] => fun _ => true
  | k :: ks' =>
      fix here (v : value) : bool :=
        match v with
        | VMap m => existsb (fun kv => str_eqb k (fst kv) && path_existsb ks' (snd kv)) m
        | VList l => existsb here l
        | _ => false
        end
  end.

(* the dot-notation text of a key list, as PathsForKey writes it: the keys
   joined by "."; empty keys at the front leave no trace (the Go code tests
   crumbs == "" to decide whether a separator is needed) *)
Fixpoint strip_empty (ks : list str) : list str :=
  match ks with [] :: t => strip_empty t | _ => ks end.
Definition trail (ks : list str) : str := join sdot (strip_empty ks).

(* ---- the shortest path: the loop of PathForKeyShortest ----
   the first path is kept until a strictly shorter one (fewer dot-separated
   segments) is met; "" when there is no path *)
Definition seg_count (p : str) : nat := length (split1 dot p).
Fixpoint shortest_from (best : str) (ps : list str) : str :=
  match ps with
  | [] => best
  | p :: t => if seg_count p <? seg_count best then shortest_from p t else shortest_from best t
  end.
Definition shortest (ps : list str) : str :=
  match ps with [] => [] | p :: t => shortest_from p t end.

(* ---- the values stored under a key ----
   every value stored under key [k] in any map of the tree, at any depth; a
   stored list counts as its members ([final]); "*" means every key
   ([sel_map]); lists are transparent.  Order: a map first yields its own hit,
   then what is found inside each of its entries. *)
Fixpoint stored_under (k : str) (v : value) : list value :=
  match v with
  | VMap m => flat_map final (sel_map k m) ++ flat_map (fun kv => stored_under k (snd kv)) m
  | VList l => flat_map (stored_under k) l
  | _ => []
  end.

(* the same with [k] taken literally (no wildcard reading of "*") *)
Fixpoint stored_literal (k : str) (v : value) : list value :=
  match v with
  | VMap m => (match lookup k m with Some x => final x | None => [] end)
              ++ flat_map (fun kv => stored_literal k (snd kv)) m
  | VList l => flat_map (stored_literal k) l
  | _ => []
  end.

(* no map of the tree has the literal key [k] *)
Fixpoint key_free (k : str) (v : value) : bool :=
  match v with
  | VMap m => negb (existsb (fun kv => str_eqb k (fst kv)) m) &&
              forallb (fun kv => key_free k (snd kv)) m
  | VList l => forallb (key_free k) l
  | _ => true
  end.

(* no list is a direct member of a list *)
Fixpoint no_nested_lists (v : value) : bool :=
  match v with
  | VMap m => forallb (fun kv => no_nested_lists (snd kv)) m
  | VList l => forallb (fun x => negb (is_list x) && no_nested_lists x) l
  | _ => true
  end.

(* distinct keys in every map (true of every Go map); same as [wfb] *)
Fixpoint distinct_keys (v : value) : bool :=
  match v with
  | VMap m => nodup_keys (map fst m) && forallb (fun kv => distinct_keys (snd kv)) m
  | VList l => forallb distinct_keys l
  | _ => true
  end.
