(* Declarative meaning of dot / wildcard / indexed paths, transcribed from the
   statement of C07.  Short enough to read against the property text. *)
From Mxj Require Export Base.Value.

(* a final list is returned as its members *)
Definition final (v : value) : list value := match v with VList l => l | _ => [v] end.

(* one step applied to one map: a plain key selects that entry, "*" every entry *)
Definition sel_map (k : str) (m : entries) : list value :=
  if str_eqb k star then map snd m
  else match lookup k m with Some x => [x] | None => [] end.

(* one step applied to a node reached so far: a list stands for all of its
   members; "*" also selects scalar (non-map) members themselves *)
Definition sel (k : str) (v : value) : list value :=
  match v with
  | VMap m => sel_map k m
  | VList l => flat_map (fun x => match x with
                                  | VMap m => sel_map k m
                                  | _ => if str_eqb k star then [x] else []
                                  end) l
  | _ => []
  end.

(* a path of plain keys and wildcards *)
Fixpoint eval (ks : list str) (v : value) : list value :=
  match ks with
  | [] => final v
  | k :: ks' => flat_map (eval ks') (sel k v)
  end.

(* an indexed path, pre-segmented: (plain prefix, indexed key, index) ... then a plain tail.
   k[i] selects, for each parent, the i-th of the values k alone would yield;
   the walk continues from the selected value when it is a map. *)
Definition seg := (list str * str * Z)%type.
Definition nthz {A} (l : list A) (z : Z) : option A :=
  if (z <? 0)%Z then None else nth_error l (Z.to_nat z).
Fixpoint evalx (segs : list seg) (tail : list str) (m : value) : list value :=
  match segs with
  | [] => eval tail m
  | (pre, k, i) :: segs' =>
      let parents := match pre with [] => [m] | _ => filter is_map (eval pre m) end in
      flat_map (fun p =>
        match nthz (eval [k] p) i with
        | None => []
        | Some x => match segs', tail with
                    | [], [] => [x]
                    | _, _ => if is_map x then evalx segs' tail x else []
                    end
        end) parents
  end.
