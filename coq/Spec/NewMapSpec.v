(* Specification vocabulary for C12 (NewMap): the declarative reading of a
   key pair, nested single-entry maps, key-path lookup, prefix-freeness.
   NO proofs in this file (see Proofs/C12P.v). *)
From Mxj Require Export Model.TreeOps.

(* ---------- 1. key pairs "old:new" ---------- *)
Fixpoint count_char (c : ascii) (x : str) : nat :=
  match x with
  | [] => 0
  | a :: t => (if Ascii.eqb a c then 1 else 0) + count_char c t
  end.
(* the text before / after the first occurrence of c *)
Fixpoint before (c : ascii) (x : str) : str :=
  match x with [] => [] | a :: t => if Ascii.eqb a c then [] else a :: before c t end.
Fixpoint after (c : ascii) (x : str) : str :=
  match x with [] => [] | a :: t => if Ascii.eqb a c then t else after c t end.

(* "old:new", and "key" as a shorthand for "key:key" *)
Definition pair_old (v : str) : str := before colon v.
Definition pair_new (v : str) : str := if mem_ascii colon v then after colon v else v.

Inductive pair_class :=
| PSkip                      (* empty argument: skipped *)
| PBad                       (* rejected with an error *)
| PGood (old new : str).
Definition classify (v : str) : pair_class :=
  match v with
  | [] => PSkip
  | _ =>
      if 2 <=? count_char colon v then PBad
      else
        let o := pair_old v in
        let nw := pair_new v in
        if mem_ascii "*"%char nw || mem_ascii lbr nw then PBad
        else match o, nw with
             | [], _ | _, [] => PBad
             | _, _ => PGood o nw
             end
  end.

(* the single value, or a list when several *)
Definition pack (vs : list value) : value := match vs with [x] => x | _ => VList vs end.

Section PairSpec.
Variable pf : str -> option flt.
Variable fieldSep : str.

(* what one key pair asks for: Ok None = nothing to insert, Ok (Some (path, value)) = one insertion *)
Definition pair_action (mv : value) (v : str) : res (option (list str * value)) :=
  match classify v with
  | PSkip => Ok None
  | PBad => Err EOther
  | PGood o nw =>
      bind (values_for_path pf fieldSep mv o []) (fun vs =>
        match vs with
        | [] => Ok None                                   (* the old path yields nothing *)
        | _ => Ok (Some (path_keys nw, pack vs))
        end)
  end.

(* the insertions a list of accepted pairs asks for, in order *)
Fixpoint items_of (mv : value) (pairs : list str) : list (list str * value) :=
  match pairs with
  | [] => []
  | v :: t => match pair_action mv v with
              | Ok (Some it) => it :: items_of mv t
              | _ => items_of mv t
              end
  end.
End PairSpec.

(* ---------- 2. the nested single-entry map {p1:{p2:...{pn: v}}} ---------- *)
Fixpoint nest (path : list str) (v : value) : entries :=
  match path with
  | [] => [([], v)]                                       (* addNewVal with an empty path writes key "" *)
  | [k] => [(k, v)]
  | k :: rest => [(k, VMap (nest rest v))]
  end.

(* ---------- 3. key-path lookup through nested maps ---------- *)
Fixpoint get_keys_v (ks : list str) (v : value) : option value :=
  match ks with
  | [] => Some v
  | k :: rest => match v with
                 | VMap m => match lookup k m with Some x => get_keys_v rest x | None => None end
                 | _ => None
                 end
  end.
Definition get_keys (ks : list str) (m : entries) : option value := get_keys_v ks (VMap m).

Definition prefix (p q : list str) : Prop := exists r, q = p ++ r.
Definition comparable (p q : list str) : Prop := prefix p q \/ prefix q p.
(* no path equals or is a prefix of another (at another position of the list) *)
Fixpoint prefix_free (paths : list (list str)) : Prop :=
  match paths with
  | [] => True
  | p :: t => Forall (fun q => ~ comparable p q) t /\ prefix_free t
  end.

(* decidable versions, for side conditions on concrete inputs *)
Fixpoint prefixb_keys (p q : list str) : bool :=
  match p, q with
  | [], _ => true
  | a :: p', b :: q' => str_eqb a b && prefixb_keys p' q'
  | _ :: _, [] => false
  end.
Definition comparableb (p q : list str) : bool := prefixb_keys p q || prefixb_keys q p.
Fixpoint prefix_freeb (paths : list (list str)) : bool :=
  match paths with
  | [] => true
  | p :: t => forallb (fun q => negb (comparableb p q)) t && prefix_freeb t
  end.

(* the walk of addNewVal along [p] meets only maps and ends at an absent key *)
Fixpoint free_at (p : list str) (n : entries) : Prop :=
  match p with
  | [] => False
  | [k] => lookup k n = None
  | k :: rest => match lookup k n with
                 | None => True
                 | Some (VMap mm) => free_at rest mm
                 | Some _ => False
                 end
  end.

(* sequential insertion, the loop of NewMap once the pairs are read *)
Definition insert_all (items : list (list str * value)) (n : entries) : entries :=
  fold_left (fun n it => add_new_val (fst it) (snd it) n) items n.
