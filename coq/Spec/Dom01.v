(* The domain of property C01 as a decidable predicate on (options, document).
   Everything the proof of decode_conv needs beyond "the token list is the one the
   tokenizer returns on a rendering of the tree" is listed here and nowhere else. *)
From Mxj Require Export Spec.Conv.

Definition is_nil {A} (l : list A) : bool := match l with [] => true | _ => false end.

Section Dom01.
Variable o : opts.

(* the Map key of an element / of the attributes of an element *)
Definition ekey (e : elem) : str := match e with Elem n _ _ => xform_key o (xlocal n) end.
Definition akeys (attrs : list xattr) : list str :=
  map (fun a => attr_key o (xlocal (aname a))) attrs.

(* Per element:
   - its local name is not empty (the tokenizer never returns an empty name);
   - no two of its attributes get the same key (after prefixing / case folding / snake-casing);
   - no attribute key and no child-element key equals the text key [textK o];
   - at most one non-blank character-data run (after trimming with [trimRunes o]);
   - every other node is a comment, processing instruction or directive.
   NOT required: attribute keys distinct from child-element keys, child keys distinct from
   "_seq" (the conventions [conv] fix what happens there and the decoder agrees). *)
Fixpoint dom_elem (e : elem) : bool :=
  match e with
  | Elem n attrs kids =>
      negb (is_nil (xlocal n)) &&
      nodup_keys (akeys attrs) &&
      negb (existsb (str_eqb (textK o)) (akeys attrs)) &&
      (length (text_runs o kids) <=? 1) &&
      (fix go (kids : list node) : bool :=
         match kids with
         | [] => true
         | NElem c :: t =>
             negb (str_eqb (match c with Elem cn _ _ => xform_key o (xlocal cn) end) (textK o))
             && dom_elem c && go t
         | NText _ :: t => go t
         | NOther tk :: t => other_ok tk && go t
         end) kids
  end.

(* before the root: no element; text is arbitrary (the decoder skips stray text there) *)
Definition dom_prolog_node (nd : node) : bool :=
  match nd with NElem _ => false | NText _ => true | NOther t => other_ok t end.

Definition dom01 (d : doc) : bool :=
  negb (handleXMPPStreamTag o) &&
  (negb (includeTagSeqNum o) || negb (str_eqb (textK o) seq_key)) &&
  forallb dom_prolog_node (d_prolog d) &&
  dom_elem (d_root d).
End Dom01.
