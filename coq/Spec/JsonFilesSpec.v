(* C19, vocabulary for relating the two models of json.go getJson and for files of JSON documents:
   Model/Files.v `scan_json` (over the unread bytes, result type scan_res) and Model/Reader.v
   `get_json` (over a reader schedule, result type jscan). *)
From Mxj Require Export Model.Files Spec.FilesSpec Spec.StreamSpec.

(* what getJson returns, in Reader.v's result type: Reader.v keeps the class of the error only, so
   "no closing }" and "closing } without opening {" are both JErr _ EOther *)
Definition jres (r : scan_res) : jscan :=
  match r with
  | SDoc b _ => JOk b
  | SEof b => JErr b EEOF
  | SNoClose b => JErr b EOther
  | SStray b _ => JErr b EOther
  end.

(* the bytes getJson has not read: at end of input none *)
Definition unread (r : scan_res) : bytes :=
  match r with
  | SDoc _ rest | SStray _ rest => rest
  | SEof _ | SNoClose _ => []
  end.

(* a document has begun in this fragment of a file of compact JSON objects *)
Definition begun (b : bytes) : bool := match b with [] => false | _ :: _ => true end.

(* the class of a reader call's error, as Model/Files.v records it *)
Definition err_class (r : res value) : rerr :=
  match r with Ok _ => RNil | Err EEOF => REOF | Err _ => ROther | Panic => RPanic end.
Definition map_of (r : res value) : value := match r with Ok m => m | _ => VNil end.
