(* C16 - "attributes and child elements in ascending key order", read off the
   encoder's output: an item list is [ordered] with root names ns when it is a
   well-nested sequence of elements whose names are ns, and at every level the
   attribute names of each element are strictly ascending and the names of
   sibling elements are ascending (bytewise; a list value yields equal
   neighbours). *)
From Coq Require Export Sorting.Sorted.
From Mxj Require Export Model.XmlEnc.

(* Go's a < b on strings *)
Definition str_ltb (a b : str) : bool := str_leb a b && negb (str_eqb a b).

Definition ksorted {A} (l : list (str * A)) : Prop :=
  StronglySorted (fun a b => str_leb (fst a) (fst b) = true) l.
Definition kstrict {A} (l : list (str * A)) : Prop :=
  StronglySorted (fun a b => str_ltb (fst a) (fst b) = true) l.
Definition asc (ns : list str) : Prop := StronglySorted (fun a b => str_leb a b = true) ns.

Inductive ordered : list item -> list str -> Prop :=
| ord_nil : ordered [] []
| ord_text x f ns : ordered f ns -> ordered (IText x :: f) ns
| ord_empty n a f ns : kstrict a -> ordered f ns -> ordered (IEmpty n a :: f) (n :: ns)
| ord_elem n a body bns f ns :
    kstrict a -> ordered body bns -> asc bns -> ordered f ns ->
    ordered (IOpen n a :: body ++ IClose n :: f) (n :: ns).

(* the two root rules differ on exactly this shape: one key whose value is a list of maps
   (Xml writes the members as a sequence of <key> elements without a common root,
   XmlIndent wraps them in <doc>) *)
Definition root_rules_differ (m : entries) (root : option str) : bool :=
  match root, m with
  | None, [(_, VList l)] => all_maps l
  | _, _ => false
  end.
