(* Declarative vocabulary for C11: plain key lists, the walk through nested maps
   only, the nested write, and "the two key lists part ways".  Short enough to
   read against the property text; no proofs here (see Proofs/C11P.v). *)
From Mxj Require Export Base.Value.

Definition lbrc : ascii := "["%char.

(* a plain key: non-empty, free of '.', free of '[', and not the wildcard "*" *)
Definition plain_keyb (k : str) : bool :=
  match k with [] => false | _ => true end
  && negb (mem_ascii dot k) && negb (mem_ascii lbrc k) && negb (str_eqb k star).
Definition plain_keys (ks : list str) : Prop := forallb plain_keyb ks = true.

(* keys that the dot-split gives back unchanged (may be empty, "*", contain '[') *)
Definition dotfree (ks : list str) : Prop := forallb (fun k => negb (mem_ascii dot k)) ks = true.

(* follow keys through nested maps only; None as soon as a key is missing or
   the value reached is not a map *)
Fixpoint get_keys (ks : list str) (v : value) : option value :=
  match ks with
  | [] => Some v
  | k :: t => match v with
              | VMap m => match lookup k m with Some x => get_keys t x | None => None end
              | _ => None
              end
  end.

(* replace the value stored at an existing key list; identity when the key
   list does not lead anywhere.  Every map on the way keeps its entries (and
   their order) except the one entry on the path. *)
Fixpoint put_keys (ks : list str) (nv : value) (v : value) : value :=
  match ks with
  | [] => nv
  | k :: t => match v with
              | VMap m => match lookup k m with
                          | Some x => VMap (set k (put_keys t nv x) m)
                          | None => v
                          end
              | _ => v
              end
  end.

(* the two key lists part ways: neither is a prefix of the other *)
Fixpoint diverge (ks qs : list str) : bool :=
  match ks, qs with
  | k :: ks', q :: qs' => if str_eqb k q then diverge ks' qs' else true
  | _, _ => false
  end.

(* the walk along ks meets no list before it ends (it may end early at a
   missing key or at a scalar) *)
Fixpoint no_list_on (ks : list str) (v : value) : bool :=
  match ks with
  | [] => true
  | k :: t => match v with
              | VList _ => false
              | VMap m => match lookup k m with Some x => no_list_on t x | None => true end
              | _ => true
              end
  end.

(* a value ValuesForPath can report: anything but an empty list (whose members are nothing) *)
Definition reportable (v : value) : bool := match v with VList [] => false | _ => true end.

(* RenameKey's second check: Exists(parent.newName) is false, i.e. the map has
   no entry under the new name (or only one with nothing to report) *)
Definition sibling_free (nn : str) (c : entries) : bool :=
  match lookup nn c with Some x => negb (reportable x) | None => true end.

(* no empty list anywhere in the tree: the domain of C11 *)
Fixpoint no_empty_lists (v : value) : bool :=
  match v with
  | VMap m => (fix go (m : entries) : bool :=
                 match m with [] => true | (_, x) :: t => no_empty_lists x && go t end) m
  | VList l => match l with [] => false | _ => true end &&
               (fix go (l : list value) : bool :=
                  match l with [] => true | x :: t => no_empty_lists x && go t end) l
  | _ => true
  end.
