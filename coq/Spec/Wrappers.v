(* Specification side of property C20: "The legacy x2j, j2x and x2j-wrapper
   packages agree with the core they wrap".

   INVENTORY - every exported identifier of the three sub-packages of /repo and
   its documented core counterpart / composition (";" = then, errors short-cut).

   package j2x  (/repo/j2x/j2x.go)
     JsonToMap(j)                         = NewMapJson(j)
     MapToJson(m, safe...)                = Map(m).Json(safe...)            (repaired 6251df7)
     JsonToXml(j)                         = NewMapJson ; Xml()
     JsonToXmlWriter(j, w)                = NewMapJson ; XmlWriter(w)
     JsonReaderToXml(r)                   = NewMapJsonReaderRaw ; Xml()     (returns raw, xml)
     JsonReaderToXmlWriter(r, w)          = NewMapJsonReader ; XmlWriter(w)
     JsonPathsForKey(j, k)                = NewMapJson ; PathsForKey(k)
     JsonPathForKeyShortest(j, k)         = NewMapJson ; PathForKeyShortest(k)
     JsonValuesForKey(j, k, sub...)       = NewMapJson ; ValuesForKey(k, sub...)
     JsonValuesForKeyPath(j, p, sub...)   = NewMapJson ; ValuesForPath(p, sub...)
     JsonUpdateValsForPath(j, nv, p, sub...) = NewMapJson ; UpdateValuesForPath(nv, p, sub...) ; Json()
     JsonNewJson(j, pairs...)             = NewMapJson ; NewMap(pairs...) ; Json()
     JsonNewXml(j, pairs...)              = NewMapJson ; NewMap(pairs...) ; Xml()
     JsonLeafNodes(j)                     = NewMapJson ; LeafNodes()
     JsonLeafValues(j)                    = NewMapJson ; LeafValues()
     JsonLeafPath(j)                      = NewMapJson ; LeafPaths()

   package x2j  (/repo/x2j/x2j.go)
     XmlToMap(x)                          = NewMapXml(x)
     MapToXml(m)                          = Map(m).Xml()
     XmlToJson(x, safe...)                = NewMapXml ; Json(safe...)
     XmlToJsonWriter(x, w, safe...)       = NewMapXml ; JsonWriterRaw(w, safe...)
     XmlReaderToJson(r, safe...)          = NewMapXmlReaderRaw ; Json(safe...)      (returns raw, json)
     XmlReaderToJsonWriter(r, w, safe...) = NewMapXmlReaderRaw ; JsonWriterRaw(w, safe...)
     XmlPathsForTag(x, t)                 = NewMapXml ; PathsForKey(t)
     XmlPathForTagShortest(x, t)          = NewMapXml ; PathForKeyShortest(t)
     XmlValuesForTag(x, t, attrs...)      = NewMapXml ; ValuesForKey(t, attrs...)
     XmlValuesForPath(x, p, attrs...)     = NewMapXml ; ValuesForPath(p, attrs...)
     XmlUpdateValsForPath(x, nv, p, sub...) = NewMapXml ; UpdateValuesForPath ; Xml()
     XmlNewXml(x, pairs...)               = NewMapXml ; NewMap ; Xml()
     XmlNewJson(x, pairs...)              = NewMapXml ; NewMap ; Json()
     XmlLeafNodes(x) / XmlLeafValues(x) / XmlLeafPath(x) = NewMapXml ; LeafNodes() / LeafValues() / LeafPaths()

   package x2j  (/repo/x2j-wrapper/*.go; import path .../x2j-wrapper)
     var X2jCharsetReader                 no core counterpart (only read by Unmarshal's xml.Decoder arm;
                                          the mxj decoder uses mxj.XmlCharsetReader)
     DocToMap(doc, recast...)             = NewMapXml([]byte(doc), r)         r = recast[0] iff len(recast)==1
     ByteDocToMap(doc, recast...)         = NewMapXml(doc, r)
     DocToJson(doc, recast...)            = NewMapXml(doc, r) ; Json()
     ByteDocToJson(doc, recast...)        = NewMapXml(doc, r) ; Json()
     DocToJsonIndent(doc, recast...)      = NewMapXml(doc, r) ; JsonIndent("", "  ")
     ToMap(rdr, recast...)                = NewMapXmlReader(rdr, r)
     ToJson(rdr, recast...)               = NewMapXmlReader(rdr, r) ; json.Marshal          (= Json(true))
     ToJsonIndent(rdr, recast...)         = NewMapXmlReader(rdr, r) ; json.MarshalIndent("", "  ")  (= JsonIndent("","  ",true))
     XmlBufferToMap(b, recast...)         = NewMapXmlReader(b, r)
     XmlBufferToJson(b, recast...)        = NewMapXmlReader(b, r) ; Json()
     XmlMsgsFromReader(rdr, ph, eh, recast...)        = loop NewMapXmlReader(rdr, r) with the handler protocol
     XmlMsgsFromReaderAsJson(rdr, ph, eh, recast...)  = loop (NewMapXmlReader(rdr, r) ; json.Marshal)
     XmlMsgsFromFile(f, ph, eh, recast...)            = read file ; strip [ \t\n\r]* before '<' ; loop NewMapXmlReader(buf, r)
     XmlMsgsFromFileAsJson(f, ph, eh, recast...)      = the same ; Json()
     Unmarshal(doc, v)                    v *map[string]interface{}: NewMapXml(doc) copied into *v;
                                          v *string: ByteDocToJson(doc); other types: encoding/xml - no core counterpart
     CastNanInf(b)                        = mxj.CastNanInf(b)     (repaired a59bf47)
     ValuesForKey(m, k)        RE-IMPLEMENTED  ~ Map(m).ValuesForKey(k): the wrapper returns the stored value, the core
                                          the members of a stored list - equal after flat_map final; k <> "*"
     ValuesForTag(doc, t)                 = NewMapXml ; ValuesForKey(m, t)        (the wrapper's own)
     ReaderValuesForTag(rdr, t)           = NewMapXmlReader ; ValuesForKey(m, t)
     PathsForKey(m, k)         RE-IMPLEMENTED  = Map(m).PathsForKey(k) as a set   (crumb mutation repaired 5ff47ea)
     PathForKeyShortest(m, k)  RE-IMPLEMENTED  = Map(m).PathForKeyShortest(k) (a shortest member of that set)
     PathsForTag / BytePathsForTag(doc, k)            = NewMapXml ; PathsForKey(m, k)
     PathForTagShortest / BytePathForTagShortest      = NewMapXml ; PathForKeyShortest(m, k)
     ValuesFromKeyPath(m, p, getAttrs...)  RE-IMPLEMENTED  = Map(m).ValuesForPath(p), attribute entries ('-' first)
                                          skipped at "*" unless getAttrs; no [i] notation  (empty-key panic repaired 3b36840)
     ValuesFromTagPath(doc, p, getAttrs...)           = NewMapXml ; ValuesFromKeyPath
     ReaderValuesFromTagPath(rdr, p, getAttrs...)     = NewMapXmlReader ; ValuesFromKeyPath
     ValuesAtKeyPath(m, p, getAttrs...)    RE-IMPLEMENTED  = ValuesFromKeyPath(m, parent(p)) when p's last key is "*" or
                                          occurs in one of those values, else nil (its documented relation)
     ValuesAtTagPath(doc, p, getAttrs...)             = NewMapXml ; ValuesAtKeyPath
     WriteMap, DocValue, MapValue, NewAttributeMap    no core counterpart (own attribute matching / dump format)
*)
From Mxj Require Export Model.X2jWrap Spec.PathSem Spec.KeySearch.

(* ---------- path semantics with the attribute filter of x2j-wrapper ----------
   [eval_filtered ga ks v]: as Spec/PathSem.v [eval], except that a "*" step
   applied to a map leaves out the entries whose key starts with '-' (the
   attribute convention) unless [ga] (getAttrs) is set. *)
Definition attr_key (k : str) : bool :=
  match k with c :: _ => Ascii.eqb c hyphen | [] => false end.
Definition keep_entry (ga : bool) (kv : str * value) : bool := ga || negb (attr_key (fst kv)).
Definition sel_map_f (ga : bool) (k : str) (m : entries) : list value :=
  if str_eqb k star then map snd (filter (keep_entry ga) m)
  else match lookup k m with Some x => [x] | None => [] end.
Definition sel_f (ga : bool) (k : str) (v : value) : list value :=
  match v with
  | VMap m => sel_map_f ga k m
  | VList l => flat_map (fun x => match x with
                                  | VMap m => sel_map_f ga k m
                                  | _ => if str_eqb k star then [x] else []
                                  end) l
  | _ => []
  end.
Fixpoint eval_filtered (ga : bool) (ks : list str) (v : value) : list value :=
  match ks with
  | [] => final v
  | k :: ks' => flat_map (eval_filtered ga ks') (sel_f ga k v)
  end.

(* the nodes reached by a key list, before the final list is expanded *)
Fixpoint reach_f (ga : bool) (ks : list str) (v : value) : list value :=
  match ks with
  | [] => [v]
  | k :: ks' => flat_map (reach_f ga ks') (sel_f ga k v)
  end.

(* ---------- side conditions ---------- *)
(* no map of the tree has a key starting with '-' *)
Fixpoint no_attr_keys (v : value) : bool :=
  match v with
  | VMap m => forallb (fun kv => negb (attr_key (fst kv))) m &&
              forallb (fun kv => no_attr_keys (snd kv)) m
  | VList l => forallb no_attr_keys l
  | _ => true
  end.
Definition no_star (ks : list str) : bool := negb (existsb (fun k => str_eqb k star) ks).

(* the path string splits into exactly the keys the core uses: the core drops
   one trailing empty segment ("a.b." = "a.b"), the wrapper does not *)
Definition no_trailing_dot (path : str) : bool :=
  match last (split1 dot path) [dot] with [] => false | _ => true end.

(* ValuesAtKeyPath, declaratively: the values of the parent path when the last
   key is "*" or is a key of one of them; nothing otherwise *)
Definition values_at_spec (ga : bool) (keys : list str) (m : value) : list value :=
  let key := last keys [] in
  let parents := match keys with _ :: _ :: _ => eval_filtered ga (removelast keys) m | _ => [m] end in
  if str_eqb key star || existsb (xw_map_has key) parents then parents else [].

(* CastNanInf(b) of x2j-wrapper: documented as mxj's switch ("Cast Nan, Inf, -Inf XML values to float64") *)
Definition c_CastNanInf (b : bool) (st : nanst) : nanst := {| core_castNanInf := b |}.

(* ---------- the documented compositions (DESIGN.md Appendix D) over the codec environment ---------- *)
Section Table.
Variable pf : str -> option flt.
Variable fieldSep : str.
Variables attrPrefix textKey : str.
Variable dotn : bool.
Variable NewMapXml : str -> bool -> res value.
Variable NewMapJson : str -> res value.
Variable NewMapXmlReader : str -> bool -> res value * str.
Variable NewMapXmlReaderRaw : str -> res (value * str) * str.
Variable NewMapJsonReader : str -> res value * str.
Variable NewMapJsonReaderRaw : str -> res (value * str) * str.
Variable MapJson : value -> bool -> res str.
Variable MapJsonIndent : value -> str -> str -> bool -> res str.
Variable MapXml : value -> res str.

(* "decode ; f" on a reader: the rest of the stream is whatever the decoder left *)
Definition rd_then {A B} (d : res A * str) (f : A -> res B) : res B * str := (bind (fst d) f, snd d).
Definition leaves (m : value) : list (str * value) := leaf_nodes attrPrefix textKey dotn m false.
Definition NewMapOf (m : value) (pairs : list str) : res value :=
  match new_map pf fieldSep m pairs with (n, Ok _) => Ok (VMap n) | (_, Err e) => Err e | (_, Panic) => Panic end.
Definition UpdatedOf (m : value) (nv : newval) (path : str) (sk : list str) : res value :=
  bind (update_values_for_path pf fieldSep m nv path sk) (fun r => Ok (fst r)).

Definition c_JsonToMap (j : str) := NewMapJson j.
Definition c_MapToJson (m : value) (safe : bool) := MapJson m safe.
Definition c_JsonToXml (j : str) := bind (NewMapJson j) MapXml.
Definition c_JsonReaderToXml (rd : str) :=
  rd_then (NewMapJsonReaderRaw rd) (fun mr => bind (MapXml (fst mr)) (fun x => Ok (snd mr, x))).
Definition c_JsonReaderToXmlWriter (rd : str) := rd_then (NewMapJsonReader rd) MapXml.
Definition c_JsonPathsForKey (j key : str) := bind (NewMapJson j) (fun m => Ok (paths_for_key m key)).
Definition c_JsonPathForKeyShortest (j key : str) := bind (NewMapJson j) (fun m => Ok (shortest (paths_for_key m key))).
Definition c_JsonValuesForKey (j key : str) (sk : list str) :=
  bind (NewMapJson j) (fun m => values_for_key pf fieldSep m key sk).
Definition c_JsonValuesForKeyPath (j path : str) (sk : list str) :=
  bind (NewMapJson j) (fun m => values_for_path pf fieldSep m path sk).
Definition c_JsonUpdateValsForPath (j : str) (nv : newval) (path : str) (sk : list str) :=
  bind (NewMapJson j) (fun m => bind (UpdatedOf m nv path sk) (fun m' => MapJson m' false)).
Definition c_JsonNewJson (j : str) (pairs : list str) :=
  bind (NewMapJson j) (fun m => bind (NewMapOf m pairs) (fun n => MapJson n false)).
Definition c_JsonNewXml (j : str) (pairs : list str) :=
  bind (NewMapJson j) (fun m => bind (NewMapOf m pairs) MapXml).
Definition c_JsonLeafNodes (j : str) := bind (NewMapJson j) (fun m => Ok (leaves m)).
Definition c_JsonLeafValues (j : str) := bind (NewMapJson j) (fun m => Ok (map snd (leaves m))).
Definition c_JsonLeafPath (j : str) := bind (NewMapJson j) (fun m => Ok (map fst (leaves m))).

Definition c_XmlToMap (x : str) := NewMapXml x false.
Definition c_MapToXml (m : value) := MapXml m.
Definition c_XmlToJson (x : str) (safe : bool) := bind (NewMapXml x false) (fun m => MapJson m safe).
Definition c_XmlReaderToJson (rd : str) (safe : bool) :=
  rd_then (NewMapXmlReaderRaw rd) (fun mr => bind (MapJson (fst mr) safe) (fun j => Ok (snd mr, j))).
Definition c_XmlPathsForTag (x tag : str) := bind (NewMapXml x false) (fun m => Ok (paths_for_key m tag)).
Definition c_XmlPathForTagShortest (x tag : str) := bind (NewMapXml x false) (fun m => Ok (shortest (paths_for_key m tag))).
Definition c_XmlValuesForTag (x tag : str) (sk : list str) :=
  bind (NewMapXml x false) (fun m => values_for_key pf fieldSep m tag sk).
Definition c_XmlValuesForPath (x path : str) (sk : list str) :=
  bind (NewMapXml x false) (fun m => values_for_path pf fieldSep m path sk).
Definition c_XmlUpdateValsForPath (x : str) (nv : newval) (path : str) (sk : list str) :=
  bind (NewMapXml x false) (fun m => bind (UpdatedOf m nv path sk) MapXml).
Definition c_XmlNewXml (x : str) (pairs : list str) :=
  bind (NewMapXml x false) (fun m => bind (NewMapOf m pairs) MapXml).
Definition c_XmlNewJson (x : str) (pairs : list str) :=
  bind (NewMapXml x false) (fun m => bind (NewMapOf m pairs) (fun n => MapJson n false)).
Definition c_XmlLeafNodes (x : str) := bind (NewMapXml x false) (fun m => Ok (leaves m)).
Definition c_XmlLeafValues (x : str) := bind (NewMapXml x false) (fun m => Ok (map snd (leaves m))).
Definition c_XmlLeafPath (x : str) := bind (NewMapXml x false) (fun m => Ok (map fst (leaves m))).

Definition c_DocToMap (doc : str) (r : bool) := NewMapXml doc r.
Definition c_DocToJson (doc : str) (r : bool) := bind (NewMapXml doc r) (fun m => MapJson m false).
Definition c_DocToJsonIndent (doc : str) (r : bool) :=
  bind (NewMapXml doc r) (fun m => MapJsonIndent m [] (s "  ") false).
Definition c_ToMap (rd : str) (r : bool) := NewMapXmlReader rd r.
Definition c_ToJson (rd : str) (r : bool) := rd_then (NewMapXmlReader rd r) (fun m => MapJson m true).
Definition c_ToJsonIndent (rd : str) (r : bool) :=
  rd_then (NewMapXmlReader rd r) (fun m => MapJsonIndent m [] (s "  ") true).
Definition c_XmlBufferToJson (rd : str) (r : bool) := rd_then (NewMapXmlReader rd r) (fun m => MapJson m false).
(* the *Tag functions: the CORE walkers on the decoded document *)
Definition c_PathsForTag (doc key : str) := bind (NewMapXml doc false) (fun m => Ok (paths_for_key m key)).
Definition c_PathForTagShortest (doc key : str) :=
  bind (NewMapXml doc false) (fun m => Ok (shortest (paths_for_key m key))).
Definition c_ValuesFromTagPath (doc path : str) (ga : bool) :=
  bind (NewMapXml doc false) (fun m => Ok (eval_filtered ga (split1 dot path) m)).
Definition c_ValuesAtTagPath (doc path : str) (ga : bool) :=
  bind (NewMapXml doc false) (fun m => Ok (values_at_spec ga (split1 dot path) m)).
Definition c_ReaderValuesFromTagPath (rd path : str) (ga : bool) :=
  rd_then (NewMapXmlReader rd false) (fun m => Ok (eval_filtered ga (split1 dot path) m)).
Definition c_ValuesForTag (doc tag : str) :=
  bind (NewMapXml doc false) (fun m => Ok (has_key_walk m tag [])).
End Table.

Section Agree.
Variable pf : str -> option flt.
Variable fieldSep : str.
Variables attrPrefix textKey : str.
Variable dotn : bool.
Variable NewMapXml : str -> bool -> res value.
Variable NewMapJson : str -> res value.
Variable NewMapXmlReader : str -> bool -> res value * str.
Variable NewMapXmlReaderRaw : str -> res (value * str) * str.
Variable NewMapJsonReader : str -> res value * str.
Variable NewMapJsonReaderRaw : str -> res (value * str) * str.
Variable MapJson : value -> bool -> res str.
Variable MapJsonIndent : value -> str -> str -> bool -> res str.
Variable MapXml : value -> res str.
Variable JsonMarshal : value -> res str.                       (* encoding/json Marshal *)
Variable JsonMarshalIndent : value -> str -> str -> res str.

(* ---------- "wrapper body = documented composition", one conjunct per exported function ----------
   (left: the transcribed bodies of Model/X2jWrap.v section Thin, the place of Gen/Wrappers_gen.v) *)
Definition j2x_agrees : Prop :=
  (forall j, j2x_JsonToMap NewMapJson j = c_JsonToMap NewMapJson j) /\
  (forall m f, j2x_MapToJson MapJson m f = c_MapToJson MapJson m f) /\
  (forall j, j2x_JsonToXml NewMapJson MapXml j = c_JsonToXml NewMapJson MapXml j) /\
  (forall j, j2x_JsonToXmlWriter NewMapJson MapXml j = c_JsonToXml NewMapJson MapXml j) /\
  (forall rd, j2x_JsonReaderToXml NewMapJsonReaderRaw MapXml rd = c_JsonReaderToXml NewMapJsonReaderRaw MapXml rd) /\
  (forall rd, j2x_JsonReaderToXmlWriter NewMapJsonReader MapXml rd = c_JsonReaderToXmlWriter NewMapJsonReader MapXml rd) /\
  (forall j k, j2x_JsonPathsForKey NewMapJson j k = c_JsonPathsForKey NewMapJson j k) /\
  (forall j k, j2x_JsonPathForKeyShortest NewMapJson j k = c_JsonPathForKeyShortest NewMapJson j k) /\
  (forall j k sk, j2x_JsonValuesForKey pf fieldSep NewMapJson j k sk = c_JsonValuesForKey pf fieldSep NewMapJson j k sk) /\
  (forall j p sk, j2x_JsonValuesForKeyPath pf fieldSep NewMapJson j p sk = c_JsonValuesForKeyPath pf fieldSep NewMapJson j p sk) /\
  (forall j nv p sk, j2x_JsonUpdateValsForPath pf fieldSep NewMapJson MapJson j nv p sk =
                     c_JsonUpdateValsForPath pf fieldSep NewMapJson MapJson j nv p sk) /\
  (forall j pairs, j2x_JsonNewJson pf fieldSep NewMapJson MapJson j pairs = c_JsonNewJson pf fieldSep NewMapJson MapJson j pairs) /\
  (forall j pairs, j2x_JsonNewXml pf fieldSep NewMapJson MapXml j pairs = c_JsonNewXml pf fieldSep NewMapJson MapXml j pairs) /\
  (forall j, j2x_JsonLeafNodes attrPrefix textKey dotn NewMapJson j = c_JsonLeafNodes attrPrefix textKey dotn NewMapJson j) /\
  (forall j, j2x_JsonLeafValues attrPrefix textKey dotn NewMapJson j = c_JsonLeafValues attrPrefix textKey dotn NewMapJson j) /\
  (forall j, j2x_JsonLeafPath attrPrefix textKey dotn NewMapJson j = c_JsonLeafPath attrPrefix textKey dotn NewMapJson j).

Definition x2j_agrees : Prop :=
  (forall x, x2j_XmlToMap NewMapXml x = c_XmlToMap NewMapXml x) /\
  (forall m, x2j_MapToXml MapXml m = c_MapToXml MapXml m) /\
  (forall x f, x2j_XmlToJson NewMapXml MapJson x f = c_XmlToJson NewMapXml MapJson x f) /\
  (forall x f, x2j_XmlToJsonWriter NewMapXml MapJson x f = c_XmlToJson NewMapXml MapJson x f) /\
  (forall rd f, x2j_XmlReaderToJson NewMapXmlReaderRaw MapJson rd f = c_XmlReaderToJson NewMapXmlReaderRaw MapJson rd f) /\
  (forall x t, x2j_XmlPathsForTag NewMapXml x t = c_XmlPathsForTag NewMapXml x t) /\
  (forall x t, x2j_XmlPathForTagShortest NewMapXml x t = c_XmlPathForTagShortest NewMapXml x t) /\
  (forall rd f, x2j_XmlReaderToJsonWriter NewMapXmlReaderRaw MapJson rd f = c_XmlReaderToJson NewMapXmlReaderRaw MapJson rd f) /\
  (forall x t sk, x2j_XmlValuesForTag pf fieldSep NewMapXml x t sk = c_XmlValuesForTag pf fieldSep NewMapXml x t sk) /\
  (forall x p sk, x2j_XmlValuesForPath pf fieldSep NewMapXml x p sk = c_XmlValuesForPath pf fieldSep NewMapXml x p sk) /\
  (forall x nv p sk, x2j_XmlUpdateValsForPath pf fieldSep NewMapXml MapXml x nv p sk =
                     c_XmlUpdateValsForPath pf fieldSep NewMapXml MapXml x nv p sk) /\
  (forall x pairs, x2j_XmlNewXml pf fieldSep NewMapXml MapXml x pairs = c_XmlNewXml pf fieldSep NewMapXml MapXml x pairs) /\
  (forall x pairs, x2j_XmlNewJson pf fieldSep NewMapXml MapJson x pairs = c_XmlNewJson pf fieldSep NewMapXml MapJson x pairs) /\
  (forall x, x2j_XmlLeafNodes attrPrefix textKey dotn NewMapXml x = c_XmlLeafNodes attrPrefix textKey dotn NewMapXml x) /\
  (forall x, x2j_XmlLeafValues attrPrefix textKey dotn NewMapXml x = c_XmlLeafValues attrPrefix textKey dotn NewMapXml x) /\
  (forall x, x2j_XmlLeafPath attrPrefix textKey dotn NewMapXml x = c_XmlLeafPath attrPrefix textKey dotn NewMapXml x).

Definition x2jw_conv_agrees : Prop :=
  (forall d r, xw_DocToMap NewMapXml d r = c_DocToMap NewMapXml d r) /\
  (forall d r, xw_DocToJson NewMapXml MapJson d r = c_DocToJson NewMapXml MapJson d r) /\
  (forall d r, xw_DocToJsonIndent NewMapXml MapJsonIndent d r = c_DocToJsonIndent NewMapXml MapJsonIndent d r) /\
  (forall rd r, xw_ToMap NewMapXmlReader rd r = c_ToMap NewMapXmlReader rd r) /\
  (forall rd r, xw_XmlBufferToMap NewMapXmlReader rd r = c_ToMap NewMapXmlReader rd r) /\
  (forall rd r, xw_XmlBufferToJson NewMapXmlReader MapJson rd r = c_XmlBufferToJson NewMapXmlReader MapJson rd r) /\
  (* ToJson / ToJsonIndent call encoding/json directly: Map.Json(true) is json.Marshal *)
  ((forall m, MapJson m true = JsonMarshal m) ->
   forall rd r, xw_ToJson NewMapXmlReader JsonMarshal rd r = c_ToJson NewMapXmlReader MapJson rd r) /\
  ((forall m p i, MapJsonIndent m p i true = JsonMarshalIndent m p i) ->
   forall rd r, xw_ToJsonIndent NewMapXmlReader JsonMarshalIndent rd r = c_ToJsonIndent NewMapXmlReader MapJsonIndent rd r).
End Agree.
