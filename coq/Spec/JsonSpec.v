(* C06, the property text as definitions. *)
From Mxj Require Export Model.Json.

(* ------------------------------------------------------------------ the former implementation of the default encoding
   (json.go before /repo b2598e9): json.Marshal, then three bytes.Replace passes over the marshalled bytes.
   Kept as a specification artefact: C06_rewrite_is_nohtml says the repaired code writes the same bytes
   whenever no string contains one of the three six-character texts, C06_former_default_refuted shows what the
   former code did otherwise. *)

Definition pat_lt : str := bsl :: s "u003c".
Definition pat_gt : str := bsl :: s "u003e".
Definition pat_amp : str := bsl :: s "u0026".

(* bytes.Replace(x, old, new, -1), old non-empty: leftmost, non-overlapping *)
Fixpoint replace_all (skip : nat) (old new x : str) : str :=
  match x with
  | [] => []
  | c :: t =>
      match skip with
      | S k => replace_all k old new t
      | O => if prefixb old x then new ++ replace_all (length old - 1) old new t
             else c :: replace_all 0 old new t
      end
  end.
Definition bytes_replace (old new x : str) : str := replace_all 0 old new x.

(* the three passes *)
Definition rewrite (x : str) : str :=
  bytes_replace pat_amp (s "&") (bytes_replace pat_gt (s ">") (bytes_replace pat_lt (s "<") x)).
(* safeEncoding = true leaves the marshalled bytes alone *)
Definition post (safe : bool) (x : str) : str := if safe then x else rewrite x.


(* the string does not contain one of the six-character texts the former default encoding rewrote *)
Definition hazard_free (x : str) : bool :=
  negb (containsb pat_lt x) && negb (containsb pat_gt x) && negb (containsb pat_amp x).

Definition is_html (c : ascii) : bool := ((byte c =? 60) || (byte c =? 62) || (byte c =? 38))%N.
(* no literal <, > or & *)
Definition no_html (x : str) : bool := forallb (fun c => negb (is_html c)) x.

(* the text of a JSON number: digits, sign, point, exponent *)
Definition num_char (c : ascii) : bool :=
  is_digit c || ((byte c =? 43) || (byte c =? 45) || (byte c =? 46) || (byte c =? 101) || (byte c =? 69))%N.
Definition num_text (x : str) : bool := match x with [] => false | _ => forallb num_char x end.

(* Maps of JSON types (float64 or json.Number numbers, as text) whose keys and string values all satisfy P *)
Fixpoint json_shaped (P : str -> bool) (v : value) : bool :=
  match v with
  | VStr x => P x
  | VBool _ | VNil => true
  | VFlt f | VJNum f => num_text f
  | VInt _ | VI64 _ | VU64 _ => false
  | VMap m => (fix go (m : entries) : bool :=
                 match m with [] => true | (k, x) :: t => P k && json_shaped P x && go t end) m
  | VList l => (fix go (l : list value) : bool :=
                  match l with [] => true | x :: t => json_shaped P x && go t end) l
  end.

(* what the property demands of NewMapJson, given what encoding/json decodes as the first value of b
   (decv b; Err = no value / syntax error): the object itself, an array wrapped under "object", otherwise an error *)
Definition accept_spec (decv : str -> res value) (b : str) : res value :=
  match decv b with
  | Ok (VMap m) => Ok (VMap m)
  | Ok (VList l) => Ok (VMap [(s "object", VList l)])
  | Ok _ => Err EOther
  | Err e => Err e
  | Panic => Panic
  end.
Definition res_class (r : res value) : res value := match r with Err _ => Err EOther | _ => r end.

(* the literals of a segment list, and the keys / string values of a value in the order json.Marshal writes them *)
Definition lits (l : list seg) : list str := flat_map (fun g => match g with SQ b => [b] | SP _ => [] end) l.
Fixpoint strs (v : value) : list str :=
  match v with
  | VStr x => [x]
  | VMap m => flat_map (fun kx => fst kx :: snd kx)
                (jsort ((fix go (m : entries) : list (str * list str) :=
                           match m with [] => [] | (k, x) :: t => (k, strs x) :: go t end) m))
  | VList l => (fix go (l : list value) : list str := match l with [] => [] | x :: t => strs x ++ go t end) l
  | _ => []
  end.

