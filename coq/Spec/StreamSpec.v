(* C13, the property text as definitions: what a transparent reader adaptor delivers, what a
   stream of documents is, what "decoding each document's bytes directly" means, and the
   expected sequence of results. *)
From Mxj Require Export Model.Json Model.Reader.

(* a transparent adaptor over a reader that delivers X: the bytes of X in order, then io.EOF forever *)
Definition transparent (X : str) (n : nat) : list rbres := firstn n (map RBByte X ++ repeat (RBErr RBEof) n).

(* the schedule never has 100 (0, nil) reads in a row: byteReader / teeReader give up with io.ErrNoProgress
   after 100 consecutive empty reads (as bufio.Reader does) *)
Fixpoint zb_aux (lim cur : nat) (sc : list rev) : bool :=
  match sc with
  | [] => true
  | Zero :: t => Nat.ltb (S cur) lim && zb_aux lim (S cur) t
  | _ :: t => zb_aux lim 0 t
  end.
Definition zero_bounded (sc : list rev) : bool := zb_aux 100 0 sc.

Definition is_blank (c : ascii) : bool :=
  let n := N_of_ascii c in ((n =? 32) || (n =? 9) || (n =? 10) || (n =? 13))%N.
Definition blank (x : str) : bool := forallb is_blank x.

(* a stream: every document preceded by arbitrary blanks, blanks after the last one *)
Fixpoint stream (ds : list (str * str)) (tail : str) : str :=
  match ds with
  | [] => tail
  | (w, d) :: t => w ++ d ++ stream t tail
  end.

(* decoding a document's bytes directly: the decoder over a bytes.Reader holding d alone *)
Definition decode_doc (M : xmachine) (d : str) : res value := fst (direct M (m_init M) d).

Definition is_ok {A} (r : res A) : bool := match r with Ok _ => true | _ => false end.
(* a Map and a nil error *)
Definition is_okmap (r : res value) : bool := match r with Ok (VMap _) => true | _ => false end.

(* Assumptions on the environment (encoding/xml + the parser), validated by the harness on every run:
   - an error from ReadByte ends the call with an error;
   - on blanks ++ document ++ anything the decoder returns what it returns on the document alone, having
     read exactly up to the end of the document (the root element's closing '>');
   - on blanks alone it returns io.EOF. *)
Definition eof_is_error (M : xmachine) : Prop := forall st, is_ok (m_eof M st) = false /\ is_ok (m_noprog M st) = false.
Definition stops_at (M : xmachine) (d : str) : Prop :=
  forall w rest, blank w = true ->
    direct M (m_init M) (w ++ d ++ rest) = (decode_doc M d, length w + length d).
Definition eof_on_blanks (M : xmachine) : Prop :=
  forall w, blank w = true -> direct M (m_init M) w = (Err EEOF, length w).

(* the property: the documents decoded directly, in order, then io.EOF; each Raw value is the bytes
   consumed by that call (the blanks before the document and the document) *)
Definition expected_raw (M : xmachine) (ds : list (str * str)) (tail : str) : list (res value * str) :=
  map (fun wd => (decode_doc M (snd wd), fst wd ++ snd wd)) ds ++ [(Err EEOF, tail)].
Definition expected (M : xmachine) (ds : list (str * str)) : list (res value * unit) :=
  map (fun wd => (decode_doc M (snd wd), tt)) ds ++ [(Err EEOF, tt)].

(* JSON: what a scanner that "returns the bytes consumed" minus the blanks outside string literals keeps
   of a text given as segments (Model/Json.v): literals untouched, blanks outside them dropped *)
Definition squeeze_seg (g : seg) : str :=
  match g with
  | SP x => filter (fun c => negb (is_blank c)) x
  | SQ b => dq :: b ++ [dq]
  end.
Definition squeeze_segs (l : list seg) : str := flat_map squeeze_seg l.
