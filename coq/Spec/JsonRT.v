(* C06, the structural JSON round trip: definitions only (proofs in Proofs/C06Struct.v, Proofs/C06StructCopy.v).

   What encoding/json's decoder (Model/Json.v decode_segs) makes of what Map.Json wrote (segments) is the
   value itself up to two things that the encoding does not carry:
     - the order of the entries of a map: the encoder writes the keys sorted (jsort), the decoder fills a fresh
       map in the order it reads them - the entry list of the result is the sorted one;
     - the Go type of a number: the decoder returns float64 (JsonUseNumber = false) or json.Number (true),
       whichever of the two the Map held.  Numbers are carried as text in this development. *)
From Mxj Require Export Spec.JsonSpec Spec.Veq.

(* a number as the decoder returns it *)
Definition num_as (usenum : bool) (f : str) : value := if usenum then VJNum f else VFlt f.

(* the value the round trip returns: every map sorted by key, every number in the decoder's type *)
Fixpoint jcanon (usenum : bool) (v : value) : value :=
  match v with
  | VFlt f | VJNum f => num_as usenum f
  | VMap m => VMap (jsort ((fix go (m : entries) : entries :=
                              match m with [] => [] | (k, x) :: t => (k, jcanon usenum x) :: go t end) m))
  | VList l => VList ((fix go (l : list value) : list value :=
                         match l with [] => [] | x :: t => jcanon usenum x :: go t end) l)
  | _ => v
  end.

(* every number text begins with a digit or a minus sign - what encoding/json prints for a float64 and what it
   accepts as a json.Number (a leading '+' or '.' is rejected by Marshal and by the scanner) *)
Fixpoint nums_start (v : value) : bool :=
  match v with
  | VFlt f | VJNum f => num_start f
  | VMap m => (fix go (m : entries) : bool := match m with [] => true | (_, x) :: t => nums_start x && go t end) m
  | VList l => (fix go (l : list value) : bool := match l with [] => true | x :: t => nums_start x && go t end) l
  | _ => true
  end.

(* every number has the Go type the decoder returns in this mode (float64 without UseNumber, json.Number with it) *)
Fixpoint nums_mode (usenum : bool) (v : value) : bool :=
  match v with
  | VFlt _ => negb usenum
  | VJNum _ => usenum
  | VMap m => (fix go (m : entries) : bool := match m with [] => true | (_, x) :: t => nums_mode usenum x && go t end) m
  | VList l => (fix go (l : list value) : bool := match l with [] => true | x :: t => nums_mode usenum x && go t end) l
  | _ => true
  end.

(* nesting depth: the fuel the decoder needs *)
Fixpoint vdepth (v : value) : nat :=
  match v with
  | VMap m => S ((fix go (m : entries) : nat := match m with [] => 0 | (_, x) :: t => Nat.max (vdepth x) (go t) end) m)
  | VList l => S ((fix go (l : list value) : nat := match l with [] => 0 | x :: t => Nat.max (vdepth x) (go t) end) l)
  | _ => 1
  end.

Definition opt_res (o : option value) : res value := match o with Some v => Ok v | None => Err EOther end.

(* prefix / indent of JsonIndent made of JSON whitespace only (json.Indent copies them verbatim into the text) *)
Definition ws_str (x : str) : bool := forallb is_ws_char x.
