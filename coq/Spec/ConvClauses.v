(* Vocabulary for the per-clause lemmas about [conv] (C01, part 2) and for the error side
   of the decoder (C01 part 3, C15): readable, first-order descriptions of "the child
   elements of an element", "the values of the children with key k, in document order",
   "a token list in which the root element is complete". *)
From Mxj Require Export Spec.Dom01.

Section Clauses.
Variable o : opts.

(* the child elements, in document order *)
Fixpoint child_elems (kids : list node) : list elem :=
  match kids with
  | [] => []
  | NElem c :: t => c :: child_elems t
  | _ :: t => child_elems t
  end.

(* the value of an attribute as the decoder sees it *)
Definition attr_val (a : xattr) : str :=
  if xmlEscapeCharsDecoder o then escape_chars (avalue a) else avalue a.

(* the values [f c] of the child elements whose key is k, in document order; the i-th child
   element (counting ALL child elements from [i]) is passed through [wrap_seq o i] *)
Fixpoint child_vals (f : elem -> value) (k : str) (cs : list elem) (i : Z) : list value :=
  match cs with
  | [] => []
  | c :: t =>
      if str_eqb (ekey o c) k
      then wrap_seq o i (f c) :: child_vals f k t (i + 1)%Z
      else child_vals f k t (i + 1)%Z
  end.

(* one value stays as it is, several become one list *)
Definition one_or_list (vs : list value) : value :=
  match vs with [v] => v | _ => VList vs end.

(* every leaf is a string *)
Fixpoint only_str (v : value) : bool :=
  match v with
  | VStr _ => true
  | VMap m => (fix go (m : entries) : bool := match m with [] => true | (_, x) :: t => only_str x && go t end) m
  | VList l => (fix go (l : list value) : bool := match l with [] => true | x :: t => only_str x && go t end) l
  | _ => false
  end.

(* ---- token lists (error side) ---- *)
(* every start tag has a local name (encoding/xml never returns an empty one) *)
Definition start_ok (t : tok) : bool :=
  match t with TStart n _ => negb (is_nil (xlocal n)) | _ => true end.
(* no end tag before the first start tag (encoding/xml reports a stray end tag as a syntax error) *)
Fixpoint top_ok (ts : list tok) : bool :=
  match ts with
  | [] => true
  | TStart _ _ :: _ => true
  | TEnd _ :: _ => false
  | _ :: t => top_ok t
  end.

(* a start tag the decoder returns at once, without reading its content (HandleXMPPStreamTag) *)
Definition is_stream (n : xname) : bool :=
  handleXMPPStreamTag o && str_eqb (xform_key o (xlocal n)) (s "stream").

(* with d+1 elements open, does the token list close the innermost d+1 of them? *)
Fixpoint closes (d : nat) (ts : list tok) : bool :=
  match ts with
  | [] => false
  | TStart n _ :: t => if is_stream n then closes d t else closes (S d) t
  | TEnd _ :: t => match d with O => true | S d' => closes d' t end
  | _ :: t => closes d t
  end.

(* the token list contains a complete root element *)
Fixpoint doc_complete (ts : list tok) : bool :=
  match ts with
  | [] => false
  | TStart n _ :: t => if is_stream n then true else closes O t
  | TEnd _ :: _ => false
  | _ :: t => doc_complete t
  end.
End Clauses.

Definition err_of (tm : term) : err := match tm with TermEOF => EEOF | TermErr => EOther end.
