(* Specification side of C04: abstract documents with comments, directives and processing
   instructions, the RawToken stream of a document, the RawToken stream of an item list,
   whitespace insertion (the indented encoders) and the normalisation under which the
   property compares streams.  Short declarative definitions; NO proofs in this file. *)
From Mxj Require Export Model.SeqEnc.

(* ---------------- tokens at the level the property compares them ----------------
   RawToken does not translate prefixes; a name is compared as the string "prefix:local"
   (or "local"), i.e. as it is written in the document. *)
Inductive rtok :=
| RStart (n : str) (a : list (str * str))
| REnd (n : str)
| RChar (x : str)
| RComment (x : str)
| RProcInst (t i : str)
| RDirective (x : str).

Definition rt_of_tok (t : tok) : rtok :=
  match t with
  | TStart n a => RStart (xfull n) (map (fun at_ => (xfull (aname at_), avalue at_)) a)
  | TEnd n => REnd (xfull n)
  | TChar x => RChar x
  | TComment x => RComment x
  | TProcInst t i => RProcInst t i
  | TDirective x => RDirective x
  end.

(* ---------------- abstract documents ----------------
   An element has a name, attributes in document order, an optional text run (empty = none)
   that precedes its children, and children: elements, comments, directives, PIs. *)
Inductive node :=
| NElem (nm : xname) (attrs : list xattr) (text : str) (kids : list node)
| NComment (x : str)
| NDirective (x : str)
| NProcInst (t i : str).

Fixpoint rawtoks_of (d : node) : list tok :=
  match d with
  | NElem nm a text kids =>
      TStart nm a :: (match text with [] => [] | _ => [TChar text] end)
                  ++ flat_map rawtoks_of kids ++ [TEnd nm]
  | NComment x => [TComment x]
  | NDirective x => [TDirective x]
  | NProcInst t i => [TProcInst t i]
  end.

(* ---------------- what the tokenizer returns on emitted items ---------------- *)

(* the five predefined entities (all the encoder ever writes); any other '&' is kept *)
Definition entity_table : list (str * ascii) :=
  [(s "&amp;", "&"%char); (s "&lt;", "<"%char); (s "&gt;", ">"%char);
   (s "&quot;", """"%char); (s "&apos;", "'"%char)].
Fixpoint ent_at (tbl : list (str * ascii)) (x : str) : option (ascii * nat) :=
  match tbl with
  | [] => None
  | (name, c) :: t => if prefixb name x then Some (c, length name - 1) else ent_at t x
  end.
Fixpoint unesc (x : str) (skip : nat) : str :=
  match x with
  | [] => []
  | c :: t =>
      match skip with
      | S k => unesc t k
      | O => match ent_at entity_table x with
             | Some (d, k) => d :: unesc t k
             | None => c :: unesc t 0
             end
      end
  end.
Definition unescape (x : str) : str := unesc x 0.

Definition rt_attrs (a : list (str * str)) : list (str * str) :=
  map (fun kv => (fst kv, unescape (snd kv))) a.

(* Meaningful for item lists without [SRaw].  Adjacent character data is NOT merged here although
   the tokenizer returns one CharData for it: under [normalize] (trim, drop blank runs) the two
   readings coincide whenever at most one of the adjacent runs is non-blank, which is the only
   adjacency the encoders produce (text followed by indentation); lemma text_then_ws_merges states
   it, and the correspondence run compares [normalize] of the real RawToken stream of every indented
   / beautified output with [normalize] of this function. *)
Definition rt1 (i : sitem) : list rtok :=
  match i with
  | SI (IOpen n a) => [RStart n (rt_attrs a)]
  | SI (IClose n) => [REnd n]
  | SI (IEmpty n a) => [RStart n (rt_attrs a); REnd n]
  | SI (IText x) => match x with [] => [] | _ => [RChar (unescape x)] end
  | SComment x => [RComment x]
  | SDirective x => [RDirective x]
  | SProcInst t i => [RProcInst t i]
  | SRaw x => [RChar x]
  end.
Definition rawtoks_of_items (its : list sitem) : list rtok := flat_map rt1 its.

Definition is_text_item (i : sitem) : bool :=
  match i with SI (IText _) => true | _ => false end.
Fixpoint no_adj_text (its : list sitem) : bool :=
  match its with
  | i :: ((j :: _) as t) => negb (is_text_item i && is_text_item j) && no_adj_text t
  | _ => true
  end.

(* ---------------- indentation = whitespace at element boundaries ---------------- *)
Inductive wsc := WSpace | WTab | WNl.
Definition ws_char (c : wsc) : ascii :=
  match c with WSpace => " "%char | WTab => ascii_of_nat 9 | WNl => ascii_of_nat 10 end.
Definition ws_str (w : list wsc) : str := map ws_char w.
Definition ws_text (w : list wsc) : list sitem :=
  match w with [] => [] | _ => [SI (IText (ws_str w))] end.

(* one whitespace run (possibly empty) from [ws] at every boundary between two items, before the
   first and after the last, except in front of character data (text directly follows the ">" of its
   start tag; the indented encoder does write a line break and padding AFTER a text run that
   precedes child elements) *)
Fixpoint insert_ws_from (ws : list (list wsc)) (its : list sitem) : list sitem :=
  match its with
  | [] => match ws with w :: _ => ws_text w | [] => [] end
  | i :: t =>
      let w := match ws with w :: _ => w | [] => [] end in
      let ws' := match ws with _ :: ws' => ws' | [] => [] end in
      (if is_text_item i then [] else ws_text w) ++ i :: insert_ws_from ws' t
  end.
Definition insert_ws (ws : list (list wsc)) (its : list sitem) : list sitem := insert_ws_from ws its.

(* ---------------- normalisation ---------------- *)
Definition xml_ws : str := [" "%char; ascii_of_nat 9; ascii_of_nat 10; ascii_of_nat 13].
Definition norm1 (t : rtok) : list rtok :=
  match t with
  | RChar x => match trim xml_ws x with [] => [] | y => [RChar y] end
  | _ => [t]
  end.
(* drop whitespace-only text, trim text *)
Definition normalize (ts : list rtok) : list rtok := flat_map norm1 ts.

(* only whitespace-only text dropped (what the correspondence compares for indented output) *)
Definition drop_ws (ts : list rtok) : list rtok :=
  filter (fun t => match t with RChar x => nonempty (trim xml_ws x) | _ => true end) ts.

(* ---------------- the domain of the property ---------------- *)
Section Dom.
Variable o : opts.

Definition reserved_keys : list str :=
  [textK o; seqK o; attrK o; commentK o; directiveK o; procinstK o].
Definition name_ok (n : xname) : bool :=
  nonempty (xfull n) && negb (existsb (str_eqb (xfull n)) reserved_keys).

Definition specials : str := s "&<>""'".
(* values: anything when the encoder escapes, else free of the five special characters *)
Definition value_ok (v : str) : bool :=
  xmlEscapeChars o || negb (existsb (fun c => mem_ascii c specials) v).
(* text: additionally no backspace (the decoder trims it as "noise", XML does not allow it) *)
Definition text_ok (x : str) : bool :=
  value_ok x && negb (mem_ascii (ascii_of_nat 8) x).

Definition attrs_ok (a : list xattr) : bool :=
  nodup_keys (map (fun at_ => xfull (aname at_)) a) && forallb (fun at_ => value_ok (avalue at_)) a.

Definition is_comment (d : node) := match d with NComment _ => true | _ => false end.
Definition is_directive (d : node) := match d with NDirective _ => true | _ => false end.
Definition is_procinst (d : node) := match d with NProcInst _ _ => true | _ => false end.
Definition at_most_one (p : node -> bool) (l : list node) : bool := length (filter p l) <=? 1.

Fixpoint node_ok (d : node) : bool :=
  match d with
  | NElem nm a text kids =>
      name_ok nm && attrs_ok a && text_ok text
      && at_most_one is_comment kids && at_most_one is_directive kids && at_most_one is_procinst kids
      && forallb node_ok kids
  | _ => true
  end.

Definition is_elem (d : node) : bool := match d with NElem _ _ _ _ => true | _ => false end.

(* the quantifier of C04: one root element; <= 1 comment, directive, PI per element; text alone or
   before the child elements (built into [node]); values as in C02 *)
Definition dom04 (d : node) : bool := is_elem d && node_ok d.
End Dom.

(* the option states the property is about: a fresh process, with or without XMLEscapeChars(true) *)
Definition seq_o (esc : bool) : opts := {|
  attrPrefix := attrPrefix opts0; lenAttrPrefix := lenAttrPrefix opts0;
  includeTagSeqNum := includeTagSeqNum opts0; lowerCase := lowerCase opts0; snakeCaseKeys := snakeCaseKeys opts0;
  disableTrimWhiteSpace := disableTrimWhiteSpace opts0; trimRunes := trimRunes opts0;
  decodeSimpleValuesAsMap := decodeSimpleValuesAsMap opts0;
  castToInt := castToInt opts0; castToFloat := castToFloat opts0; castToBool := castToBool opts0; castNanInf := castNanInf opts0;
  handleXMPPStreamTag := handleXMPPStreamTag opts0; useGoXmlEmptyElemSyntax := useGoXmlEmptyElemSyntax opts0;
  xmlCheckIsValid := xmlCheckIsValid opts0;
  xmlEscapeChars := esc; xmlEscapeCharsDecoder := xmlEscapeCharsDecoder opts0;
  textK := textK opts0; seqK := seqK opts0; commentK := commentK opts0; attrK := attrK opts0;
  directiveK := directiveK opts0; procinstK := procinstK opts0; targetK := targetK opts0; instK := instK opts0;
  fieldSep := fieldSep opts0; useDotNotation := useDotNotation opts0; defaultArraySize := defaultArraySize opts0;
  jsonUseNumber := jsonUseNumber opts0
|}.
