(* Ownership model for the whole of NewMap (C12, "the receiver is never modified, whatever
   the pairs").  Spec/Ownership.v re-states addNewVal on owner-tagged trees and logs every
   write; here the loop over the key pairs (newmap.go:38-93) is re-stated around it, line by
   line as in Model/TreeOps.v [new_map_pair] / [new_map_pairs]:

   - the values ValuesForPath returns are subtrees of the receiver: [TSrc];
   - when there are several, newVal is the slice ValuesForPath allocated: a [TList] NewMap
     owns, whose members are receiver-owned;
   - n is the map NewMap allocated: [TMap].

   [ins] is the insertion used: [add_new_val_t] (the code after the fix, containers are copied
   before they are written) or [add_new_val_t_nocopy] (the pinned code).  NO proofs here. *)
From Mxj Require Export Spec.Ownership.

Definition tag_vals (vs : list value) : tval :=
  match vs with [x] => TSrc x | _ => TList (map TSrc vs) end.

Section NewMapT.
Variable pf : str -> option flt.
Variable fieldSep : str.
Variable ins : list str -> tval -> tentries -> tentries * list write_event.

Definition new_map_pair_t (mv : value) (n : tentries) (v : str) : res (tentries * list write_event) :=
  match v with
  | [] => Ok (n, [])
  | _ =>
    let vv := split1 colon v in
    match vv with
    | _ :: _ :: _ :: _ => Err EOther
    | _ =>
      let oldKey := hd [] vv in
      let newKey := match vv with [_; b] => b | _ => oldKey end in
      if mem_ascii "*"%char newKey then Err EOther
      else if mem_ascii lbr newKey then Err EOther
      else match oldKey, newKey with
           | [], _ | _, [] => Err EOther
           | _, _ =>
             bind (values_for_path pf fieldSep mv oldKey []) (fun oldVal =>
               match oldVal with
               | [] => Ok (n, [])
               | _ =>
                 let path := split1 dot newKey in
                 let path := match last path [dot] with [] => removelast path | _ => path end in
                 Ok (ins path (tag_vals oldVal) n)
               end)
           end
    end
  end.

(* the Map built so far, the log of all writes so far, and the error class *)
Fixpoint new_map_pairs_t (mv : value) (n : tentries) (log : list write_event) (pairs : list str)
  : tentries * list write_event * res unit :=
  match pairs with
  | [] => (n, log, Ok tt)
  | v :: t => match new_map_pair_t mv n v with
              | Ok (n', l) => new_map_pairs_t mv n' (log ++ l) t
              | Err e => (n, log, Err e)
              | Panic => (n, log, Panic)
              end
  end.
Definition new_map_t (mv : value) (pairs : list str) : tentries * list write_event * res unit :=
  new_map_pairs_t mv [] [] pairs.
End NewMapT.

Definition nm_map (r : tentries * list write_event * res unit) : tentries := fst (fst r).
Definition nm_log (r : tentries * list write_event * res unit) : list write_event := snd (fst r).
Definition nm_status (r : tentries * list write_event * res unit) : res unit := snd r.
