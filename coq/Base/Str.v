(* Strings as byte lists, and the Go string functions mxj uses, transcribed.
   No proofs here (see Proofs/StrLemmas.v). *)
From Coq Require Export String.
From Coq Require Export List Ascii ZArith Bool Arith Lia.
Export ListNotations.
Open Scope list_scope.

Definition str := list ascii.
Definition s (x : string) : str := list_ascii_of_string x.

(* hex literal -> bytes; used by the harness for non-printable strings *)
Definition hexv (c : ascii) : N :=
  let n := N_of_ascii c in
  if (48 <=? n)%N && (n <=? 57)%N then n - 48
  else if (97 <=? n)%N && (n <=? 102)%N then n - 87
  else if (65 <=? n)%N && (n <=? 70)%N then n - 55 else 0.
Fixpoint hx_list (l : list ascii) : str :=
  match l with
  | a :: b :: t => ascii_of_N (hexv a * 16 + hexv b) :: hx_list t
  | _ => []
  end.
Definition hx (x : string) : str := hx_list (list_ascii_of_string x).

Fixpoint str_eqb (a b : str) : bool :=
  match a, b with
  | [], [] => true
  | x :: a', y :: b' => Ascii.eqb x y && str_eqb a' b'
  | _, _ => false
  end.

(* bytewise lexicographic order, Go's string <= *)
Fixpoint str_leb (a b : str) : bool :=
  match a, b with
  | [], _ => true
  | _ :: _, [] => false
  | x :: a', y :: b' =>
      let nx := N_of_ascii x in let ny := N_of_ascii y in
      if (nx <? ny)%N then true else if (ny <? nx)%N then false else str_leb a' b'
  end.

Fixpoint prefixb (p x : str) : bool :=
  match p, x with
  | [], _ => true
  | a :: p', b :: x' => Ascii.eqb a b && prefixb p' x'
  | _ :: _, [] => false
  end.

(* strings.Index(x, p) >= 0 *)
Fixpoint containsb (p x : str) : bool :=
  prefixb p x || match x with [] => false | _ :: x' => containsb p x' end.

Definition mem_ascii (c : ascii) (l : str) : bool := existsb (Ascii.eqb c) l.

(* strings.Split(x, sep) for a non-empty separator *)
Fixpoint split_aux (sep x : str) (skip : nat) (cur : str) : list str :=
  match x with
  | [] => [rev cur]
  | c :: x' =>
      match skip with
      | S k => split_aux sep x' k cur
      | O => if prefixb sep x
             then rev cur :: split_aux sep x' (length sep - 1) []
             else split_aux sep x' 0 (c :: cur)
      end
  end.
Definition split (sep x : str) : list str := split_aux sep x 0 [].

(* single-byte separator version, used for "." "[" "]" ":" *)
Fixpoint split1_aux (c : ascii) (x : str) (cur : str) : list str :=
  match x with
  | [] => [rev cur]
  | a :: x' => if Ascii.eqb a c then rev cur :: split1_aux c x' [] else split1_aux c x' (a :: cur)
  end.
Definition split1 (c : ascii) (x : str) : list str := split1_aux c x [].

Fixpoint join (sep : str) (l : list str) : str :=
  match l with
  | [] => []
  | [x] => x
  | x :: t => x ++ sep ++ join sep t
  end.

Definition dot : ascii := "."%char.
Definition sdot : str := [dot].
Definition star : str := ["*"%char].

Definition lower1 (c : ascii) : ascii :=
  let n := N_of_ascii c in if (65 <=? n)%N && (n <=? 90)%N then ascii_of_N (n + 32) else c.
Definition to_lower (x : str) : str := map lower1 x.

Definition replace_char (a b : ascii) (x : str) : str :=
  map (fun c => if Ascii.eqb c a then b else c) x.

(* strings.Trim(x, cutset) with an ASCII cutset *)
Fixpoint trim_left (cut x : str) : str :=
  match x with
  | [] => []
  | c :: x' => if mem_ascii c cut then trim_left cut x' else x
  end.
Definition trim_right (cut x : str) : str := rev (trim_left cut (rev x)).
Definition trim (cut x : str) : str := trim_right cut (trim_left cut x).

(* removelast / last for non-empty lists, Go's keys[:len-1], keys[len-1] *)
Definition last_str (l : list str) : str := last l [].

(* decimal rendering of a natural number, strconv.Itoa for n >= 0 *)
Definition digit_char (n : nat) : ascii := ascii_of_nat (48 + n).
Fixpoint itoa_aux (fuel n : nat) (acc : str) : str :=
  match fuel with
  | O => acc
  | S f => let acc' := digit_char (n mod 10) :: acc in
           if n <? 10 then acc' else itoa_aux f (n / 10) acc'
  end.
Definition itoa (n : nat) : str := itoa_aux (S n) n [].

(* decimal digits -> Z ; strconv.ParseInt(x, 10, bits) / ParseUint *)
Definition is_digit (c : ascii) : bool :=
  let n := N_of_ascii c in (48 <=? n)%N && (n <=? 57)%N.
Fixpoint digits_val (x : str) (acc : Z) : Z :=
  match x with
  | [] => acc
  | c :: x' => digits_val x' (acc * 10 + Z.of_N (N_of_ascii c - 48))
  end.
Definition all_digits (x : str) : bool :=
  match x with [] => false | _ => forallb is_digit x end.
(* unsigned magnitude, None on syntax error; the caller range-checks *)
Definition parse_udec (x : str) : option Z :=
  if all_digits x then Some (digits_val x 0) else None.
Definition parse_int (bits : Z) (x : str) : option Z :=
  let lim := (2 ^ (bits - 1))%Z in
  match x with
  | "+"%char :: t => match parse_udec t with Some z => if (z <? lim)%Z then Some z else None | None => None end
  | "-"%char :: t => match parse_udec t with Some z => if (z <=? lim)%Z then Some (- z)%Z else None | None => None end
  | _ => match parse_udec x with Some z => if (z <? lim)%Z then Some z else None | None => None end
  end.
Definition parse_uint (bits : Z) (x : str) : option Z :=
  match parse_udec x with Some z => if (z <? 2 ^ bits)%Z then Some z else None | None => None end.

(* strconv.ParseBool *)
Definition parse_bool (x : str) : option bool :=
  if existsb (str_eqb x) [s "1"; s "t"; s "T"; s "TRUE"; s "true"; s "True"] then Some true
  else if existsb (str_eqb x) [s "0"; s "f"; s "F"; s "FALSE"; s "false"; s "False"] then Some false
  else None.
