(* The value tree every mxj Map is made of, the result monad, and helpers.
   A Go map is an association list; the list order stands for the (arbitrary)
   hash-iteration order of the run. *)
From Mxj Require Export Base.Str.

Definition flt := str.   (* a float64 is carried as the text Go prints with %v *)

Inductive value :=
| VStr (x : str) | VBool (b : bool) | VNil
| VInt (z : Z)                 (* Go int *)
| VI64 (z : Z) | VU64 (z : Z)  (* int64 / uint64 *)
| VFlt (f : flt)
| VJNum (x : str)              (* json.Number *)
| VMap (m : list (str * value))
| VList (l : list value).

Definition entries := list (str * value).

Inductive err := EEOF | ENoRoot | EOther.
Inductive res (A : Type) := Ok (a : A) | Err (e : err) | Panic.
Arguments Ok {A}. Arguments Err {A}. Arguments Panic {A}.

Definition bind {A B} (r : res A) (f : A -> res B) : res B :=
  match r with Ok a => f a | Err e => Err e | Panic => Panic end.

Definition err_eqb (a b : err) : bool :=
  match a, b with EEOF, EEOF | ENoRoot, ENoRoot | EOther, EOther => true | _, _ => false end.

(* ---- nested induction principle ---- *)
Section value_ind2.
  Variable P : value -> Prop.
  Hypothesis HStr : forall x, P (VStr x).
  Hypothesis HBool : forall b, P (VBool b).
  Hypothesis HNil : P VNil.
  Hypothesis HInt : forall z, P (VInt z).
  Hypothesis HI64 : forall z, P (VI64 z).
  Hypothesis HU64 : forall z, P (VU64 z).
  Hypothesis HFlt : forall f, P (VFlt f).
  Hypothesis HJNum : forall x, P (VJNum x).
  Hypothesis HMap : forall m, Forall (fun kv => P (snd kv)) m -> P (VMap m).
  Hypothesis HList : forall l, Forall P l -> P (VList l).
  Fixpoint value_ind2 (v : value) : P v :=
    match v with
    | VStr x => HStr x | VBool b => HBool b | VNil => HNil
    | VInt z => HInt z | VI64 z => HI64 z | VU64 z => HU64 z
    | VFlt f => HFlt f | VJNum x => HJNum x
    | VMap m => HMap m ((fix go (m : entries) : Forall (fun kv => P (snd kv)) m :=
                           match m with
                           | [] => Forall_nil _
                           | kv :: t => Forall_cons kv (value_ind2 (snd kv)) (go t)
                           end) m)
    | VList l => HList l ((fix go (l : list value) : Forall P l :=
                             match l with
                             | [] => Forall_nil _
                             | x :: t => Forall_cons x (value_ind2 x) (go t)
                             end) l)
    end.
End value_ind2.

(* ---- map primitives (Go: m[k], m[k] = v, delete(m, k)) ---- *)
Fixpoint lookup (k : str) (m : entries) : option value :=
  match m with [] => None | (k', v) :: t => if str_eqb k k' then Some v else lookup k t end.
Fixpoint set (k : str) (v : value) (m : entries) : entries :=
  match m with
  | [] => [(k, v)]
  | (k', v') :: t => if str_eqb k k' then (k', v) :: t else (k', v') :: set k v t
  end.
Fixpoint del (k : str) (m : entries) : entries :=
  match m with
  | [] => []
  | (k', v') :: t => if str_eqb k k' then t else (k', v') :: del k t
  end.
Definition has_key (k : str) (m : entries) : bool :=
  match lookup k m with Some _ => true | None => false end.
Definition keys (m : entries) : list str := map fst m.

Definition is_map (v : value) : bool := match v with VMap _ => true | _ => false end.
Definition is_list (v : value) : bool := match v with VList _ => true | _ => false end.
Definition is_scalar (v : value) : bool := match v with VMap _ | VList _ => false | _ => true end.

(* ---- equality ---- *)
(* exact (ordered) equality *)
Fixpoint value_eqb (a b : value) : bool :=
  match a, b with
  | VStr x, VStr y => str_eqb x y
  | VBool x, VBool y => Bool.eqb x y
  | VNil, VNil => true
  | VInt x, VInt y | VI64 x, VI64 y | VU64 x, VU64 y => Z.eqb x y
  | VFlt x, VFlt y | VJNum x, VJNum y => str_eqb x y
  | VMap m1, VMap m2 =>
      (fix go (m1 m2 : entries) : bool :=
         match m1, m2 with
         | [], [] => true
         | (k1, v1) :: t1, (k2, v2) :: t2 => str_eqb k1 k2 && value_eqb v1 v2 && go t1 t2
         | _, _ => false
         end) m1 m2
  | VList l1, VList l2 =>
      (fix go (l1 l2 : list value) : bool :=
         match l1, l2 with
         | [], [] => true
         | v1 :: t1, v2 :: t2 => value_eqb v1 v2 && go t1 t2
         | _, _ => false
         end) l1 l2
  | _, _ => false
  end.

(* equality up to the order of map entries, at every depth: Go's reflect.DeepEqual
   on maps with distinct keys *)
Fixpoint veqb (a b : value) : bool :=
  match a, b with
  | VStr x, VStr y => str_eqb x y
  | VBool x, VBool y => Bool.eqb x y
  | VNil, VNil => true
  | VInt x, VInt y | VI64 x, VI64 y | VU64 x, VU64 y => Z.eqb x y
  | VFlt x, VFlt y | VJNum x, VJNum y => str_eqb x y
  | VMap m1, VMap m2 =>
      Nat.eqb (length m1) (length m2) &&
      (fix go (m1 : entries) : bool :=
         match m1 with
         | [] => true
         | (k1, v1) :: t1 =>
             match lookup k1 m2 with
             | Some v2 => veqb v1 v2 && go t1
             | None => false
             end
         end) m1
  | VList l1, VList l2 =>
      (fix go (l1 l2 : list value) : bool :=
         match l1, l2 with
         | [], [] => true
         | v1 :: t1, v2 :: t2 => veqb v1 v2 && go t1 t2
         | _, _ => false
         end) l1 l2
  | _, _ => false
  end.

(* multiset equality of two lists under a boolean equivalence *)
Fixpoint remove_first {A} (eqb : A -> A -> bool) (x : A) (l : list A) : option (list A) :=
  match l with
  | [] => None
  | y :: t => if eqb x y then Some t
              else match remove_first eqb x t with Some t' => Some (y :: t') | None => None end
  end.
Fixpoint perm_eqb {A} (eqb : A -> A -> bool) (l1 l2 : list A) : bool :=
  match l1 with
  | [] => match l2 with [] => true | _ => false end
  | x :: t => match remove_first eqb x l2 with Some l2' => perm_eqb eqb t l2' | None => false end
  end.

(* well-formed: distinct keys in every map *)
Fixpoint nodup_keys (ks : list str) : bool :=
  match ks with [] => true | k :: t => negb (existsb (str_eqb k) t) && nodup_keys t end.
Fixpoint wfb (v : value) : bool :=
  match v with
  | VMap m => nodup_keys (map fst m) &&
              (fix go (m : entries) : bool :=
                 match m with [] => true | (_, x) :: t => wfb x && go t end) m
  | VList l => (fix go (l : list value) : bool :=
                  match l with [] => true | x :: t => wfb x && go t end) l
  | _ => true
  end.
