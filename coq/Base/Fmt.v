(* fmt.Sprintf("%v", x) for the scalars of the value universe (shared by the hand-written encoder models and by the
   vocabulary of the go2v translation).  Containers are outside: the placeholder "?" stands for them.  NO proofs here. *)
From Mxj Require Export Base.Value.

(* ---------------- fmt.Sprintf("%v", scalar) ---------------- *)
Fixpoint ntoa_aux (fuel : nat) (n : N) (acc : str) : str :=
  match fuel with
  | O => acc
  | S f => let acc' := ascii_of_N (48 + N.modulo n 10) :: acc in
           if (n <? 10)%N then acc' else ntoa_aux f (N.div n 10) acc'
  end.
Definition ztoa (z : Z) : str :=
  if (z <? 0)%Z then "-"%char :: ntoa_aux 40 (Z.to_N (- z)) [] else ntoa_aux 40 (Z.to_N z) [].
Definition fmt_v (v : value) : str :=
  match v with
  | VStr x => x
  | VBool true => s "true" | VBool false => s "false"
  | VNil => s "<nil>"
  | VInt z | VI64 z | VU64 z => ztoa z
  | VFlt f => f
  | VJNum x => x
  | _ => s "?"                                      (* containers: outside the model *)
  end.


(* int(f) for a float64 given by its %v text: [-]ddd[.ddd] truncates toward zero; an
   exponent form with a negative exponent is below 1e-4, hence 0 *)
Fixpoint take_digits (x : str) : str :=
  match x with c :: t => if is_digit c then c :: take_digits t else [] | [] => [] end.
Definition flt_to_int (f : flt) : Z :=
  let '(neg, body) := match f with
                      | "-"%char :: t => (true, t)
                      | "+"%char :: t => (false, t)
                      | _ => (false, f)
                      end in
  if mem_ascii "e"%char body then 0%Z
  else let z := digits_val (take_digits body) 0 in if neg then (- z)%Z else z.

