(* The tokens encoding/xml's Decoder.Token returns, as mxj's decoders see them (shared by the hand-written model
   Model/XmlDec.v and by the vocabulary of the go2v translation, Gen/PureSupport.v).  NO proofs here. *)
From Mxj Require Export Base.Value.

Record xname := { xspace : str; xlocal : str }.
Record xattr := { aname : xname; avalue : str }.
Inductive tok :=
| TStart (n : xname) (a : list xattr)
| TEnd (n : xname)
| TChar (x : str)
| TComment (x : str)
| TProcInst (target inst : str)
| TDirective (x : str).
(* how the token stream ends: io.EOF or a syntax error *)
Inductive term := TermEOF | TermErr.
