(* Hand-written support for the files go2v regenerates from /repo's sources on every run
   (Setters_gen.v, Effects_gen.v, Wrappers_gen.v): the vocabulary they are written in.
   NO proofs here (see GenProofs/). *)
From Coq Require Export String List ZArith Bool Arith.
From Mxj Require Export Base.Str.
Export ListNotations.

(* strings.ReplaceAll(x, old, new) for a non-empty old; for an empty old Go inserts new before
   every UTF-8 sequence and at the end, which for ASCII strings is what the second branch does *)
Definition replace_all (x old new : str) : str :=
  match old with
  | [] => new ++ flat_map (fun c => c :: new) x
  | _ => join new (split old x)
  end.

(* ---- effect summaries ----
   Storage is abstracted by roots:
     Pt i  the referent of parameter i itself (i = 0 is the receiver, parameters count from 1)
     Pd i  anything stored inside the referent of parameter i (elements, fields, transitively)
     G     storage reachable from a package-level variable
   (storage allocated by the function itself is not a root). *)
Inductive root := Pt (i : nat) | Pd (i : nat) | G.

Definition root_eqb (a b : root) : bool :=
  match a, b with
  | Pt i, Pt j | Pd i, Pd j => Nat.eqb i j
  | G, G => true
  | _, _ => false
  end.

Definition argmap := list (nat * list root * list root).   (* callee parameter -> (top, deep) roots of the argument *)

Record finfo := {
  f_name : string;            (* "Func", "Recv.Method", "pkg.Func" for the legacy sub-packages *)
  f_pkg : string;
  f_recv : string;
  f_exported : bool;
  f_nparams : nat;
  f_greads : list string;     (* package-level variables the function's own statements read *)
  f_gwrites : list string;    (* ... assign (or take the address of) *)
  f_writes : list root;       (* roots the function's own statements store into *)
  f_callback : bool;          (* calls a function value (user callback) *)
  f_spawns : bool;            (* contains a go statement *)
  f_calls : list (string * argmap)
}.

(* the value of an option variable, whatever its type (function / pointer values: nil or "some value") *)
Inductive fval := FB (b : bool) | FS (x : str) | FZ (z : Z) | FT (t : option nat).

(* ---- thin wrappers (Gen/Wrappers_gen.v) ---- *)
Inductive wexpr :=
| EVar (x : string)                       (* parameter or local *)
| EGlobal (x : string)                    (* package-level variable *)
| ESpread (e : wexpr)                     (* xs... *)
| ELit (s : string)                       (* string / integer constant *)
| EBool (b : bool)
| ENil
| EAddr (e : wexpr)                       (* &e *)
| EConv (t : string) (e : wexpr)          (* T(e) *)
| ECall (f : string) (args : list wexpr)  (* f(args); a method's receiver is the first argument *)
| EBad.
Inductive wstmt :=
| SAssign (lhs : list string) (e : wexpr)       (* lhs := e  /  lhs = e  /  e *)
| SIfErr (v : string) (rets : list wexpr)       (* if v != nil { return rets } *)
| SRet (rets : list wexpr).
