(* C20: the re-implemented walkers of x2j-wrapper (Model/X2jWrap.v, following the repaired code)
   against the core walkers (Model/KeyValues.v) and the declarative path semantics
   (Spec/PathSem.v, Spec/Wrappers.v). *)
From Coq Require Import Permutation.
From Mxj Require Import Model.X2jWrap Spec.PathSem Spec.KeySearch Spec.Wrappers
  Proofs.StrLemmas Proofs.C07P Proofs.C08P.

(* ================= PathsForKey / PathForKeyShortest ================= *)
(* the two breadcrumb walkers are the same function *)
(* after 5ff47ea the wrapper's hasKeyPath is, term for term, the core's: the two fixpoints are convertible *)
Lemma xw_has_key_path_core k : forall m c, xw_has_key_path c m k = has_key_path c m k.
Proof. intros m c. reflexivity. Qed.

Theorem xw_paths_core m k : xw_paths_for_key m k = paths_for_key m k.
Proof. unfold xw_paths_for_key, paths_for_key. rewrite xw_has_key_path_core. reflexivity. Qed.

Lemma xw_shortest_loop_spec : forall t b, xw_shortest_loop b (path_len b) t = shortest_from b t.
Proof.
  induction t as [|p t IH]; intros b; [reflexivity|].
  cbn [xw_shortest_loop shortest_from]. unfold seg_count. fold (path_len p). fold (path_len b).
  destruct (path_len p <? path_len b)%nat; apply IH.
Qed.

Theorem xw_shortest_of_spec ps : xw_shortest_of ps = shortest ps.
Proof.
  destruct ps as [|p [|q t]]; try reflexivity.
  unfold xw_shortest_of, shortest. apply xw_shortest_loop_spec.
Qed.

Theorem xw_shortest_spec m k : xw_path_for_key_shortest m k = shortest (xw_paths_for_key m k).
Proof. apply xw_shortest_of_spec. Qed.

Theorem xw_shortest_core m k : xw_path_for_key_shortest m k = shortest (paths_for_key m k).
Proof. rewrite xw_shortest_spec, xw_paths_core. reflexivity. Qed.


(* ================= ValuesForKey ================= *)
Theorem xw_has_key_final k : k <> star -> forall m, flat_map final (xw_has_key m k) = has_key_walk m k [].
Proof.
  intros Hk. assert (Es : str_eqb k star = false) by (apply str_eqb_neq; exact Hk).
  induction m as [| | | | | | | |vv IH|l IH] using value_ind2; try reflexivity.
  - cbn [xw_has_key has_key_walk]. rewrite flat_map_app, Es. cbn [app]. f_equal.
    + destruct (lookup k vv) as [v|]; [|reflexivity]. cbn [flat_map]. rewrite app_nil_r, key_hit_nil. reflexivity.
    + rewrite flat_map_flat_map. apply flat_map_ext_in. intros kv Hin.
      rewrite Forall_forall in IH. exact (IH kv Hin).
  - cbn [xw_has_key has_key_walk]. rewrite flat_map_flat_map. apply flat_map_ext_in. intros x Hin.
    rewrite Forall_forall in IH. exact (IH x Hin).
Qed.

(* with "*" the core adds every stored value; the wrapper reads "*" as an ordinary key *)
Theorem xw_has_key_star_differs :
  exists m, flat_map final (xw_has_key m star) = [] /\ has_key_walk m star [] <> [].
Proof. exists (VMap [(s "a", VInt 1)]). split; [reflexivity|discriminate]. Qed.

(* ================= ValuesFromKeyPath ================= *)
Lemma keep_not_skip ga kv : xw_skip_attr (fst kv) ga = negb (keep_entry ga kv).
Proof.
  unfold xw_skip_attr, keep_entry, attr_key. destruct (fst kv) as [|c k']; cbn [prefixb].
  - destruct ga; reflexivity.
  - rewrite andb_true_r. rewrite Ascii.eqb_sym. destruct (Ascii.eqb c hyphen); destruct ga; reflexivity.
Qed.

Lemma star_step_map ga (f : value -> list value) mm :
  flat_map (fun kv => if xw_skip_attr (fst kv) ga then [] else f (snd kv)) mm =
  flat_map f (sel_map_f ga star mm).
Proof.
  unfold sel_map_f. rewrite star_eqb, flat_map_map.
  rewrite <- (filter_flat_map (fun kv => f (snd kv)) (keep_entry ga) mm).
  apply flat_map_ext. intros kv. rewrite keep_not_skip. destruct (keep_entry ga kv); reflexivity.
Qed.

(* the walker = the path semantics with the attribute filter: every key list, every Map *)
Theorem xw_vfkp_filtered ga : forall ks m, xw_vfkp ks ga m = eval_filtered ga ks m.
Proof.
  induction ks as [|key rest IH]; intros m.
  - destruct m; reflexivity.
  - cbn [xw_vfkp eval_filtered]. destruct (str_eqb key star) eqn:Ek.
    + apply str_eqb_eq in Ek. subst key.
      destruct m as [| | | | | | | |mm|l]; try reflexivity; cbn [sel_f].
      * rewrite <- star_step_map. apply flat_map_ext. intros kv. rewrite IH. reflexivity.
      * rewrite flat_map_flat_map. apply flat_map_ext. intros x.
        destruct x; rewrite ?star_eqb; cbn [flat_map]; rewrite ?app_nil_r; try apply IH.
        rewrite <- star_step_map. apply flat_map_ext. intros kv. rewrite IH. reflexivity.
    + destruct m as [| | | | | | | |mm|l]; try reflexivity; cbn [sel_f].
      * unfold sel_map_f. rewrite Ek. destruct (lookup key mm) as [v|]; [|reflexivity].
        cbn [flat_map]. rewrite app_nil_r. apply IH.
      * rewrite flat_map_flat_map. apply flat_map_ext. intros x.
        destruct x; rewrite ?Ek; try reflexivity.
        unfold sel_map_f. rewrite Ek. destruct (lookup key m); cbn [flat_map]; rewrite ?app_nil_r; [apply IH|reflexivity].
Qed.

(* regression of 3b36840: an empty key at a wildcard step is an ordinary entry *)
Theorem xw_vfkp_empty_key :
  xw_vfkp [star] true (VMap [([], VInt 1)]) = [VInt 1] /\
  xw_vfkp [star] false (VMap [([], VInt 1); (s "-a", VInt 2)]) = [VInt 1] /\
  values_for_path (fun _ => None) (s ":") (VMap [([], VInt 1)]) star [] = Ok [VInt 1].
Proof. repeat split. Qed.

(* ---- eval_filtered against eval ---- *)
Lemma filter_keep_true (mm : entries) : filter (keep_entry true) mm = mm.
Proof. apply filter_true. Qed.

Lemma sel_f_true k v : sel_f true k v = sel k v.
Proof.
  destruct v as [| | | | | | | |mm|l]; try reflexivity.
  - cbn [sel_f sel]. unfold sel_map_f, sel_map. rewrite filter_keep_true. reflexivity.
  - cbn [sel_f sel]. apply flat_map_ext. intros x. destruct x; try reflexivity.
    unfold sel_map_f, sel_map. rewrite filter_keep_true. reflexivity.
Qed.

Theorem eval_filtered_true : forall ks v, eval_filtered true ks v = eval ks v.
Proof.
  induction ks as [|k ks IH]; intros v; [reflexivity|].
  cbn [eval_filtered eval]. rewrite sel_f_true. apply flat_map_ext. exact IH.
Qed.

Lemma sel_f_plain ga k v : str_eqb k star = false -> sel_f ga k v = sel k v.
Proof.
  intros Ek. destruct v as [| | | | | | | |mm|l]; try reflexivity.
  - cbn [sel_f sel]. unfold sel_map_f, sel_map. rewrite Ek. reflexivity.
  - cbn [sel_f sel]. apply flat_map_ext. intros x. destruct x; try reflexivity.
    unfold sel_map_f, sel_map. rewrite Ek. reflexivity.
Qed.

Theorem eval_filtered_no_star ga : forall ks v, no_star ks = true -> eval_filtered ga ks v = eval ks v.
Proof.
  induction ks as [|k ks IH]; intros v H; [reflexivity|].
  unfold no_star in H. cbn [existsb] in H. apply negb_true_iff, orb_false_iff in H as [Hk Hr].
  cbn [eval_filtered eval]. rewrite (sel_f_plain ga k v Hk). apply flat_map_ext. intros x.
  apply IH. unfold no_star. rewrite Hr. reflexivity.
Qed.

(* the attribute filter is observable: with getAttrs = false a "*" step leaves '-' entries out *)
Theorem eval_filtered_differs :
  exists m, eval_filtered false [star] m = [VInt 2] /\ eval [star] m = [VInt 1; VInt 2].
Proof. exists (VMap [(s "-id", VInt 1); (s "b", VInt 2)]). split; reflexivity. Qed.

Theorem xw_vfkp_core ga ks m :
  ga = true \/ no_star ks = true -> xw_vfkp ks ga m = vfkp ks [] m.
Proof.
  intros Hc. rewrite xw_vfkp_filtered, vfkp_eval.
  destruct Hc as [->|Hs]; [apply eval_filtered_true|apply eval_filtered_no_star; exact Hs].
Qed.

(* ---- from the path string ---- *)
Lemma path_keys_no_trailing path : no_trailing_dot path = true -> path_keys path = split1 dot path.
Proof.
  unfold no_trailing_dot, path_keys. destruct (last (split1 dot path) [dot]); [discriminate|reflexivity].
Qed.

Theorem xw_values_from_filtered m path ga :
  xw_values_from m path ga = eval_filtered ga (split1 dot path) m.
Proof. apply xw_vfkp_filtered. Qed.

Section Top20.
Variable pf : str -> option flt.
Variable sep : str.

Theorem xw_values_from_core m path ga :
  mem_ascii lbr path = false -> no_trailing_dot path = true ->
  ga = true \/ no_star (split1 dot path) = true ->
  Ok (xw_values_from m path ga) = values_for_path pf sep m path [].
Proof.
  intros Hb Ht Hc. rewrite (values_for_path_plain pf sep m path Hb), (path_keys_no_trailing path Ht).
  unfold xw_values_from. rewrite (xw_vfkp_core ga _ m Hc), vfkp_eval. reflexivity.
Qed.
End Top20.

(* outside that domain the two differ: the core drops a trailing empty segment, the wrapper looks the empty key up *)
Theorem xw_values_from_trailing_dot_differs :
  exists m path, no_trailing_dot path = false /\
    xw_values_from m path true = [] /\
    values_for_path (fun _ => None) (s ":") m path [] = Ok [VMap [(s "b", VInt 1)]].
Proof. exists (VMap [(s "a", VMap [(s "b", VInt 1)])]), (s "a."). repeat split. Qed.

(* ================= ValuesAtKeyPath ================= *)
Theorem xw_values_at_spec m path ga :
  xw_values_at m path ga = values_at_spec ga (split1 dot path) m.
Proof.
  unfold xw_values_at, values_at_spec.
  set (keys := split1 dot path).
  assert (E : match keys with _ :: _ :: _ => xw_vfkp (removelast keys) ga m | _ => [m] end =
              match keys with _ :: _ :: _ => eval_filtered ga (removelast keys) m | _ => [m] end).
  { destruct keys as [|a [|b t]]; try reflexivity. apply xw_vfkp_filtered. }
  rewrite E.
  destruct (match keys with _ :: _ :: _ => eval_filtered ga (removelast keys) m | _ => [m] end) as [|p ps].
  - cbn [existsb]. rewrite orb_false_r. destruct (str_eqb (last keys []) star); reflexivity.
  - destruct (str_eqb (last keys []) star); cbn [orb]; [reflexivity|].
    destruct (existsb (xw_map_has (last keys [])) (p :: ps)); reflexivity.
Qed.

(* ---- the documented relation to ValuesFromKeyPath ---- *)
Lemma eval_reach ga : forall ks v, eval_filtered ga ks v = flat_map final (reach_f ga ks v).
Proof.
  induction ks as [|k ks IH]; intros v; cbn [eval_filtered reach_f flat_map]; [rewrite app_nil_r; reflexivity|].
  rewrite flat_map_flat_map. apply flat_map_ext. exact IH.
Qed.

Lemma reach_snoc ga k : forall pre v, reach_f ga (pre ++ [k]) v = flat_map (sel_f ga k) (reach_f ga pre v).
Proof.
  induction pre as [|a pre IH]; intros v; cbn [app reach_f flat_map].
  - rewrite app_nil_r. rewrite <- (app_nil_r (sel_f ga k v)) at 1.
    induction (sel_f ga k v) as [|x l IHl]; [reflexivity|]. cbn. f_equal. rewrite app_nil_r in IHl. rewrite app_nil_r. exact IHl.
  - rewrite flat_map_flat_map. apply flat_map_ext. exact IH.
Qed.

Lemma flat_map_nonempty {A B} (f : A -> list B) l : flat_map f l <> [] -> exists x, In x l /\ f x <> [].
Proof.
  induction l as [|a l IH]; cbn; [congruence|]. intros H.
  destruct (f a) eqn:E.
  - destruct (IH H) as [x [Hx Hf]]. exists x. split; [right; exact Hx|exact Hf].
  - exists a. split; [left; reflexivity|rewrite E; discriminate].
Qed.

(* whenever the full path has a value, the last key is a key of one of the parent path's values *)
Theorem values_from_nonempty_parent ga pre k m :
  str_eqb k star = false ->
  eval_filtered ga (pre ++ [k]) m <> [] ->
  existsb (xw_map_has k) (eval_filtered ga pre m) = true.
Proof.
  intros Ek H. rewrite eval_reach, reach_snoc, flat_map_flat_map in H.
  destruct (flat_map_nonempty _ _ H) as [x [Hx Hf]].
  rewrite eval_reach. apply existsb_exists.
  destruct x as [| | | | | | | |mm|l]; try (exfalso; apply Hf; reflexivity).
  - exists (VMap mm). split.
    + apply in_flat_map. exists (VMap mm). split; [exact Hx|left; reflexivity].
    + cbn [sel_f] in Hf. unfold sel_map_f in Hf. rewrite Ek in Hf. cbn [xw_map_has]. unfold has_key.
      destruct (lookup k mm); [reflexivity|exfalso; apply Hf; reflexivity].
  - cbn [sel_f] in Hf.
    destruct (flat_map_nonempty _ _ Hf) as [y [Hy Hg]].
    rewrite flat_map_flat_map in Hf.
    assert (Hm : exists y, In y l /\ xw_map_has k y = true).
    { clear Hg Hy y. destruct (flat_map_nonempty _ _ Hf) as [y [Hy Hg]]. exists y. split; [exact Hy|].
      destruct y as [| | | | | | | |ym|yl]; try (rewrite Ek in Hg; exfalso; apply Hg; reflexivity).
      unfold sel_map_f in Hg. rewrite Ek in Hg. cbn [xw_map_has]. unfold has_key.
      destruct (lookup k ym); [reflexivity|exfalso; apply Hg; reflexivity]. }
    destruct Hm as [y' [Hy' Hk']]. exists y'. split; [|exact Hk'].
    apply in_flat_map. exists (VList l). split; [exact Hx|exact Hy'].
Qed.

Theorem xw_values_at_relation m pre k ga :
  pre <> [] -> str_eqb k star = false ->
  eval_filtered ga (pre ++ [k]) m <> [] ->
  values_at_spec ga (pre ++ [k]) m = eval_filtered ga pre m.
Proof.
  intros Hp Ek H. unfold values_at_spec.
  assert (L : last (pre ++ [k]) [] = k) by apply last_last.
  assert (R : removelast (pre ++ [k]) = pre) by apply removelast_last.
  rewrite L, R, Ek. cbn [orb].
  destruct pre as [|a pre']; [congruence|].
  destruct pre' as [|b t]; cbn [app];
    rewrite (values_from_nonempty_parent ga _ k m Ek H); reflexivity.
Qed.
