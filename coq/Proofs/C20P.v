(* C20: the re-implemented walkers of x2j-wrapper (Model/X2jWrap.v) against the
   core walkers (Model/KeyValues.v) and the declarative path semantics
   (Spec/PathSem.v, Spec/Wrappers.v); the thin wrapper bodies against the
   documented compositions. *)
From Coq Require Import Permutation.
From Mxj Require Import Model.X2jWrap Spec.PathSem Spec.KeySearch Spec.Wrappers
  Proofs.StrLemmas Proofs.C07P Proofs.C08P.

(* ================= PathsForKey / PathForKeyShortest ================= *)

Lemma forallb_in {A} (p : A -> bool) l x : forallb p l = true -> In x l -> p x = true.
Proof. intros H Hin. rewrite forallb_forall in H. exact (H x Hin). Qed.

Lemma existsb_false_in {A} (p : A -> bool) l x : existsb p l = false -> In x l -> p x = false.
Proof.
  intros H Hin. destruct (p x) eqn:E; [|reflexivity].
  assert (existsb p l = true) by (apply existsb_exists; exists x; auto). congruence.
Qed.

(* a tree without the key yields no crumb, whatever the walker *)
Lemma no_key_no_path k : forall m c,
  key_occurs k m = false -> xw_has_key_path c m k = [] /\ has_key_path c m k = [].
Proof.
  induction m as [| | | | | | | |vv IH|l IH] using value_ind2; intros c H; try (split; reflexivity).
  - cbn [key_occurs] in H. apply orb_false_iff in H as [Hk Hc].
    cbn [xw_has_key_path has_key_path]. rewrite Hk. cbn [app].
    split; apply flat_map_nil_in; intros kv Hin;
      (rewrite Forall_forall in IH; apply (IH kv Hin); exact (existsb_false_in _ _ _ Hc Hin)).
  - cbn [key_occurs] in H. cbn [xw_has_key_path has_key_path].
    split; apply flat_map_nil_in; intros x Hin;
      (rewrite Forall_forall in IH; apply (IH x Hin); exact (existsb_false_in _ _ _ H Hin)).
Qed.

Lemma xw_has_key_path_nonnested k : forall m c,
  key_not_nested k m = true -> xw_has_key_path c m k = has_key_path c m k.
Proof.
  induction m as [| | | | | | | |vv IH|l IH] using value_ind2; intros c H; try reflexivity.
  - cbn [key_not_nested] in H. cbn [xw_has_key_path has_key_path].
    rewrite Forall_forall in IH.
    destruct (has_key k vv) eqn:Hk.
    + apply negb_true_iff in H. f_equal.
      rewrite !flat_map_nil_in; [reflexivity| |]; intros kv Hin;
        apply (no_key_no_path k (snd kv)); exact (existsb_false_in _ _ _ H Hin).
    + cbn [app]. apply flat_map_ext_in. intros kv Hin. apply (IH kv Hin).
      exact (forallb_in _ _ _ H Hin).
  - cbn [key_not_nested] in H. cbn [xw_has_key_path has_key_path].
    rewrite Forall_forall in IH.
    apply flat_map_ext_in. intros x Hin. apply (IH x Hin). exact (forallb_in _ _ _ H Hin).
Qed.

Theorem xw_paths_nonnested m k :
  key_not_nested k m = true -> xw_paths_for_key m k = paths_for_key m k.
Proof. intros H. unfold xw_paths_for_key, paths_for_key. rewrite xw_has_key_path_nonnested by exact H. reflexivity. Qed.

Local Open Scope string_scope.
Definition c20_nested : value := VMap [(s"a", VMap [(s"k", VMap [(s"k", VInt 1)])])].

(* the crumb mutation: a key at two depths on one branch *)
Theorem xw_paths_refuted :
  exists m k,
    xw_paths_for_key m k = [s"a.k"; s"a.k.k.k"] /\
    paths_for_key m k = [s"a.k"; s"a.k.k"] /\
    ~ Permutation (xw_paths_for_key m k) (paths_for_key m k) /\
    path_existsb [s"a"; s"k"; s"k"; s"k"] m = false /\
    xw_values_from m (s"a.k.k.k") true = Ok [].
Proof.
  exists c20_nested, (s"k").
  split; [vm_compute; reflexivity|]. split; [vm_compute; reflexivity|].
  split; [|split; vm_compute; reflexivity].
  intros HP.
  assert (Hin : In (s"a.k.k.k") (paths_for_key c20_nested (s"k"))).
  { apply (Permutation_in _ HP). vm_compute. right. left. reflexivity. }
  vm_compute in Hin. destruct Hin as [E|[E|[]]]; discriminate E.
Qed.

Lemma xw_shortest_loop_spec : forall t b, xw_shortest_loop b (path_len b) t = shortest_from b t.
Proof.
  induction t as [|p t IH]; intros b; [reflexivity|].
  cbn [xw_shortest_loop shortest_from]. unfold seg_count. fold (path_len p). fold (path_len b).
  destruct (path_len p <? path_len b)%nat; apply IH.
Qed.

Theorem xw_shortest_of_spec ps : xw_shortest_of ps = shortest ps.
Proof.
  destruct ps as [|p [|q t]]; try reflexivity.
  unfold xw_shortest_of, shortest. apply xw_shortest_loop_spec.
Qed.

Theorem xw_shortest_spec m k : xw_path_for_key_shortest m k = shortest (xw_paths_for_key m k).
Proof. apply xw_shortest_of_spec. Qed.

Theorem xw_shortest_nonnested m k :
  key_not_nested k m = true -> xw_path_for_key_shortest m k = shortest (paths_for_key m k).
Proof. intros H. rewrite xw_shortest_spec, xw_paths_nonnested by exact H. reflexivity. Qed.

Local Close Scope string_scope.

(* ================= ValuesForKey ================= *)
Theorem xw_has_key_final k : k <> star -> forall m, flat_map final (xw_has_key m k) = has_key_walk m k [].
Proof.
  intros Hk. assert (Es : str_eqb k star = false) by (apply str_eqb_neq; exact Hk).
  induction m as [| | | | | | | |vv IH|l IH] using value_ind2; try reflexivity.
  - cbn [xw_has_key has_key_walk]. rewrite flat_map_app, Es. cbn [app]. f_equal.
    + destruct (lookup k vv) as [v|]; [|reflexivity]. cbn [flat_map]. rewrite app_nil_r, key_hit_nil. reflexivity.
    + rewrite flat_map_flat_map. apply flat_map_ext_in. intros kv Hin.
      rewrite Forall_forall in IH. exact (IH kv Hin).
  - cbn [xw_has_key has_key_walk]. rewrite flat_map_flat_map. apply flat_map_ext_in. intros x Hin.
    rewrite Forall_forall in IH. exact (IH x Hin).
Qed.

(* with "*" the core adds every stored value; the wrapper reads "*" as an ordinary key *)
Theorem xw_has_key_star_differs :
  exists m, flat_map final (xw_has_key m star) = [] /\ has_key_walk m star [] <> [].
Proof. exists (VMap [(s "a", VInt 1)]). split; [reflexivity|discriminate]. Qed.

(* ================= ValuesFromKeyPath ================= *)
Lemma rflat_map_spec {A B} (f : A -> res (list B)) (g : A -> list B) (bad : A -> Prop) l :
  (forall x, In x l -> match f x with Ok y => y = g x | Panic => bad x | Err _ => False end) ->
  match rflat_map f l with
  | Ok r => r = flat_map g l
  | Panic => exists x, In x l /\ bad x
  | Err _ => False
  end.
Proof.
  induction l as [|a l IH]; intros H; cbn [rflat_map flat_map]; [reflexivity|].
  pose proof (H a (or_introl eq_refl)) as Ha.
  assert (Hl : forall x, In x l -> match f x with Ok y => y = g x | Panic => bad x | Err _ => False end)
    by (intros x Hx; apply H; right; exact Hx).
  specialize (IH Hl).
  destruct (f a) as [y|e|]; cbn [bind].
  - destruct (rflat_map f l) as [r|e|]; cbn [bind].
    + subst. reflexivity.
    + exact IH.
    + destruct IH as [x [Hx Hb]]. exists x. split; [right; exact Hx|exact Hb].
  - exact Ha.
  - exists a. split; [left; reflexivity|exact Ha].
Qed.

Lemma forallb_false_in {A} (p : A -> bool) l x : In x l -> p x = false -> forallb p l = false.
Proof.
  intros Hin Hp. destruct (forallb p l) eqn:E; [|reflexivity].
  rewrite (forallb_in _ _ _ E Hin) in Hp. discriminate.
Qed.

Lemma nek_map_false mm kv :
  In kv mm -> (fst kv = [] \/ no_empty_key (snd kv) = false) -> no_empty_key (VMap mm) = false.
Proof.
  intros Hin [H|H]; cbn [no_empty_key]; apply andb_false_iff.
  - left. apply (forallb_false_in _ _ kv Hin). rewrite H. reflexivity.
  - right. apply (forallb_false_in _ _ kv Hin). exact H.
Qed.

Lemma nek_list_false l x : In x l -> no_empty_key x = false -> no_empty_key (VList l) = false.
Proof. intros Hin H. cbn [no_empty_key]. exact (forallb_false_in _ _ x Hin H). Qed.

Lemma nek_lookup_false k mm v : lookup k mm = Some v -> no_empty_key v = false -> no_empty_key (VMap mm) = false.
Proof. intros Hl H. apply (nek_map_false mm (k, v)); [apply lookup_in; exact Hl|right; exact H]. Qed.

(* what one entry contributes at a "*" step *)
Definition entry_vals (ga : bool) (rest : list str) (kv : str * value) : list value :=
  if keep_entry ga kv then eval_filtered ga rest (snd kv) else [].
Definition entry_bad (kv : str * value) : Prop := fst kv = [] \/ no_empty_key (snd kv) = false.

Lemma entry_spec ga rest
  (IH : forall m, match xw_vfkp rest ga m with
                  | Ok vs => vs = eval_filtered ga rest m | Panic => no_empty_key m = false | Err _ => False end) kv :
  match bind (xw_skip_attr (fst kv) ga) (fun skip => if skip then Ok [] else xw_vfkp rest ga (snd kv)) with
  | Ok y => y = entry_vals ga rest kv
  | Panic => entry_bad kv
  | Err _ => False
  end.
Proof.
  destruct kv as [k v]. unfold entry_vals, entry_bad, keep_entry, attr_key. cbn [fst snd].
  destruct k as [|c k']; cbn [xw_skip_attr bind]; [left; reflexivity|].
  destruct (Ascii.eqb c hyphen); destruct ga; cbn [andb negb orb]; try reflexivity;
    (specialize (IH v); destruct (xw_vfkp rest _ v); [exact IH|exact IH|right; exact IH]).
Qed.

Lemma star_step_map ga rest mm :
  flat_map (entry_vals ga rest) mm = flat_map (eval_filtered ga rest) (sel_map_f ga star mm).
Proof.
  unfold sel_map_f. rewrite star_eqb. rewrite flat_map_map. unfold entry_vals.
  rewrite (filter_flat_map (fun kv => eval_filtered ga rest (snd kv)) (keep_entry ga) mm). reflexivity.
Qed.

Theorem xw_vfkp_cases ga : forall ks m,
  match xw_vfkp ks ga m with
  | Ok vs => vs = eval_filtered ga ks m
  | Panic => no_empty_key m = false
  | Err _ => False
  end.
Proof.
  induction ks as [|key rest IH]; intros m.
  - destruct m; reflexivity.
  - cbn [xw_vfkp eval_filtered]. destruct (str_eqb key star) eqn:Ek.
    + apply str_eqb_eq in Ek. subst key.
      destruct m as [| | | | | | | |mm|l]; try reflexivity.
      * (* map *)
        cbn [sel_f].
        pose proof (rflat_map_spec _ (entry_vals ga rest) entry_bad mm (fun kv _ => entry_spec ga rest IH kv)) as H.
        match goal with |- match ?r with _ => _ end => change r with
          (rflat_map (fun kv => bind (xw_skip_attr (fst kv) ga)
                                  (fun skip => if skip then Ok [] else xw_vfkp rest ga (snd kv))) mm) end.
        destruct (rflat_map _ mm) as [r|e|].
        -- rewrite H. apply star_step_map.
        -- exact H.
        -- destruct H as [kv [Hin Hb]]. exact (nek_map_false mm kv Hin Hb).
      * (* list *)
        cbn [sel_f].
        set (f := fun v : value => match v with
                    | VMap mm => rflat_map (fun kv => bind (xw_skip_attr (fst kv) ga)
                                    (fun skip => if skip then Ok [] else xw_vfkp rest ga (snd kv))) mm
                    | _ => xw_vfkp rest ga v end).
        match goal with |- match ?r with _ => _ end => change r with (rflat_map f l) end.
        set (g := fun v : value => match v with
                    | VMap mm => flat_map (entry_vals ga rest) mm
                    | _ => eval_filtered ga rest v end).
        assert (Hf : forall x, In x l ->
                  match f x with Ok y => y = g x | Panic => no_empty_key x = false | Err _ => False end).
        { intros x _. destruct x as [| | | | | | | |xm|xl]; try exact (IH _).
          unfold f, g.
          pose proof (rflat_map_spec _ (entry_vals ga rest) entry_bad xm (fun kv _ => entry_spec ga rest IH kv)) as H.
          destruct (rflat_map _ xm) as [r|e|]; [exact H|exact H|].
          destruct H as [kv [Hin Hb]]. exact (nek_map_false xm kv Hin Hb). }
        pose proof (rflat_map_spec f g (fun x => no_empty_key x = false) l Hf) as H.
        destruct (rflat_map f l) as [r|e|].
        -- rewrite H. rewrite flat_map_flat_map. apply flat_map_ext. intros x.
           destruct x; cbn [g flat_map]; rewrite ?star_eqb; cbn [flat_map]; rewrite ?app_nil_r; try reflexivity.
           apply star_step_map.
        -- exact H.
        -- destruct H as [x [Hin Hb]]. exact (nek_list_false l x Hin Hb).
    + destruct m as [| | | | | | | |mm|l]; try reflexivity.
      * cbn [sel_f]. unfold sel_map_f. rewrite Ek.
        destruct (lookup key mm) as [v|] eqn:El; [|reflexivity].
        cbn [flat_map]. rewrite app_nil_r. specialize (IH v).
        destruct (xw_vfkp rest ga v); [exact IH|exact IH|exact (nek_lookup_false key mm v El IH)].
      * cbn [sel_f].
        set (f := fun v : value => match v with
                    | VMap mm => match lookup key mm with Some vv => xw_vfkp rest ga vv | None => Ok [] end
                    | _ => Ok [] end).
        match goal with |- match ?r with _ => _ end => change r with (rflat_map f l) end.
        set (g := fun v : value => match v with
                    | VMap mm => match lookup key mm with Some vv => eval_filtered ga rest vv | None => [] end
                    | _ => [] end).
        assert (Hf : forall x, In x l ->
                  match f x with Ok y => y = g x | Panic => no_empty_key x = false | Err _ => False end).
        { intros x _. destruct x as [| | | | | | | |xm|xl]; try reflexivity.
          unfold f, g. destruct (lookup key xm) as [vv|] eqn:El; [|reflexivity].
          specialize (IH vv). destruct (xw_vfkp rest ga vv); [exact IH|exact IH|exact (nek_lookup_false key xm vv El IH)]. }
        pose proof (rflat_map_spec f g (fun x => no_empty_key x = false) l Hf) as H.
        destruct (rflat_map f l) as [r|e|].
        -- rewrite H. rewrite flat_map_flat_map. apply flat_map_ext. intros x.
           destruct x; cbn [g flat_map]; rewrite ?Ek; try reflexivity.
           unfold sel_map_f. rewrite Ek. destruct (lookup key m); cbn [flat_map]; rewrite ?app_nil_r; reflexivity.
        -- exact H.
        -- destruct H as [x [Hin Hb]]. exact (nek_list_false l x Hin Hb).
Qed.

Theorem xw_vfkp_partial ga ks m vs : xw_vfkp ks ga m = Ok vs -> vs = eval_filtered ga ks m.
Proof. intros H. pose proof (xw_vfkp_cases ga ks m) as C. rewrite H in C. exact C. Qed.

Theorem xw_vfkp_ok ga ks m : no_empty_key m = true -> xw_vfkp ks ga m = Ok (eval_filtered ga ks m).
Proof.
  intros Hn. pose proof (xw_vfkp_cases ga ks m) as C.
  destruct (xw_vfkp ks ga m) as [vs|e|]; [subst; reflexivity|contradiction|congruence].
Qed.

Theorem xw_vfkp_no_err ga ks m e : xw_vfkp ks ga m <> Err e.
Proof. intros H. pose proof (xw_vfkp_cases ga ks m) as C. rewrite H in C. exact C. Qed.

(* the empty key under a wildcard step: k[:1] *)
Theorem xw_vfkp_empty_key_refuted :
  exists m ga, xw_vfkp [star] ga m = Panic /\ eval [star] m = [VInt 1] /\
               values_for_path (fun _ => None) (s ":") m star [] = Ok [VInt 1].
Proof. exists (VMap [([], VInt 1)]), true. repeat split. Qed.

(* ---- eval_filtered against eval ---- *)
Lemma filter_keep_true (mm : entries) : filter (keep_entry true) mm = mm.
Proof. apply filter_true. Qed.

Lemma sel_f_true k v : sel_f true k v = sel k v.
Proof.
  destruct v as [| | | | | | | |mm|l]; try reflexivity.
  - cbn [sel_f sel]. unfold sel_map_f, sel_map. rewrite filter_keep_true. reflexivity.
  - cbn [sel_f sel]. apply flat_map_ext. intros x. destruct x; try reflexivity.
    unfold sel_map_f, sel_map. rewrite filter_keep_true. reflexivity.
Qed.

Theorem eval_filtered_true : forall ks v, eval_filtered true ks v = eval ks v.
Proof.
  induction ks as [|k ks IH]; intros v; [reflexivity|].
  cbn [eval_filtered eval]. rewrite sel_f_true. apply flat_map_ext. exact IH.
Qed.

Lemma sel_f_plain ga k v : str_eqb k star = false -> sel_f ga k v = sel k v.
Proof.
  intros Ek. destruct v as [| | | | | | | |mm|l]; try reflexivity.
  - cbn [sel_f sel]. unfold sel_map_f, sel_map. rewrite Ek. reflexivity.
  - cbn [sel_f sel]. apply flat_map_ext. intros x. destruct x; try reflexivity.
    unfold sel_map_f, sel_map. rewrite Ek. reflexivity.
Qed.

Theorem eval_filtered_no_star ga : forall ks v, no_star ks = true -> eval_filtered ga ks v = eval ks v.
Proof.
  induction ks as [|k ks IH]; intros v H; [reflexivity|].
  unfold no_star in H. cbn [existsb] in H. apply negb_true_iff, orb_false_iff in H as [Hk Hr].
  cbn [eval_filtered eval]. rewrite (sel_f_plain ga k v Hk). apply flat_map_ext. intros x.
  apply IH. unfold no_star. rewrite Hr. reflexivity.
Qed.

(* the attribute filter is observable: with getAttrs = false a "*" step leaves '-' entries out *)
Theorem eval_filtered_differs :
  exists m, eval_filtered false [star] m = [VInt 2] /\ eval [star] m = [VInt 1; VInt 2].
Proof. exists (VMap [(s "-id", VInt 1); (s "b", VInt 2)]). split; reflexivity. Qed.

Theorem xw_vfkp_core ga ks m :
  no_empty_key m = true -> ga = true \/ no_star ks = true ->
  xw_vfkp ks ga m = Ok (vfkp ks [] m).
Proof.
  intros Hn Hc. rewrite (xw_vfkp_ok ga ks m Hn), vfkp_eval. f_equal.
  destruct Hc as [->|Hs]; [apply eval_filtered_true|apply eval_filtered_no_star; exact Hs].
Qed.

(* ---- from the path string ---- *)
Lemma path_keys_no_trailing path : no_trailing_dot path = true -> path_keys path = split1 dot path.
Proof.
  unfold no_trailing_dot, path_keys. destruct (last (split1 dot path) [dot]); [discriminate|reflexivity].
Qed.

Theorem xw_values_from_filtered m path ga :
  no_empty_key m = true -> xw_values_from m path ga = Ok (eval_filtered ga (split1 dot path) m).
Proof. intros Hn. apply xw_vfkp_ok. exact Hn. Qed.

Section Top20.
Variable pf : str -> option flt.
Variable sep : str.

Theorem xw_values_from_core m path ga :
  mem_ascii lbr path = false -> no_trailing_dot path = true -> no_empty_key m = true ->
  ga = true \/ no_star (split1 dot path) = true ->
  xw_values_from m path ga = values_for_path pf sep m path [].
Proof.
  intros Hb Ht Hn Hc. rewrite (values_for_path_plain pf sep m path Hb), (path_keys_no_trailing path Ht).
  unfold xw_values_from. rewrite (xw_vfkp_core ga _ m Hn Hc), vfkp_eval. reflexivity.
Qed.
End Top20.

(* outside that domain the two differ: the core drops a trailing empty segment, the wrapper looks the empty key up *)
Theorem xw_values_from_trailing_dot_differs :
  exists m path, no_trailing_dot path = false /\
    xw_values_from m path true = Ok [] /\
    values_for_path (fun _ => None) (s ":") m path [] = Ok [VMap [(s "b", VInt 1)]].
Proof. exists (VMap [(s "a", VMap [(s "b", VInt 1)])]), (s "a."). repeat split. Qed.

(* ================= ValuesAtKeyPath ================= *)
Theorem xw_values_at_ok m path ga :
  no_empty_key m = true -> xw_values_at m path ga = Ok (values_at_spec ga (split1 dot path) m).
Proof.
  intros Hn. unfold xw_values_at, values_at_spec.
  set (keys := split1 dot path).
  assert (E : match keys with _ :: _ :: _ => xw_vfkp (removelast keys) ga m | _ => Ok [m] end =
              Ok (match keys with _ :: _ :: _ => eval_filtered ga (removelast keys) m | _ => [m] end)).
  { destruct keys as [|a [|b t]]; try reflexivity. apply xw_vfkp_ok. exact Hn. }
  rewrite E. cbn [bind].
  destruct (match keys with _ :: _ :: _ => eval_filtered ga (removelast keys) m | _ => [m] end) as [|p ps].
  - cbn [existsb]. rewrite orb_false_r. destruct (str_eqb (last keys []) star); reflexivity.
  - destruct (str_eqb (last keys []) star); cbn [orb]; [reflexivity|].
    destruct (existsb (xw_map_has (last keys [])) (p :: ps)); reflexivity.
Qed.

Theorem xw_values_at_partial m path ga vs :
  xw_values_at m path ga = Ok vs -> vs = values_at_spec ga (split1 dot path) m.
Proof.
  unfold xw_values_at, values_at_spec. set (keys := split1 dot path). intros H.
  assert (E : forall r, match keys with _ :: _ :: _ => xw_vfkp (removelast keys) ga m | _ => Ok [m] end = Ok r ->
              r = match keys with _ :: _ :: _ => eval_filtered ga (removelast keys) m | _ => [m] end).
  { intros r Hr. destruct keys as [|a [|b t]]; try (injection Hr as <-; reflexivity).
    exact (xw_vfkp_partial ga _ m r Hr). }
  destruct (match keys with _ :: _ :: _ => xw_vfkp (removelast keys) ga m | _ => Ok [m] end) as [r|e|];
    cbn [bind] in H; try discriminate.
  rewrite <- (E r eq_refl). destruct r as [|p ps].
  - injection H as <-. cbn [existsb]. rewrite orb_false_r. destruct (str_eqb (last keys []) star); reflexivity.
  - destruct (str_eqb (last keys []) star); cbn [orb]; [injection H as <-; reflexivity|].
    destruct (existsb (xw_map_has (last keys [])) (p :: ps)); injection H as <-; reflexivity.
Qed.

(* ---- the documented relation to ValuesFromKeyPath ---- *)
Lemma eval_reach ga : forall ks v, eval_filtered ga ks v = flat_map final (reach_f ga ks v).
Proof.
  induction ks as [|k ks IH]; intros v; cbn [eval_filtered reach_f flat_map]; [rewrite app_nil_r; reflexivity|].
  rewrite flat_map_flat_map. apply flat_map_ext. exact IH.
Qed.

Lemma reach_snoc ga k : forall pre v, reach_f ga (pre ++ [k]) v = flat_map (sel_f ga k) (reach_f ga pre v).
Proof.
  induction pre as [|a pre IH]; intros v; cbn [app reach_f flat_map].
  - rewrite app_nil_r. rewrite <- (app_nil_r (sel_f ga k v)) at 1.
    induction (sel_f ga k v) as [|x l IHl]; [reflexivity|]. cbn. f_equal. rewrite app_nil_r in IHl. rewrite app_nil_r. exact IHl.
  - rewrite flat_map_flat_map. apply flat_map_ext. exact IH.
Qed.

Lemma flat_map_nonempty {A B} (f : A -> list B) l : flat_map f l <> [] -> exists x, In x l /\ f x <> [].
Proof.
  induction l as [|a l IH]; cbn; [congruence|]. intros H.
  destruct (f a) eqn:E.
  - destruct (IH H) as [x [Hx Hf]]. exists x. split; [right; exact Hx|exact Hf].
  - exists a. split; [left; reflexivity|rewrite E; discriminate].
Qed.

(* whenever the full path has a value, the last key is a key of one of the parent path's values *)
Theorem values_from_nonempty_parent ga pre k m :
  str_eqb k star = false ->
  eval_filtered ga (pre ++ [k]) m <> [] ->
  existsb (xw_map_has k) (eval_filtered ga pre m) = true.
Proof.
  intros Ek H. rewrite eval_reach, reach_snoc, flat_map_flat_map in H.
  destruct (flat_map_nonempty _ _ H) as [x [Hx Hf]].
  rewrite eval_reach. apply existsb_exists.
  destruct x as [| | | | | | | |mm|l]; try (exfalso; apply Hf; reflexivity).
  - exists (VMap mm). split.
    + apply in_flat_map. exists (VMap mm). split; [exact Hx|left; reflexivity].
    + cbn [sel_f] in Hf. unfold sel_map_f in Hf. rewrite Ek in Hf. cbn [xw_map_has]. unfold has_key.
      destruct (lookup k mm); [reflexivity|exfalso; apply Hf; reflexivity].
  - cbn [sel_f] in Hf.
    destruct (flat_map_nonempty _ _ Hf) as [y [Hy Hg]].
    rewrite flat_map_flat_map in Hf.
    assert (Hm : exists y, In y l /\ xw_map_has k y = true).
    { clear Hg Hy y. destruct (flat_map_nonempty _ _ Hf) as [y [Hy Hg]]. exists y. split; [exact Hy|].
      destruct y as [| | | | | | | |ym|yl]; try (rewrite Ek in Hg; exfalso; apply Hg; reflexivity).
      unfold sel_map_f in Hg. rewrite Ek in Hg. cbn [xw_map_has]. unfold has_key.
      destruct (lookup k ym); [reflexivity|exfalso; apply Hg; reflexivity]. }
    destruct Hm as [y' [Hy' Hk']]. exists y'. split; [|exact Hk'].
    apply in_flat_map. exists (VList l). split; [exact Hx|exact Hy'].
Qed.

Theorem xw_values_at_relation m pre k ga :
  pre <> [] -> str_eqb k star = false ->
  eval_filtered ga (pre ++ [k]) m <> [] ->
  values_at_spec ga (pre ++ [k]) m = eval_filtered ga pre m.
Proof.
  intros Hp Ek H. unfold values_at_spec.
  assert (L : last (pre ++ [k]) [] = k) by apply last_last.
  assert (R : removelast (pre ++ [k]) = pre) by apply removelast_last.
  rewrite L, R, Ek. cbn [orb].
  destruct pre as [|a pre']; [congruence|].
  destruct pre' as [|b t]; cbn [app];
    rewrite (values_from_nonempty_parent ga _ k m Ek H); reflexivity.
Qed.
