(* C14/C05 - the structure of the decoded Map does not depend on the cast flag, the cast
   options or decoder-side escaping: two runs of xmlToMapParser over the same tokens, under
   option records that agree on everything else, produce Maps with the same keys in the same
   positions, and corresponding leaves are the two leaf values of the same text and tag. *)
From Mxj Require Import Spec.CastSpec Proofs.StrLemmas Proofs.EscP Proofs.C14P.
Local Open Scope list_scope.

Section Par.
Variable pf : str -> option flt.
Variable skip : str -> bool.
Variables o0 o1 : opts.
Variables r0 r1 : bool.
Variable Lf : value -> value -> Prop.
Hypothesis Hso : same_structure_opts o0 o1.

(* the value the decoder stores for a text x (attribute value or trimmed character data) at tag t *)
Definition leaf_at (o : opts) (r : bool) (x t : str) : value :=
  cast pf skip o (if xmlEscapeCharsDecoder o then escape_chars x else x) r t.

Hypothesis Hleaf : forall x t, Lf (leaf_at o0 r0 x t) (leaf_at o1 r1 x t).
Hypothesis Hempty : Lf (VStr []) (VStr []).
Hypothesis Hint : forall z, Lf (VInt z) (VInt z).

Notation vr := (vrel Lf).
Notation er := (erel Lf).

Lemma leaf_rel x t : vr (leaf_at o0 r0 x t) (leaf_at o1 r1 x t).
Proof. apply VRLeaf; [apply cast_plain|apply cast_plain|apply Hleaf]. Qed.

Lemma er_nil : er [] [].
Proof. constructor. Qed.

Lemma er_set k v0 v1 m0 m1 : er m0 m1 -> vr v0 v1 -> er (set k v0 m0) (set k v1 m1).
Proof.
  intros H Hv. induction H as [|[k0 a0] [k1 a1] m0 m1 [Hk Ha] Hm IH]; cbn [set].
  - constructor; [split; [reflexivity|exact Hv]|constructor].
  - cbn in Hk, Ha. subst k1. destruct (str_eqb k k0).
    + constructor; [split; [reflexivity|exact Hv]|exact Hm].
    + constructor; [split; [reflexivity|exact Ha]|exact IH].
Qed.

Lemma er_lookup k m0 m1 : er m0 m1 ->
  match lookup k m0, lookup k m1 with
  | Some a, Some b => vr a b
  | None, None => True
  | _, _ => False
  end.
Proof.
  intros H. induction H as [|[k0 a0] [k1 a1] m0 m1 [Hk Ha] Hm IH]; cbn [lookup]; [exact I|].
  cbn in Hk, Ha. subst k1. destruct (str_eqb k k0); [exact Ha|exact IH].
Qed.

Lemma er_empty m0 m1 : er m0 m1 -> (m0 = [] /\ m1 = []) \/ (m0 <> [] /\ m1 <> []).
Proof. intros H. destruct H; [left; auto|right; split; discriminate]. Qed.

(* ---- option fields ---- *)
Lemma xform_eq k : xform_key o0 k = xform_key o1 k.
Proof. destruct Hso as (_ & _ & El & Es & _). unfold xform_key. rewrite El, Es. reflexivity. Qed.
Lemma attr_key_eq k : attr_key o0 k = attr_key o1 k.
Proof. destruct Hso as (Ea & _ & El & Es & _). unfold attr_key. rewrite Ea, El, Es. reflexivity. Qed.
Lemma textK_eq : textK o0 = textK o1.
Proof. destruct Hso as (_ & _ & _ & _ & _ & _ & _ & E). exact E. Qed.

Lemma attr_entries_rel a : er (attr_entries pf skip o0 r0 a) (attr_entries pf skip o1 r1 a).
Proof.
  unfold attr_entries.
  assert (forall acc0 acc1, er acc0 acc1 ->
    er (fold_left (fun na at_ =>
            let key := attr_key o0 (xlocal (aname at_)) in
            let v := if xmlEscapeCharsDecoder o0 then escape_chars (avalue at_) else avalue at_ in
            set key (cast pf skip o0 v r0 key) na) a acc0)
       (fold_left (fun na at_ =>
            let key := attr_key o1 (xlocal (aname at_)) in
            let v := if xmlEscapeCharsDecoder o1 then escape_chars (avalue at_) else avalue at_ in
            set key (cast pf skip o1 v r1 key) na) a acc1)) as H.
  { induction a as [|at_ a IH]; intros acc0 acc1 Hacc; cbn [fold_left]; [exact Hacc|].
    apply IH. cbv zeta. rewrite <- attr_key_eq. apply er_set; [exact Hacc|].
    exact (leaf_rel (avalue at_) (attr_key o0 (xlocal (aname at_)))). }
  apply H. apply er_nil.
Qed.

(* ---- values by class ---- *)
Lemma vr_leaf_inv v0 v1 : vr v0 v1 -> plain v0 = true -> plain v1 = true.
Proof. intros H P. inversion H; subst; [assumption|discriminate P|discriminate P]. Qed.

Lemma vr_int z : vr (VInt z) (VInt z).
Proof. apply VRLeaf; [reflexivity|reflexivity|apply Hint]. Qed.

Lemma wrap_rel v0 v1 seq : vr v0 v1 ->
  vr (VMap (set seq_key (VInt seq) [(textK o0, v0)])) (VMap (set seq_key (VInt seq) [(textK o1, v1)])).
Proof.
  intro H. apply VRMap. apply er_set; [|apply vr_int].
  constructor; [split; [exact textK_eq|exact H]|constructor].
Qed.

Lemma tag_seq_rel v0 v1 seq : vr v0 v1 ->
  vr (fst (tag_seq o0 v0 seq)) (fst (tag_seq o1 v1 seq)) /\ snd (tag_seq o0 v0 seq) = snd (tag_seq o1 v1 seq).
Proof.
  intro H. unfold tag_seq. destruct Hso as (_ & Et & _). rewrite <- Et.
  destruct (includeTagSeqNum o0); [|split; [exact H|reflexivity]].
  inversion H as [a b Pa Pb L|m0 m1 Hm|l0 l1 Hl]; subst.
  - pose proof (wrap_rel _ _ seq H) as W.
    destruct v0; try discriminate Pa; destruct v1; try discriminate Pb; (split; [exact W|reflexivity]).
  - cbn [fst snd]. split; [|reflexivity]. apply VRMap. apply er_set; [exact Hm|apply vr_int].
  - cbn [fst snd]. split; [exact H|reflexivity].
Qed.

Definition aslist (v val : value) : list value :=
  match v with VList a => a ++ [val] | _ => [v; val] end.
Lemma add_child_aslist key val na :
  add_child key val na =
  match lookup key na with
  | Some v => set key (VList (aslist v val)) na
  | None => set key val na
  end.
Proof. unfold add_child, aslist. destruct (lookup key na) as [v|]; [destruct v|]; reflexivity. Qed.

Lemma aslist_rel a b v0 v1 : vr a b -> vr v0 v1 -> Forall2 vr (aslist a v0) (aslist b v1).
Proof.
  intros H Hv. inversion H as [a' b' Pa Pb L|m0 m1 Hm|l0 l1 Hl]; subst.
  - destruct a; try discriminate Pa; destruct b; try discriminate Pb; cbn [aslist];
      (constructor; [exact H|constructor; [exact Hv|constructor]]).
  - cbn [aslist]. constructor; [exact H|constructor; [exact Hv|constructor]].
  - cbn [aslist]. apply Forall2_app; [exact Hl|constructor; [exact Hv|constructor]].
Qed.

Lemma add_child_rel k v0 v1 na0 na1 : er na0 na1 -> vr v0 v1 ->
  er (add_child k v0 na0) (add_child k v1 na1).
Proof.
  intros H Hv. rewrite !add_child_aslist. pose proof (er_lookup k _ _ H) as Hl.
  destruct (lookup k na0) as [a|], (lookup k na1) as [b|]; try contradiction.
  - apply er_set; [exact H|]. apply VRList. apply aslist_rel; assumption.
  - apply er_set; assumption.
Qed.

(* ---- the pending simple value n ---- *)
Definition orel (n0 n1 : option value) : Prop :=
  match n0, n1 with Some a, Some b => vr a b | None, None => True | _, _ => False end.

Lemma finish_elem_rel n0 n1 na0 na1 : orel n0 n1 -> er na0 na1 ->
  vr (finish_elem o0 n0 na0) (finish_elem o1 n1 na1).
Proof.
  intros Hn Hna. unfold finish_elem.
  destruct n0 as [a|], n1 as [b|]; try contradiction; cbn in Hn.
  - destruct Hna as [|x y m0 m1 Hxy Hm]; [exact Hn|].
    apply VRMap. rewrite <- textK_eq. apply er_set; [constructor; assumption|exact Hn].
  - destruct Hna as [|x y m0 m1 Hxy Hm]; [apply VRLeaf; [reflexivity|reflexivity|exact Hempty]|].
    apply VRMap. constructor; assumption.
Qed.

Lemma esc_empty_agree y :
  (if xmlEscapeCharsDecoder o0 then escape_chars y else y) = [] <->
  (if xmlEscapeCharsDecoder o1 then escape_chars y else y) = [].
Proof.
  destruct (xmlEscapeCharsDecoder o0), (xmlEscapeCharsDecoder o1); rewrite ?escape_nil_iff; reflexivity.
Qed.

Lemma on_chardata_rel skey x n0 n1 na0 na1 : orel n0 n1 -> er na0 na1 ->
  orel (fst (on_chardata pf skip o0 r0 skey x n0 na0)) (fst (on_chardata pf skip o1 r1 skey x n1 na1)) /\
  er (snd (on_chardata pf skip o0 r0 skey x n0 na0)) (snd (on_chardata pf skip o1 r1 skey x n1 na1)).
Proof.
  intros Hn Hna. unfold on_chardata.
  destruct Hso as (_ & _ & _ & _ & Etr & Esm & _ & Etk). rewrite <- Etr, <- Esm, <- Etk.
  set (y := trim (trimRunes o0) x).
  pose proof (esc_empty_agree y) as Hag.
  pose proof (leaf_rel y (textK o0)) as Lt. pose proof (leaf_rel y skey) as Ls. unfold leaf_at in Lt, Ls.
  destruct (if xmlEscapeCharsDecoder o0 then escape_chars y else y) as [|c0 t0] eqn:E0;
    destruct (if xmlEscapeCharsDecoder o1 then escape_chars y else y) as [|c1 t1] eqn:E1.
  - cbn [fst snd]. split; assumption.
  - exfalso. destruct Hag as [Hag _]. specialize (Hag eq_refl). discriminate.
  - exfalso. destruct Hag as [_ Hag]. specialize (Hag eq_refl). discriminate.
  - destruct (er_empty _ _ Hna) as [[-> ->]|[N0 N1]].
    + cbn [orb]. destruct (decodeSimpleValuesAsMap o0); cbn [fst snd].
      * split; [exact Hn|]. apply er_set; [apply er_nil|exact Lt].
      * split; [exact Ls|apply er_nil].
    + destruct na0 as [|e0 na0]; [contradiction|]. destruct na1 as [|e1 na1]; [contradiction|].
      cbn [orb fst snd]. split; [exact Hn|]. apply er_set; [exact Hna|exact Lt].
Qed.

(* ---- the element loop ---- *)
Definition lrel (a b : res ((str * value) * list tok)) : Prop :=
  match a, b with
  | Ok ((k0, v0), t0), Ok ((k1, v1), t1) => k0 = k1 /\ vr v0 v1 /\ t0 = t1
  | Err e0, Err e1 => e0 = e1
  | Panic, Panic => True
  | _, _ => False
  end.

Lemma elem_loop_rel : forall fuel skey n0 n1 na0 na1 seq ts tm,
  orel n0 n1 -> er na0 na1 ->
  lrel (elem_loop pf skip o0 r0 fuel skey n0 na0 seq ts tm)
       (elem_loop pf skip o1 r1 fuel skey n1 na1 seq ts tm).
Proof.
  induction fuel as [|fuel IH]; intros skey n0 n1 na0 na1 seq ts tm Hn Hna; cbn [elem_loop]; [exact I|].
  destruct ts as [|tk ts']; [destruct tm; reflexivity|].
  destruct tk as [nm a|nm|x|x|tg ins|x].
  - (* start tag *)
    rewrite <- xform_eq. set (ckey := xform_key o0 (xlocal nm)).
    pose proof (attr_entries_rel a) as Ha.
    assert (lrel
      (match ckey with
       | [] => Panic
       | _ :: _ => if handleXMPPStreamTag o0 && str_eqb ckey (s "stream")
                   then Ok (ckey, VMap (attr_entries pf skip o0 r0 a), ts')
                   else elem_loop pf skip o0 r0 fuel ckey None (attr_entries pf skip o0 r0 a) 0 ts' tm
       end)
      (match ckey with
       | [] => Panic
       | _ :: _ => if handleXMPPStreamTag o1 && str_eqb ckey (s "stream")
                   then Ok (ckey, VMap (attr_entries pf skip o1 r1 a), ts')
                   else elem_loop pf skip o1 r1 fuel ckey None (attr_entries pf skip o1 r1 a) 0 ts' tm
       end)) as Hc.
    { destruct ckey as [|c ck]; [exact I|].
      destruct Hso as (_ & _ & _ & _ & _ & _ & Ex & _). rewrite <- Ex.
      destruct (handleXMPPStreamTag o0 && str_eqb (c :: ck) (s "stream")).
      - cbn. split; [reflexivity|split; [apply VRMap; exact Ha|reflexivity]].
      - apply IH; [exact I|exact Ha]. }
    destruct (match ckey with [] => Panic | _ :: _ => if handleXMPPStreamTag o0 && _ then _ else _ end)
      as [[[k0 v0] rest0]|e0|];
    destruct (match ckey with [] => Panic | _ :: _ => if handleXMPPStreamTag o1 && _ then _ else _ end)
      as [[[k1 v1] rest1]|e1|]; cbn in Hc; try contradiction; try exact Hc.
    destruct Hc as (-> & Hv & ->).
    destruct (tag_seq_rel _ _ seq Hv) as [Hv' Hs].
    destruct (tag_seq o0 v0 seq) as [v0' s0]. destruct (tag_seq o1 v1 seq) as [v1' s1].
    cbn [fst snd] in Hv', Hs. subst s1.
    apply IH; [exact Hn|apply add_child_rel; assumption].
  - (* end tag *)
    cbn. split; [reflexivity|split; [apply finish_elem_rel; assumption|reflexivity]].
  - (* character data *)
    destruct (on_chardata_rel skey x _ _ _ _ Hn Hna) as [Hn' Hna'].
    destruct (on_chardata pf skip o0 r0 skey x n0 na0) as [n0' na0'].
    destruct (on_chardata pf skip o1 r1 skey x n1 na1) as [n1' na1'].
    apply IH; assumption.
  - apply IH; assumption.
  - apply IH; assumption.
  - apply IH; assumption.
Qed.

Definition trel (a b : res (entries * list tok)) : Prop :=
  match a, b with
  | Ok (m0, t0), Ok (m1, t1) => er m0 m1 /\ t0 = t1
  | Err e0, Err e1 => e0 = e1
  | Panic, Panic => True
  | _, _ => False
  end.

Lemma top_loop_rel fuel : forall ts tm,
  trel (top_loop pf skip o0 r0 fuel ts tm) (top_loop pf skip o1 r1 fuel ts tm).
Proof.
  induction ts as [|tk ts' IH]; intro tm; cbn [top_loop]; [destruct tm; reflexivity|].
  destruct tk as [nm a|nm|x|x|tg ins|x]; try apply IH; [|exact I].
  rewrite <- xform_eq. set (ckey := xform_key o0 (xlocal nm)).
  pose proof (attr_entries_rel a) as Ha.
  destruct ckey as [|c ck]; [exact I|].
  destruct Hso as (_ & _ & _ & _ & _ & _ & Ex & _). rewrite <- Ex.
  destruct (handleXMPPStreamTag o0 && str_eqb (c :: ck) (s "stream")).
  - cbn. split; [|reflexivity]. constructor; [split; [reflexivity|apply VRMap; exact Ha]|constructor].
  - pose proof (elem_loop_rel fuel (c :: ck) None None _ _ 0%Z ts' tm I Ha) as Hl.
    destruct (elem_loop pf skip o0 r0 fuel (c :: ck) None (attr_entries pf skip o0 r0 a) 0 ts' tm)
      as [[[k0 v0] rest0]|e0|];
    destruct (elem_loop pf skip o1 r1 fuel (c :: ck) None (attr_entries pf skip o1 r1 a) 0 ts' tm)
      as [[[k1 v1] rest1]|e1|]; cbn in Hl; try contradiction; try exact Hl.
    destruct Hl as (-> & Hv & ->). cbn. split; [|reflexivity].
    constructor; [split; [reflexivity|exact Hv]|constructor].
Qed.

Theorem decode_rel ts tm :
  rrel Lf (xml_decode pf skip o0 r0 ts tm) (xml_decode pf skip o1 r1 ts tm).
Proof.
  unfold xml_decode, xml_decode_rest.
  pose proof (top_loop_rel (S (length ts)) ts tm) as H.
  destruct (top_loop pf skip o0 r0 (S (length ts)) ts tm) as [[m0 t0]|e0|];
  destruct (top_loop pf skip o1 r1 (S (length ts)) ts tm) as [[m1 t1]|e1|]; cbn in H; try contradiction; cbn.
  - destruct H as [H _]. apply VRMap. exact H.
  - exact H.
  - exact I.
Qed.
End Par.

(* ---------------- consequences of the relation ---------------- *)
Lemma same_structure_refl o : same_structure_opts o o.
Proof. repeat split. Qed.

(* a relation that determines the second leaf makes the second Map a function of the first *)
Lemma vrel_map_leaves (Lf : value -> value -> Prop) (f : str -> value) :
  (forall v0 v1, plain v0 = true -> Lf v0 v1 -> v1 = map_leaves f v0) ->
  forall v0 v1, vrel Lf v0 v1 -> v1 = map_leaves f v0.
Proof.
  intros HL. induction v0 as [x|b| |z|z|z|g|x|m IH|l IH] using value_ind2; intros v1 H;
    inversion H as [a b' Pa Pb L|m0 m1 Hm|l0 l1 Hl]; subst; try (apply HL; assumption); try discriminate.
  - cbn [map_leaves]. f_equal. clear H. revert m1 Hm. induction IH as [|[k v] m Hv Hm' IHm]; intros m1 Hm.
    + inversion Hm. reflexivity.
    + inversion Hm as [|x y l l' [Hk Hxy] Hrest]; subst. destruct y as [k' v']. cbn in Hk, Hxy. subst k'.
      cbn [map fst snd]. rewrite (Hv _ Hxy). f_equal. apply IHm. exact Hrest.
  - cbn [map_leaves]. f_equal. clear H. revert l1 Hl. induction IH as [|v l Hv Hl' IHl]; intros l1 Hl.
    + inversion Hl. reflexivity.
    + inversion Hl as [|x y l0' l1' Hxy Hrest]; subst. cbn [map]. rewrite (Hv _ Hxy). f_equal. apply IHl. exact Hrest.
Qed.

(* a relation whose second leaves all satisfy p makes every leaf of the second Map satisfy p *)
Lemma vrel_all_leaves (Lf : value -> value -> Prop) (p : value -> bool) :
  (forall v0 v1, plain v1 = true -> Lf v0 v1 -> p v1 = true) ->
  forall v0 v1, vrel Lf v0 v1 -> all_leaves p v1 = true.
Proof.
  intros HL. induction v0 as [x|b| |z|z|z|g|x|m IH|l IH] using value_ind2; intros v1 H;
    inversion H as [a b' Pa Pb L|m0 m1 Hm|l0 l1 Hl]; subst; try discriminate;
    try (destruct v1; try discriminate Pb; cbn [all_leaves]; eapply HL; eauto; fail).
  - cbn [all_leaves]. clear H. revert m1 Hm. induction IH as [|[k v] m Hv Hm' IHm]; intros m1 Hm.
    + inversion Hm. reflexivity.
    + inversion Hm as [|x y l l' [Hk Hxy] Hrest]; subst. cbn [forallb]. cbn in Hxy.
      rewrite (Hv _ Hxy). cbn [andb]. apply IHm. exact Hrest.
  - cbn [all_leaves]. clear H. revert l1 Hl. induction IH as [|v l Hv Hl' IHl]; intros l1 Hl.
    + inversion Hl. reflexivity.
    + inversion Hl as [|x y l0' l1' Hxy Hrest]; subst. cbn [forallb]. rewrite (Hv _ Hxy). cbn [andb].
      apply IHl. exact Hrest.
Qed.

Section Inst.
Variable pf : str -> option flt.
Variable skip : str -> bool.
Variable o : opts.

(* (1) cast flag on vs off: same shape, each string leaf replaced by the cast of its own text *)
Definition cast_leaf (v0 v1 : value) : Prop :=
  (exists x, v0 = VStr x /\ exists t, v1 = cast pf skip o x true t) \/ (exists z, v0 = VInt z /\ v1 = VInt z).

Lemma cast_structure_l : H0 pf -> forall ts tm,
  rrel cast_leaf (xml_decode pf skip o false ts tm) (xml_decode pf skip o true ts tm).
Proof.
  intros Hpf ts tm. apply decode_rel.
  - apply same_structure_refl.
  - intros x t. unfold leaf_at. rewrite cast_off. left. eexists. split; [reflexivity|]. exists t. reflexivity.
  - left. exists []. split; [reflexivity|]. exists []. symmetry. apply cast_empty. exact Hpf.
  - intro z. right. exists z. auto.
Qed.

(* (2) decoding without the cast flag yields only string leaves *)
Lemma uncast_only_strings_l ts tm v :
  xml_decode pf skip o false ts tm = Ok v -> only_strings v = true.
Proof.
  intro E.
  pose proof (decode_rel pf skip o o false false (fun _ v1 => string_leaf v1 = true)
                (same_structure_refl o)) as H.
  specialize (H (fun x t => eq_trans (f_equal string_leaf (cast_off pf skip o _ t)) eq_refl) eq_refl (fun z => eq_refl) ts tm).
  rewrite E in H. cbn in H.
  eapply (vrel_all_leaves _ string_leaf); [|exact H]. intros v0 v1 _ L. exact L.
Qed.

(* (3) unless CastNanInf is on, the cast-decoded Map has no NaN / Inf leaf: Json() accepts it *)
Lemma cast_json_ok_l r ts tm v :
  castNanInf o = false -> xml_decode pf skip o r ts tm = Ok v -> json_ok v = true.
Proof.
  intros Cn E.
  pose proof (decode_rel pf skip o o r r (fun _ v1 => finite_leaf v1 = true)
                (same_structure_refl o)) as H.
  specialize (H (fun x t => cast_json_leaf pf skip o _ r t Cn) eq_refl (fun z => eq_refl) ts tm).
  rewrite E in H. cbn in H.
  eapply (vrel_all_leaves _ finite_leaf); [|exact H]. intros v0 v1 _ L. exact L.
Qed.
End Inst.

(* (4) without a skip function the cast-decoded Map IS the plain Map with every string leaf cast *)
Lemma cast_structure_noskip_l pf o : H0 pf -> forall ts tm,
  xml_decode pf noskip o true ts tm =
  map_leaves_res (fun x => cast pf noskip o x true []) (xml_decode pf noskip o false ts tm).
Proof.
  intros Hpf ts tm.
  set (f := fun x => cast pf noskip o x true []).
  pose proof (decode_rel pf noskip o o false true (fun v0 v1 => v1 = map_leaves f v0)
                (same_structure_refl o)) as H.
  assert (forall x t, leaf_at pf noskip o true x t = map_leaves f (leaf_at pf noskip o false x t)) as Hl.
  { intros x t. unfold leaf_at. rewrite cast_off. cbn [map_leaves]. unfold f. apply cast_noskip_tag. }
  specialize (H Hl).
  assert (VStr [] = map_leaves f (VStr [])) as He.
  { cbn [map_leaves]. unfold f. symmetry. apply cast_empty. exact Hpf. }
  specialize (H He (fun z => eq_refl) ts tm).
  destruct (xml_decode pf noskip o false ts tm) as [v0|e0|];
    destruct (xml_decode pf noskip o true ts tm) as [v1|e1|]; cbn in H; try contradiction; cbn [map_leaves_res].
  - f_equal. eapply vrel_map_leaves; [|exact H]. intros a b _ L. exact L.
  - subst. reflexivity.
  - reflexivity.
Qed.

(* (5) decoder-side escaping: the decoded Map is the plain Map with every string leaf escaped *)
Lemma dec_esc_reproduces_l pf skip o0 o1 : same_structure_opts o0 o1 ->
  xmlEscapeCharsDecoder o0 = false -> xmlEscapeCharsDecoder o1 = true -> forall ts tm,
  xml_decode pf skip o1 false ts tm =
  map_leaves_res (fun x => VStr (escape_chars x)) (xml_decode pf skip o0 false ts tm).
Proof.
  intros Hso E0 E1 ts tm.
  set (f := fun x => VStr (escape_chars x)).
  pose proof (decode_rel pf skip o0 o1 false false (fun v0 v1 => v1 = map_leaves f v0) Hso) as H.
  assert (forall x t, leaf_at pf skip o1 false x t = map_leaves f (leaf_at pf skip o0 false x t)) as Hl.
  { intros x t. unfold leaf_at. rewrite !cast_off, E0, E1. reflexivity. }
  specialize (H Hl eq_refl (fun z => eq_refl) ts tm).
  destruct (xml_decode pf skip o0 false ts tm) as [v0|e0|];
    destruct (xml_decode pf skip o1 false ts tm) as [v1|e1|]; cbn in H; try contradiction; cbn [map_leaves_res].
  - f_equal. eapply vrel_map_leaves; [|exact H]. intros a b _ L. exact L.
  - subst. reflexivity.
  - reflexivity.
Qed.
