(* C04 / C15: the shape invariant of the MapSeq values the sequence decoder returns, and the
   encoder's freedom from panics on every value of that shape. *)
From Coq Require Import Permutation Sorting.Sorted.
From Mxj Require Import Spec.SeqSpec Proofs.StrLemmas Proofs.C04Sort Proofs.C04Map Proofs.C04Enc.

Section Shape.
Variable e : bool.
Notation o := (seq_o e).

Definition is_str (v : option value) : bool := match v with Some (VStr _) => true | _ => false end.

(* the "#attr" entry, when it is a map, maps every attribute name to a map *)
Definition attr_map_ok (m : entries) : bool :=
  match lookup (attrK o) m with
  | Some (VMap aa) => forallb (fun kv => is_map (snd kv)) aa
  | _ => true
  end.

(* [seq_shape v k]: v is a value the decoder may store under key k.
   - under "#comment" / "#directive": a map whose "#text" is a string;
   - under "#procinst": a map whose "#target" and "#inst" are strings;
   - under any other key: a map whose "#attr" entry is well shaped and whose entries other than
     "#attr", "#seq", "#text" are of the shape for their key; a list of such; or a scalar. *)
Fixpoint seq_shape (v : value) (k : str) {struct v} : bool :=
  match v with
  | VMap m =>
      if str_eqb k (commentK o) || str_eqb k (directiveK o) then is_str (lookup (textK o) m)
      else if str_eqb k (procinstK o) then is_str (lookup (targetK o) m) && is_str (lookup (instK o) m)
      else attr_map_ok m &&
           (fix go (m : entries) : bool :=
              match m with
              | [] => true
              | kx :: t => (skipk o (fst kx) || seq_shape (snd kx) (fst kx)) && go t
              end) m
  | VList l =>
      (fix go (l : list value) : bool :=
         match l with [] => true | x :: t => seq_shape x k && go t end) l
  | _ => true
  end.

Definition entries_ok (m : entries) : bool :=
  forallb (fun kx => skipk o (fst kx) || seq_shape (snd kx) (fst kx)) m.
Definition map_ok (m : entries) : bool := attr_map_ok m && entries_ok m.

Lemma seq_shape_map k m : is_special_key o k = false -> seq_shape (VMap m) k = map_ok m.
Proof.
  unfold is_special_key. intros H.
  apply orb_false_iff in H. destruct H as [H H3]. apply orb_false_iff in H. destruct H as [H1 H2].
  cbn [seq_shape]. rewrite H1, H2, H3. cbn [orb]. unfold map_ok. f_equal.
Qed.

Lemma seq_shape_list k l : seq_shape (VList l) k = forallb (fun x => seq_shape x k) l.
Proof. cbn [seq_shape]. induction l as [|x t IH]; [reflexivity|]. cbn [forallb]. rewrite IH. reflexivity. Qed.

(* ---------------- the encoder does not panic on shaped values ---------------- *)
Lemma bind_nopanic {A B} (r : res A) (f : A -> res B) :
  r <> Panic -> (forall a, r = Ok a -> f a <> Panic) -> bind r f <> Panic.
Proof. destruct r; cbn [bind]; intros H1 H2; [apply H2; reflexivity|discriminate|congruence]. Qed.

Lemma sconcat_nopanic rs : Forall (fun r : res (list sitem) => r <> Panic) rs -> sconcat rs <> Panic.
Proof.
  induction 1 as [|r t Hr Ht IH]; cbn [sconcat]; [discriminate|].
  apply bind_nopanic; [exact Hr|]. intros a _. apply bind_nopanic; [exact IH|]. intros b _. discriminate.
Qed.

Lemma sattrs_loop_nopanic l :
  forallb (fun kv : str * value => is_map (snd kv)) l = true -> sattrs_loop o l <> Panic.
Proof.
  induction l as [|[k v] t IH]; cbn [forallb sattrs_loop]; [discriminate|].
  intros H. apply andb_true_iff in H. destruct H as [Hv Ht]. cbn [snd] in Hv.
  destruct v; try discriminate Hv.
  destruct (sattr_text o (lookup (textK o) m)); [|discriminate].
  apply bind_nopanic; [apply IH; exact Ht|]. intros; discriminate.
Qed.

Lemma forallb_perm {A} (f : A -> bool) l l' : Permutation l l' -> forallb f l = forallb f l'.
Proof.
  induction 1; cbn [forallb]; try congruence.
  destruct (f y), (f x); reflexivity.
Qed.

Lemma sattrs_nopanic m : attr_map_ok m = true -> sattrs o m <> Panic.
Proof.
  unfold attr_map_ok, sattrs. destruct (lookup (attrK o) m) as [[]|]; try discriminate.
  intros H. unfold seq_sort. cbn [bind].
  apply bind_nopanic; [|intros; discriminate].
  apply sattrs_loop_nopanic. rewrite (forallb_perm _ _ _ (isort_perm _ m0)). exact H.
Qed.

Definition nopanic (v : value) : Prop := forall k, seq_shape v k = true -> senc o v k <> Panic.

Lemma senc_nopanic_all v :
  nopanic v /\ (forall l, v = VList l -> Forall nopanic l).
Proof.
  induction v as [x|b| |z|z|z|f|x|m IH|l IH] using value_ind2;
    try (split; [intros k _; cbn [senc]; discriminate|intros l0 H0; discriminate H0]).
  - (* map *)
    split; [|intros l0 H0; discriminate H0].
    intros k Hs.
    destruct (is_special_key o k) eqn:Hsp.
    + (* comment / directive / procinst *)
      unfold is_special_key in Hsp. cbn [seq_shape] in Hs. cbn [senc].
      destruct (str_eqb k (commentK o)) eqn:E1.
      * cbn [orb] in Hs. destruct (lookup (textK o) m) as [[]|]; try discriminate Hs. discriminate.
      * destruct (str_eqb k (directiveK o)) eqn:E2.
        -- cbn [orb] in Hs. destruct (lookup (textK o) m) as [[]|]; try discriminate Hs. discriminate.
        -- cbn [orb] in Hs, Hsp. rewrite Hsp in *.
           apply andb_true_iff in Hs. destruct Hs as [Ht Hi].
           destruct (lookup (targetK o) m) as [[]|]; try discriminate Ht.
           destruct (lookup (instK o) m) as [[]|]; try discriminate Hi. discriminate.
    + rewrite (seq_shape_map k m Hsp) in Hs. unfold map_ok in Hs.
      apply andb_true_iff in Hs. destruct Hs as [Ha He].
      rewrite (senc_map e k m Hsp).
      apply bind_nopanic; [apply sattrs_nopanic; exact Ha|].
      intros ha _. cbn zeta.
      assert (G : bind (seq_sort o (fun t : str * value * res (list sitem) => snd (fst t)) (kid_triples o m))
                    (fun sorted => bind (sconcat (map snd sorted))
                       (fun body => Ok (SI (IOpen k (snd ha)) :: lead_text o m ++ body ++ [SI (IClose k)]))) <> Panic).
      { unfold seq_sort. cbn [bind]. apply bind_nopanic; [|intros; discriminate].
        apply sconcat_nopanic.
        assert (F : Forall (fun t : str * value * res (list sitem) => snd t <> Panic) (kid_triples o m)).
        { rewrite kid_triples_unroll. apply Forall_forall. intros t Ht.
          apply in_map_iff in Ht. destruct Ht as (kx & <- & Hkx). unfold triple. cbn [snd].
          unfold unroll in Hkx. apply in_flat_map in Hkx. destruct Hkx as (en & Hen & Hin).
          unfold entries_ok in He. rewrite forallb_forall in He. specialize (He en Hen).
          rewrite Forall_forall in IH. specialize (IH en Hen). destruct IH as [IH1 IH2].
          unfold unroll1 in Hin. destruct (skipk o (fst en)) eqn:Esk; [destruct Hin|].
          cbn [orb] in He.
          destruct (snd en) as [x|b| |z|z|z|f|x|m'|l'] eqn:Ev;
            try (destruct Hin as [<-|[]]; cbn [fst snd]; apply IH1; exact He).
          (* a list: its members are encoded one by one *)
          apply in_map_iff in Hin. destruct Hin as (x & <- & Hx). cbn [fst snd].
          specialize (IH2 l' eq_refl). rewrite Forall_forall in IH2. apply (IH2 x Hx).
          rewrite seq_shape_list in He. rewrite forallb_forall in He. apply He. exact Hx. }
        apply Forall_forall. intros r Hr. apply in_map_iff in Hr. destruct Hr as (t & <- & Ht).
        rewrite Forall_forall in F. apply F.
        eapply Permutation_in; [apply isort_perm|exact Ht]. }
      destruct (lookup (textK o) m) as [tv|].
      * destruct (Nat.eqb (length m) (if fst ha then 3 else 2) && has_key (seqK o) m); [|exact G].
        destruct tv as [x| | | | | | | | |]; try discriminate. destruct x; discriminate.
      * destruct (Nat.eqb (length m) (if fst ha then 2 else 1) && has_key (seqK o) m); [discriminate|exact G].
  - (* list *)
    assert (F : Forall nopanic l).
    { eapply Forall_impl; [|exact IH]. cbn beta. intros a Ha. apply Ha. }
    split; [|intros l0 H0; injection H0 as <-; exact F].
    intros k Hs. cbn [senc]. apply sconcat_nopanic.
    rewrite seq_shape_list in Hs. rewrite forallb_forall in Hs.
    apply Forall_forall. intros r Hr. apply in_map_iff in Hr. destruct Hr as (x & <- & Hx).
    rewrite Forall_forall in F. apply (F x Hx). apply Hs. exact Hx.
Qed.

Theorem senc_nopanic v k : seq_shape v k = true -> senc o v k <> Panic.
Proof. apply (proj1 (senc_nopanic_all v)). Qed.
End Shape.
