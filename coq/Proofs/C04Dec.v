(* C04, decoder half: on the RawToken stream of an abstract document the token-loop model
   computes the structurally defined [node_val] (fuel never runs out). *)
From Mxj Require Import Spec.SeqSpec Proofs.StrLemmas.

(* nested induction principle for documents *)
Section node_ind2.
  Variable P : node -> Prop.
  Hypothesis HElem : forall nm a text kids, Forall P kids -> P (NElem nm a text kids).
  Hypothesis HComment : forall x, P (NComment x).
  Hypothesis HDirective : forall x, P (NDirective x).
  Hypothesis HProcInst : forall t i, P (NProcInst t i).
  Fixpoint node_ind2 (d : node) : P d :=
    match d with
    | NElem nm a text kids =>
        HElem nm a text kids ((fix go (l : list node) : Forall P l :=
                                 match l with
                                 | [] => Forall_nil _
                                 | x :: t => Forall_cons x (node_ind2 x) (go t)
                                 end) kids)
    | NComment x => HComment x
    | NDirective x => HDirective x
    | NProcInst t i => HProcInst t i
    end.
End node_ind2.

Fixpoint names_ne (d : node) : bool :=
  match d with
  | NElem nm _ _ kids => nonempty (xfull nm) && forallb names_ne kids
  | _ => true
  end.

Section Dec.
Variable pf : str -> option flt.
Variable skip : str -> bool.
Variable e : bool.
Notation o := (seq_o e).

Definition init_na (a : list xattr) : entries := seq_init_na pf skip o false a.
Definition inj (v : value) (sq : Z) : value := fst (seq_inject o v sq).

Definition kid_key (k : node) : str :=
  match k with
  | NElem nm _ _ _ => xfull nm
  | NComment _ => commentK o
  | NDirective _ => directiveK o
  | NProcInst _ _ => procinstK o
  end.

(* how the parent's map receives a child whose value (before "#seq" injection) is v *)
Definition kid_put (k : node) (v : value) (na : entries) (sq : Z) : entries :=
  match k with
  | NElem _ _ _ _ => add_child (kid_key k) (inj v sq) na
  | _ => set (kid_key k) (inj v sq) na
  end.

Definition text_state (a : list xattr) (text : str) : entries * Z :=
  match trim trim_all text with
  | [] => (init_na a, 0%Z)
  | c :: t => (set (seqK o) (VInt 0) (set (textK o) (VStr (c :: t)) (init_na a)), 1%Z)
  end.

Definition finish (na : entries) : value := match na with [] => VStr [] | _ => VMap na end.

(* the value the decoder builds for a node, before the parent injects the sequence number *)
Fixpoint node_val (d : node) : value :=
  match d with
  | NElem nm a text kids =>
      finish (fst (fold_left (fun st k => (kid_put k (node_val k) (fst st) (snd st), (snd st + 1)%Z))
                             kids (text_state a text)))
  | NComment x => VMap [(textK o, VStr x)]
  | NDirective x => VMap [(textK o, VStr x)]
  | NProcInst t i => VMap [(targetK o, VStr t); (instK o, VStr i)]
  end.

Definition kid_step (st : entries * Z) (k : node) : entries * Z :=
  (kid_put k (node_val k) (fst st) (snd st), (snd st + 1)%Z).

Lemma node_val_elem nm a text kids :
  node_val (NElem nm a text kids) = finish (fst (fold_left kid_step kids (text_state a text))).
Proof. reflexivity. Qed.

Definition body_toks (text : str) (kids : list node) : list tok :=
  (match text with [] => [] | _ => [TChar text] end) ++ flat_map rawtoks_of kids.

(* ---------------- one-step unfoldings of the token loop ---------------- *)
Notation loop := (sloop pf skip o false).

Lemma loop_comment f skey na sq x ts :
  nonempty skey = true ->
  loop (S f) skey na sq (TComment x :: ts) TermEOF
  = loop f skey (set (commentK o) (inj (VMap [(textK o, VStr x)]) sq) na) (sq + 1)%Z ts TermEOF.
Proof. destruct skey; [discriminate|reflexivity]. Qed.

Lemma loop_directive f skey na sq x ts :
  nonempty skey = true ->
  loop (S f) skey na sq (TDirective x :: ts) TermEOF
  = loop f skey (set (directiveK o) (inj (VMap [(textK o, VStr x)]) sq) na) (sq + 1)%Z ts TermEOF.
Proof. destruct skey; [discriminate|reflexivity]. Qed.

Lemma loop_procinst f skey na sq t i ts :
  nonempty skey = true ->
  loop (S f) skey na sq (TProcInst t i :: ts) TermEOF
  = loop f skey (set (procinstK o) (inj (VMap [(targetK o, VStr t); (instK o, VStr i)]) sq) na) (sq + 1)%Z ts TermEOF.
Proof. destruct skey; [discriminate|reflexivity]. Qed.

Lemma loop_end f skey na sq nm ts :
  nonempty skey = true -> skey = xfull nm ->
  loop (S f) skey na sq (TEnd nm :: ts) TermEOF = Ok ((skey, finish na), ts).
Proof.
  intros H E. destruct skey as [|c k]; [discriminate|].
  cbn [sloop]. unfold snake. cbn [snakeCaseKeys seq_o opts0].
  change (full_name (xspace nm) (xlocal nm)) with (xfull nm).
  rewrite <- E, str_eqb_refl. reflexivity.
Qed.

Lemma loop_char f skey na sq x ts :
  nonempty skey = true ->
  loop (S f) skey na sq (TChar x :: ts) TermEOF
  = match trim trim_all x with
    | [] => loop f skey na sq ts TermEOF
    | c :: t => loop f skey (set (seqK o) (VInt sq) (set (textK o) (VStr (c :: t)) na)) (sq + 1)%Z ts TermEOF
    end.
Proof.
  intros H. destruct skey as [|c k]; [discriminate|].
  cbn [sloop]. cbn [xmlEscapeCharsDecoder trimRunes seq_o opts0].
  destruct (trim trim_all x); reflexivity.
Qed.

Lemma loop_start f skey na sq nm a ts :
  nonempty skey = true -> nonempty (xfull nm) = true ->
  loop (S f) skey na sq (TStart nm a :: ts) TermEOF
  = match loop f (xfull nm) (init_na a) 0%Z ts TermEOF with
    | Ok ((key, val), rest) =>
        let '(val', seq') := seq_inject o val sq in
        loop f skey (add_child key val' na) seq' rest TermEOF
    | Err er => Err er
    | Panic => Panic
    end.
Proof.
  intros H Hn. destruct skey as [|c k]; [discriminate|].
  cbn [sloop]. unfold snake. cbn [snakeCaseKeys handleXMPPStreamTag seq_o opts0 andb].
  rewrite Hn. reflexivity.
Qed.

Lemma seq_inject_node_val d sq : seq_inject o (node_val d) sq = (inj (node_val d) sq, (sq + 1)%Z).
Proof.
  unfold inj. destruct d as [nm a text kids| | |]; try reflexivity.
  rewrite node_val_elem. unfold finish.
  destruct (fst (fold_left kid_step kids (text_state a text))); reflexivity.
Qed.

(* ---------------- the loop over the children ---------------- *)
Definition elem_decodes (d : node) : Prop :=
  match d with
  | NElem nm a text kids =>
      names_ne d = true ->
      forall fuel rest,
        length (body_toks text kids) < fuel ->
        loop fuel (xfull nm) (init_na a) 0%Z (body_toks text kids ++ TEnd nm :: rest) TermEOF
        = Ok ((xfull nm, node_val d), rest)
  | _ => True
  end.

Lemma kids_loop kids :
  Forall elem_decodes kids ->
  forall fuel skey na sq nm rest,
    nonempty skey = true -> skey = xfull nm -> forallb names_ne kids = true ->
    length (flat_map rawtoks_of kids) < fuel ->
    loop fuel skey na sq (flat_map rawtoks_of kids ++ TEnd nm :: rest) TermEOF
    = Ok ((skey, finish (fst (fold_left kid_step kids (na, sq)))), rest).
Proof.
  induction 1 as [|k ks Hk Hks IH]; intros fuel skey na sq nm rest Hs En Hne Hf.
  - cbn [flat_map app fold_left fst]. destruct fuel as [|f]; [cbn in Hf; lia|].
    apply loop_end; assumption.
  - cbn [forallb] in Hne. apply andb_true_iff in Hne. destruct Hne as [Hnk Hnks].
    cbn [flat_map fold_left]. rewrite <- app_assoc.
    cbn [flat_map] in Hf. rewrite app_length in Hf.
    destruct k as [knm ka ktext kkids|x|x|t i].
    + (* element child *)
      cbn [rawtoks_of] in *. cbn [app length] in Hf. rewrite !app_length in Hf. cbn [length] in Hf.
      destruct fuel as [|f]; [lia|].
      cbn [app]. rewrite <- !app_assoc. cbn [app].
      assert (Hkn : nonempty (xfull knm) = true).
      { cbn [names_ne] in Hnk. apply andb_true_iff in Hnk. apply Hnk. }
      rewrite (loop_start f skey na sq knm ka _ Hs Hkn).
      change ((match ktext with [] => [] | _ :: _ => [TChar ktext] end) ++ flat_map rawtoks_of kkids
              ++ TEnd knm :: flat_map rawtoks_of ks ++ TEnd nm :: rest)
        with ((match ktext with [] => [] | _ :: _ => [TChar ktext] end) ++ flat_map rawtoks_of kkids
              ++ TEnd knm :: (flat_map rawtoks_of ks ++ TEnd nm :: rest)).
      rewrite app_assoc.
      change ((match ktext with [] => [] | _ :: _ => [TChar ktext] end) ++ flat_map rawtoks_of kkids)
        with (body_toks ktext kkids).
      cbn [elem_decodes] in Hk.
      rewrite (Hk Hnk f (flat_map rawtoks_of ks ++ TEnd nm :: rest)).
      2:{ unfold body_toks. rewrite app_length. lia. }
      rewrite seq_inject_node_val.
      rewrite (IH f skey _ _ nm rest Hs En Hnks); [reflexivity|lia].
    + cbn [rawtoks_of app length] in *. destruct fuel as [|f]; [lia|].
      rewrite (loop_comment f skey na sq x _ Hs).
      rewrite (IH f skey _ _ nm rest Hs En Hnks); [reflexivity|lia].
    + cbn [rawtoks_of app length] in *. destruct fuel as [|f]; [lia|].
      rewrite (loop_directive f skey na sq x _ Hs).
      rewrite (IH f skey _ _ nm rest Hs En Hnks); [reflexivity|lia].
    + cbn [rawtoks_of app length] in *. destruct fuel as [|f]; [lia|].
      rewrite (loop_procinst f skey na sq t i _ Hs).
      rewrite (IH f skey _ _ nm rest Hs En Hnks); [reflexivity|lia].
Qed.

Lemma elem_decodes_all d : elem_decodes d.
Proof.
  induction d as [nm a text kids IH|x|x|t i] using node_ind2; cbn [elem_decodes]; try exact I.
  intros Hne fuel rest Hf.
  cbn [names_ne] in Hne. apply andb_true_iff in Hne. destruct Hne as [Hn Hks].
  rewrite node_val_elem. unfold body_toks in *. unfold text_state.
  destruct text as [|c t].
  - cbn [app trim]. change (trim trim_all []) with (@nil ascii).
    cbn [app] in Hf.
    apply (kids_loop kids IH fuel (xfull nm) _ _ nm rest Hn eq_refl Hks Hf).
  - cbn [app length] in Hf.
    destruct fuel as [|f]; [lia|].
    cbn [app]. rewrite (loop_char f (xfull nm) _ _ (c :: t) _ Hn).
    destruct (trim trim_all (c :: t)) eqn:Et.
    + apply (kids_loop kids IH f (xfull nm) _ _ nm rest Hn eq_refl Hks). lia.
    + apply (kids_loop kids IH f (xfull nm) _ _ nm rest Hn eq_refl Hks). lia.
Qed.

Lemma loop_top_start f nm a ts :
  nonempty (xfull nm) = true ->
  loop (S f) [] [] 0%Z (TStart nm a :: ts) TermEOF = loop f (xfull nm) (init_na a) 0%Z ts TermEOF.
Proof.
  intros Hn. cbn [sloop]. unfold snake. cbn [snakeCaseKeys handleXMPPStreamTag seq_o opts0 andb].
  rewrite Hn. reflexivity.
Qed.

(* NewMapXmlSeq on the RawToken stream of a document whose root is an element *)
Theorem seq_decode_doc nm a text kids :
  names_ne (NElem nm a text kids) = true ->
  seq_decode pf skip o false (rawtoks_of (NElem nm a text kids)) TermEOF
  = Ok (VMap [(xfull nm, node_val (NElem nm a text kids))]).
Proof.
  intros Hne. unfold seq_decode, seq_decode_rest.
  assert (Hn : nonempty (xfull nm) = true).
  { cbn [names_ne] in Hne. apply andb_true_iff in Hne. apply Hne. }
  cbn [rawtoks_of].
  rewrite (loop_top_start _ nm a _ Hn).
  assert (H := elem_decodes_all (NElem nm a text kids)). cbn [elem_decodes] in H.
  change ((match text with [] => [] | _ :: _ => [TChar text] end) ++ flat_map rawtoks_of kids ++ [TEnd nm])
    with ((match text with [] => [] | _ :: _ => [TChar text] end) ++ flat_map rawtoks_of kids ++ TEnd nm :: []).
  rewrite app_assoc.
  change ((match text with [] => [] | _ :: _ => [TChar text] end) ++ flat_map rawtoks_of kids)
    with (body_toks text kids).
  rewrite (H Hne); [reflexivity|].
  cbn [length]. rewrite app_length. cbn [length]. lia.
Qed.
End Dec.
