(* Well-formedness of the encoder model's items: for every value whose keys are
   names and whose texts are safe as written, [enc] yields a balanced sequence of
   elements ([elems], Proofs/XmlItems.v), exactly one for a non-list value. *)
From Mxj Require Import Spec.Items Proofs.StrLemmas Proofs.XmlStr Proofs.XmlItems Proofs.XmlRT.
From Coq Require Import Permutation.

Section WF.
Variable o : opts.
Hypothesis Htk : is_attr_key o (textK o) = false.

Definition attr_raw_ok (v : value) : bool :=
  match attr_text o v with Some x => raw_okb x | None => false end.

(* what must hold of a value for its items to be well formed *)
Fixpoint wdom (v : value) : bool :=
  match v with
  | VMap vv =>
      nodup_keys (map fst vv) &&
      forallb (fun kv =>
                 if is_attr_key o (fst kv) then name_okb (skipn (lenAttrPrefix o) (fst kv)) && attr_raw_ok (snd kv)
                 else if str_eqb (fst kv) (textK o) then is_scalar (snd kv) && raw_okb (text_text o (snd kv))
                 else name_okb (fst kv) && wdom (snd kv)) vv
  | VList l => forallb wdom l
  | VStr x => raw_okb (esc o x)
  | VNil => true
  | _ => raw_okb (fmt_v v)
  end.

Lemma lookup_in k m v : lookup k m = Some v -> exists k', str_eqb k k' = true /\ In (k', v) m.
Proof.
  induction m as [|[k' v'] t IH]; cbn [lookup]; [discriminate|].
  destruct (str_eqb k k') eqn:E.
  - intro H. inversion H; subst. exists k'. split; [exact E | left; reflexivity].
  - intro H. destruct (IH H) as [k2 [E2 Hin]]. exists k2. split; [exact E2 | right; exact Hin].
Qed.
Lemma lookup_none k m v : lookup k m = None -> In (k, v) m -> False.
Proof.
  induction m as [|[k' v'] t IH]; cbn [lookup]; [intros _ []|].
  destruct (str_eqb k k') eqn:E; [discriminate|].
  intros H [Hin|Hin]; [inversion Hin; subst; rewrite str_eqb_refl in E; discriminate | exact (IH H Hin)].
Qed.

Lemma attr_key_split k : is_attr_key o k = true -> k = attrPrefix o ++ skipn (lenAttrPrefix o) k.
Proof.
  unfold is_attr_key. intro H. apply andb_true_iff in H. destruct H as [_ H].
  apply str_eqb_eq in H. rewrite <- H. symmetry. apply firstn_skipn.
Qed.

Lemma attr_pairs_in n x m : In (n, x) (attr_pairs o m) ->
  exists k v, In (k, v) m /\ is_attr_key o k = true /\ skipn (lenAttrPrefix o) k = n /\ attr_text o v = Some x.
Proof.
  induction m as [|[k v] t IH]; cbn [attr_pairs]; [intros []|].
  destruct (is_attr_key o k) eqn:Ek.
  - destruct (attr_text o v) as [y|] eqn:Ev.
    + intros [H|H].
      * inversion H; subst. exists k, v. repeat split; auto. left; reflexivity.
      * destruct (IH H) as [k2 [v2 [Hin R]]]. exists k2, v2. split; [right; exact Hin | exact R].
    + intro H. destruct (IH H) as [k2 [v2 [Hin R]]]. exists k2, v2. split; [right; exact Hin | exact R].
  - intro H. destruct (IH H) as [k2 [v2 [Hin R]]]. exists k2, v2. split; [right; exact Hin | exact R].
Qed.

Lemma attr_pairs_nodup m : NoDup (map fst m) -> NoDup (map fst (attr_pairs o m)).
Proof.
  induction m as [|[k v] t IH]; cbn [attr_pairs map fst]; [constructor|].
  intro H. inversion H as [|? ? Hn Hd]; subst. specialize (IH Hd).
  destruct (is_attr_key o k) eqn:Ek; [|exact IH].
  destruct (attr_text o v) as [y|]; [|exact IH].
  cbn [map fst]. constructor; [|exact IH].
  intro Hin. apply in_map_iff in Hin. destruct Hin as [[n x] [Hn' Hin]]. cbn [fst] in Hn'. subst n.
  apply attr_pairs_in in Hin. destruct Hin as [k2 [v2 [Hin2 [Ek2 [Hs _]]]]].
  apply Hn. rewrite (attr_key_split k Ek), <- Hs, <- (attr_key_split k2 Ek2).
  apply in_map_iff. exists (k2, v2). split; [reflexivity | exact Hin2].
Qed.

Lemma attrs_ok_sorted vv : wdom (VMap vv) = true -> attrs_okb (sort_by_key (attr_pairs o vv)) = true.
Proof.
  cbn [wdom]. intro H. apply andb_true_iff in H. destruct H as [Hnd Hall].
  unfold attrs_okb. apply andb_true_iff. split.
  - apply forallb_forall. intros [n x] Hin. apply sort_by_key_in, attr_pairs_in in Hin.
    destruct Hin as [k [v [Hin [Ek [Hs Hv]]]]]. rewrite forallb_forall in Hall.
    specialize (Hall _ Hin). cbn [fst snd] in *. rewrite Ek in Hall.
    apply andb_true_iff in Hall. destruct Hall as [Hname Hraw]. unfold attr_raw_ok in Hraw.
    rewrite Hv in Hraw. rewrite <- Hs, Hname, Hraw. reflexivity.
  - apply nodup_keys_NoDup, sort_by_key_nodup, attr_pairs_nodup, nodup_keys_NoDup, Hnd.
Qed.

Definition elems_spec (v : value) : Prop :=
  forall key E, name_okb key = true -> wdom v = true -> enc o v key = Ok E ->
    exists n, elems n E /\ (is_list v = false -> n = 1).

Lemma close_or_empty_elems key attrs : name_okb key = true -> attrs_okb attrs = true ->
  elems 1 (close_or_empty o key attrs).
Proof.
  intros Hk Ha. unfold close_or_empty. destruct (useGoXmlEmptyElemSyntax o).
  - apply elems_open_close; assumption.
  - apply elems_empty; assumption.
Qed.

Definition kid_wf (kv : str * value) : Prop :=
  name_okb (fst kv) = true /\ wdom (snd kv) = true /\ elems_spec (snd kv).

Lemma kids_elems sk : Forall kid_wf sk ->
  forall body, concat_res (map snd (map (fun kv => (fst kv, enc o (snd kv) (fst kv))) sk)) = Ok body ->
  exists n, elems n body.
Proof.
  induction 1 as [|kv t [Hn [Hw Hs]] _ IH]; intros body Hb.
  - cbn in Hb. inversion Hb. exists 0. apply elems_nil.
  - cbn [map snd] in Hb. apply concat_res_cons in Hb. destruct Hb as [a [b [Ha [Hb ->]]]].
    destruct (Hs _ _ Hn Hw Ha) as [n1 [H1 _]]. destruct (IH _ Hb) as [n2 H2].
    exists (n1 + n2). apply elems_app; assumption.
Qed.

Lemma list_elems key l : Forall elems_spec l -> name_okb key = true -> forallb wdom l = true ->
  forall E, concat_res (map (fun v => enc o v key) l) = Ok E -> exists n, elems n E.
Proof.
  intros HF Hk. induction HF as [|a l Ha HF IH]; intros Hw E HE.
  - cbn in HE. inversion HE. exists 0. apply elems_nil.
  - cbn [map] in HE. apply concat_res_cons in HE. destruct HE as [E1 [b [H1 [Hb ->]]]].
    cbn [forallb] in Hw. apply andb_true_iff in Hw. destruct Hw as [Hwa Hwl].
    destruct (Ha key E1 Hk Hwa H1) as [n1 [He1 _]]. destruct (IH Hwl b Hb) as [n2 He2].
    exists (n1 + n2). apply elems_app; assumption.
Qed.

Theorem enc_elems : forall v, elems_spec v.
Proof.
  induction v using value_ind2; intros key E Hk Hw He; cbn [enc] in He.
  - cbn [wdom] in Hw. destruct (esc o x) as [|ch e] eqn:Ee; inversion He; subst E; exists 1; (split; [|reflexivity]).
    + apply close_or_empty_elems; [exact Hk | reflexivity].
    + apply elems_text; [exact Hk | reflexivity | exact Hw].
  - cbn [wdom] in Hw. match type of He with context [fmt_v ?w] => destruct (fmt_v w) as [|ch e] end;
      inversion He; subst E; exists 1; (split; [|reflexivity]).
    + apply close_or_empty_elems; [exact Hk | reflexivity].
    + apply elems_text; [exact Hk | reflexivity | exact Hw].
  - inversion He; subst E. exists 1. split; [|reflexivity]. apply close_or_empty_elems; [exact Hk | reflexivity].
  - cbn [wdom] in Hw. match type of He with context [fmt_v ?w] => destruct (fmt_v w) as [|ch e] end;
      inversion He; subst E; exists 1; (split; [|reflexivity]).
    + apply close_or_empty_elems; [exact Hk | reflexivity].
    + apply elems_text; [exact Hk | reflexivity | exact Hw].
  - cbn [wdom] in Hw. match type of He with context [fmt_v ?w] => destruct (fmt_v w) as [|ch e] end;
      inversion He; subst E; exists 1; (split; [|reflexivity]).
    + apply close_or_empty_elems; [exact Hk | reflexivity].
    + apply elems_text; [exact Hk | reflexivity | exact Hw].
  - cbn [wdom] in Hw. match type of He with context [fmt_v ?w] => destruct (fmt_v w) as [|ch e] end;
      inversion He; subst E; exists 1; (split; [|reflexivity]).
    + apply close_or_empty_elems; [exact Hk | reflexivity].
    + apply elems_text; [exact Hk | reflexivity | exact Hw].
  - cbn [wdom] in Hw. match type of He with context [fmt_v ?w] => destruct (fmt_v w) as [|ch e] end;
      inversion He; subst E; exists 1; (split; [|reflexivity]).
    + apply close_or_empty_elems; [exact Hk | reflexivity].
    + apply elems_text; [exact Hk | reflexivity | exact Hw].
  - cbn [wdom] in Hw. match type of He with context [fmt_v ?w] => destruct (fmt_v w) as [|ch e] end;
      inversion He; subst E; exists 1; (split; [|reflexivity]).
    + apply close_or_empty_elems; [exact Hk | reflexivity].
    + apply elems_text; [exact Hk | reflexivity | exact Hw].
  - (* VMap *)
    rename m into vv. exists 1. split; [|reflexivity].
    destruct (attrs_of o vv) as [attrs0| |] eqn:Ha; cbn [bind] in He; try discriminate.
    apply attrs_of_ok in Ha. subst attrs0.
    pose proof (attrs_ok_sorted vv Hw) as Hattrs.
    set (attrs := sort_by_key (attr_pairs o vv)) in *.
    cbn [wdom] in Hw. apply andb_true_iff in Hw. destruct Hw as [Hnd Hall].
    rewrite forallb_forall in Hall.
    destruct (Nat.eqb (length attrs) (length vv)) eqn:En.
    { inversion He; subst E. apply close_or_empty_elems; assumption. }
    destruct (lookup (textK o) vv) as [tv|] eqn:Et.
    + assert (Htv : raw_okb (text_text o tv) = true).
      { apply lookup_in in Et. destruct Et as [k' [Ek' Hin]]. apply str_eqb_eq in Ek'. subst k'.
        specialize (Hall _ Hin). cbn [fst snd] in Hall. rewrite Htk, str_eqb_refl in Hall.
        apply andb_true_iff in Hall. apply Hall. }
      destruct (Nat.eqb (S (length attrs)) (length vv)) eqn:En1.
      { inversion He; subst E. apply elems_text; assumption. }
      change (fun kr : str * res (list item) => negb (str_eqb (fst kr) (textK o)) && negb (is_attr_key o (fst kr)))
        with (fun kr : str * res (list item) => is_kid_t o (fst kr)) in He.
      rewrite (filter_map_key (is_kid_t o) (fun kv : str * value => (fst kv, enc o (snd kv) (fst kv)))) in He by reflexivity.
      rewrite (sort_by_key_map (fun kv : str * value => (fst kv, enc o (snd kv) (fst kv)))) in He by reflexivity.
      destruct (concat_res _) as [body| |] eqn:Hc in He; cbn [bind] in He; try discriminate.
      inversion He; subst E.
      match type of Hc with concat_res (map snd (map _ ?sk)) = _ => assert (HF : Forall kid_wf sk) end.
      { apply Forall_forall. intros [k v] Hin. apply sort_by_key_in, filter_In in Hin.
        destruct Hin as [Hin Hp]. cbn [fst] in Hp. unfold is_kid_t in Hp.
        apply andb_true_iff in Hp. destruct Hp as [Hp1 Hp2].
        apply negb_true_iff in Hp1. apply negb_true_iff in Hp2.
        pose proof (Hall _ Hin) as Hkv. cbn [fst snd] in Hkv. rewrite Hp2, Hp1 in Hkv.
        apply andb_true_iff in Hkv. destruct Hkv as [Hkn Hkw].
        rewrite Forall_forall in H. specialize (H _ Hin). cbn [snd] in H.
        split; [exact Hkn | split; [exact Hkw | exact H]]. }
      destruct (kids_elems _ HF body Hc) as [n Hn].
      apply (elems_wrap_text key attrs (text_text o tv) n body); assumption.
    + change (fun kr : str * res (list item) => negb (is_attr_key o (fst kr)))
        with (fun kr : str * res (list item) => is_kid_n o (fst kr)) in He.
      rewrite (filter_map_key (is_kid_n o) (fun kv : str * value => (fst kv, enc o (snd kv) (fst kv)))) in He by reflexivity.
      rewrite (sort_by_key_map (fun kv : str * value => (fst kv, enc o (snd kv) (fst kv)))) in He by reflexivity.
      destruct (concat_res _) as [body| |] eqn:Hc in He; cbn [bind] in He; try discriminate.
      inversion He; subst E.
      match type of Hc with concat_res (map snd (map _ ?sk)) = _ => assert (HF : Forall kid_wf sk) end.
      { apply Forall_forall. intros [k v] Hin. apply sort_by_key_in, filter_In in Hin.
        destruct Hin as [Hin Hp]. cbn [fst] in Hp. unfold is_kid_n in Hp.
        apply negb_true_iff in Hp.
        pose proof (Hall _ Hin) as Hkv. cbn [fst snd] in Hkv. rewrite Hp in Hkv.
        destruct (str_eqb k (textK o)) eqn:Ekt.
        { apply str_eqb_eq in Ekt. subst k. exfalso. exact (lookup_none _ _ _ Et Hin). }
        apply andb_true_iff in Hkv. destruct Hkv as [Hkn Hkw].
        rewrite Forall_forall in H. specialize (H _ Hin). cbn [snd] in H.
        split; [exact Hkn | split; [exact Hkw | exact H]]. }
      destruct (kids_elems _ HF body Hc) as [n Hn].
      apply (elems_wrap key attrs n body); assumption.
  - (* VList *)
    cbn [wdom] in Hw. destruct l as [|a l].
    + inversion He; subst E. exists 1. split; [|discriminate].
      apply close_or_empty_elems; [exact Hk | reflexivity].
    + destruct (list_elems key (a :: l) H Hk Hw E He) as [n Hn]. exists n. split; [exact Hn | discriminate].
Qed.


(* ---- the encoder succeeds, and the keys it writes are non-empty ---- *)
Lemma attrs_of_total vv :
  (forall kv, In kv vv -> is_attr_key o (fst kv) = true -> attr_raw_ok (snd kv) = true) ->
  attrs_of o vv = Ok (attr_pairs o vv).
Proof.
  induction vv as [|[k v] t IH]; intro H; cbn [attrs_of attr_pairs]; [reflexivity|].
  assert (Ht : attrs_of o t = Ok (attr_pairs o t)) by (apply IH; intros kv Hin; apply H; right; exact Hin).
  destruct (is_attr_key o k) eqn:Ek; [|exact Ht].
  pose proof (H (k, v) (or_introl eq_refl) Ek) as Hv. cbn [snd] in Hv. unfold attr_raw_ok in Hv.
  destruct (attr_text o v); [|discriminate]. rewrite Ht. reflexivity.
Qed.

Lemma concat_res_total (l : list (res (list item))) :
  (forall r, In r l -> exists E, r = Ok E) -> exists b, concat_res l = Ok b.
Proof.
  induction l as [|r t IH]; intro H; cbn [concat_res]; [exists []; reflexivity|].
  destruct (H r (or_introl eq_refl)) as [E ->]. destruct IH as [b Hb]; [intros r' Hin; apply H; right; exact Hin|].
  rewrite Hb. cbn [bind]. eexists. reflexivity.
Qed.

Lemma wdom_attrs vv : wdom (VMap vv) = true ->
  forall kv, In kv vv -> is_attr_key o (fst kv) = true -> attr_raw_ok (snd kv) = true.
Proof.
  cbn [wdom]. intro H. apply andb_true_iff in H. destruct H as [_ H]. rewrite forallb_forall in H.
  intros kv Hin Ek. specialize (H kv Hin). rewrite Ek in H. apply andb_true_iff in H. apply H.
Qed.

Lemma wdom_kid vv k v : wdom (VMap vv) = true -> In (k, v) vv -> is_attr_key o k = false ->
  str_eqb k (textK o) = false -> name_okb k = true /\ wdom v = true.
Proof.
  cbn [wdom]. intro H. apply andb_true_iff in H. destruct H as [_ H]. rewrite forallb_forall in H.
  intros Hin Ek Et. specialize (H _ Hin). cbn [fst snd] in H. rewrite Ek, Et in H.
  apply andb_true_iff in H. exact H.
Qed.

Theorem enc_total : forall v key, wdom v = true -> exists E, enc o v key = Ok E.
Proof.
  induction v using value_ind2; intros key Hw; cbn [enc]; try (eexists; reflexivity);
    try (match goal with |- context [fmt_v ?w] => destruct (fmt_v w); eexists; reflexivity end).
  - destruct (esc o x); eexists; reflexivity.
  - rename m into vv. rewrite (attrs_of_total vv (wdom_attrs vv Hw)). cbn [bind].
    destruct (Nat.eqb _ _); [eexists; reflexivity|].
    assert (Hkids : forall p : str -> bool,
              (forall k v, In (k, v) vv -> p k = true -> is_attr_key o k = false /\ (lookup (textK o) vv <> None -> str_eqb k (textK o) = false)) ->
              exists b, concat_res (map snd (sort_by_key (filter (fun kr : str * res (list item) => p (fst kr))
                           (map (fun kv : str * value => (fst kv, enc o (snd kv) (fst kv))) vv)))) = Ok b).
    { intros p Hp. apply concat_res_total. intros r Hin.
      apply in_map_iff in Hin. destruct Hin as [[k r'] [Hr Hin]]. cbn [snd] in Hr. subst r'.
      apply sort_by_key_in, filter_In in Hin. destruct Hin as [Hin Hpk]. cbn [fst] in Hpk.
      apply in_map_iff in Hin. destruct Hin as [[k2 v2] [Heq Hin]]. cbn [fst snd] in Heq. inversion Heq; subst k2 r.
      destruct (Hp _ _ Hin Hpk) as [Ek Et].
      destruct (str_eqb k (textK o)) eqn:Ekt.
      - exfalso. destruct (lookup (textK o) vv) as [tv0|] eqn:El.
        + enough (Hx : true = false) by discriminate Hx. apply Et. congruence.
        + apply str_eqb_eq in Ekt. subst k. exact (lookup_none _ _ _ El Hin).
      - destruct (wdom_kid vv k v2 Hw Hin Ek Ekt) as [_ Hwv].
        rewrite Forall_forall in H. apply (H _ Hin k Hwv). }
    destruct (lookup (textK o) vv) as [tv|] eqn:Et.
    + destruct (Nat.eqb _ _); [eexists; reflexivity|].
      destruct (Hkids (fun k => negb (str_eqb k (textK o)) && negb (is_attr_key o k))) as [b Hb].
      { intros k v Hin Hp. apply andb_true_iff in Hp. destruct Hp as [H1 H2].
        apply negb_true_iff in H1. apply negb_true_iff in H2. split; [exact H2 | intros _; exact H1]. }
      rewrite Hb. cbn [bind]. eexists. reflexivity.
    + destruct (Hkids (fun k => negb (is_attr_key o k))) as [b Hb].
      { intros k v Hin Hp. apply negb_true_iff in Hp. split; [exact Hp | intro Hc; congruence]. }
      rewrite Hb. cbn [bind]. eexists. reflexivity.
  - cbn [wdom] in Hw. destruct l as [|a l]; [eexists; reflexivity|].
    apply concat_res_total. intros r Hin. apply in_map_iff in Hin. destruct Hin as [v [<- Hin]].
    rewrite Forall_forall in H. rewrite forallb_forall in Hw. apply (H v Hin key (Hw v Hin)).
Qed.

Lemma is_attr_key_ne k : is_attr_key o k = true -> k <> [].
Proof.
  unfold is_attr_key. intro H. apply andb_true_iff in H. destruct H as [H _].
  apply andb_true_iff in H. destruct H as [_ H]. apply Nat.ltb_lt in H. destruct k; [cbn in H; lia | discriminate].
Qed.
Lemma name_ok_ne k : name_okb k = true -> k <> [].
Proof. destruct k; [discriminate | discriminate]. Qed.

Lemma scalar_kne v : is_scalar v = true -> kne v = true.
Proof. destruct v; try reflexivity; discriminate. Qed.

Theorem wdom_kne : textK o <> [] -> forall v, wdom v = true -> kne v = true.
Proof.
  intro Htne. induction v using value_ind2; intro Hw; try reflexivity.
  - rename m into vv. cbn [kne]. apply forallb_forall. intros [k v] Hin.
    rewrite Forall_forall in H. specialize (H _ Hin). cbn [fst snd] in *.
    cbn [wdom] in Hw. apply andb_true_iff in Hw. destruct Hw as [_ Hw]. rewrite forallb_forall in Hw.
    specialize (Hw _ Hin). cbn [fst snd] in Hw.
    destruct (is_attr_key o k) eqn:Ek.
    + apply andb_true_iff in Hw. destruct Hw as [_ Hr]. unfold attr_raw_ok in Hr.
      pose proof (is_attr_key_ne k Ek) as Hne.
      destruct k; [congruence|]. cbn [andb]. destruct v; try reflexivity; cbn in Hr; discriminate.
    + destruct (str_eqb k (textK o)) eqn:Et.
      * apply str_eqb_eq in Et. subst k. apply andb_true_iff in Hw. destruct Hw as [Hs _].
        destruct (textK o); [congruence|]. cbn [andb]. apply scalar_kne, Hs.
      * apply andb_true_iff in Hw. destruct Hw as [Hn Hwv]. pose proof (name_ok_ne k Hn).
        destruct k; [congruence|]. cbn [andb]. apply H, Hwv.
  - cbn [kne]. cbn [wdom] in Hw. apply forallb_forall. intros v Hin.
    rewrite Forall_forall in H. rewrite forallb_forall in Hw. apply (H v Hin (Hw v Hin)).
Qed.

End WF.
