(* C13: lemmas about schedules, the two adaptors, `drive` and the document loop. *)
From Mxj Require Import Spec.StreamSpec.
Import ListNotations.

(* ------------------------------------------------------------------ schedules *)

Definition clean_for (X : str) (sc : list rev) : Prop := exists k, sc = map Data X ++ repeat Eof k.

Lemma only_eof_repeat : forall sc, only_eof sc = true -> sc = repeat Eof (length sc).
Proof.
  induction sc as [|e t IH]; intro H; [reflexivity|].
  destruct e; try discriminate. cbn in *. f_equal. auto.
Qed.

Lemma only_eof_delivered : forall sc, only_eof sc = true -> delivered sc = [].
Proof.
  induction sc as [|e t IH]; intro H; [reflexivity|]. destruct e; try discriminate. cbn in *. auto.
Qed.

Lemma clean_shape : forall sc X, legal X sc -> clean sc = true -> clean_for X sc.
Proof.
  induction sc as [|e t IH]; intros X [Hd Hl] Hc.
  - cbn in Hd. subst X. exists 0. reflexivity.
  - destruct e; cbn in Hc; try discriminate.
    + cbn in Hd, Hl. destruct X as [|x X]; [discriminate|]. injection Hd as Hb Hd. subst x.
      destruct (IH X) as [k Hk]; [split; assumption|assumption|]. exists k. cbn. now rewrite Hk.
    + cbn in Hd, Hl. rewrite (only_eof_delivered _ Hl) in Hd. subst X.
      exists (S (length t)). cbn. f_equal. now apply only_eof_repeat.
Qed.

Lemma only_eof_rep : forall k, only_eof (repeat Eof k) = true.
Proof. induction k; cbn; auto. Qed.
Lemma delivered_rep : forall k, delivered (repeat Eof k) = [].
Proof. induction k; cbn; auto. Qed.

Lemma clean_for_legal : forall X k, legal X (map Data X ++ repeat Eof k) /\ clean (map Data X ++ repeat Eof k) = true.
Proof.
  induction X as [|b X IH]; intro k; cbn.
  - split; [split|].
    + apply delivered_rep.
    + destruct k; cbn; [reflexivity|apply only_eof_rep].
    + induction k; cbn; auto.
  - destruct (IH k) as [[Hd Hl] Hc]. split; [split|]; cbn; try assumption. now rewrite Hd.
Qed.

Lemma clean_for_length : forall X sc, clean_for X sc -> length X <= length sc.
Proof. intros X sc [k ->]. rewrite app_length, map_length. lia. Qed.

(* ------------------------------------------------------------------ adaptor_transparent *)

Lemma firstn_repeat {A} (a : A) : forall n m, n <= m -> firstn n (repeat a m) = repeat a n.
Proof. induction n; intros m H; [reflexivity|]. destruct m; [lia|]. cbn. f_equal. apply IHn. lia. Qed.

Lemma br_results_eofs : forall n k b,
  map view_of (br_results n {| br_b := b; br_r := repeat Eof k |}) = repeat VEof n.
Proof.
  induction n; intros k b; [reflexivity|].
  destruct k; cbn; f_equal; [apply (IHn 0)|apply IHn].
Qed.

Lemma br_transparent_shape : forall X n k b,
  map view_of (br_results n {| br_b := b; br_r := map Data X ++ repeat Eof k |}) = transparent X n.
Proof.
  unfold transparent. induction X as [|x X IH]; intros n k b.
  - cbn [map app]. rewrite br_results_eofs. symmetry. apply firstn_repeat. lia.
  - destruct n; [reflexivity|]. cbn. f_equal. rewrite IH.
    (* firstn n (map VByte X ++ repeat VEof n) = firstn n (map VByte X ++ VEof :: repeat VEof n) *)
    change (VEof :: repeat VEof n) with (repeat VEof (S n)).
    rewrite !firstn_app, !map_length.
    f_equal. rewrite !firstn_repeat by lia. reflexivity.
Qed.

Lemma adaptor_transparent_br : forall X sc n, legal X sc -> clean sc = true ->
  map view_of (br_results n (my_byte_reader sc)) = transparent X n.
Proof.
  intros X sc n Hl Hc. destruct (clean_shape _ _ Hl Hc) as [k ->]. apply br_transparent_shape.
Qed.

Lemma tr_results_eofs : forall n k b w,
  let '(rs, t) := tr_results n {| tr_b := b; tr_w := w; tr_r := repeat Eof k |} in
  map view_of rs = repeat VEof n /\ tr_w t = w.
Proof.
  induction n; intros k b w; [cbn; auto|].
  destruct k; cbn.
  - specialize (IHn 0 b w). cbn in IHn. destruct (tr_results n _) as [rs t]. cbn. destruct IHn. split; [f_equal|]; assumption.
  - specialize (IHn k b w). destruct (tr_results n _) as [rs t]. cbn. destruct IHn. split; [f_equal|]; assumption.
Qed.

Lemma tr_transparent_shape : forall X n k b w,
  let '(rs, t) := tr_results n {| tr_b := b; tr_w := w; tr_r := map Data X ++ repeat Eof k |} in
  map view_of rs = transparent X n /\ tr_w t = w ++ firstn n X.
Proof.
  unfold transparent. induction X as [|x X IH]; intros n k b w.
  - cbn [map app]. pose proof (tr_results_eofs n k b w) as H. destruct (tr_results n _) as [rs t].
    destruct H as [H1 H2]. split.
    + rewrite H1. symmetry. apply firstn_repeat. lia.
    + rewrite H2. destruct n; cbn; now rewrite app_nil_r.
  - destruct n; [cbn; now rewrite app_nil_r|]. cbn.
    specialize (IH n k x (w ++ [x])). destruct (tr_results n _) as [rs t]. destruct IH as [H1 H2]. cbn. split.
    + f_equal. rewrite H1. change (VEof :: repeat VEof n) with (repeat VEof (S n)).
      rewrite !firstn_app, !map_length. f_equal. rewrite !firstn_repeat by lia. reflexivity.
    + rewrite H2, <- app_assoc. reflexivity.
Qed.

Lemma adaptor_transparent_tr : forall X sc n, legal X sc -> clean sc = true ->
  let '(rs, t) := tr_results n (my_tee_reader sc) in
  map view_of rs = transparent X n /\ tr_w t = firstn n X.
Proof.
  intros X sc n Hl Hc. destruct (clean_shape _ _ Hl Hc) as [k ->].
  apply (tr_transparent_shape X n k zero_byte []).
Qed.

(* ------------------------------------------------------------------ drive over a clean schedule = direct *)

Section Drive.
Context {R : Type} (M : machine R).

Lemma drive_br_clean : forall X k st b fuel, length X < fuel ->
  exists b' k', k' <= k /\
    drive M br_read_byte fuel st {| br_b := b; br_r := map Data X ++ repeat Eof k |} =
    Some (fst (direct M st X),
          {| br_b := b'; br_r := map Data (skipn (snd (direct M st X)) X) ++ repeat Eof k' |}).
Proof.
  induction X as [|x X IH]; intros k st b fuel Hf.
  - destruct fuel; [cbn in Hf; lia|]. destruct k; cbn.
    + exists b, 0. split; [lia|reflexivity].
    + exists b, k. split; [lia|reflexivity].
  - destruct fuel; [cbn in Hf; lia|]. cbn in Hf. cbn.
    destruct (m_step M st x) as [st'|r] eqn:E.
    + destruct (IH k st' x fuel) as (b' & k' & Hk & Hd); [lia|].
      exists b', k'. split; [assumption|]. rewrite Hd.
      destruct (direct M st' X) as [r n]. reflexivity.
    + exists x, k. split; [lia|]. reflexivity.
Qed.

Lemma drive_tr_clean : forall X k st b w fuel, length X < fuel ->
  exists b' k', k' <= k /\
    drive M tr_read_byte fuel st {| tr_b := b; tr_w := w; tr_r := map Data X ++ repeat Eof k |} =
    Some (fst (direct M st X),
          {| tr_b := b'; tr_w := w ++ firstn (snd (direct M st X)) X;
             tr_r := map Data (skipn (snd (direct M st X)) X) ++ repeat Eof k' |}).
Proof.
  induction X as [|x X IH]; intros k st b w fuel Hf.
  - destruct fuel; [cbn in Hf; lia|]. destruct k; cbn; rewrite app_nil_r.
    + exists b, 0. split; [lia|reflexivity].
    + exists b, k. split; [lia|reflexivity].
  - destruct fuel; [cbn in Hf; lia|]. cbn in Hf. cbn.
    destruct (m_step M st x) as [st'|r] eqn:E.
    + destruct (IH k st' x (w ++ [x]) fuel) as (b' & k' & Hk & Hd); [lia|].
      exists b', k'. split; [assumption|]. rewrite Hd.
      destruct (direct M st' X) as [r n]. cbn. rewrite <- app_assoc. reflexivity.
    + exists x, k. split; [lia|]. reflexivity.
Qed.

(* consumption never exceeds the input *)
Lemma direct_le : forall X st, snd (direct M st X) <= length X.
Proof.
  induction X as [|x X IH]; intro st; cbn; [lia|].
  destruct (m_step M st x) as [st'|r]; cbn; [|lia].
  specialize (IH st'). destruct (direct M st' X). cbn in *. lia.
Qed.

(* a run that goes through X without stopping *)
Fixpoint steps (st : m_st M) (X : str) : option (m_st M) :=
  match X with
  | [] => Some st
  | b :: X' => match m_step M st b with inl st' => steps st' X' | inr _ => None end
  end.

Lemma steps_app : forall X Y st,
  steps st (X ++ Y) = match steps st X with Some st' => steps st' Y | None => None end.
Proof.
  induction X as [|x X IH]; intros Y st; cbn; [reflexivity|].
  destruct (m_step M st x); [apply IH|reflexivity].
Qed.

Lemma direct_steps : forall X Y st st', steps st X = Some st' ->
  direct M st (X ++ Y) = (fst (direct M st' Y), length X + snd (direct M st' Y)).
Proof.
  induction X as [|x X IH]; intros Y st st' H; cbn in *.
  - injection H as ->. now destruct (direct M st' Y).
  - destruct (m_step M st x) as [s1|]; [|discriminate].
    rewrite (IH Y s1 st' H). reflexivity.
Qed.
End Drive.

(* ------------------------------------------------------------------ the reader entry points on clean schedules *)

Lemma skipn_clean_for : forall X n k, clean_for (skipn n X) (map Data (skipn n X) ++ repeat Eof k).
Proof. intros. now exists k. Qed.

Lemma new_map_xml_reader_clean : forall (M : xmachine) X sc, clean_for X sc ->
  exists sc', new_map_xml_reader M sc = Some (fst (direct M (m_init M) X), sc') /\
              clean_for (skipn (snd (direct M (m_init M) X)) X) sc'.
Proof.
  intros M X sc [k ->]. unfold new_map_xml_reader, my_byte_reader.
  destruct (drive_br_clean M X k (m_init M) zero_byte (S (length (map Data X ++ repeat Eof k)))) as (b' & k' & _ & Hd).
  { rewrite app_length, map_length. lia. }
  rewrite Hd. eexists. split; [reflexivity|]. cbn. now exists k'.
Qed.

Lemma new_map_xml_reader_raw_clean : forall (M : xmachine) X sc, clean_for X sc ->
  exists sc', new_map_xml_reader_raw M sc =
                Some (fst (direct M (m_init M) X), firstn (snd (direct M (m_init M) X)) X, sc') /\
              clean_for (skipn (snd (direct M (m_init M) X)) X) sc'.
Proof.
  intros M X sc [k ->]. unfold new_map_xml_reader_raw, my_tee_reader.
  destruct (drive_tr_clean M X k (m_init M) zero_byte [] (S (length (map Data X ++ repeat Eof k)))) as (b' & k' & _ & Hd).
  { rewrite app_length, map_length. lia. }
  rewrite Hd. eexists. split; [reflexivity|]. cbn. now exists k'.
Qed.

Lemma get_json_clean : forall X sc, clean_for X sc ->
  exists sc', get_json sc = Some (fst (direct jmachine jinit X), sc') /\
              clean_for (skipn (snd (direct jmachine jinit X)) X) sc'.
Proof.
  intros X sc [k ->]. unfold get_json, my_byte_reader.
  destruct (drive_br_clean jmachine X k jinit zero_byte (S (length (map Data X ++ repeat Eof k)))) as (b' & k' & _ & Hd).
  { rewrite app_length, map_length. lia. }
  rewrite Hd. eexists. split; [reflexivity|]. cbn. now exists k'.
Qed.

(* ------------------------------------------------------------------ reading document after document *)

(* the same loop over the bytes themselves: what repeated direct decoding of the stream gives *)
Fixpoint docs_direct (M : xmachine) (fuel : nat) (X : str) : list (res value * str) :=
  match fuel with
  | O => []
  | S f =>
      let '(r, n) := direct M (m_init M) X in
      match r with
      | Ok _ => (r, firstn n X) :: docs_direct M f (skipn n X)
      | _ => [(r, firstn n X)]
      end
  end.

Lemma read_docs_raw_clean : forall (M : xmachine) fuel X sc, clean_for X sc ->
  read_docs (new_map_xml_reader_raw M) fuel sc = docs_direct M fuel X.
Proof.
  intros M. induction fuel as [|f IH]; intros X sc Hc; [reflexivity|].
  cbn. destruct (new_map_xml_reader_raw_clean M X sc Hc) as (sc' & -> & Hc').
  destruct (direct M (m_init M) X) as [r n]. cbn in *.
  destruct r; try reflexivity. f_equal. now apply IH.
Qed.

Lemma read_docs_noraw_clean : forall (M : xmachine) fuel X sc, clean_for X sc ->
  read_docs (noraw (new_map_xml_reader M)) fuel sc = map (fun p => (fst p, tt)) (docs_direct M fuel X).
Proof.
  intros M. induction fuel as [|f IH]; intros X sc Hc; [reflexivity|].
  cbn. unfold noraw at 1. destruct (new_map_xml_reader_clean M X sc Hc) as (sc' & -> & Hc').
  destruct (direct M (m_init M) X) as [r n]. cbn in *.
  destruct r; try reflexivity. cbn. f_equal. now apply IH.
Qed.

(* a successful call consumes at least one byte when io.EOF from the reader is an error for the decoder *)
Lemma direct_ok_pos : forall (M : xmachine) X v n, eof_is_error M ->
  direct M (m_init M) X = (Ok v, n) -> 1 <= n.
Proof.
  intros M X v n He H. destruct X as [|x X]; cbn in H.
  - injection H as H _. specialize (He (m_init M)). rewrite H in He. discriminate.
  - destruct (m_step M (m_init M) x); [destruct (direct M _ X)|]; injection H as _ <-; lia.
Qed.

Lemma docs_direct_fuel : forall (M : xmachine), eof_is_error M ->
  forall f1 f2 X, length X < f1 -> length X < f2 -> docs_direct M f1 X = docs_direct M f2 X.
Proof.
  intros M He. induction f1 as [|f1 IH]; intros f2 X H1 H2; [lia|].
  destruct f2 as [|f2]; [lia|]. cbn.
  destruct (direct M (m_init M) X) as [r n] eqn:E.
  destruct r as [v| |]; try reflexivity. f_equal.
  pose proof (direct_ok_pos M X v n He E) as Hn.
  pose proof (direct_le M X (m_init M)) as Hle. rewrite E in Hle. cbn in Hle.
  apply IH; rewrite skipn_length; lia.
Qed.

(* schedule independence: whatever two clean legal schedules of the same stream are used *)
Lemma read_docs_raw_indep : forall (M : xmachine) X s1 s2, eof_is_error M ->
  legal X s1 -> clean s1 = true -> legal X s2 -> clean s2 = true ->
  read_docs (new_map_xml_reader_raw M) (S (length s1)) s1 =
  read_docs (new_map_xml_reader_raw M) (S (length s2)) s2.
Proof.
  intros M X s1 s2 He L1 C1 L2 C2.
  pose proof (clean_shape _ _ L1 C1) as H1. pose proof (clean_shape _ _ L2 C2) as H2.
  rewrite (read_docs_raw_clean M _ X s1 H1), (read_docs_raw_clean M _ X s2 H2).
  apply docs_direct_fuel; [assumption| |].
  - pose proof (clean_for_length _ _ H1). lia.
  - pose proof (clean_for_length _ _ H2). lia.
Qed.

Lemma read_docs_indep : forall (M : xmachine) X s1 s2, eof_is_error M ->
  legal X s1 -> clean s1 = true -> legal X s2 -> clean s2 = true ->
  read_docs (noraw (new_map_xml_reader M)) (S (length s1)) s1 =
  read_docs (noraw (new_map_xml_reader M)) (S (length s2)) s2.
Proof.
  intros M X s1 s2 He L1 C1 L2 C2.
  pose proof (clean_shape _ _ L1 C1) as H1. pose proof (clean_shape _ _ L2 C2) as H2.
  rewrite (read_docs_noraw_clean M _ X s1 H1), (read_docs_noraw_clean M _ X s2 H2). f_equal.
  apply docs_direct_fuel; [assumption| |].
  - pose proof (clean_for_length _ _ H1). lia.
  - pose proof (clean_for_length _ _ H2). lia.
Qed.

(* ------------------------------------------------------------------ streams of documents *)

Lemma firstn_app_exact {A} (a b : list A) : firstn (length a) (a ++ b) = a.
Proof. rewrite firstn_app, Nat.sub_diag, firstn_all. cbn. apply app_nil_r. Qed.
Lemma skipn_app_exact {A} (a b : list A) : skipn (length a) (a ++ b) = b.
Proof. rewrite skipn_app, Nat.sub_diag, skipn_all. reflexivity. Qed.

Definition docs_ok (M : xmachine) (ds : list (str * str)) : Prop :=
  Forall (fun wd => blank (fst wd) = true /\ stops_at M (snd wd) /\ is_ok (decode_doc M (snd wd)) = true) ds.

Lemma docs_direct_stream : forall (M : xmachine) ds tail fuel,
  docs_ok M ds -> eof_on_blanks M -> blank tail = true -> length ds < fuel ->
  docs_direct M fuel (stream ds tail) = expected_raw M ds tail.
Proof.
  intros M. induction ds as [|[w d] ds IH]; intros tail fuel Hd He Ht Hf.
  - destruct fuel; [cbn in Hf; lia|]. cbn. rewrite (He tail Ht). cbn. rewrite firstn_all. reflexivity.
  - destruct fuel; [cbn in Hf; lia|]. cbn in Hf.
    inversion Hd as [|? ? [Hw [Hs Hok]] Hd']; subst. cbn in Hw, Hs, Hok.
    cbn [stream docs_direct]. rewrite (Hs w (stream ds tail) Hw).
    destruct (decode_doc M d) as [v| |] eqn:E; try discriminate.
    unfold expected_raw. cbn [map app fst snd]. rewrite E.
    rewrite <- app_length, app_assoc, firstn_app_exact, skipn_app_exact.
    f_equal. apply IH; [assumption|assumption|assumption|lia].
Qed.

Lemma stream_length : forall ds tail, length ds <= length (stream ds tail) \/ exists w d, In (w, d) ds /\ w ++ d = [].
Proof.
  induction ds as [|[w d] ds IH]; intro tail; cbn; [left; lia|].
  destruct (IH tail) as [H|(w' & d' & Hin & He)].
  - destruct (w ++ d) eqn:E.
    + right. exists w, d. auto.
    + left. rewrite app_assoc, app_length, E. cbn. lia.
  - right. exists w', d'. auto.
Qed.

(* a document that decodes to a Map is not empty when blanks alone give io.EOF *)
Lemma ok_doc_nonempty : forall (M : xmachine) w d, eof_on_blanks M ->
  is_ok (decode_doc M d) = true -> w ++ d <> [].
Proof.
  intros M w d He Hok E. apply app_eq_nil in E as [-> ->].
  unfold decode_doc in Hok. rewrite (He [] eq_refl) in Hok. discriminate.
Qed.

Lemma stream_length_ok : forall (M : xmachine) ds tail, docs_ok M ds -> eof_on_blanks M ->
  length ds <= length (stream ds tail).
Proof.
  intros M ds tail Hd He. destruct (stream_length ds tail) as [H|(w & d & Hin & E)]; [assumption|].
  exfalso. unfold docs_ok in Hd. rewrite Forall_forall in Hd. destruct (Hd _ Hin) as (_ & _ & Hok).
  exact (ok_doc_nonempty M w d He Hok E).
Qed.

(* the Raw reader over any clean legal schedule of a stream: the documents decoded directly, each with the
   bytes consumed for it, then io.EOF *)
Lemma read_docs_raw_stream : forall (M : xmachine) ds tail sc,
  docs_ok M ds -> eof_on_blanks M -> blank tail = true ->
  legal (stream ds tail) sc -> clean sc = true ->
  read_docs (new_map_xml_reader_raw M) (S (length sc)) sc = expected_raw M ds tail.
Proof.
  intros M ds tail sc Hd He Ht Hl Hc.
  pose proof (clean_shape _ _ Hl Hc) as Hs.
  rewrite (read_docs_raw_clean M _ _ sc Hs).
  apply docs_direct_stream; try assumption.
  pose proof (clean_for_length _ _ Hs). pose proof (stream_length_ok M ds tail Hd He). lia.
Qed.

Lemma read_docs_stream : forall (M : xmachine) ds tail sc,
  docs_ok M ds -> eof_on_blanks M -> blank tail = true ->
  legal (stream ds tail) sc -> clean sc = true ->
  read_docs (noraw (new_map_xml_reader M)) (S (length sc)) sc = expected M ds.
Proof.
  intros M ds tail sc Hd He Ht Hl Hc.
  pose proof (clean_shape _ _ Hl Hc) as Hs.
  rewrite (read_docs_noraw_clean M _ _ sc Hs), docs_direct_stream; try assumption.
  - unfold expected_raw, expected. rewrite map_app, map_map. reflexivity.
  - pose proof (clean_for_length _ _ Hs). pose proof (stream_length_ok M ds tail Hd He). lia.
Qed.

(* raw_prefix: the concatenation of the raw values is the stream itself (hence every partial
   concatenation a prefix), and each raw value contains its document *)
Lemma expected_raw_concat : forall (M : xmachine) ds tail,
  concat (map snd (expected_raw M ds tail)) = stream ds tail.
Proof.
  intros M. induction ds as [|[w d] ds IH]; intro tail; cbn.
  - apply app_nil_r.
  - unfold expected_raw in IH. rewrite IH, app_assoc. reflexivity.
Qed.
