(* C13: lemmas about schedules, the two adaptors, `drive` and the document loop
   (model after /repo a2b77a7: the adaptors use the count returned by Read). *)
From Mxj Require Import Spec.StreamSpec.
Import ListNotations.

(* ------------------------------------------------------------------ schedules *)

(* the next event that is not a (0, nil) read *)
Fixpoint next_event (sc : list rev) : rev * list rev :=
  match sc with
  | [] => (Eof, [])
  | Zero :: t => next_event t
  | e :: t => (e, t)
  end.
(* what a reader that retries on (0, nil) and uses the byte when n > 0 returns for it *)
Definition ev_res (p : rev * list rev) : rbres * list rev :=
  match fst p with
  | Data b | DataEOF b => (RBByte b, snd p)
  | _ => (RBErr RBEof, snd p)
  end.

Lemma only_eof_delivered : forall sc, only_eof sc = true -> delivered sc = [].
Proof.
  induction sc as [|e t IH]; intro H; [reflexivity|]. destruct e; try discriminate. cbn in *. auto.
Qed.
Lemma only_eof_legal : forall sc, only_eof sc = true -> legal_tail sc = true.
Proof. induction sc as [|e t IH]; intro H; [reflexivity|]. destruct e; try discriminate. exact H. Qed.
Lemma only_eof_zb : forall sc cur, only_eof sc = true -> zb_aux 100 cur sc = true.
Proof.
  induction sc as [|e t IH]; intros cur H; [reflexivity|]. destruct e; try discriminate. cbn in *. now apply IH.
Qed.

(* what legality says about the next event *)
Lemma next_legal : forall sc, legal_tail sc = true ->
  legal_tail (snd (next_event sc)) = true /\
  length (snd (next_event sc)) <= length sc /\ (sc <> [] -> length (snd (next_event sc)) < length sc) /\
  match fst (next_event sc) with
  | Data b => delivered sc = b :: delivered (snd (next_event sc))
  | DataEOF b => delivered sc = b :: delivered (snd (next_event sc))
  | Eof => delivered sc = [] /\ delivered (snd (next_event sc)) = []
  | Zero => False
  end.
Proof.
  induction sc as [|e t IH]; intro H.
  - cbn. repeat split; auto. congruence.
  - destruct e; cbn in *.
    + split; [exact H|]. split; [lia|]. split; [intros _; lia|reflexivity].
    + split; [now apply only_eof_legal|]. split; [lia|]. split; [intros _; lia|reflexivity].
    + destruct (IH H) as (H1 & H2 & H3 & H4). split; [exact H1|]. split; [lia|]. split; [|exact H4].
      intros _. destruct t; [cbn; lia|]. specialize (H3 ltac:(discriminate)). lia.
    + rewrite (only_eof_delivered _ H). split; [now apply only_eof_legal|]. split; [lia|]. split; [intros _; lia|auto].
Qed.

Lemma delivered_length : forall sc, length (delivered sc) <= length sc.
Proof. induction sc as [|e t IH]; cbn; [lia|]. destruct e; cbn; lia. Qed.

(* ------------------------------------------------------------------ the three reading loops *)

Lemma jr_read_spec : forall sc, jr_read_byte sc = ev_res (next_event sc).
Proof. induction sc as [|e t IH]; [reflexivity|]. destruct e; cbn; auto. Qed.

Lemma br_loop_spec : forall sc cur i, i + cur = 100 -> 0 < i -> zb_aux 100 cur sc = true ->
  br_loop i sc = ev_res (next_event sc) /\ zero_bounded (snd (next_event sc)) = true.
Proof.
  induction sc as [|e t IH]; intros cur i Hi Hp Hz; (destruct i as [|i]; [lia|]).
  - split; reflexivity.
  - destruct e; cbn in Hz |- *.
    + split; [reflexivity|exact Hz].
    + split; [reflexivity|exact Hz].
    + apply andb_true_iff in Hz as [Hc Hz]. apply Nat.leb_le in Hc. apply (IH (S cur) i); [lia|lia|exact Hz].
    + split; [reflexivity|exact Hz].
Qed.

Lemma br_read_spec : forall sc, zero_bounded sc = true ->
  br_read_byte sc = ev_res (next_event sc) /\ zero_bounded (snd (next_event sc)) = true.
Proof. intros sc H. apply (br_loop_spec sc 0 100); [reflexivity|lia|exact H]. Qed.

Lemma tr_loop_br : forall i w sc,
  tr_loop i {| tr_w := w; tr_r := sc |} =
  (fst (br_loop i sc),
   {| tr_w := match fst (br_loop i sc) with RBByte b => w ++ [b] | _ => w end; tr_r := snd (br_loop i sc) |}).
Proof.
  induction i as [|i IH]; intros w sc; [reflexivity|]. cbn [tr_loop br_loop tr_r tr_w].
  destruct (read_into sc) as [[[n err] b] S']. destruct (Nat.ltb 0 n); [reflexivity|]. destruct err; [reflexivity|]. apply IH.
Qed.

(* ------------------------------------------------------------------ adaptor_transparent *)

Lemma firstn_repeat {A} (a : A) : forall n m, n <= m -> firstn n (repeat a m) = repeat a n.
Proof. induction n; intros m H; [reflexivity|]. destruct m; [lia|]. cbn. f_equal. apply IHn. lia. Qed.

Lemma transparent_cons : forall b X n, transparent (b :: X) (S n) = RBByte b :: transparent X n.
Proof.
  intros b X n. unfold transparent. cbn [map app firstn]. f_equal.
  change (RBErr RBEof :: repeat (RBErr RBEof) n) with (repeat (RBErr RBEof) (S n)).
  rewrite !firstn_app, !map_length. f_equal. rewrite !firstn_repeat by lia. reflexivity.
Qed.
Lemma transparent_nil : forall n, transparent [] (S n) = RBErr RBEof :: transparent [] n.
Proof. intro n. unfold transparent. cbn [map app]. cbn [repeat firstn]. reflexivity. Qed.

Lemma adaptor_transparent_br : forall n X sc, legal X sc -> zero_bounded sc = true ->
  br_results n sc = transparent X n.
Proof.
  induction n as [|n IH]; intros X sc [Hd Hl] Hz; [reflexivity|].
  cbn [br_results]. destruct (br_read_spec sc Hz) as [E Hz']. rewrite E.
  destruct (next_legal sc Hl) as (Hl' & _ & _ & Hev).
  destruct (next_event sc) as [e t]. cbn [fst snd] in *. unfold ev_res; cbn [fst snd].
  destruct e; try contradiction.
  - rewrite <- Hd, Hev, transparent_cons. f_equal. apply IH; [split; [reflexivity|exact Hl']|exact Hz'].
  - rewrite <- Hd, Hev, transparent_cons. f_equal. apply IH; [split; [reflexivity|exact Hl']|exact Hz'].
  - destruct Hev as [H0 Ht]. rewrite <- Hd, H0, transparent_nil. f_equal. rewrite <- Ht.
    apply IH; [split; [reflexivity|exact Hl']|exact Hz'].
Qed.

Lemma adaptor_transparent_tr : forall n X sc w, legal X sc -> zero_bounded sc = true ->
  let '(rs, t) := tr_results n {| tr_w := w; tr_r := sc |} in
  rs = transparent X n /\ tr_w t = w ++ firstn n X.
Proof.
  induction n as [|n IH]; intros X sc w [Hd Hl] Hz; [cbn; now rewrite app_nil_r|].
  cbn [tr_results]. unfold tr_read_byte. rewrite tr_loop_br. fold (br_read_byte sc).
  destruct (br_read_spec sc Hz) as [E Hz']. rewrite E.
  destruct (next_legal sc Hl) as (Hl' & _ & _ & Hev).
  destruct (next_event sc) as [e t]. cbn [fst snd] in *. unfold ev_res; cbn [fst snd].
  destruct e; try contradiction.
  - specialize (IH (delivered t) t (w ++ [b]) (conj eq_refl Hl') Hz'). destruct (tr_results n _) as [rs t'].
    destruct IH as [-> ->]. rewrite <- Hd, Hev, transparent_cons. cbn [firstn]. now rewrite <- app_assoc.
  - specialize (IH (delivered t) t (w ++ [b]) (conj eq_refl Hl') Hz'). destruct (tr_results n _) as [rs t'].
    destruct IH as [-> ->]. rewrite <- Hd, Hev, transparent_cons. cbn [firstn]. now rewrite <- app_assoc.
  - destruct Hev as [H0 Ht]. specialize (IH (delivered t) t w (conj eq_refl Hl') Hz'). destruct (tr_results n _) as [rs t'].
    destruct IH as [-> ->]. rewrite <- Hd, H0, transparent_nil, Ht. cbn [firstn]. split; [reflexivity|].
    destruct n; reflexivity.
Qed.

(* ------------------------------------------------------------------ drive = direct *)

Section Drive.
Context {R A : Type} (M : machine R) (rb : A -> rbres * A) (src : A -> list rev) (P : list rev -> bool).
(* the reader behaves like "skip the (0,nil) reads, use the byte when n > 0" on every schedule that satisfies P *)
Hypothesis Hrb : forall a, P (src a) = true ->
  exists a', rb a = (fst (ev_res (next_event (src a))), a') /\ src a' = snd (next_event (src a)) /\ P (src a') = true.

Lemma drive_legal : forall fuel st a, legal_tail (src a) = true -> P (src a) = true -> length (src a) < fuel ->
  exists a', drive M rb fuel st a = Some (fst (direct M st (delivered (src a))), a') /\
             delivered (src a') = skipn (snd (direct M st (delivered (src a)))) (delivered (src a)) /\
             legal_tail (src a') = true /\ P (src a') = true.
Proof.
  induction fuel as [|f IH]; intros st a Hl Hp Hf; [lia|].
  destruct (Hrb a Hp) as (a1 & E & Hs & Hp1).
  destruct (next_legal (src a) Hl) as (Hl1 & Hle & Hlt & Hev).
  cbn [drive]. rewrite E. rewrite <- Hs in Hl1, Hle, Hlt, Hev.
  destruct (next_event (src a)) as [e t]. unfold ev_res in *. cbn [fst snd] in *.
  destruct e; try contradiction; cbn [fst].
  - assert (Hf1 : length (src a1) < f).
    { assert (Hne : src a <> []) by (intro Z; rewrite Z in Hev; discriminate). specialize (Hlt Hne). lia. }
    rewrite Hev. cbn [direct]. destruct (m_step M st b) as [st'|r].
    + destruct (IH st' a1 Hl1 Hp1 Hf1) as (a' & Ed & Hd & Hl' & Hp'). exists a'. rewrite Ed.
      destruct (direct M st' (delivered (src a1))) as [r n]. cbn [fst snd skipn] in *. auto.
    + exists a1. cbn. auto.
  - assert (Hf1 : length (src a1) < f).
    { assert (Hne : src a <> []) by (intro Z; rewrite Z in Hev; discriminate). specialize (Hlt Hne). lia. }
    rewrite Hev. cbn [direct]. destruct (m_step M st b) as [st'|r].
    + destruct (IH st' a1 Hl1 Hp1 Hf1) as (a' & Ed & Hd & Hl' & Hp'). exists a'. rewrite Ed.
      destruct (direct M st' (delivered (src a1))) as [r n]. cbn [fst snd skipn] in *. auto.
    + exists a1. cbn. auto.
  - destruct Hev as [H0 Ht]. rewrite H0. cbn. exists a1. rewrite Ht. auto.
Qed.

(* consumption never exceeds the input *)
Lemma direct_le : forall X st, snd (direct M st X) <= length X.
Proof.
  induction X as [|x X IH]; intro st; cbn; [lia|].
  destruct (m_step M st x) as [st'|r]; cbn; [|lia].
  specialize (IH st'). destruct (direct M st' X). cbn in *. lia.
Qed.

(* a run that goes through X without stopping *)
Fixpoint steps (st : m_st M) (X : str) : option (m_st M) :=
  match X with
  | [] => Some st
  | b :: X' => match m_step M st b with inl st' => steps st' X' | inr _ => None end
  end.

Lemma steps_app : forall X Y st,
  steps st (X ++ Y) = match steps st X with Some st' => steps st' Y | None => None end.
Proof.
  induction X as [|x X IH]; intros Y st; cbn; [reflexivity|].
  destruct (m_step M st x); [apply IH|reflexivity].
Qed.

Lemma direct_steps : forall X Y st st', steps st X = Some st' ->
  direct M st (X ++ Y) = (fst (direct M st' Y), length X + snd (direct M st' Y)).
Proof.
  induction X as [|x X IH]; intros Y st st' H; cbn in *.
  - injection H as ->. now destruct (direct M st' Y).
  - destruct (m_step M st x) as [s1|]; [|discriminate].
    rewrite (IH Y s1 st' H). reflexivity.
Qed.
End Drive.

(* the tee buffer grows by exactly the bytes taken from the reader *)
Lemma tr_loop_log : forall i t, exists d,
  delivered (tr_r t) = d ++ delivered (tr_r (snd (tr_loop i t))) /\ tr_w (snd (tr_loop i t)) = tr_w t ++ d.
Proof.
  induction i as [|i IH]; intro t; [exists []; cbn; now rewrite app_nil_r|].
  destruct t as [w sc]. cbn [tr_loop tr_r tr_w]. destruct sc as [|e sc]; [exists []; cbn; now rewrite app_nil_r|].
  destruct e; cbn.
  - exists [b]. auto.
  - exists [b]. auto.
  - apply (IH {| tr_w := w; tr_r := sc |}).
  - exists []. cbn. now rewrite app_nil_r.
Qed.

Lemma drive_tr_log : forall {R} (M : machine R) fuel st t r t', drive M tr_read_byte fuel st t = Some (r, t') ->
  exists d, delivered (tr_r t) = d ++ delivered (tr_r t') /\ tr_w t' = tr_w t ++ d.
Proof.
  intros R M. induction fuel as [|f IH]; intros st t r t' H; [discriminate|].
  cbn [drive] in H. unfold tr_read_byte in H. destruct (tr_loop_log 100 t) as (d & Hd & Hw).
  destruct (tr_loop 100 t) as [rr t1]. cbn [snd] in *. destruct rr as [b|[|]].
  - destruct (m_step M st b) as [st'|r0].
    + destruct (IH st' t1 r t' H) as (d' & Hd' & Hw'). exists (d ++ d'). rewrite Hd, Hd', Hw', Hw, !app_assoc. auto.
    + injection H as <- <-. eauto.
  - injection H as <- <-. eauto.
  - injection H as <- <-. eauto.
Qed.

(* ------------------------------------------------------------------ the reader entry points *)

(* sc is a legal schedule of X on which the reader P-behaves *)
Definition okfor (P : list rev -> bool) (X : str) (sc : list rev) : Prop :=
  delivered sc = X /\ legal_tail sc = true /\ P sc = true.
Definition anysc (_ : list rev) : bool := true.

Lemma okfor_length : forall P X sc, okfor P X sc -> length X <= length sc.
Proof. intros P X sc [<- _]. apply delivered_length. Qed.

Lemma new_map_xml_reader_ok : forall (M : xmachine) X sc, okfor zero_bounded X sc ->
  exists sc', new_map_xml_reader M sc = Some (fst (direct M (m_init M) X), sc') /\
              okfor zero_bounded (skipn (snd (direct M (m_init M) X)) X) sc'.
Proof.
  intros M X sc (Hd & Hl & Hz). unfold new_map_xml_reader.
  destruct (drive_legal M br_read_byte (fun a => a) zero_bounded) with (fuel := S (length sc)) (st := m_init M) (a := sc)
    as (sc' & E & Hd' & Hl' & Hz'); try assumption; [|lia|].
  - intros a Ha. destruct (br_read_spec a Ha) as [E Hz']. exists (snd (next_event a)). rewrite E. unfold ev_res. cbn.
    destruct (fst (next_event a)); auto.
  - rewrite Hd in *. exists sc'. split; [exact E|]. split; auto.
Qed.

Lemma new_map_xml_reader_raw_ok : forall (M : xmachine) X sc, okfor zero_bounded X sc ->
  exists sc', new_map_xml_reader_raw M sc =
                Some (fst (direct M (m_init M) X), firstn (snd (direct M (m_init M) X)) X, sc') /\
              okfor zero_bounded (skipn (snd (direct M (m_init M) X)) X) sc'.
Proof.
  intros M X sc (Hd & Hl & Hz). unfold new_map_xml_reader_raw.
  destruct (drive_legal M tr_read_byte tr_r zero_bounded) with (fuel := S (length sc)) (st := m_init M) (a := my_tee_reader sc)
    as (t' & E & Hd' & Hl' & Hz'); try assumption; [|cbn; lia|].
  - intros [w a] Ha. cbn [tr_r] in *. unfold tr_read_byte. rewrite tr_loop_br. fold (br_read_byte a).
    destruct (br_read_spec a Ha) as [E Hz']. rewrite E. eexists. split; [reflexivity|].
    unfold ev_res. destruct (fst (next_event a)); cbn; auto.
  - cbn [my_tee_reader tr_r] in *. rewrite E. destruct (drive_tr_log M _ _ _ _ _ E) as (d & Hdd & Hw).
    cbn [my_tee_reader tr_r tr_w app] in *. rewrite Hd in *.
    assert (d = firstn (snd (direct M (m_init M) X)) X).
    { rewrite Hd' in Hdd. rewrite <- (firstn_skipn (snd (direct M (m_init M) X)) X) in Hdd at 1. now apply app_inv_tail in Hdd. }
    rewrite H in Hw. exists (tr_r t'). rewrite Hw. split; [reflexivity|]. split; auto.
Qed.

Lemma get_json_ok : forall X sc, okfor anysc X sc ->
  exists sc', get_json sc = Some (fst (direct jmachine jinit X), sc') /\
              okfor anysc (skipn (snd (direct jmachine jinit X)) X) sc'.
Proof.
  intros X sc (Hd & Hl & _). unfold get_json.
  destruct (drive_legal jmachine jr_read_byte (fun a => a) anysc) with (fuel := S (length sc)) (st := jinit) (a := sc)
    as (sc' & E & Hd' & Hl' & _); try assumption; try reflexivity; [|lia|].
  - intros a _. exists (snd (next_event a)). rewrite jr_read_spec. unfold ev_res. cbn. destruct (fst (next_event a)); auto.
  - rewrite Hd in *. exists sc'. split; [exact E|]. split; auto.
Qed.

(* legal + bounded = okfor *)
Lemma legal_okfor : forall X sc, legal X sc -> zero_bounded sc = true -> okfor zero_bounded X sc.
Proof. intros X sc [Hd Hl] Hz. repeat split; assumption. Qed.
Lemma legal_okfor_any : forall X sc, legal X sc -> okfor anysc X sc.
Proof. intros X sc [Hd Hl]. repeat split; assumption. Qed.
Lemma okfor_legal : forall P X sc, okfor P X sc -> legal X sc /\ P sc = true.
Proof. intros P X sc (Hd & Hl & Hp). repeat split; assumption. Qed.

(* ------------------------------------------------------------------ reading document after document *)

(* the same loop over the bytes themselves: what repeated direct decoding of the stream gives *)
Fixpoint docs_direct (M : xmachine) (fuel : nat) (X : str) : list (res value * str) :=
  match fuel with
  | O => []
  | S f =>
      let '(r, n) := direct M (m_init M) X in
      match r with
      | Ok _ => (r, firstn n X) :: docs_direct M f (skipn n X)
      | _ => [(r, firstn n X)]
      end
  end.

Lemma read_docs_raw_ok : forall (M : xmachine) fuel X sc, okfor zero_bounded X sc ->
  read_docs (new_map_xml_reader_raw M) fuel sc = docs_direct M fuel X.
Proof.
  intros M. induction fuel as [|f IH]; intros X sc Hc; [reflexivity|].
  cbn. destruct (new_map_xml_reader_raw_ok M X sc Hc) as (sc' & -> & Hc').
  destruct (direct M (m_init M) X) as [r n]. cbn in *.
  destruct r; try reflexivity. f_equal. now apply IH.
Qed.

Lemma read_docs_noraw_ok : forall (M : xmachine) fuel X sc, okfor zero_bounded X sc ->
  read_docs (noraw (new_map_xml_reader M)) fuel sc = map (fun p => (fst p, tt)) (docs_direct M fuel X).
Proof.
  intros M. induction fuel as [|f IH]; intros X sc Hc; [reflexivity|].
  cbn. unfold noraw at 1. destruct (new_map_xml_reader_ok M X sc Hc) as (sc' & -> & Hc').
  destruct (direct M (m_init M) X) as [r n]. cbn in *.
  destruct r; try reflexivity. cbn. f_equal. now apply IH.
Qed.

(* a successful call consumes at least one byte when an error from the reader is an error for the decoder *)
Lemma direct_ok_pos : forall (M : xmachine) X v n, eof_is_error M ->
  direct M (m_init M) X = (Ok v, n) -> 1 <= n.
Proof.
  intros M X v n He H. destruct X as [|x X]; cbn in H.
  - injection H as H _. destruct (He (m_init M)) as [He1 _]. rewrite H in He1. discriminate.
  - destruct (m_step M (m_init M) x); [destruct (direct M _ X)|]; injection H as _ <-; lia.
Qed.

Lemma docs_direct_fuel : forall (M : xmachine), eof_is_error M ->
  forall f1 f2 X, length X < f1 -> length X < f2 -> docs_direct M f1 X = docs_direct M f2 X.
Proof.
  intros M He. induction f1 as [|f1 IH]; intros f2 X H1 H2; [lia|].
  destruct f2 as [|f2]; [lia|]. cbn.
  destruct (direct M (m_init M) X) as [r n] eqn:E.
  destruct r as [v| |]; try reflexivity. f_equal.
  pose proof (direct_ok_pos M X v n He E) as Hn.
  pose proof (direct_le M X (m_init M)) as Hle. rewrite E in Hle. cbn in Hle.
  apply IH; rewrite skipn_length; lia.
Qed.

(* schedule independence: whatever two legal schedules of the same stream are used *)
Lemma read_docs_raw_indep : forall (M : xmachine) X s1 s2, eof_is_error M ->
  legal X s1 -> zero_bounded s1 = true -> legal X s2 -> zero_bounded s2 = true ->
  read_docs (new_map_xml_reader_raw M) (S (length s1)) s1 =
  read_docs (new_map_xml_reader_raw M) (S (length s2)) s2.
Proof.
  intros M X s1 s2 He L1 C1 L2 C2.
  pose proof (legal_okfor _ _ L1 C1) as H1. pose proof (legal_okfor _ _ L2 C2) as H2.
  rewrite (read_docs_raw_ok M _ X s1 H1), (read_docs_raw_ok M _ X s2 H2).
  apply docs_direct_fuel; [assumption| |].
  - pose proof (okfor_length _ _ _ H1). lia.
  - pose proof (okfor_length _ _ _ H2). lia.
Qed.

Lemma read_docs_indep : forall (M : xmachine) X s1 s2, eof_is_error M ->
  legal X s1 -> zero_bounded s1 = true -> legal X s2 -> zero_bounded s2 = true ->
  read_docs (noraw (new_map_xml_reader M)) (S (length s1)) s1 =
  read_docs (noraw (new_map_xml_reader M)) (S (length s2)) s2.
Proof.
  intros M X s1 s2 He L1 C1 L2 C2.
  pose proof (legal_okfor _ _ L1 C1) as H1. pose proof (legal_okfor _ _ L2 C2) as H2.
  rewrite (read_docs_noraw_ok M _ X s1 H1), (read_docs_noraw_ok M _ X s2 H2). f_equal.
  apply docs_direct_fuel; [assumption| |].
  - pose proof (okfor_length _ _ _ H1). lia.
  - pose proof (okfor_length _ _ _ H2). lia.
Qed.

(* ------------------------------------------------------------------ streams of documents *)

Lemma firstn_app_exact {A} (a b : list A) : firstn (length a) (a ++ b) = a.
Proof. rewrite firstn_app, Nat.sub_diag, firstn_all. cbn. apply app_nil_r. Qed.
Lemma skipn_app_exact {A} (a b : list A) : skipn (length a) (a ++ b) = b.
Proof. rewrite skipn_app, Nat.sub_diag, skipn_all. reflexivity. Qed.

Definition docs_ok (M : xmachine) (ds : list (str * str)) : Prop :=
  Forall (fun wd => blank (fst wd) = true /\ stops_at M (snd wd) /\ is_okmap (decode_doc M (snd wd)) = true) ds.

Lemma okmap_ok : forall r, is_okmap r = true -> exists m, r = Ok (VMap m).
Proof. intros [[]| |] H; try discriminate. eauto. Qed.

Lemma docs_direct_stream : forall (M : xmachine) ds tail fuel,
  docs_ok M ds -> eof_on_blanks M -> blank tail = true -> length ds < fuel ->
  docs_direct M fuel (stream ds tail) = expected_raw M ds tail.
Proof.
  intros M. induction ds as [|[w d] ds IH]; intros tail fuel Hd He Ht Hf.
  - destruct fuel; [cbn in Hf; lia|]. cbn. rewrite (He tail Ht). cbn. rewrite firstn_all. reflexivity.
  - destruct fuel; [cbn in Hf; lia|]. cbn in Hf.
    inversion Hd as [|? ? [Hw [Hs Hok]] Hd']; subst. cbn in Hw, Hs, Hok.
    cbn [stream docs_direct]. rewrite (Hs w (stream ds tail) Hw).
    destruct (okmap_ok _ Hok) as [m E].
    unfold expected_raw. cbn [map app fst snd]. rewrite E.
    rewrite <- app_length, app_assoc, firstn_app_exact, skipn_app_exact.
    f_equal. apply IH; [assumption|assumption|assumption|lia].
Qed.

Lemma stream_length : forall ds tail, length ds <= length (stream ds tail) \/ exists w d, In (w, d) ds /\ w ++ d = [].
Proof.
  induction ds as [|[w d] ds IH]; intro tail; cbn; [left; lia|].
  destruct (IH tail) as [H|(w' & d' & Hin & He)].
  - destruct (w ++ d) eqn:E.
    + right. exists w, d. auto.
    + left. rewrite app_assoc, app_length, E. cbn. lia.
  - right. exists w', d'. auto.
Qed.

(* a document that decodes to a Map is not empty when blanks alone give io.EOF *)
Lemma ok_doc_nonempty : forall (M : xmachine) w d, eof_on_blanks M ->
  is_okmap (decode_doc M d) = true -> w ++ d <> [].
Proof.
  intros M w d He Hok E. apply app_eq_nil in E as [-> ->].
  unfold decode_doc in Hok. rewrite (He [] eq_refl) in Hok. discriminate.
Qed.

Lemma stream_length_ok : forall (M : xmachine) ds tail, docs_ok M ds -> eof_on_blanks M ->
  length ds <= length (stream ds tail).
Proof.
  intros M ds tail Hd He. destruct (stream_length ds tail) as [H|(w & d & Hin & E)]; [assumption|].
  exfalso. unfold docs_ok in Hd. rewrite Forall_forall in Hd. destruct (Hd _ Hin) as (_ & _ & Hok).
  exact (ok_doc_nonempty M w d He Hok E).
Qed.

Lemma read_docs_raw_stream : forall (M : xmachine) ds tail sc,
  docs_ok M ds -> eof_on_blanks M -> blank tail = true ->
  legal (stream ds tail) sc -> zero_bounded sc = true ->
  read_docs (new_map_xml_reader_raw M) (S (length sc)) sc = expected_raw M ds tail.
Proof.
  intros M ds tail sc Hd He Ht Hl Hc.
  pose proof (legal_okfor _ _ Hl Hc) as Hs.
  rewrite (read_docs_raw_ok M _ _ sc Hs).
  apply docs_direct_stream; try assumption.
  pose proof (okfor_length _ _ _ Hs). pose proof (stream_length_ok M ds tail Hd He). lia.
Qed.

Lemma read_docs_stream : forall (M : xmachine) ds tail sc,
  docs_ok M ds -> eof_on_blanks M -> blank tail = true ->
  legal (stream ds tail) sc -> zero_bounded sc = true ->
  read_docs (noraw (new_map_xml_reader M)) (S (length sc)) sc = expected M ds.
Proof.
  intros M ds tail sc Hd He Ht Hl Hc.
  pose proof (legal_okfor _ _ Hl Hc) as Hs.
  rewrite (read_docs_noraw_ok M _ _ sc Hs), docs_direct_stream; try assumption.
  - unfold expected_raw, expected. rewrite map_app, map_map. reflexivity.
  - pose proof (okfor_length _ _ _ Hs). pose proof (stream_length_ok M ds tail Hd He). lia.
Qed.

Lemma expected_raw_concat : forall (M : xmachine) ds tail,
  concat (map snd (expected_raw M ds tail)) = stream ds tail.
Proof.
  intros M. induction ds as [|[w d] ds IH]; intro tail; cbn.
  - apply app_nil_r.
  - unfold expected_raw in IH. rewrite IH, app_assoc. reflexivity.
Qed.
