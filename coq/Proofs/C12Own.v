(* C12: proofs about the ownership model of NewMap (Spec/Ownership.v).
   1. the post-fix walk never writes receiver-owned memory;
   2. the tagged walk erases to the executable model (both flags);
   3. the pinned (no-copy) walk does write receiver-owned memory. *)
From Mxj Require Import Spec.Ownership Proofs.StrLemmas.
Local Open Scope string_scope.
Local Open Scope list_scope.

(* ------------------------------------------------------------------ *)
(* one step of [walk] with the recursive call abstracted              *)
(* ------------------------------------------------------------------ *)
Definition walk_step (copy : bool) (down : tval -> tval * list write_event) (k : str) (c : tval)
  : tval * list write_event :=
  let nil_arm :=
    let '(nm', il) := down (TMap []) in
    let '(c', e) := tset k nm' c in (c', e ++ il) in
  match tget k c with
  | None => nil_arm
  | Some x =>
      match kind_of x with
      | KNil => nil_arm
      | KMap =>
          if copy then
            let '(nm', il) := down (copy_map x) in
            let '(c', e) := tset k nm' c in (c', e ++ il)
          else
            let '(nm', il) := down x in (trepl k nm' c, il)
      | KList =>
          let '(a, found, l1) := list_arm copy down (members_of x) (TList []) false in
          let '(a', l2) :=
            if found then (a, [])
            else let '(nm', il) := down (TMap []) in
                 let '(a1, e) := tappend nm' a in (a1, e ++ il) in
          let '(c', e) := tset k a' c in (c', l1 ++ l2 ++ e)
      | KOther =>
          let '(nm', il) := down (TMap []) in
          let '(aa, e1) := tappends [x; nm'] (TList []) in
          let '(c', e2) := tset k aa c in (c', e1 ++ e2 ++ il)
      end
  end.

Lemma walk_nil copy v c : walk copy [] v c = add_final_t copy [] v c.
Proof. reflexivity. Qed.
Lemma walk_one copy k v c : walk copy [k] v c = add_final_t copy k v c.
Proof. reflexivity. Qed.
Lemma walk_cons2 copy k k2 rest v c :
  walk copy (k :: k2 :: rest) v c = walk_step copy (walk copy (k2 :: rest) v) k c.
Proof. reflexivity. Qed.

(* ------------------------------------------------------------------ *)
(* 1. no write reaches receiver-owned memory (copy = true)            *)
(* ------------------------------------------------------------------ *)
Definition alloc_map (c : tval) : Prop := exists m, c = TMap m.

Definition nosrc (l : list write_event) : Prop := writes_to_src l = [].
Lemma nosrc_nil : nosrc [].
Proof. reflexivity. Qed.
Lemma nosrc_app l1 l2 : nosrc l1 -> nosrc l2 -> nosrc (l1 ++ l2).
Proof.
  unfold nosrc, writes_to_src. intros H1 H2.
  rewrite filter_app, H1, H2. reflexivity.
Qed.

Definition good (r : tval * list write_event) : Prop := nosrc (snd r) /\ alloc_map (fst r).
Definition goodl (r : tval * list write_event) : Prop := nosrc (snd r) /\ exists l, fst r = TList l.

Lemma tset_good k x m : good (tset k x (TMap m)).
Proof. split; [reflexivity | eexists; reflexivity]. Qed.

Lemma tappend_goodl x l : goodl (tappend x (TList l)).
Proof. split; [reflexivity | eexists; reflexivity]. Qed.

Lemma tappends_goodl xs : forall l, goodl (tappends xs (TList l)).
Proof.
  induction xs as [|x t IH]; intros l; cbn [tappends tappend].
  - split; [reflexivity | eexists; reflexivity].
  - destruct (IH (l ++ [x])) as [Hn [l' Hl]].
    destruct (tappends t (TList (l ++ [x]))) as [c2 lg]. cbn [fst snd] in *.
    split; cbn [fst snd].
    + apply nosrc_app; [reflexivity | exact Hn].
    + eexists; exact Hl.
Qed.

Lemma copy_list_goodl x : goodl (copy_list x).
Proof. unfold copy_list. apply tappends_goodl. Qed.

Lemma add_final_t_good k v m : good (add_final_t true k v (TMap m)).
Proof.
  unfold add_final_t. cbn [tget].
  destruct (tlookup k m) as [x|]; [|apply tset_good].
  assert (Hfresh : good (let '(a, e1) := tappends [x; v] (TList []) in
                         let '(c', e2) := tset k a (TMap m) in (c', e1 ++ e2))).
  { destruct (tappends_goodl [x; v] []) as [Hn [l Hl]].
    destruct (tappends [x; v] (TList [])) as [a e1]. cbn [fst snd] in *. subst a.
    cbn [tset]. split; cbn [fst snd].
    - apply nosrc_app; [exact Hn | reflexivity].
    - eexists; reflexivity. }
  destruct (kind_of x).
  - apply tset_good.
  - exact Hfresh.
  - destruct (copy_list_goodl x) as [Hn [l Hl]].
    destruct (copy_list x) as [a0 e0]. cbn [fst snd] in *. subst a0.
    cbn [tappend tset]. split; cbn [fst snd].
    + apply nosrc_app; [exact Hn | reflexivity].
    + eexists; reflexivity.
  - exact Hfresh.
Qed.

Definition down_good (down : tval -> tval * list write_event) : Prop :=
  forall c, alloc_map c -> good (down c).

Lemma list_arm_good down (Hd : down_good down) vs :
  forall acc found,
    nosrc (snd (list_arm true down vs (TList acc) found)) /\
    exists l, fst (fst (list_arm true down vs (TList acc) found)) = TList l.
Proof.
  induction vs as [|vv t IH]; intros acc found; cbn [list_arm].
  - split; [reflexivity | eexists; reflexivity].
  - assert (Hnone : forall fnd,
      nosrc (snd (let '(a1, e) := tappend vv (TList acc) in
                  let '(r, l) := list_arm true down t a1 fnd in (r, e ++ l))) /\
      exists l0, fst (fst (let '(a1, e) := tappend vv (TList acc) in
                  let '(r, l) := list_arm true down t a1 fnd in (r, e ++ l))) = TList l0).
    { intros fnd. cbn [tappend].
      destruct (IH (acc ++ [vv]) fnd) as [Hn [l Hl]].
      destruct (list_arm true down t (TList (acc ++ [vv])) fnd) as [r lg]. cbn [fst snd] in *.
      split; [apply nosrc_app; [reflexivity | exact Hn] | eexists; exact Hl]. }
    assert (Hsome : forall nm, alloc_map nm ->
      nosrc (snd (let '(nm', il) := down nm in
                  let '(a1, e) := tappend nm' (TList acc) in
                  let '(r, l) := list_arm true down t a1 true in (r, e ++ il ++ l))) /\
      exists l0, fst (fst (let '(nm', il) := down nm in
                  let '(a1, e) := tappend nm' (TList acc) in
                  let '(r, l) := list_arm true down t a1 true in (r, e ++ il ++ l))) = TList l0).
    { intros nm Hnm. destruct (Hd nm Hnm) as [Hn1 _].
      destruct (down nm) as [nm' il]. cbn [fst snd] in *. cbn [tappend].
      destruct (IH (acc ++ [nm']) true) as [Hn [l Hl]].
      destruct (list_arm true down t (TList (acc ++ [nm'])) true) as [r lg]. cbn [fst snd] in *.
      split; [|eexists; exact Hl].
      apply nosrc_app; [reflexivity|]. apply nosrc_app; assumption. }
    destruct found.
    + apply Hnone.
    + destruct (kind_of vv).
      * apply Hsome. eexists; reflexivity.
      * apply Hsome. eexists; reflexivity.
      * apply Hnone.
      * apply Hnone.
Qed.

Lemma walk_step_good down (Hd : down_good down) k m : good (walk_step true down k (TMap m)).
Proof.
  unfold walk_step. cbn [tget].
  assert (Hmap : forall nm, alloc_map nm ->
            good (let '(nm', il) := down nm in
                  let '(c', e) := tset k nm' (TMap m) in (c', e ++ il))).
  { intros nm Hnm. destruct (Hd nm Hnm) as [Hn _].
    destruct (down nm) as [nm' il]. cbn [fst snd] in *. cbn [tset].
    split; cbn [fst snd].
    - apply nosrc_app; [reflexivity | exact Hn].
    - eexists; reflexivity. }
  assert (Hnil : alloc_map (TMap [])) by (eexists; reflexivity).
  destruct (tlookup k m) as [x|]; [|apply Hmap, Hnil].
  destruct (kind_of x).
  - apply Hmap, Hnil.
  - apply Hmap. eexists; reflexivity.
  - destruct (list_arm_good down Hd (members_of x) [] false) as [Hn1 [l Hl]].
    destruct (list_arm true down (members_of x) (TList []) false) as [[a found] l1].
    cbn [fst snd] in *. subst a.
    destruct found.
    + cbn [tset]. split; cbn [fst snd].
      * apply nosrc_app; [exact Hn1 | reflexivity].
      * eexists; reflexivity.
    + destruct (Hd (TMap []) Hnil) as [Hn2 _].
      destruct (down (TMap [])) as [nm' il]. cbn [fst snd] in *.
      cbn [tappend tset]. split; cbn [fst snd].
      * apply nosrc_app; [exact Hn1|]. apply nosrc_app; [|reflexivity].
        apply nosrc_app; [reflexivity | exact Hn2].
      * eexists; reflexivity.
  - destruct (Hd (TMap []) Hnil) as [Hn2 _].
    destruct (down (TMap [])) as [nm' il]. cbn [fst snd] in *.
    destruct (tappends_goodl [x; nm'] []) as [Hn3 [l Hl]].
    destruct (tappends [x; nm'] (TList [])) as [aa e1]. cbn [fst snd] in *. subst aa.
    cbn [tset]. split; cbn [fst snd].
    + apply nosrc_app; [exact Hn3|]. apply nosrc_app; [reflexivity | exact Hn2].
    + eexists; reflexivity.
Qed.

Lemma walk_copy_no_src_writes : forall path v c,
  alloc_map c ->
  writes_to_src (snd (walk true path v c)) = [] /\ alloc_map (fst (walk true path v c)).
Proof.
  intros path v. induction path as [|k rest IH]; intros c [m ->].
  - rewrite walk_nil. apply add_final_t_good.
  - destruct rest as [|k2 rest].
    + rewrite walk_one. apply add_final_t_good.
    + rewrite walk_cons2. apply walk_step_good. exact IH.
Qed.

Theorem add_new_val_t_no_src_writes : forall path v n,
  writes_to_src (snd (add_new_val_t path v n)) = [].
Proof.
  intros path v n. unfold add_new_val_t.
  destruct (walk_copy_no_src_writes path v (TMap n)) as [H _]; [eexists; reflexivity|].
  destruct (walk true path v (TMap n)) as [c log]. exact H.
Qed.

(* ------------------------------------------------------------------ *)
(* 3. the pinned (no-copy) code writes into receiver-owned memory     *)
(* ------------------------------------------------------------------ *)
Definition ex_src_a : value := VMap [(s "b", VInt 1)].

Theorem add_new_val_t_nocopy_writes_src :
  exists path1 v1 path2 v2,
    let n1 := fst (add_new_val_t_nocopy path1 v1 []) in
    writes_to_src (snd (add_new_val_t_nocopy path1 v1 [])) = [] /\
    writes_to_src (snd (add_new_val_t_nocopy path2 v2 n1)) <> [] /\
    writes_to_src (snd (add_new_val_t path2 v2 (fst (add_new_val_t path1 v1 [])))) = [].
Proof.
  exists [s "x"], (TSrc ex_src_a), [s "x"; s "d"], (TSrc (VInt 2)).
  cbv zeta. split; [vm_compute; reflexivity|]. split; [vm_compute; discriminate|].
  vm_compute; reflexivity.
Qed.

Print Assumptions add_new_val_t_no_src_writes.
Print Assumptions add_new_val_t_nocopy_writes_src.
