(* String-level lemmas for the XML round-trip proofs (C02, C03): escaping and
   unescaping, trimming, key folding, names, sorting. *)
From Mxj Require Import Spec.Items Proofs.StrLemmas.
From Coq Require Import Permutation.

Ltac ascii_cases c := destruct c as [[] [] [] [] [] [] [] []].

(* ---------------- escape_chars is a character-wise map ---------------- *)
Definition esc1 (c : ascii) : str :=
  if Ascii.eqb c "&"%char then s "&amp;"
  else if Ascii.eqb c "<"%char then s "&lt;"
  else if Ascii.eqb c ">"%char then s "&gt;"
  else if Ascii.eqb c """"%char then s "&quot;"
  else if Ascii.eqb c "'"%char then s "&apos;"
  else [c].

Lemma flat_map_flat_map {A B C} (f : A -> list B) (g : B -> list C) l :
  flat_map g (flat_map f l) = flat_map (fun a => flat_map g (f a)) l.
Proof.
  induction l as [|a l IH]; cbn; [reflexivity|].
  rewrite flat_map_app, IH. reflexivity.
Qed.

Lemma escape_chars_flat x : escape_chars x = flat_map esc1 x.
Proof.
  unfold escape_chars, escape_table. cbn [fold_left fst snd]. unfold replace1.
  rewrite !flat_map_flat_map. apply flat_map_ext. intro c.
  ascii_cases c; vm_compute; reflexivity.
Qed.

Lemma escape_chars_cons c x : escape_chars (c :: x) = esc1 c ++ escape_chars x.
Proof. rewrite !escape_chars_flat. reflexivity. Qed.
Lemma escape_chars_nil : escape_chars [] = [].
Proof. reflexivity. Qed.
Lemma escape_chars_app x y : escape_chars (x ++ y) = escape_chars x ++ escape_chars y.
Proof. rewrite !escape_chars_flat. apply flat_map_app. Qed.

Definition specialb (c : ascii) : bool := mem_ascii c (s "&<>""'").

Lemma esc1_plain c : specialb c = false -> esc1 c = [c].
Proof.
  unfold specialb, mem_ascii, esc1. cbn [existsb s list_ascii_of_string].
  intro H. repeat (apply orb_false_iff in H; destruct H as [? H]).
  repeat match goal with E : Ascii.eqb _ _ = false |- _ => rewrite E; clear E end. reflexivity.
Qed.

Lemma ascii_eqb_true a b : Ascii.eqb a b = true -> a = b.
Proof. apply Ascii.eqb_eq. Qed.

(* one step of unescape / raw_okb over the image of one character *)
Lemma unesc_esc1 c rest : unesc 0 (esc1 c ++ rest) = c :: unesc 0 rest.
Proof.
  unfold esc1.
  destruct (Ascii.eqb c "&"%char) eqn:E1; [apply ascii_eqb_true in E1; subst; reflexivity|].
  destruct (Ascii.eqb c "<"%char) eqn:E2; [apply ascii_eqb_true in E2; subst; reflexivity|].
  destruct (Ascii.eqb c ">"%char) eqn:E3; [apply ascii_eqb_true in E3; subst; reflexivity|].
  destruct (Ascii.eqb c """"%char) eqn:E4; [apply ascii_eqb_true in E4; subst; reflexivity|].
  destruct (Ascii.eqb c "'"%char) eqn:E5; [apply ascii_eqb_true in E5; subst; reflexivity|].
  cbn [app unesc]. unfold amp. rewrite E1. reflexivity.
Qed.

Lemma unescape_escape x : unescape (escape_chars x) = x.
Proof.
  unfold unescape. rewrite escape_chars_flat.
  induction x as [|c x IH]; [reflexivity|].
  cbn [flat_map]. rewrite unesc_esc1, IH. reflexivity.
Qed.

Lemma raw_ok_esc1 c rest : raw_okb (esc1 c ++ rest) = raw_okb rest.
Proof.
  unfold esc1.
  destruct (Ascii.eqb c "&"%char) eqn:E1; [apply ascii_eqb_true in E1; subst; reflexivity|].
  destruct (Ascii.eqb c "<"%char) eqn:E2; [apply ascii_eqb_true in E2; subst; reflexivity|].
  destruct (Ascii.eqb c ">"%char) eqn:E3; [apply ascii_eqb_true in E3; subst; reflexivity|].
  destruct (Ascii.eqb c """"%char) eqn:E4; [apply ascii_eqb_true in E4; subst; reflexivity|].
  destruct (Ascii.eqb c "'"%char) eqn:E5; [apply ascii_eqb_true in E5; subst; reflexivity|].
  cbn [app raw_okb]. unfold amp. rewrite E1, E2, E3, E4. reflexivity.
Qed.

Lemma raw_ok_escape x : raw_okb (escape_chars x) = true.
Proof.
  rewrite escape_chars_flat. induction x as [|c x IH]; [reflexivity|].
  cbn [flat_map]. rewrite raw_ok_esc1. exact IH.
Qed.

(* strings without any of the five characters are written and read as they are *)
Definition special_free' (x : str) : bool := forallb (fun c => negb (specialb c)) x.

Lemma escape_special_free x : special_free' x = true -> escape_chars x = x.
Proof.
  rewrite escape_chars_flat. induction x as [|c x IH]; [reflexivity|].
  cbn [special_free' forallb flat_map]. intro H. apply andb_true_iff in H. destruct H as [Hc Hx].
  apply negb_true_iff in Hc. rewrite (esc1_plain _ Hc). cbn [app]. f_equal. apply IH, Hx.
Qed.
Lemma unescape_special_free x : special_free' x = true -> unescape x = x.
Proof. intro H. rewrite <- (escape_special_free x H) at 1. apply unescape_escape. Qed.
Lemma raw_ok_special_free x : special_free' x = true -> raw_okb x = true.
Proof. intro H. rewrite <- (escape_special_free x H). apply raw_ok_escape. Qed.

(* ---------------- trimming ---------------- *)
Definition all_in (cut w : str) : bool := forallb (fun c => mem_ascii c cut) w.

Lemma trim_left_ws cut w y : all_in cut w = true -> trim_left cut (w ++ y) = trim_left cut y.
Proof.
  induction w as [|c w IH]; [reflexivity|].
  cbn [all_in forallb app trim_left]. intro H. apply andb_true_iff in H. destruct H as [Hc Hw].
  rewrite Hc. apply IH, Hw.
Qed.
Lemma trim_left_all cut w : all_in cut w = true -> trim_left cut w = [].
Proof. intro H. rewrite <- (app_nil_r w). rewrite trim_left_ws by exact H. reflexivity. Qed.

Lemma trim_left_app_ws cut x w : all_in cut w = true ->
  trim_left cut (x ++ w) = match trim_left cut x with [] => [] | t => t ++ w end.
Proof.
  intro Hw. induction x as [|c x IH]; cbn [app trim_left].
  - apply trim_left_all, Hw.
  - destruct (mem_ascii c cut); [exact IH | reflexivity].
Qed.

Lemma all_in_rev cut w : all_in cut (rev w) = all_in cut w.
Proof.
  unfold all_in. induction w as [|c w IH]; [reflexivity|].
  cbn [rev forallb]. rewrite forallb_app, IH. cbn [forallb]. rewrite andb_true_r. apply andb_comm.
Qed.

Lemma trim_right_ws cut y w : all_in cut w = true -> trim_right cut (y ++ w) = trim_right cut y.
Proof.
  intro H. unfold trim_right. rewrite rev_app_distr, trim_left_ws; [reflexivity|].
  rewrite all_in_rev. exact H.
Qed.
Lemma trim_right_nil cut : trim_right cut [] = [].
Proof. reflexivity. Qed.

Lemma trim_ws cut w1 x w2 : all_in cut w1 = true -> all_in cut w2 = true ->
  trim cut (w1 ++ x ++ w2) = trim cut x.
Proof.
  intros H1 H2. unfold trim. rewrite trim_left_ws by exact H1.
  rewrite trim_left_app_ws by exact H2.
  destruct (trim_left cut x) as [|c t] eqn:E; [reflexivity|].
  apply trim_right_ws, H2.
Qed.
Lemma trim_ws_only cut w : all_in cut w = true -> trim cut w = [].
Proof. intro H. unfold trim. rewrite trim_left_all by exact H. reflexivity. Qed.
Lemma trim_nil cut : trim cut [] = [].
Proof. reflexivity. Qed.

(* the result of trim_left is empty or starts outside the cut set *)
Lemma trim_left_head cut x : match trim_left cut x with [] => True | c :: _ => mem_ascii c cut = false end.
Proof.
  induction x as [|c x IH]; cbn [trim_left]; [exact I|].
  destruct (mem_ascii c cut) eqn:E; [exact IH | exact E].
Qed.
Lemma trim_left_fix cut c t : mem_ascii c cut = false -> trim_left cut (c :: t) = c :: t.
Proof. intro H. cbn [trim_left]. rewrite H. reflexivity. Qed.
Lemma trim_left_snoc cut z c : mem_ascii c cut = false -> trim_left cut (z ++ [c]) = trim_left cut z ++ [c].
Proof.
  intro H. induction z as [|d z IH]; cbn [app trim_left].
  - rewrite H. reflexivity.
  - destruct (mem_ascii d cut); [exact IH | reflexivity].
Qed.
Lemma trim_right_cons cut c y : mem_ascii c cut = false -> trim_right cut (c :: y) = c :: trim_right cut y.
Proof.
  intro H. unfold trim_right. cbn [rev]. rewrite trim_left_snoc by exact H.
  rewrite rev_app_distr. reflexivity.
Qed.

Lemma trim_left_idem cut x : trim_left cut (trim_left cut x) = trim_left cut x.
Proof.
  pose proof (trim_left_head cut x) as H. destruct (trim_left cut x) as [|c t]; [reflexivity|].
  apply trim_left_fix, H.
Qed.

Lemma trim_right_idem cut x : trim_right cut (trim_right cut x) = trim_right cut x.
Proof. unfold trim_right. rewrite rev_involutive, trim_left_idem. reflexivity. Qed.

Lemma trim_left_trim_right cut x :
  trim_left cut (trim_right cut (trim_left cut x)) = trim_right cut (trim_left cut x).
Proof.
  pose proof (trim_left_head cut x) as H. destruct (trim_left cut x) as [|c t]; [reflexivity|].
  rewrite trim_right_cons by exact H. apply trim_left_fix, H.
Qed.

Lemma trim_idem cut x : trim cut (trim cut x) = trim cut x.
Proof. unfold trim. rewrite trim_left_trim_right, trim_right_idem. reflexivity. Qed.

(* ---------------- key folding ---------------- *)
Definition fold_char (lower snake : bool) (c : ascii) : ascii :=
  let c := if lower then lower1 c else c in
  if snake then (if Ascii.eqb c "-"%char then "_"%char else c) else c.

Lemma fold_char_idem lo sn c : fold_char lo sn (fold_char lo sn c) = fold_char lo sn c.
Proof. destruct lo, sn; ascii_cases c; reflexivity. Qed.

Definition fold_char' (lower snake : bool) (c : ascii) : ascii :=
  let c := if snake then (if Ascii.eqb c "-"%char then "_"%char else c) else c in
  if lower then lower1 c else c.
Lemma fold_char'_eq lo sn c : fold_char' lo sn c = fold_char lo sn c.
Proof. destruct lo, sn; ascii_cases c; reflexivity. Qed.

Lemma name_start_fold lo sn c : name_start c = true -> name_start (fold_char lo sn c) = true.
Proof. destruct lo, sn; ascii_cases c; vm_compute; auto. Qed.
Lemma name_char_fold lo sn c : name_char c = true -> name_char (fold_char lo sn c) = true.
Proof. destruct lo, sn; ascii_cases c; vm_compute; auto. Qed.

Lemma name_ok_map_fold lo sn k : name_okb k = true -> name_okb (map (fold_char lo sn) k) = true.
Proof.
  destruct k as [|c t]; [discriminate|]. cbn [name_okb map]. intro H.
  apply andb_true_iff in H. destruct H as [Hc Ht]. apply andb_true_iff. split.
  - apply name_start_fold, Hc.
  - rewrite forallb_forall in *. intros x Hx. apply in_map_iff in Hx. destruct Hx as [y [<- Hy]].
    apply name_char_fold, Ht, Hy.
Qed.

(* ---------------- sorting ---------------- *)
Lemma insert_by_key_perm {A} (kv : str * A) l : Permutation (insert_by_key kv l) (kv :: l).
Proof.
  induction l as [|h t IH]; cbn [insert_by_key]; [apply Permutation_refl|].
  destruct (str_leb (fst kv) (fst h)); [apply Permutation_refl|].
  eapply Permutation_trans; [apply perm_skip, IH | apply perm_swap].
Qed.
Lemma sort_by_key_perm {A} (l : list (str * A)) : Permutation (sort_by_key l) l.
Proof.
  induction l as [|h t IH]; cbn; [apply Permutation_refl|].
  eapply Permutation_trans; [apply insert_by_key_perm | apply perm_skip, IH].
Qed.
Lemma sort_by_key_in {A} (l : list (str * A)) x : In x (sort_by_key l) <-> In x l.
Proof. split; apply Permutation_in; [|apply Permutation_sym]; apply sort_by_key_perm. Qed.
Lemma sort_by_key_length {A} (l : list (str * A)) : length (sort_by_key l) = length l.
Proof. apply Permutation_length, sort_by_key_perm. Qed.
Lemma sort_by_key_nil {A} (l : list (str * A)) : sort_by_key l = [] -> l = [].
Proof. intro H. apply length_zero_iff_nil. rewrite <- sort_by_key_length, H. reflexivity. Qed.

(* nodup_keys as NoDup *)
Lemma existsb_str_eqb_in k l : existsb (str_eqb k) l = true <-> In k l.
Proof.
  rewrite existsb_exists. split.
  - intros [x [Hx E]]. apply str_eqb_eq in E. subst. exact Hx.
  - intro H. exists k. split; [exact H | apply str_eqb_refl].
Qed.
Lemma nodup_keys_NoDup l : nodup_keys l = true <-> NoDup l.
Proof.
  induction l as [|k t IH]; cbn [nodup_keys].
  - split; [constructor | reflexivity].
  - rewrite andb_true_iff, negb_true_iff, IH. split.
    + intros [H1 H2]. constructor; [|exact H2]. intro Hin. apply existsb_str_eqb_in in Hin. congruence.
    + intro H. inversion H as [|? ? Hn Hd]; subst. split; [|exact Hd].
      destruct (existsb (str_eqb k) t) eqn:E; [|reflexivity]. apply existsb_str_eqb_in in E. contradiction.
Qed.
Lemma sort_by_key_nodup {A} (l : list (str * A)) : NoDup (map fst l) -> NoDup (map fst (sort_by_key l)).
Proof.
  intro H. eapply Permutation_NoDup; [|exact H].
  apply Permutation_map, Permutation_sym, sort_by_key_perm.
Qed.
