(* C11, second part: the theorems of Proofs/C11P.v restated for an ARBITRARY path
   string, the way the harness calls the model functions:

     set_value_for_path m v path     remove_path m path     rename_key pf sep m path nn

   The only link between the string and the key list is the decidable equation
   [split1 dot path = pre ++ [k]] (strings.Split(path, ".") = parent keys ++ last
   key); every string has exactly one such decomposition ([path_decomp]).  *)
From Mxj Require Import Model.TreeOps Spec.PathSem Spec.MapPaths Proofs.StrLemmas Proofs.StrMore Proofs.C07P
  Proofs.KVTotal Proofs.C11P.

(* every path string has one decomposition into parent keys and last key *)
Lemma path_decomp path : exists pre k, split1 dot path = pre ++ [k].
Proof.
  pose proof (split1_nonempty dot path) as Hne.
  exists (removelast (split1 dot path)), (last (split1 dot path) []).
  apply app_removelast_last; exact Hne.
Qed.

Lemma path_decomp_unique path pre k pre' k' :
  split1 dot path = pre ++ [k] -> split1 dot path = pre' ++ [k'] -> pre = pre' /\ k = k'.
Proof. intros H1 H2. rewrite H1 in H2. apply app_inj_tail in H2. exact H2. Qed.

Lemma dotfree_of_Forall ks : Forall (fun p => mem_ascii dot p = false) ks -> dotfree ks.
Proof.
  intros H. unfold dotfree. apply forallb_forall. intros k Hk.
  rewrite Forall_forall in H. rewrite (H k Hk). reflexivity.
Qed.

(* the bridge: the path is the join of its keys, and no key contains a dot *)
Lemma path_keys_bridge path pre k :
  split1 dot path = pre ++ [k] ->
  path = join sdot (pre ++ [k]) /\ dotfree (pre ++ [k]) /\ mem_ascii dot k = false.
Proof.
  intros Hs. pose proof (split1_nosep_parts dot path) as HF. rewrite Hs in HF.
  split; [|split].
  - rewrite <- Hs. symmetry. apply join_split1.
  - apply dotfree_of_Forall; exact HF.
  - apply Forall_app in HF as [_ HF]. inversion HF; subst; assumption.
Qed.

(* conversely a joined plain key list splits back *)
Lemma split_of_join pre k : dotfree (pre ++ [k]) -> split1 dot (join sdot (pre ++ [k])) = pre ++ [k].
Proof. intros Hd. apply split1_join_keys; [apply snoc_nonempty|exact Hd]. Qed.

Lemma plain_keys_pre pre k : plain_keys (pre ++ [k]) -> plain_keys pre.
Proof. intros H. apply plain_keys_app in H as [H _]. exact H. Qed.

Ltac bridge Hs :=
  let Hd := fresh "Hd" in let Hk := fresh "Hk" in
  destruct (path_keys_bridge _ _ _ Hs) as (-> & Hd & Hk).

(* ================= the result is a Map or an error: nothing else ================= *)
(* Fail-clean in the functional model: an operation returns EITHER the Map after
   the call OR an error; with an error no Map is produced at all.  The harness
   checks on every case that the implementation leaves the receiver deep-equal
   to the input whenever the model (and the implementation) report an error. *)
Lemma set_result m v path :
  (exists m', set_value_for_path m v path = Ok m') \/ (exists e, set_value_for_path m v path = Err e).
Proof.
  pose proof (set_no_panic m v path) as H.
  destruct (set_value_for_path m v path); [left|right|congruence]; eauto.
Qed.

Lemma remove_result m path :
  (exists m', remove_path m path = Ok m') \/ remove_path m path = Err EOther.
Proof.
  unfold remove_path. pose proof (split1_nonempty dot path) as Hne.
  rewrite (app_removelast_last [] Hne). rewrite with_parent_spec.
  destruct (get_keys _ m) as [[]|]; try (right; reflexivity).
  destruct (has_key _ _); [left; eauto|right; reflexivity].
Qed.

Lemma rename_result pf sep m path nn :
  (exists m', rename_key pf sep m path nn = Ok m') \/ (exists e, rename_key pf sep m path nn = Err e).
Proof.
  pose proof (rename_no_panic pf sep m path nn) as H.
  destruct (rename_key pf sep m path nn); [left|right|congruence]; eauto.
Qed.

(* ================= SetValueForPath ================= *)
Theorem set_spec_path m v path pre k :
  split1 dot path = pre ++ [k] -> plain_keys pre -> no_list_on (pre ++ [k]) m = true ->
  set_value_for_path m v path =
  match get_keys pre m with
  | Some (VMap c) => Ok (put_keys pre (VMap (set k v c)) m)
  | Some VNil => Ok m
  | _ => Err EOther
  end.
Proof. intros Hs Hp Hn. bridge Hs. apply set_spec; assumption. Qed.

Theorem set_ok_path m v path pre k c :
  split1 dot path = pre ++ [k] -> plain_keys pre -> get_keys pre m = Some (VMap c) ->
  set_value_for_path m v path = Ok (put_keys pre (VMap (set k v c)) m).
Proof. intros Hs Hp Hg. bridge Hs. apply set_ok; assumption. Qed.

Theorem set_post_path m v path pre k c :
  split1 dot path = pre ++ [k] -> plain_keys pre -> get_keys pre m = Some (VMap c) ->
  exists m', set_value_for_path m v path = Ok m' /\
    get_keys (pre ++ [k]) m' = Some v /\
    (forall r, get_keys (pre ++ k :: r) m' = get_keys r v) /\
    get_keys pre m' = Some (VMap (set k v c)) /\
    (forall qs, diverge (pre ++ [k]) qs = true -> get_keys qs m' = get_keys qs m) /\
    (forall qs r a, pre = qs ++ r -> r <> [] -> get_keys qs m = Some (VMap a) ->
       exists a', get_keys qs m' = Some (VMap a') /\ map fst a' = map fst a) /\
    (wfb m = true -> wfb v = true -> wfb m' = true).
Proof. intros Hs Hp Hg. bridge Hs. apply set_post; assumption. Qed.

(* frame alone, for a successful call given as a hypothesis *)
Theorem set_frame_path m v path pre k c m' :
  split1 dot path = pre ++ [k] -> plain_keys pre -> get_keys pre m = Some (VMap c) ->
  set_value_for_path m v path = Ok m' ->
  forall qs, diverge (pre ++ [k]) qs = true -> get_keys qs m' = get_keys qs m.
Proof.
  intros Hs Hp Hg H. destruct (set_post_path m v path pre k c Hs Hp Hg) as (m2 & E & _ & _ & _ & Hf & _).
  rewrite E in H. inversion H; subst. exact Hf.
Qed.

Theorem set_then_value_path pf sep m v path pre k c m' :
  split1 dot path = pre ++ [k] -> plain_keys (pre ++ [k]) -> get_keys pre m = Some (VMap c) ->
  set_value_for_path m v path = Ok m' ->
  values_for_path pf sep m' path [] = Ok (final v) /\
  value_for_path pf sep m' path = match final v with x :: _ => Ok x | [] => Err EOther end /\
  exists_path pf sep m' path [] = Ok (reportable v).
Proof. intros Hs Hp Hg H. bridge Hs. eapply set_then_value; eassumption. Qed.

(* the reading of the property text: a new value that is not a list is what ValueForPath returns *)
Corollary set_then_value_nonlist pf sep m v path pre k c m' :
  split1 dot path = pre ++ [k] -> plain_keys (pre ++ [k]) -> get_keys pre m = Some (VMap c) ->
  is_list v = false ->
  set_value_for_path m v path = Ok m' ->
  value_for_path pf sep m' path = Ok v /\ exists_path pf sep m' path [] = Ok true.
Proof.
  intros Hs Hp Hg Hl H.
  destruct (set_then_value_path pf sep m v path pre k c m' Hs Hp Hg H) as (_ & H2 & H3).
  rewrite H2, H3. destruct v; try discriminate; split; reflexivity.
Qed.

Theorem set_nil_noop_path m v path pre k :
  split1 dot path = pre ++ [k] -> plain_keys pre -> get_keys pre m = Some VNil ->
  set_value_for_path m v path = Ok m.
Proof. intros Hs Hp Hg. bridge Hs. apply set_nil_noop; assumption. Qed.

Theorem set_ok_iff_path m v path pre k :
  split1 dot path = pre ++ [k] -> plain_keys pre -> no_list_on (pre ++ [k]) m = true ->
  (exists m', set_value_for_path m v path = Ok m') <->
  ((exists c, get_keys pre m = Some (VMap c)) \/ get_keys pre m = Some VNil).
Proof. intros Hs Hp Hn. bridge Hs. apply set_ok_iff; assumption. Qed.

Theorem set_fails_path m v path pre k :
  split1 dot path = pre ++ [k] -> plain_keys pre -> no_list_on (pre ++ [k]) m = true ->
  match get_keys pre m with Some (VMap _) | Some VNil => False | _ => True end ->
  set_value_for_path m v path = Err EOther.
Proof. intros Hs Hp Hn H. bridge Hs. apply set_fails; assumption. Qed.

(* ================= Remove: no side condition on the path or the Map ================= *)
Theorem remove_spec_path m path pre k :
  split1 dot path = pre ++ [k] ->
  remove_path m path =
  match get_keys pre m with
  | Some (VMap c) => if has_key k c then Ok (put_keys pre (VMap (del k c)) m) else Err EOther
  | _ => Err EOther
  end.
Proof. intros Hs. bridge Hs. apply remove_spec; assumption. Qed.

Theorem remove_fail_iff_path m path :
  remove_path m path = Err EOther <-> get_keys (split1 dot path) m = None.
Proof.
  destruct (path_decomp path) as (pre & k & Hs). rewrite Hs. bridge Hs.
  eapply remove_fail_iff; try exact Hd; exact (fun _ => None) || exact [].
Qed.

Theorem remove_post_path pf sep m path pre k m' :
  split1 dot path = pre ++ [k] -> plain_keys (pre ++ [k]) -> wfb m = true ->
  remove_path m path = Ok m' ->
  get_keys (pre ++ [k]) m' = None /\ exists_path pf sep m' path [] = Ok false.
Proof. intros Hs Hp Hw H. bridge Hs. eapply remove_post; eassumption. Qed.

(* the structural half of the post-condition needs no condition on the keys *)
Theorem remove_gone_path m path pre k m' :
  split1 dot path = pre ++ [k] -> wfb m = true -> remove_path m path = Ok m' ->
  get_keys (pre ++ [k]) m' = None.
Proof.
  intros Hs Hw H. bridge Hs. destruct (remove_parent _ _ _ _ Hd H) as (c & Hg & Hg').
  rewrite get_keys_app, Hg'. cbn [get_keys].
  rewrite lookup_del_same; [reflexivity|]. apply wfb_map_nodup. eapply wf_get_keys; eassumption.
Qed.

Theorem remove_frame_path m path pre k m' :
  split1 dot path = pre ++ [k] -> remove_path m path = Ok m' ->
  forall qs, diverge (pre ++ [k]) qs = true -> get_keys qs m' = get_keys qs m.
Proof. intros Hs H. bridge Hs. eapply remove_frame; eassumption. Qed.

Theorem remove_parent_path m path pre k m' :
  split1 dot path = pre ++ [k] -> remove_path m path = Ok m' ->
  exists c, get_keys pre m = Some (VMap c) /\ get_keys pre m' = Some (VMap (del k c)).
Proof. intros Hs H. bridge Hs. eapply remove_parent; eassumption. Qed.

Theorem remove_ancestors_path m path pre k m' :
  split1 dot path = pre ++ [k] -> remove_path m path = Ok m' ->
  forall qs r a, pre = qs ++ r -> r <> [] -> get_keys qs m = Some (VMap a) ->
  exists a', get_keys qs m' = Some (VMap a') /\ map fst a' = map fst a.
Proof. intros Hs H. bridge Hs. eapply remove_ancestors; eassumption. Qed.

Theorem remove_wf_path m path m' : wfb m = true -> remove_path m path = Ok m' -> wfb m' = true.
Proof.
  intros Hw H. destruct (path_decomp path) as (pre & k & Hs). bridge Hs.
  eapply remove_wf; eassumption.
Qed.

(* ================= RenameKey ================= *)
Section Rename.
Variable pf : str -> option flt.
Variable sep : str.

Theorem rename_spec_path m path pre k nn :
  split1 dot path = pre ++ [k] -> plain_keys (pre ++ [k]) -> plain_keyb nn = true ->
  rename_key pf sep m path nn =
  match get_keys pre m with
  | Some (VMap c) =>
      match lookup k c with
      | Some v => if reportable v && sibling_free nn c
                  then Ok (put_keys pre (VMap (del k (set nn v c))) m) else Err EOther
      | None => Err EOther
      end
  | _ => Err EOther
  end.
Proof. intros Hs Hp Hn. bridge Hs. apply rename_spec; assumption. Qed.

Theorem rename_ok_iff_path m path pre k nn :
  split1 dot path = pre ++ [k] -> plain_keys (pre ++ [k]) -> plain_keyb nn = true ->
  (exists m', rename_key pf sep m path nn = Ok m') <->
  (exists v, get_keys (pre ++ [k]) m = Some v /\ reportable v = true) /\
  match get_keys (pre ++ [nn]) m with Some x => reportable x = false | None => True end.
Proof. intros Hs Hp Hn. bridge Hs. apply rename_ok_iff; assumption. Qed.

Theorem rename_ok_iff_noel_path m path pre k nn :
  split1 dot path = pre ++ [k] -> plain_keys (pre ++ [k]) -> plain_keyb nn = true ->
  no_empty_lists m = true ->
  (exists m', rename_key pf sep m path nn = Ok m') <->
  get_keys (pre ++ [k]) m <> None /\ get_keys (pre ++ [nn]) m = None.
Proof. intros Hs Hp Hn Hw. bridge Hs. apply rename_ok_iff_noel; assumption. Qed.

Theorem rename_refuses_path m path pre k nn x :
  split1 dot path = pre ++ [k] -> plain_keys (pre ++ [k]) -> plain_keyb nn = true ->
  get_keys (pre ++ [nn]) m = Some x -> reportable x = true ->
  rename_key pf sep m path nn = Err EOther.
Proof. intros Hs Hp Hn Hg Hr. bridge Hs. eapply rename_refuses; eassumption. Qed.

(* on a Map of the C11 domain every existing sibling is refused, whatever it holds *)
Corollary rename_refuses_noel_path m path pre k nn :
  split1 dot path = pre ++ [k] -> plain_keys (pre ++ [k]) -> plain_keyb nn = true ->
  no_empty_lists m = true -> get_keys (pre ++ [nn]) m <> None ->
  rename_key pf sep m path nn = Err EOther.
Proof.
  intros Hs Hp Hn Hw Hg. destruct (get_keys (pre ++ [nn]) m) as [x|] eqn:E; [|congruence].
  eapply rename_refuses_path; try eassumption.
  apply noel_reportable. eapply noel_get_keys; eassumption.
Qed.

Theorem rename_fails_missing_path m path pre k nn :
  split1 dot path = pre ++ [k] -> plain_keys (pre ++ [k]) -> plain_keyb nn = true ->
  get_keys (pre ++ [k]) m = None ->
  rename_key pf sep m path nn = Err EOther.
Proof. intros Hs Hp Hn Hg. bridge Hs. apply rename_fails_missing; assumption. Qed.

Theorem rename_moves_path m path pre k nn m' :
  split1 dot path = pre ++ [k] -> plain_keys (pre ++ [k]) -> plain_keyb nn = true -> wfb m = true ->
  rename_key pf sep m path nn = Ok m' ->
  (forall r, get_keys (pre ++ nn :: r) m' = get_keys (pre ++ k :: r) m) /\
  get_keys (pre ++ [nn]) m' = get_keys (pre ++ [k]) m /\
  get_keys (pre ++ [k]) m <> None /\
  get_keys (pre ++ [k]) m' = None.
Proof. intros Hs Hp Hn Hw H. bridge Hs. eapply rename_moves; eassumption. Qed.

Theorem rename_post_path m path pre k nn m' :
  split1 dot path = pre ++ [k] -> plain_keys (pre ++ [k]) -> plain_keyb nn = true -> wfb m = true ->
  rename_key pf sep m path nn = Ok m' ->
  exists_path pf sep m' path [] = Ok false /\
  exists_path pf sep m' (sibling_path path nn) [] = Ok true /\
  value_for_path pf sep m' (sibling_path path nn) = value_for_path pf sep m path.
Proof.
  intros Hs Hp Hn Hw H. bridge Hs. rewrite (sibling_path_keys pf sep) by exact Hp.
  eapply rename_post; eassumption.
Qed.

Theorem rename_frame_path m path pre k nn m' :
  split1 dot path = pre ++ [k] -> plain_keys (pre ++ [k]) -> plain_keyb nn = true ->
  rename_key pf sep m path nn = Ok m' ->
  forall qs, diverge (pre ++ [k]) qs = true -> diverge (pre ++ [nn]) qs = true ->
             get_keys qs m' = get_keys qs m.
Proof. intros Hs Hp Hn H. bridge Hs. eapply rename_frame; eassumption. Qed.

Theorem rename_parent_path m path pre k nn m' :
  split1 dot path = pre ++ [k] -> plain_keys (pre ++ [k]) -> plain_keyb nn = true ->
  rename_key pf sep m path nn = Ok m' ->
  exists c v, get_keys pre m = Some (VMap c) /\ lookup k c = Some v /\
              get_keys pre m' = Some (VMap (del k (set nn v c))).
Proof. intros Hs Hp Hn H. bridge Hs. eapply rename_parent; eassumption. Qed.

Theorem rename_ancestors_path m path pre k nn m' :
  split1 dot path = pre ++ [k] -> plain_keys (pre ++ [k]) -> plain_keyb nn = true ->
  rename_key pf sep m path nn = Ok m' ->
  forall qs r a, pre = qs ++ r -> r <> [] -> get_keys qs m = Some (VMap a) ->
  exists a', get_keys qs m' = Some (VMap a') /\ map fst a' = map fst a.
Proof. intros Hs Hp Hn H. bridge Hs. eapply rename_ancestors; eassumption. Qed.

Theorem rename_wf_path m path pre k nn m' :
  split1 dot path = pre ++ [k] -> plain_keys (pre ++ [k]) -> plain_keyb nn = true -> wfb m = true ->
  rename_key pf sep m path nn = Ok m' -> wfb m' = true.
Proof. intros Hs Hp Hn Hw H. bridge Hs. eapply rename_wf; eassumption. Qed.

(* renaming a key to itself is refused (the "sibling" is the key itself) *)
Corollary rename_same_name_path m path pre k :
  split1 dot path = pre ++ [k] -> plain_keys (pre ++ [k]) ->
  forall m', rename_key pf sep m path k <> Ok m'.
Proof.
  intros Hs Hp m' H.
  assert (Hn : plain_keyb k = true).
  { apply plain_keys_app in Hp as [_ Hp]. unfold plain_keys in Hp. cbn in Hp.
    rewrite andb_true_r in Hp. exact Hp. }
  assert (Hex : exists m', rename_key pf sep m path k = Ok m') by eauto.
  apply (rename_ok_iff_path m path pre k k Hs Hp Hn) in Hex as [[v [Hv Hr]] Hs2].
  rewrite Hv in Hs2. congruence.
Qed.
End Rename.

(* the literal reading "ValueForPath(path) returns the new value" fails for list values: a list
   stored at the path is reported as its members (first member by ValueForPath, an error when the
   list is empty) - the general behaviour of ValuesForPath, see C07 *)
Theorem set_then_value_list_refuted :
  exists m v path m',
    is_list v = true /\ set_value_for_path m v path = Ok m' /\
    value_for_path (fun _ => None) [":"%char] m' path = Ok (VInt 1) /\
    value_for_path (fun _ => None) [":"%char] m' path <> Ok v /\
    exists m2, set_value_for_path m (VList []) path = Ok m2 /\
               value_for_path (fun _ => None) [":"%char] m2 path = Err EOther.
Proof.
  exists (VMap [(["a"%char], VMap [])]), (VList [VInt 1; VInt 2]), ["a"%char; "."%char; "b"%char].
  eexists. split; [reflexivity|]. split; [vm_compute; reflexivity|].
  split; [vm_compute; reflexivity|]. split; [vm_compute; discriminate|].
  eexists. split; vm_compute; reflexivity.
Qed.
