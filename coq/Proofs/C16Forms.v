(* C16: what mxj adds on top of encoding/json, the Writer forms and the Maps forms. *)
From Mxj Require Import Model.EncForms Spec.Veq.

(* Map.Json depends on the Map only through the bytes the encoder wrote *)
Lemma map_json_of_bytes r r' : r = r' -> map_json r = map_json r'.
Proof. intros ->. reflexivity. Qed.

(* ... and returns them without the newline Encoder.Encode appends *)
Lemma trim_suffix_nl_app b : trim_suffix_nl (b ++ [nl]) = b.
Proof. unfold trim_suffix_nl. rewrite rev_app_distr. cbn [rev app]. rewrite rev_involutive. reflexivity. Qed.

Lemma map_json_encoded b : map_json (Ok (b ++ [nl])) = Ok b.
Proof. cbn [map_json]. rewrite trim_suffix_nl_app. reflexivity. Qed.

Lemma map_json_indent_spec indent b : map_json_indent indent (Ok (b ++ [nl])) = indent b.
Proof. unfold map_json_indent. rewrite map_json_encoded. reflexivity. Qed.

Section Json.
(* the environment: encoding/json writes map keys in sorted order, so what the encoder writes does not
   depend on the order in which a Go map hands out its entries *)
Variable encode : bool -> value -> res str.
Hypothesis encode_order_free : forall safe v v', wf v -> veq v v' -> encode safe v = encode safe v'.

Lemma map_json_perm_invariant safe v v' :
  wf v -> veq v v' -> map_json (encode safe v) = map_json (encode safe v').
Proof. intros Hwf Hveq. rewrite (encode_order_free safe v v' Hwf Hveq). reflexivity. Qed.

Lemma map_json_indent_perm_invariant indent safe v v' :
  wf v -> veq v v' -> map_json_indent indent (encode safe v) = map_json_indent indent (encode safe v').
Proof. intros Hwf Hveq. rewrite (encode_order_free safe v v' Hwf Hveq). reflexivity. Qed.
End Json.

(* ---------------- writers ---------------- *)
Lemma writer_form_ok x sink : writer_form (Ok x) sink = (Ok tt, sink ++ x).
Proof. reflexivity. Qed.
Lemma writer_form_err e sink : writer_form (Err e) sink = (Err e, sink).
Proof. reflexivity. Qed.
Lemma writer_raw_form_spec enc sink :
  writer_raw_form enc sink = (enc, snd (writer_form enc sink)).
Proof. destruct enc; reflexivity. Qed.

(* ---------------- Maps forms ---------------- *)
Lemma maps_concat_ok sep first (xs : list str) acc :
  maps_concat sep first (map Ok xs) acc =
  (acc ++ (fix go (first : bool) (xs : list str) : str :=
             match xs with [] => [] | x :: t => (if first then [] else sep) ++ x ++ go false t end) first xs, None).
Proof.
  revert first acc. induction xs as [|x t IH]; intros first acc; cbn [map maps_concat].
  - rewrite app_nil_r. reflexivity.
  - rewrite IH. rewrite <- !app_assoc. reflexivity.
Qed.

Lemma maps_concat_nosep_ok (xs : list str) : maps_concat [] true (map Ok xs) [] = (concat xs, None).
Proof.
  rewrite maps_concat_ok. cbn [app]. f_equal.
  generalize true. induction xs as [|x t IH]; intro b; [reflexivity|].
  cbn [concat]. rewrite IH. destruct b; reflexivity.
Qed.

Theorem maps_xml_string_concat (xs : list str) : maps_xml_string (map Ok xs) = (concat xs, None).
Proof. apply maps_concat_nosep_ok. Qed.

(* an encoding error stops the loop: the string built so far comes back together with the error *)
Lemma maps_concat_nosep_err first (xs : list str) e rest acc :
  maps_concat [] first (map Ok xs ++ Err e :: rest) acc = (acc ++ concat xs, Some e).
Proof.
  revert first acc. induction xs as [|x t IH]; intros first acc; cbn [map app maps_concat concat].
  - rewrite app_nil_r. reflexivity.
  - rewrite IH. rewrite <- !app_assoc. destruct first; reflexivity.
Qed.

Theorem maps_xml_string_error (xs : list str) e rest :
  maps_xml_string (map Ok xs ++ Err e :: rest) = (concat xs, Some e).
Proof. unfold maps_xml_string. rewrite maps_concat_nosep_err. reflexivity. Qed.

(* JsonString(safe) is the concatenation of the per-Map Json(safe) encodings *)
Theorem maps_json_string_concat safe (js : bool -> list (res str)) (xs : list str) :
  js safe = map Ok xs -> maps_json_string safe js = (concat xs, None).
Proof. intro H. unfold maps_json_string. rewrite H. apply maps_concat_nosep_ok. Qed.

(* JsonStringIndent(p, i, safe) is the per-Map JsonIndent(p, i, safe) encodings JOINED by a newline *)
Lemma join_go sep (xs : list str) :
  (fix go (first : bool) (xs : list str) : str :=
     match xs with [] => [] | x :: t => (if first then [] else sep) ++ x ++ go false t end) true xs = join sep xs.
Proof.
  destruct xs as [|x t]; [reflexivity|]. cbn [app].
  revert x. induction t as [|y t IH]; intro x.
  - cbn [join]. apply app_nil_r.
  - change (join sep (x :: y :: t)) with (x ++ sep ++ join sep (y :: t)).
    rewrite <- (IH y). reflexivity.
Qed.

Theorem maps_json_string_indent_join safe (ji : bool -> list (res str)) (xs : list str) :
  ji safe = map Ok xs -> maps_json_string_indent safe ji = (join [nl] xs, None).
Proof.
  intro H. unfold maps_json_string_indent. rewrite H, maps_concat_ok. cbn [app]. rewrite join_go. reflexivity.
Qed.

(* ... hence NOT their concatenation as soon as there are two documents *)
Theorem maps_json_string_indent_refuted :
  exists xs, maps_json_string_indent false (fun _ => map Ok xs) <> (concat xs, None).
Proof. exists [s "{}"; s "{}"]. vm_compute. discriminate. Qed.

Theorem maps_json_string_indent_single safe (ji : bool -> list (res str)) (x : str) :
  ji safe = [Ok x] -> maps_json_string_indent safe ji = (x, None).
Proof. intro H. unfold maps_json_string_indent. rewrite H. cbn. reflexivity. Qed.

Lemma maps_file_ok x : maps_file (x, None) = (Some x, None).
Proof. reflexivity. Qed.

(* ---------------- bytes of the compact encoder ---------------- *)
From Mxj Require Import Proofs.C16P.

Definition xml_bytes (r : res (list item)) : res str :=
  match r with Ok its => Ok (emit its) | Err e => Err e | Panic => Panic end.

Lemma xml_bytes_perm_invariant o (m m' : entries) (root : option str) :
  wf (VMap m) -> veq (VMap m) (VMap m') ->
  xml_bytes (map_xml_items o m root) = xml_bytes (map_xml_items o m' root).
Proof. intros Hwf Hveq. rewrite (map_xml_items_perm_invariant o m m' root Hwf Hveq). reflexivity. Qed.
