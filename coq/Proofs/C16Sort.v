(* C16: the bytewise order on strings and the insertion sort of the encoder model.
   Sorting a list whose keys are pairwise distinct gives the same list for every
   permutation of the input. *)
From Coq Require Import Permutation Sorting.Sorted.
From Mxj Require Import Model.XmlEnc Spec.EncOrder Proofs.StrLemmas.

(* ---------------- str_leb is a total order ---------------- *)
Lemma str_leb_refl a : str_leb a a = true.
Proof.
  induction a as [|x a IH]; cbn [str_leb]; [reflexivity|].
  rewrite N.ltb_irrefl. exact IH.
Qed.

Lemma str_leb_total a b : str_leb a b = false -> str_leb b a = true.
Proof.
  revert b; induction a as [|x a IH]; intros [|y b]; cbn [str_leb]; try discriminate; try reflexivity.
  destruct (N.ltb_spec (N_of_ascii x) (N_of_ascii y)) as [Hxy|Hxy]; [discriminate|].
  destruct (N.ltb_spec (N_of_ascii y) (N_of_ascii x)) as [Hyx|Hyx]; [reflexivity|].
  destruct (N.ltb_spec (N_of_ascii x) (N_of_ascii y)); [lia|]. apply IH.
Qed.

Lemma N_of_ascii_inj x y : N_of_ascii x = N_of_ascii y -> x = y.
Proof. intro H. rewrite <- (ascii_N_embedding x), <- (ascii_N_embedding y), H. reflexivity. Qed.

Lemma str_leb_antisym a b : str_leb a b = true -> str_leb b a = true -> a = b.
Proof.
  revert b; induction a as [|x a IH]; intros [|y b]; cbn [str_leb]; try discriminate; try reflexivity.
  destruct (N.ltb_spec (N_of_ascii x) (N_of_ascii y)) as [Hxy|Hxy];
  destruct (N.ltb_spec (N_of_ascii y) (N_of_ascii x)) as [Hyx|Hyx]; try discriminate; try lia.
  intros H1 H2. f_equal; [apply N_of_ascii_inj; lia | apply IH; assumption].
Qed.

Lemma str_leb_trans a b c : str_leb a b = true -> str_leb b c = true -> str_leb a c = true.
Proof.
  revert b c; induction a as [|x a IH]; intros [|y b] [|z c]; cbn [str_leb]; try discriminate; try reflexivity.
  destruct (N.ltb_spec (N_of_ascii x) (N_of_ascii y)) as [Hxy|Hxy];
  destruct (N.ltb_spec (N_of_ascii y) (N_of_ascii x)) as [Hyx|Hyx]; try discriminate; try lia;
  destruct (N.ltb_spec (N_of_ascii y) (N_of_ascii z)) as [Hyz|Hyz];
  destruct (N.ltb_spec (N_of_ascii z) (N_of_ascii y)) as [Hzy|Hzy]; try discriminate; try lia;
  destruct (N.ltb_spec (N_of_ascii x) (N_of_ascii z)) as [Hxz|Hxz];
  destruct (N.ltb_spec (N_of_ascii z) (N_of_ascii x)) as [Hzx|Hzx]; try discriminate; try lia; try reflexivity.
  intros H1 H2. eapply IH; eassumption.
Qed.

(* ---------------- sortedness ---------------- *)
Section Sort.
Context {A : Type}.
Notation kle := (fun a b : str * A => str_leb (fst a) (fst b) = true).

Lemma insert_by_key_perm (x : str * A) l : Permutation (insert_by_key x l) (x :: l).
Proof.
  induction l as [|h t IH]; cbn [insert_by_key]; [reflexivity|].
  destruct (str_leb (fst x) (fst h)); [reflexivity|].
  rewrite IH. apply perm_swap.
Qed.

Lemma sort_by_key_perm (l : list (str * A)) : Permutation (sort_by_key l) l.
Proof.
  induction l as [|h t IH]; cbn [sort_by_key fold_right]; [reflexivity|].
  fold (sort_by_key t). rewrite insert_by_key_perm. constructor. exact IH.
Qed.

Lemma insert_by_key_sorted (x : str * A) l : ksorted l -> ksorted (insert_by_key x l).
Proof.
  unfold ksorted. induction l as [|h t IH]; intro Hs; cbn [insert_by_key].
  - repeat constructor.
  - destruct (str_leb (fst x) (fst h)) eqn:E.
    + constructor; [exact Hs|]. inversion Hs as [|? ? Hst Hall]; subst.
      constructor; [exact E|]. rewrite Forall_forall in *. intros y Hy.
      eapply str_leb_trans; [exact E | apply Hall; exact Hy].
    + inversion Hs as [|? ? Hst Hall]; subst. constructor; [apply IH; exact Hst|].
      eapply Permutation_Forall; [symmetry; apply insert_by_key_perm|].
      constructor; [apply str_leb_total; exact E | exact Hall].
Qed.

Lemma sort_by_key_sorted (l : list (str * A)) : ksorted (sort_by_key l).
Proof.
  induction l as [|h t IH]; cbn [sort_by_key fold_right]; [constructor|].
  apply insert_by_key_sorted. exact IH.
Qed.

(* in a list with pairwise distinct keys, an entry is determined by its key *)
Lemma nodup_keys_inj (l : list (str * A)) a b :
  NoDup (map fst l) -> In a l -> In b l -> fst a = fst b -> a = b.
Proof.
  induction l as [|h t IH]; cbn [map]; intros Hnd Ha Hb Hk; [destruct Ha|].
  inversion Hnd as [|? ? Hnin Hnd']; subst.
  destruct Ha as [->|Ha], Hb as [->|Hb].
  - reflexivity.
  - exfalso. apply Hnin. rewrite Hk. apply in_map. exact Hb.
  - exfalso. apply Hnin. rewrite <- Hk. apply in_map. exact Ha.
  - apply IH; assumption.
Qed.

(* two sorted lists with the same members and distinct keys are the same list *)
Lemma sorted_perm_unique (l1 l2 : list (str * A)) :
  NoDup (map fst l1) -> ksorted l1 -> ksorted l2 -> Permutation l1 l2 -> l1 = l2.
Proof.
  unfold ksorted. revert l2. induction l1 as [|a t1 IH]; intros l2 Hnd Hs1 Hs2 Hp.
  - apply Permutation_nil in Hp. subst. reflexivity.
  - destruct l2 as [|b t2]; [apply Permutation_sym, Permutation_nil in Hp; discriminate|].
    inversion Hs1 as [|? ? Hs1' Ha]; subst. inversion Hs2 as [|? ? Hs2' Hb]; subst.
    assert (Hab : a = b).
    { assert (Hina : In a (b :: t2)) by (eapply Permutation_in; [exact Hp | left; reflexivity]).
      assert (Hinb : In b (a :: t1)) by (eapply Permutation_in; [symmetry; exact Hp | left; reflexivity]).
      apply (nodup_keys_inj (a :: t1)); [exact Hnd | left; reflexivity | exact Hinb |].
      apply str_leb_antisym.
      - destruct Hinb as [<-|Hinb]; [apply str_leb_refl|]. rewrite Forall_forall in Ha. apply Ha. exact Hinb.
      - destruct Hina as [<-|Hina]; [apply str_leb_refl|]. rewrite Forall_forall in Hb. apply Hb. exact Hina. }
    subst b. f_equal. apply IH.
    + cbn [map] in Hnd. inversion Hnd; assumption.
    + exact Hs1'.
    + exact Hs2'.
    + eapply Permutation_cons_inv. exact Hp.
Qed.

Theorem sort_by_key_perm_eq (l l' : list (str * A)) :
  NoDup (map fst l) -> Permutation l l' -> sort_by_key l = sort_by_key l'.
Proof.
  intros Hnd Hp. apply sorted_perm_unique.
  - eapply Permutation_NoDup; [|exact Hnd]. apply Permutation_map. symmetry. apply sort_by_key_perm.
  - apply sort_by_key_sorted.
  - apply sort_by_key_sorted.
  - rewrite sort_by_key_perm, Hp. symmetry. apply sort_by_key_perm.
Qed.

(* with distinct keys the sorted list is strictly ascending *)
Lemma sorted_nodup_strict (l : list (str * A)) : NoDup (map fst l) -> ksorted l -> kstrict l.
Proof.
  unfold ksorted, kstrict. induction l as [|a t IH]; intros Hnd Hs; [constructor|].
  cbn [map] in Hnd. inversion Hnd as [|? ? Hnin Hnd']; subst. inversion Hs as [|? ? Hs' Ha]; subst.
  constructor; [apply IH; assumption|].
  rewrite Forall_forall in *. intros b Hb. unfold str_ltb. rewrite (Ha b Hb). cbn [andb].
  destruct (str_eqb (fst a) (fst b)) eqn:E; [|reflexivity].
  exfalso. apply Hnin. apply str_eqb_eq in E. rewrite E. apply in_map. exact Hb.
Qed.

Lemma sort_by_key_strict (l : list (str * A)) : NoDup (map fst l) -> kstrict (sort_by_key l).
Proof.
  intro Hnd. apply sorted_nodup_strict; [|apply sort_by_key_sorted].
  eapply Permutation_NoDup; [|exact Hnd]. apply Permutation_map. symmetry. apply sort_by_key_perm.
Qed.
End Sort.
