(* Lemmas about the string layer (Base/Str.v). *)
From Mxj Require Import Base.Str.

Lemma ascii_eqb_refl c : Ascii.eqb c c = true.
Proof. apply Ascii.eqb_eq; reflexivity. Qed.

Lemma str_eqb_refl a : str_eqb a a = true.
Proof. induction a as [|c a IH]; cbn; [reflexivity|]. rewrite ascii_eqb_refl, IH; reflexivity. Qed.

Lemma str_eqb_eq a b : str_eqb a b = true <-> a = b.
Proof.
  split.
  - revert b; induction a as [|c a IH]; intros [|d b] H; cbn in H; try discriminate; [reflexivity|].
    apply andb_true_iff in H as [H1 H2]. apply Ascii.eqb_eq in H1. f_equal; [exact H1|apply IH, H2].
  - intros ->; apply str_eqb_refl.
Qed.

Lemma str_eqb_neq a b : str_eqb a b = false <-> a <> b.
Proof.
  split.
  - intros H E. apply str_eqb_eq in E. congruence.
  - intros H. destruct (str_eqb a b) eqn:E; [|reflexivity]. apply str_eqb_eq in E. contradiction.
Qed.

Lemma str_eqb_sym a b : str_eqb a b = str_eqb b a.
Proof.
  destruct (str_eqb a b) eqn:E.
  - apply str_eqb_eq in E; subst; symmetry; apply str_eqb_refl.
  - symmetry; apply str_eqb_neq; apply str_eqb_neq in E; congruence.
Qed.

(* ---- split1 / join ---- *)
Lemma split1_aux_nosep c x cur :
  mem_ascii c x = false -> split1_aux c x cur = [rev cur ++ x].
Proof.
  revert cur; induction x as [|a x IH]; intros cur H; cbn.
  - rewrite app_nil_r; reflexivity.
  - cbn in H. apply orb_false_iff in H as [H1 H2].
    rewrite Ascii.eqb_sym, H1. rewrite IH by exact H2. cbn. rewrite <- app_assoc. reflexivity.
Qed.

Lemma split1_aux_sep c x cur rest :
  mem_ascii c x = false ->
  split1_aux c (x ++ c :: rest) cur = (rev cur ++ x) :: split1_aux c rest [].
Proof.
  revert cur; induction x as [|a x IH]; intros cur H; cbn.
  - rewrite ascii_eqb_refl, app_nil_r; reflexivity.
  - cbn in H. apply orb_false_iff in H as [H1 H2].
    rewrite Ascii.eqb_sym, H1. rewrite IH by exact H2. cbn. rewrite <- app_assoc. reflexivity.
Qed.

Lemma split1_join c l :
  l <> [] -> Forall (fun x => mem_ascii c x = false) l ->
  split1 c (join [c] l) = l.
Proof.
  intros Hne HF. unfold split1.
  induction l as [|x t IH]; [congruence|].
  inversion HF as [|? ? Hx Ht]; subst.
  destruct t as [|y t'].
  - cbn. apply split1_aux_nosep; exact Hx.
  - change (join [c] (x :: y :: t')) with (x ++ [c] ++ join [c] (y :: t')).
    cbn [app]. rewrite split1_aux_sep by exact Hx. cbn [rev app].
    rewrite IH; [reflexivity|discriminate|exact Ht].
Qed.

Lemma split1_nonempty c x : split1 c x <> [].
Proof.
  unfold split1. generalize (@nil ascii) as cur.
  induction x as [|a x IH]; intros cur; cbn; [discriminate|].
  destruct (Ascii.eqb a c); [discriminate|apply IH].
Qed.

Lemma split1_nosep_parts c x : Forall (fun p => mem_ascii c p = false) (split1 c x).
Proof.
  unfold split1.
  assert (G : forall x cur, mem_ascii c (rev cur) = false ->
              Forall (fun p => mem_ascii c p = false) (split1_aux c x cur)).
  { clear x. induction x as [|a x IH]; intros cur Hc; cbn.
    - constructor; [exact Hc|constructor].
    - destruct (Ascii.eqb a c) eqn:E.
      + constructor; [exact Hc|]. apply IH; reflexivity.
      + apply IH. cbn. unfold mem_ascii in *. rewrite existsb_app, Hc. cbn.
        rewrite Ascii.eqb_sym, E. reflexivity. }
  apply G; reflexivity.
Qed.

(* the parts of a split contain only bytes of the original string *)
Lemma split1_parts_subset c d x :
  mem_ascii d x = false -> Forall (fun p => mem_ascii d p = false) (split1 c x).
Proof.
  unfold split1.
  assert (G : forall x cur, mem_ascii d x = false -> mem_ascii d (rev cur) = false ->
              Forall (fun p => mem_ascii d p = false) (split1_aux c x cur)).
  { clear x. induction x as [|a x IH]; intros cur Hx Hc; cbn.
    - constructor; [exact Hc|constructor].
    - cbn in Hx. apply orb_false_iff in Hx as [Ha Hx].
      destruct (Ascii.eqb a c).
      + constructor; [exact Hc|]. apply IH; [exact Hx|reflexivity].
      + apply IH; [exact Hx|]. cbn. unfold mem_ascii in *. rewrite existsb_app, Hc. cbn.
        rewrite Ha. reflexivity. }
  intros H. apply G; [exact H|reflexivity].
Qed.

(* a string containing the separator splits into at least two parts *)
Lemma split1_two c x :
  mem_ascii c x = true -> exists a b t, split1 c x = a :: b :: t.
Proof.
  unfold split1. generalize (@nil ascii) as cur.
  induction x as [|y x IH]; intros cur H; cbn in *; [discriminate|].
  destruct (Ascii.eqb y c) eqn:E.
  - destruct (split1_aux c x []) as [|b t] eqn:S.
    + exfalso. eapply split1_nonempty. unfold split1. exact S.
    + eauto.
  - rewrite Ascii.eqb_sym, E in H. cbn in H. apply IH; exact H.
Qed.
