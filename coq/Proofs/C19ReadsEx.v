(* C19: concrete witnesses for the JSON file theorems of Proofs/C19Reads*.v (non-vacuity). *)
From Mxj Require Import Spec.JsonFilesSpec Proofs.C13P Proofs.JsonP Proofs.C13Json Proofs.C19P Proofs.C19Reads Proofs.C19ReadsDoc
  Proofs.C19ReadsTrunc Proofs.C19ReadsIndent.
Import ListNotations.

(* two nested Maps: keys and values with braces, quotes, blanks and backslashes - a value that ends in a
   backslash (written as an escaped backslash right before the closing quote), a value that is two backslashes,
   a list holding a string that is a lone opening brace, an empty Map *)
Definition ex_m1 : entries :=
  [(s "a}{", VMap [(s "b""", VStr (s "}{ "" x" ++ [bsl]));
                   (s "l", VList [VStr (s "{"); VNil; VBool true; VFlt (s "1.5"); VMap []])]);
   (s "z", VStr [bsl; bsl])].
Definition ex_m2 : entries :=
  [(s "q", VMap [(s "r", VMap [(s "s", VStr (s "tail" ++ [bsl]))])]); (s "e", VMap []); (s "n", VJNum (s "-12e3"))].

Definition ex_t1 : bytes := marshal false (VMap ex_m1).
Definition ex_t2 : bytes := marshal false (VMap ex_m2).
(* what the toy decoder (Proofs/C19P.v: it wraps the text it is given) makes of a Map's text *)
Definition toy_of (m : entries) : entries := [(s "json", VStr (marshal false (VMap m)))].

Lemma ex_texts :
  ex_t1 = s "{""a}{"":{""b\"""":""}{ \"" x\\"",""l"":[""{"",null,true,1.5,{}]},""z"":""\\\\""}" /\
  ex_t2 = s "{""e"":{},""n"":-12e3,""q"":{""r"":{""s"":""tail\\""}}}".
Proof. split; vm_compute; reflexivity. Qed.

Lemma ex_json_ok : Forall (json_ok toy_dec false toy_of) [ex_m1; ex_m2].
Proof. repeat constructor. Qed.

Lemma ex_json_read_back :
  read_all (json_reader_raw toy_dec) keep_raw (ex_t1 ++ ex_t2) =
    FR false [(VMap (toy_of ex_m1), ex_t1); (VMap (toy_of ex_m2), ex_t2)] false /\
  read_all (rd_map (json_reader_raw toy_dec)) map_not_nil (ex_t1 ++ ex_t2) =
    FR false [VMap (toy_of ex_m1); VMap (toy_of ex_m2)] false /\
  (* cut inside the second document: the first Map and an error; cut at the boundary: the first Map, no error *)
  read_all (json_reader_raw toy_dec) keep_raw (firstn (length ex_t1 + 7) (ex_t1 ++ ex_t2)) =
    FR false [(VMap (toy_of ex_m1), ex_t1)] true /\
  read_all (json_reader_raw toy_dec) keep_raw (firstn (length ex_t1) (ex_t1 ++ ex_t2)) =
    FR false [(VMap (toy_of ex_m1), ex_t1)] false.
Proof. repeat split; vm_compute; reflexivity. Qed.

(* the two scanner models on inputs that end in each of the four ways *)
Definition ex_inputs : list bytes :=
  [s " x " ++ ex_t1 ++ s " }";            (* a document, then more *)
   s " " ++ [ascii_of_N 10; ascii_of_N 9]; (* blanks only: io.EOF *)
   firstn 20 ex_t1;                        (* cut inside a document: no closing brace *)
   s "ab } {""k"":1}"].                     (* a closing brace that opens nothing *)
Lemma ex_scanners :
  map scan_json ex_inputs = [SDoc ex_t1 (s " }"); SEof []; SNoClose (firstn 20 ex_t1); SStray [] (s " {""k"":1}")] /\
  map (fun b => Reader.get_json (file_schedule b)) ex_inputs =
    [Some (JOk ex_t1, file_schedule (s " }")); Some (JErr [] EEOF, []); Some (JErr (firstn 20 ex_t1) EOther, []);
     Some (JErr [] EOther, file_schedule (s " {""k"":1}"))].
Proof. split; vm_compute; reflexivity. Qed.

(* Reads needs the decoder to return an object: with a decoder that answers a non-object value (null here)
   NewMapJson reports an error, so the statement with an arbitrary decoded value v is false *)
Lemma reads_any_value_refuted : exists json_dec eh m v,
  scan_safe (VMap m) = true /\ json_dec (marshal eh (VMap m)) = Ok v /\
  ~ Reads (json_reader_raw json_dec) (marshal eh (VMap m)) (v, marshal eh (VMap m)).
Proof.
  exists (fun _ => Ok VNil), false, [], VNil. split; [reflexivity|]. split; [reflexivity|].
  intro H. specialize (H []). vm_compute in H. discriminate H.
Qed.

(* the file JsonFileIndent(prefix " ", indent two blanks) writes for the two Maps: the indented texts with a newline
   between them; read back: the same Maps as from the compact file, and the raw values are the COMPACT texts *)
Definition ex_i1 : bytes := marshal_indent false (s " ") (s "  ") (VMap ex_m1).
Definition ex_i2 : bytes := marshal_indent false (s " ") (s "  ") (VMap ex_m2).
Lemma ex_indent_read_back :
  ex_i2 = s "{" ++ nl ++ s "   ""e"": {}," ++ nl ++ s "   ""n"": -12e3," ++ nl ++ s "   ""q"": {" ++ nl ++
          s "     ""r"": {" ++ nl ++ s "       ""s"": ""tail\\""" ++ nl ++ s "     }" ++ nl ++ s "   }" ++ nl ++ s " }" /\
  maps_file (fun m => Some (marshal_indent false (s " ") (s "  ") (VMap m))) true [ex_m1; ex_m2] true =
    (Some (ex_i1 ++ nl ++ ex_i2), false) /\
  read_all (json_reader_raw toy_dec) keep_raw (ex_i1 ++ nl ++ ex_i2) =
    FR false [(VMap (toy_of ex_m1), ex_t1); (VMap (toy_of ex_m2), ex_t2)] false.
Proof. repeat split; vm_compute; reflexivity. Qed.
