(* C17: a generic theorem about interleaved execution.
   Threads are resumptions over one memory; a schedule interleaves their steps
   arbitrarily (no synchronisation).  Under an ownership discipline - every
   write goes to a location private to the writing thread, every read goes to a
   shared or a private location - every schedule is free of data races, shared
   locations never change, and every thread computes what it computes alone.
   Read-only threads (no Wr at all) are the special case with empty own sets.
   Memories are functions and are only ever compared pointwise. *)
From Coq Require Import List Arith Bool Lia.
Import ListNotations.

(* ------------------------------------------------------------------ *)
(* 1. Model *)

Definition loc := nat.
Definition val := nat.
Definition mem := loc -> val.

Inductive prog :=
| Ret (r : val)
| Rd (l : loc) (k : val -> prog)
| Wr (l : loc) (v : val) (k : prog).

Inductive event := ERd (l : loc) | EWr (l : loc).

Definition ev_loc (e : event) : loc := match e with ERd l | EWr l => l end.
Definition is_write (e : event) : bool := match e with EWr _ => true | ERd _ => false end.

Definition upd (m : mem) (l : loc) (v : val) : mem :=
  fun x => if Nat.eqb x l then v else m x.

Definition tstep (p : prog) (m : mem) : option (prog * mem * event) :=
  match p with
  | Ret _ => None
  | Rd l k => Some (k (m l), m, ERd l)
  | Wr l v k => Some (k, upd m l v, EWr l)
  end.

Fixpoint set_nth {A} (j : nat) (x : A) (l : list A) : list A :=
  match l, j with
  | [], _ => []
  | _ :: t, 0 => x :: t
  | a :: t, S j' => a :: set_nth j' x t
  end.

(* one scheduling decision: thread j takes a step, if it exists and can step *)
Definition sched1 (j : nat) (c : list prog * mem) : option (list prog * mem * event) :=
  match nth_error (fst c) j with
  | None => None
  | Some p =>
      match tstep p (snd c) with
      | None => None
      | Some (p', m', e) => Some (set_nth j p' (fst c), m', e)
      end
  end.

Fixpoint run (s : list nat) (c : list prog * mem) : list prog * mem * list (nat * event) :=
  match s with
  | [] => (c, [])
  | j :: s' =>
      match sched1 j c with
      | None => run s' c
      | Some (c', e) => let (cf, t) := run s' c' in (cf, (j, e) :: t)
      end
  end.

(* sequential semantics of one thread alone *)
Inductive terminates : prog -> mem -> val -> mem -> Prop :=
| T_ret : forall r m, terminates (Ret r) m r m
| T_rd : forall l k m r m', terminates (k (m l)) m r m' -> terminates (Rd l k) m r m'
| T_wr : forall l v k m r m', terminates k (upd m l v) r m' -> terminates (Wr l v k) m r m'.

Fixpoint solo (fuel : nat) (p : prog) (m : mem) : option (val * mem) :=
  match p, fuel with
  | Ret r, _ => Some (r, m)
  | _, 0 => None
  | Rd l k, S n => solo n (k (m l)) m
  | Wr l v k, S n => solo n k (upd m l v)
  end.

Lemma solo_terminates : forall n p m r m',
  solo n p m = Some (r, m') -> terminates p m r m'.
Proof.
  induction n as [|n IH]; intros [r0|l k|l v k] m r m' H; cbn in H;
    try discriminate; try (injection H as <- <-; constructor);
    constructor; now apply IH.
Qed.

(* ------------------------------------------------------------------ *)
(* 2. Ownership discipline *)

Inductive disciplined (sh ow : loc -> bool) : prog -> Prop :=
| D_ret : forall r, disciplined sh ow (Ret r)
| D_rd : forall l k, sh l = true \/ ow l = true ->
    (forall v, disciplined sh ow (k v)) -> disciplined sh ow (Rd l k)
| D_wr : forall l v k, ow l = true -> disciplined sh ow k -> disciplined sh ow (Wr l v k).

Definition own_ok (sh : loc -> bool) (ow : nat -> loc -> bool) : Prop :=
  (forall i l, ow i l = true -> sh l = false) /\
  (forall i j l, ow i l = true -> ow j l = true -> i = j).

Definition all_disc (sh : loc -> bool) (ow : nat -> loc -> bool) (ps : list prog) : Prop :=
  forall i p, nth_error ps i = Some p -> disciplined sh (ow i) p.

(* two events conflict: same location and at least one of them is a write *)
Definition conflict (e1 e2 : event) : Prop :=
  ev_loc e1 = ev_loc e2 /\ (is_write e1 = true \/ is_write e2 = true).

(* what thread j may do *)
Definition allowed (sh : loc -> bool) (ow : nat -> loc -> bool) (j : nat) (e : event) : Prop :=
  match e with
  | ERd l => sh l = true \/ ow j l = true
  | EWr l => ow j l = true
  end.

(* ------------------------------------------------------------------ *)
(* list update facts *)

Lemma nth_error_set_nth_eq : forall A (l : list A) j x y,
  nth_error l j = Some y -> nth_error (set_nth j x l) j = Some x.
Proof.
  induction l as [|a t IH]; intros [|j] x y H; cbn in *; try discriminate; eauto.
Qed.

Lemma nth_error_set_nth_neq : forall A (l : list A) i j x,
  i <> j -> nth_error (set_nth j x l) i = nth_error l i.
Proof.
  induction l as [|a t IH]; intros [|i] [|j] x H; cbn; try reflexivity; try lia.
  apply IH. lia.
Qed.

Lemma sched1_spec : forall j ps m ps' m' e,
  sched1 j (ps, m) = Some (ps', m', e) ->
  exists p p', nth_error ps j = Some p /\ tstep p m = Some (p', m', e) /\ ps' = set_nth j p' ps.
Proof.
  unfold sched1. cbn [fst snd]. intros j ps m ps' m' e H.
  destruct (nth_error ps j) as [p|] eqn:Ep; [|discriminate].
  destruct (tstep p m) as [[[p' m1] e1]|] eqn:Et; [|discriminate].
  injection H as <- <- <-. now exists p, p'.
Qed.

(* ------------------------------------------------------------------ *)
(* 3. Theorems *)

Section Discipline.
Variable sh : loc -> bool.
Variable ow : nat -> loc -> bool.

(* one step of thread j: the discipline is kept, the event is allowed, and the
   memory changes only on locations owned by j *)
Lemma sched1_inv : forall j ps m ps' m' e,
  all_disc sh ow ps -> sched1 j (ps, m) = Some (ps', m', e) ->
  all_disc sh ow ps' /\ allowed sh ow j e /\ (forall l, ow j l = false -> m' l = m l).
Proof.
  intros j ps m ps' m' e HD H.
  destruct (sched1_spec _ _ _ _ _ _ H) as (p & p' & Hp & Ht & ->).
  assert (Dp : disciplined sh (ow j) p) by now apply HD.
  assert (G : disciplined sh (ow j) p' /\ allowed sh ow j e /\
              (forall l, ow j l = false -> m' l = m l)).
  { destruct Dp as [r|l k Hl Hk|l v k Hl Hk]; cbn in Ht; [discriminate| |];
      injection Ht as <- <- <-; cbn; repeat split; auto.
    intros x Hx. unfold upd. destruct (Nat.eqb_spec x l) as [->|]; [congruence|reflexivity]. }
  destruct G as (Dp' & Ha & Hm). repeat split; auto.
  intros i q Hq. destruct (Nat.eq_dec i j) as [->|Hij].
  - rewrite (nth_error_set_nth_eq _ _ _ _ _ Hp) in Hq. now injection Hq as <-.
  - rewrite nth_error_set_nth_neq in Hq by exact Hij. now apply HD.
Qed.

Lemma trace_allowed : forall s ps m,
  all_disc sh ow ps ->
  forall j e, In (j, e) (snd (run s (ps, m))) -> allowed sh ow j e.
Proof.
  induction s as [|a s IH]; intros ps m HD j e HIn; cbn in HIn; [contradiction|].
  destruct (sched1 a (ps, m)) as [[[ps1 m1] e1]|] eqn:E; [|now apply (IH ps m)].
  destruct (sched1_inv _ _ _ _ _ _ HD E) as (HD1 & Ha & _).
  specialize (IH ps1 m1 HD1 j e). destruct (run s (ps1, m1)) as [cf t].
  cbn in HIn, IH. destruct HIn as [HEq|HIn]; [now injection HEq as <- <-|auto].
Qed.

(* (a) in the trace of any schedule, no two events of different threads conflict *)
Theorem no_data_race : forall ps s m0,
  own_ok sh ow -> all_disc sh ow ps ->
  forall i1 e1 i2 e2,
    In (i1, e1) (snd (run s (ps, m0))) -> In (i2, e2) (snd (run s (ps, m0))) ->
    i1 <> i2 -> ~ conflict e1 e2.
Proof.
  intros ps s m0 [Hpriv Hdisj] HD i1 e1 i2 e2 H1 H2 Hne [Hl Hw].
  apply (trace_allowed s ps m0 HD) in H1. apply (trace_allowed s ps m0 HD) in H2.
  destruct e1 as [l1|l1], e2 as [l2|l2]; cbn in *; subst l2;
    destruct Hw as [Hw|Hw]; try discriminate.
  - destruct H1 as [H1|H1]; [rewrite (Hpriv _ _ H2) in H1; discriminate|eauto].
  - destruct H2 as [H2|H2]; [rewrite (Hpriv _ _ H1) in H2; discriminate|eauto].
  - eauto.
  - eauto.
Qed.

(* (b) shared locations keep their initial values in every reachable memory *)
Theorem shared_unchanged : forall s ps m0,
  own_ok sh ow -> all_disc sh ow ps ->
  forall l, sh l = true -> snd (fst (run s (ps, m0))) l = m0 l.
Proof.
  intros s ps m0 [Hpriv _]. revert ps m0.
  induction s as [|a s IH]; intros ps m0 HD l Hl; cbn; [reflexivity|].
  destruct (sched1 a (ps, m0)) as [[[ps1 m1] e1]|] eqn:E; [|now apply IH].
  destruct (sched1_inv _ _ _ _ _ _ HD E) as (HD1 & _ & Hm).
  specialize (IH ps1 m1 HD1 l Hl). destruct (run s (ps1, m1)) as [cf t]. cbn in *.
  rewrite IH. apply Hm. destruct (ow a l) eqn:Eo; [|reflexivity].
  rewrite (Hpriv _ _ Eo) in Hl. discriminate.
Qed.

(* the part of the memory thread i can observe *)
Definition vis (i : nat) (l : loc) : Prop := sh l = true \/ ow i l = true.

(* key invariant, in big-step form: from any point of the interleaved run where
   thread i's continuation is p and the memory agrees on vis i with a private
   copy ms, if i ends as Ret r then p run alone on ms returns r and the two
   final memories again agree on vis i *)
Lemma interleaving_inv : forall s ps m i r,
  own_ok sh ow -> all_disc sh ow ps ->
  nth_error (fst (fst (run s (ps, m)))) i = Some (Ret r) ->
  exists p, nth_error ps i = Some p /\
    forall ms, (forall l, vis i l -> m l = ms l) ->
    exists ms', terminates p ms r ms' /\
      forall l, vis i l -> snd (fst (run s (ps, m))) l = ms' l.
Proof.
  intros s ps m i r HO. destruct HO as [Hpriv Hdisj]. revert ps m.
  induction s as [|a s IH]; intros ps m HD HF; cbn in HF |- *.
  { exists (Ret r). split; [exact HF|]. intros ms Hag. exists ms. split; [constructor|exact Hag]. }
  destruct (sched1 a (ps, m)) as [[[ps1 m1] e1]|] eqn:E; [|now apply IH].
  destruct (sched1_inv _ _ _ _ _ _ HD E) as (HD1 & Ha & Hm).
  destruct (sched1_spec _ _ _ _ _ _ E) as (q & q' & Hq & Ht & Hps1).
  specialize (IH ps1 m1 HD1). destruct (run s (ps1, m1)) as [cf t]. cbn in HF, IH |- *.
  destruct (IH HF) as (p1 & Hp1 & Hsolo). clear IH. subst ps1.
  destruct (Nat.eq_dec i a) as [->|Hia].
  - (* thread i itself steps: the solo run takes the same step *)
    rewrite (nth_error_set_nth_eq _ _ _ _ _ Hq) in Hp1. injection Hp1 as <-.
    exists q. split; [exact Hq|]. intros ms Hag.
    destruct q as [r0|l k|l v k]; cbn in Ht; [discriminate| |]; injection Ht as <- <- <-.
    + destruct (Hsolo ms Hag) as (ms' & HT & Hag'). exists ms'. split; [|exact Hag'].
      constructor. rewrite <- (Hag l Ha). exact HT.
    + destruct (Hsolo (upd ms l v)) as (ms' & HT & Hag').
      { intros x Hx. unfold upd. destruct (Nat.eqb x l); auto. }
      exists ms'. split; [now constructor|exact Hag'].
  - (* another thread steps: it touches nothing thread i can observe *)
    rewrite nth_error_set_nth_neq in Hp1 by exact Hia.
    exists p1. split; [exact Hp1|]. intros ms Hag. apply Hsolo.
    intros l Hv. rewrite <- (Hag l Hv). apply Hm.
    destruct (ow a l) eqn:Eo; [|reflexivity]. destruct Hv as [Hv|Hv].
    + rewrite (Hpriv _ _ Eo) in Hv. discriminate.
    + elim Hia. eauto.
Qed.

(* (c) a thread that finishes under some schedule returns what it returns alone *)
Theorem interleaving_sequential : forall ps s m0 i r,
  own_ok sh ow -> all_disc sh ow ps ->
  nth_error (fst (fst (run s (ps, m0)))) i = Some (Ret r) ->
  exists m', terminates (nth i ps (Ret 0)) m0 r m' /\
    (forall l, ow i l = true -> snd (fst (run s (ps, m0))) l = m' l) /\
    (forall l, sh l = true -> snd (fst (run s (ps, m0))) l = m' l).
Proof.
  intros ps s m0 i r HO HD HF.
  destruct (interleaving_inv s ps m0 i r HO HD HF) as (p & Hp & Hsolo).
  destruct (Hsolo m0 (fun _ _ => eq_refl)) as (m' & HT & Hag).
  exists m'. rewrite (nth_error_nth _ _ _ Hp). unfold vis in Hag. auto.
Qed.

End Discipline.

(* ------------------------------------------------------------------ *)
(* (d) the use case: read-only threads *)

Inductive readonly : prog -> Prop :=
| RO_ret : forall r, readonly (Ret r)
| RO_rd : forall l k, (forall v, readonly (k v)) -> readonly (Rd l k).

Definition sh_all : loc -> bool := fun _ => true.
Definition ow_none : nat -> loc -> bool := fun _ _ => false.

Lemma readonly_disciplined : forall p, readonly p -> disciplined sh_all (ow_none 0) p.
Proof. induction 1; constructor; auto. Qed.

Lemma own_ok_readonly : own_ok sh_all ow_none.
Proof. split; unfold ow_none; intros; discriminate. Qed.

Lemma readonly_terminates_mem : forall p m r m',
  readonly p -> terminates p m r m' -> m' = m.
Proof.
  intros p m r m' HR HT. induction HT as [r m|l k m r m' HT IH|l v k m r m' HT IH];
    [reflexivity| |]; inversion HR; subst; auto.
Qed.

Theorem readonly_concurrent : forall ps s m0,
  (forall p, In p ps -> readonly p) ->
  (* race free *)
  (forall i1 e1 i2 e2,
     In (i1, e1) (snd (run s (ps, m0))) -> In (i2, e2) (snd (run s (ps, m0))) ->
     i1 <> i2 -> ~ conflict e1 e2) /\
  (* the memory is never modified *)
  (forall l, snd (fst (run s (ps, m0))) l = m0 l) /\
  (* every finished thread returned what it returns alone *)
  (forall i r, nth_error (fst (fst (run s (ps, m0)))) i = Some (Ret r) ->
     terminates (nth i ps (Ret 0)) m0 r m0).
Proof.
  intros ps s m0 HR.
  assert (HD : all_disc sh_all ow_none ps).
  { intros i p Hp. apply readonly_disciplined, HR. eapply nth_error_In; eauto. }
  split; [|split].
  - apply (no_data_race sh_all ow_none); [exact own_ok_readonly|exact HD].
  - intros l. now apply (shared_unchanged sh_all ow_none s ps m0 own_ok_readonly HD).
  - intros i r HF.
    destruct (interleaving_sequential _ _ ps s m0 i r own_ok_readonly HD HF) as (m' & HT & _).
    assert (Hin : readonly (nth i ps (Ret 0))).
    { destruct (nth_in_or_default i ps (Ret 0)) as [Hi|Hi]; [auto|rewrite Hi; constructor]. }
    now rewrite (readonly_terminates_mem _ _ _ _ Hin HT) in HT.
Qed.

(* ------------------------------------------------------------------ *)
(* 4. Non-vacuity: two readers of the shared location 0 and one thread that
   reads location 0 and writes (then re-reads) its private location 1 *)

Definition ex_sh : loc -> bool := fun l => Nat.eqb l 0.
Definition ex_ow : nat -> loc -> bool := fun i l => Nat.eqb i 2 && Nat.eqb l 1.
Definition ex_ps : list prog :=
  [ Rd 0 (fun v => Ret v);
    Rd 0 (fun v => Ret (v + 1));
    Rd 0 (fun v => Wr 1 (v + 5) (Rd 1 (fun w => Ret w))) ].
Definition ex_m0 : mem := fun l => if Nat.eqb l 0 then 7 else 0.
Definition ex_sched : list nat := [2; 0; 2; 1; 5; 2; 0; 2].

Example ex_run :
  let '(ps, m, t) := run ex_sched (ex_ps, ex_m0) in
  ps = [Ret 7; Ret 8; Ret 12] /\ (m 0, m 1, m 2) = (7, 12, 0) /\
  t = [(2, ERd 0); (0, ERd 0); (2, EWr 1); (1, ERd 0); (2, ERd 1)].
Proof. cbn. auto. Qed.

Example ex_solo :
  option_map (fun rm => (fst rm, snd rm 0, snd rm 1)) (solo 5 (nth 2 ex_ps (Ret 0)) ex_m0)
  = Some (12, 7, 12).
Proof. reflexivity. Qed.

Lemma ex_own_ok : own_ok ex_sh ex_ow.
Proof.
  unfold ex_sh, ex_ow. split.
  - intros i l H. apply andb_true_iff in H. destruct H as [_ H].
    apply Nat.eqb_eq in H. now subst l.
  - intros i j l Hi Hj. apply andb_true_iff in Hi, Hj.
    destruct Hi as [Hi _], Hj as [Hj _]. apply Nat.eqb_eq in Hi, Hj. congruence.
Qed.

Lemma ex_all_disc : all_disc ex_sh ex_ow ex_ps.
Proof.
  intros [|[|[|i]]] p H; cbn in H; try (injection H as <-);
    repeat (constructor; cbn; auto; intros).
  destruct i; discriminate.
Qed.

Example ex_no_race : forall i1 e1 i2 e2,
  In (i1, e1) (snd (run ex_sched (ex_ps, ex_m0))) ->
  In (i2, e2) (snd (run ex_sched (ex_ps, ex_m0))) -> i1 <> i2 -> ~ conflict e1 e2.
Proof. exact (no_data_race ex_sh ex_ow ex_ps ex_sched ex_m0 ex_own_ok ex_all_disc). Qed.

Example ex_sequential : exists m',
  terminates (nth 2 ex_ps (Ret 0)) ex_m0 12 m' /\
  snd (fst (run ex_sched (ex_ps, ex_m0))) 1 = m' 1.
Proof.
  destruct (interleaving_sequential ex_sh ex_ow ex_ps ex_sched ex_m0 2 12
              ex_own_ok ex_all_disc eq_refl) as (m' & HT & Hown & _).
  exists m'. split; [exact HT|]. now apply Hown.
Qed.

(* the discipline is necessary: a second writer of location 1 races *)
Example ex_race_without_discipline :
  let t := snd (run [0; 1] ([Wr 1 3 (Ret 0); Rd 1 (fun v => Ret v)], ex_m0)) in
  In (0, EWr 1) t /\ In (1, ERd 1) t /\ conflict (EWr 1) (ERd 1).
Proof. cbn. unfold conflict. cbn. auto. Qed.

Print Assumptions no_data_race.
Print Assumptions shared_unchanged.
Print Assumptions interleaving_sequential.
Print Assumptions readonly_concurrent.
Print Assumptions ex_run.
Print Assumptions ex_no_race.
Print Assumptions ex_sequential.
