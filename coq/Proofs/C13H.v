(* C13: document streams for any reader function, the bulk handlers and the file readers. *)
From Mxj Require Import Spec.StreamSpec Proofs.C13P Proofs.JsonP Proofs.C13Json.
Import ListNotations.

Section Generic.
Context {T : Type} (next : list rev -> option (res value * T * list rev)) (P : list rev -> bool).

(* over every legal schedule of X (on which the reader P-behaves) one call returns (r, t) and leaves such a schedule of X' *)
Definition reads (X : str) (r : res value) (t : T) (X' : str) : Prop :=
  forall sc, okfor P X sc -> exists sc', next sc = Some (r, t, sc') /\ okfor P X' sc'.

(* X holds the documents with results vs (in order) and then ends with the result fin *)
Inductive stream_of : str -> list (value * T) -> res value * T -> Prop :=
| SO_end : forall X r t X', reads X r t X' -> is_ok r = false -> stream_of X [] (r, t)
| SO_doc : forall X v t X' vs fin, reads X (Ok v) t X' -> stream_of X' vs fin -> stream_of X ((v, t) :: vs) fin.

Lemma read_docs_stream_of : forall X vs fin, stream_of X vs fin ->
  forall fuel sc, okfor P X sc -> length vs < fuel ->
  read_docs next fuel sc = map (fun p => (Ok (fst p), snd p)) vs ++ [fin].
Proof.
  induction 1 as [X r t X' Hr Hok|X v t X' vs fin Hr Hs IH]; intros fuel sc Hc Hf.
  - destruct fuel; [cbn in Hf; lia|]. cbn. destruct (Hr sc Hc) as (sc' & -> & _). destruct r; [discriminate|reflexivity|reflexivity].
  - destruct fuel; [cbn in Hf; lia|]. cbn in Hf. cbn. destruct (Hr sc Hc) as (sc' & -> & Hc'). f_equal. apply IH; [assumption|lia].
Qed.
End Generic.

(* ------------------------------------------------------------------ handlers *)

(* the specification: mapHandler sees the documents in order, up to and including the first call that returns false *)
Fixpoint handler_calls (mh : nat -> value -> bool) (k : nat) (docs : list (value * str)) : list (value * str) :=
  match docs with
  | [] => []
  | (m, raw) :: t => if mh k m then (m, raw) :: handler_calls mh (S k) t else [(m, raw)]
  end.

Section Handlers.
Context (next : list rev -> option (res value * str * list rev)) (P : list rev -> bool).

Lemma handle_loop_stream : forall X vs t, stream_of next P X vs (Err EEOF, t) ->
  Forall (fun p => non_nil (fst p) = true) vs ->
  forall mh eh fuel calls sc, okfor P X sc -> length vs < fuel ->
  exists rest, handle_loop next mh eh fuel calls 0 sc =
    Some {| h_calls := calls ++ handler_calls mh (length calls) vs; h_errs := 0; h_ret := Ok tt; h_rest := rest |}.
Proof.
  intros X vs t Hs. remember (Err EEOF, t) as fin eqn:Hfin.
  induction Hs as [X r t0 X' Hr Hok|X v t0 X' vs fin Hr Hs IH]; intros Hne mh eh fuel calls sc Hc Hf.
  - injection Hfin as -> ->. destruct fuel; [cbn in Hf; lia|]. cbn.
    destruct (Hr sc Hc) as (sc' & -> & _). rewrite app_nil_r. eexists. reflexivity.
  - destruct fuel; [cbn in Hf; lia|]. cbn in Hf. cbn [handle_loop].
    destruct (Hr sc Hc) as (sc' & -> & Hc'). inversion Hne as [|? ? Hv Hne']; subst. cbn in Hv. rewrite Hv.
    cbn [handler_calls]. destruct (mh (length calls) v) eqn:Em.
    + destruct (IH eq_refl Hne' mh eh fuel (calls ++ [(v, t0)]) sc' Hc') as (rest & ->); [lia|].
      rewrite app_length, Nat.add_1_r, <- app_assoc. eexists. reflexivity.
    + eexists. reflexivity.
Qed.

(* file readers: all the documents *)
Lemma maps_loop_stream : forall X vs t, stream_of next P X vs (Err EEOF, t) ->
  Forall (fun p => non_nil (fst p) = true) vs ->
  forall fuel am sc, okfor P X sc -> length vs < fuel ->
  maps_loop next fuel am sc = Some (am ++ vs, Ok tt).
Proof.
  intros X vs t Hs. remember (Err EEOF, t) as fin eqn:Hfin.
  induction Hs as [X r t0 X' Hr Hok|X v t0 X' vs fin Hr Hs IH]; intros Hne fuel am sc Hc Hf.
  - injection Hfin as -> ->. destruct fuel; [cbn in Hf; lia|]. cbn.
    destruct (Hr sc Hc) as (sc' & -> & _). now rewrite app_nil_r.
  - destruct fuel; [cbn in Hf; lia|]. cbn in Hf. cbn [maps_loop].
    destruct (Hr sc Hc) as (sc' & -> & Hc'). inversion Hne as [|? ? Hv Hne']; subst. cbn in Hv. rewrite Hv.
    rewrite (IH eq_refl Hne' fuel _ sc' Hc') by lia. now rewrite <- app_assoc.
Qed.
End Handlers.

(* ------------------------------------------------------------------ XML instances *)

Definition doc_val (M : xmachine) (d : str) : value := match decode_doc M d with Ok v => v | _ => VNil end.

Lemma xml_raw_reads : forall (M : xmachine) X,
  reads (new_map_xml_reader_raw M) zero_bounded X (fst (direct M (m_init M) X)) (firstn (snd (direct M (m_init M) X)) X)
        (skipn (snd (direct M (m_init M) X)) X).
Proof. intros M X sc Hc. exact (new_map_xml_reader_raw_ok M X sc Hc). Qed.

Lemma xml_reads : forall (M : xmachine) X,
  reads (with_unit_raw (new_map_xml_reader M)) zero_bounded X (fst (direct M (m_init M) X)) [] (skipn (snd (direct M (m_init M) X)) X).
Proof.
  intros M X sc Hc. destruct (new_map_xml_reader_ok M X sc Hc) as (sc' & E & Hc').
  exists sc'. unfold with_unit_raw. rewrite E. auto.
Qed.

Lemma xml_raw_stream_of : forall (M : xmachine) ds tail,
  docs_ok M ds -> eof_on_blanks M -> blank tail = true ->
  stream_of (new_map_xml_reader_raw M) zero_bounded (stream ds tail)
            (map (fun wd => (doc_val M (snd wd), fst wd ++ snd wd)) ds) (Err EEOF, tail).
Proof.
  intros M. induction ds as [|[w d] ds IH]; intros tail Hd He Ht.
  - cbn. pose proof (xml_raw_reads M tail) as Hr. rewrite (He tail Ht) in Hr. cbn in Hr. rewrite firstn_all in Hr.
    eapply SO_end; [exact Hr|reflexivity].
  - inversion Hd as [|? ? [Hw [Hs Hok]] Hd']; subst. cbn in Hw, Hs, Hok. cbn [stream map fst snd].
    pose proof (xml_raw_reads M (w ++ d ++ stream ds tail)) as Hr. rewrite (Hs w (stream ds tail) Hw) in Hr. cbn [fst snd] in Hr.
    rewrite <- app_length, app_assoc, firstn_app_exact, skipn_app_exact in Hr.
    unfold doc_val. destruct (okmap_ok _ Hok) as [mm E]. rewrite E in *.
    rewrite <- app_assoc in Hr.
    eapply SO_doc; [exact Hr|]. now apply IH.
Qed.

Lemma xml_stream_of : forall (M : xmachine) ds tail,
  docs_ok M ds -> eof_on_blanks M -> blank tail = true ->
  stream_of (with_unit_raw (new_map_xml_reader M)) zero_bounded (stream ds tail)
            (map (fun wd => (doc_val M (snd wd), [])) ds) (Err EEOF, []).
Proof.
  intros M. induction ds as [|[w d] ds IH]; intros tail Hd He Ht.
  - cbn. pose proof (xml_reads M tail) as Hr. rewrite (He tail Ht) in Hr. cbn in Hr.
    eapply SO_end; [exact Hr|reflexivity].
  - inversion Hd as [|? ? [Hw [Hs Hok]] Hd']; subst. cbn in Hw, Hs, Hok. cbn [stream map fst snd].
    pose proof (xml_reads M (w ++ d ++ stream ds tail)) as Hr. rewrite (Hs w (stream ds tail) Hw) in Hr. cbn [fst snd] in Hr.
    rewrite <- app_length, app_assoc, skipn_app_exact in Hr.
    unfold doc_val. destruct (okmap_ok _ Hok) as [mm E]. rewrite E in *.
    rewrite <- app_assoc in Hr.
    eapply SO_doc; [exact Hr|]. now apply IH.
Qed.

(* ------------------------------------------------------------------ JSON instances *)

(* a stream of marshalled objects *)
Section JsonStreams.
Variable eh : bool.    (* the documents were written with or without HTML escaping *)

Fixpoint jstream (ds : list (str * entries)) (tail : str) : str :=
  match ds with
  | [] => tail
  | (w, m) :: t => w ++ marshal eh (VMap m) ++ jstream t tail
  end.
Definition jdocs_ok (nmj : str -> res value) (ds : list (str * entries)) : Prop :=
  Forall (fun wm => blank (fst wm) = true /\ scan_safe (VMap (snd wm)) = true /\
                    is_okmap (nmj (marshal eh (VMap (snd wm)))) = true) ds.
Definition jdoc_val (nmj : str -> res value) (m : entries) : value :=
  match nmj (marshal eh (VMap m)) with Ok v => v | _ => VNil end.

Lemma marshal_vmap_cons : forall m, exists t, marshal eh (VMap m) = lbrace :: t.
Proof. intro m. unfold marshal. rewrite segments_vmap. eexists. reflexivity. Qed.

Lemma get_json_blanks : forall tail sc, blank tail = true -> okfor anysc tail sc ->
  exists sc', get_json sc = Some (JErr [] EEOF, sc') /\ okfor anysc [] sc'.
Proof.
  intros tail sc Hb Hc. destruct (get_json_ok tail sc Hc) as (sc' & E & Hc').
  assert (Hd : direct jmachine jinit tail = (JErr [] EEOF, length tail)).
  { pose proof (direct_steps jmachine tail [] jinit jinit (steps_blanks tail Hb)) as H.
    rewrite app_nil_r in H. rewrite H. cbn. now rewrite Nat.add_0_r. }
  rewrite Hd in E, Hc'. cbn in E, Hc'. rewrite skipn_all in Hc'. eauto.
Qed.

Lemma get_json_doc : forall w m rest sc, blank w = true -> scan_safe (VMap m) = true ->
  okfor anysc (w ++ marshal eh (VMap m) ++ rest) sc ->
  exists sc', get_json sc = Some (JOk (marshal eh (VMap m)), sc') /\ okfor anysc rest sc'.
Proof.
  intros w m rest sc Hb Hs Hc. destruct (get_json_ok _ sc Hc) as (sc' & E & Hc').
  rewrite (scan_marshal eh m w rest Hs Hb) in E, Hc'. cbn [fst snd] in E, Hc'.
  rewrite <- app_length, app_assoc, skipn_app_exact in Hc'. eauto.
Qed.

Lemma json_raw_stream_of : forall nmj ds tail, jdocs_ok nmj ds -> blank tail = true ->
  stream_of (new_map_json_reader_raw nmj) anysc (jstream ds tail)
            (map (fun wm => (jdoc_val nmj (snd wm), marshal eh (VMap (snd wm)))) ds) (Err EEOF, []).
Proof.
  intros nmj. induction ds as [|[w m] ds IH]; intros tail Hd Ht.
  - cbn. eapply SO_end with (X' := []); [|reflexivity]. intros sc Hc.
    destruct (get_json_blanks tail sc Ht Hc) as (sc' & E & Hc'). exists sc'. unfold new_map_json_reader_raw. rewrite E. auto.
  - inversion Hd as [|? ? [Hw [Hs Hok]] Hd']; subst. cbn [fst snd] in Hw, Hs, Hok. cbn [jstream map fst snd].
    unfold jdoc_val. destruct (okmap_ok _ Hok) as [mm En]. rewrite En.
    eapply SO_doc with (X' := jstream ds tail); [|now apply IH]. intros sc Hc.
    destruct (get_json_doc w m _ sc Hw Hs Hc) as (sc' & E & Hc'). exists sc'. unfold new_map_json_reader_raw. rewrite E.
    destruct (marshal_vmap_cons m) as [t Hm]. rewrite Hm in *. rewrite En. auto.
Qed.

Lemma json_stream_of : forall nmj ds tail, jdocs_ok nmj ds -> blank tail = true ->
  stream_of (with_unit_raw (new_map_json_reader nmj)) anysc (jstream ds tail)
            (map (fun wm => (jdoc_val nmj (snd wm), [])) ds) (Err EEOF, []).
Proof.
  intros nmj. induction ds as [|[w m] ds IH]; intros tail Hd Ht.
  - cbn. eapply SO_end with (X' := []); [|reflexivity]. intros sc Hc.
    destruct (get_json_blanks tail sc Ht Hc) as (sc' & E & Hc'). exists sc'.
    unfold with_unit_raw, new_map_json_reader. rewrite E. auto.
  - inversion Hd as [|? ? [Hw [Hs Hok]] Hd']; subst. cbn [fst snd] in Hw, Hs, Hok. cbn [jstream map fst snd].
    unfold jdoc_val. destruct (okmap_ok _ Hok) as [mm En]. rewrite En.
    eapply SO_doc with (X' := jstream ds tail); [|now apply IH]. intros sc Hc.
    destruct (get_json_doc w m _ sc Hw Hs Hc) as (sc' & E & Hc'). exists sc'.
    unfold with_unit_raw, new_map_json_reader. rewrite E.
    destruct (marshal_vmap_cons m) as [t Hm]. rewrite Hm in *. rewrite En. auto.
Qed.
End JsonStreams.
