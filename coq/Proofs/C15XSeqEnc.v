(* C15: every MapSeq the sequence decoder returns can be passed to MapSeq.Xml / MapSeq.XmlIndent without a
   panic - for EVERY option record (cast flags, snake case, XMPP handling, decoder escaping, trimming, any key
   prefix set by SetGlobalKeyMapPrefix) whose generated keys are pairwise distinct, every RawToken list (well
   nested or not) whose start-tag names are non-empty and none of the generated keys, both terminators.
   This generalises Proofs/C04Shape.v / C04ShapeDec.v (stated there for the two option records of C04, seq_o e).
   The side condition on the names is exact: see [seq_decoded_encodable_all_opts_refuted] at the end
   (after SetGlobalKeyMapPrefix("_") an element named _comment, _attr or _procinst makes the encoder panic). *)
From Coq Require Import Permutation Sorting.Sorted.
From Mxj Require Import Spec.SeqSpec Proofs.StrLemmas Proofs.C04Sort Proofs.C04Map.
Import ListNotations.

Section GShape.
Variable o : opts.

(* the generated keys are pairwise distinct where the codec relies on it, and the default root tag "doc" is
   none of #comment / #directive / #procinst *)
Definition seq_keys_ok : bool :=
  nodup_keys [textK o; seqK o; attrK o; commentK o; directiveK o; procinstK o] &&
  nodup_keys [seqK o; targetK o; instK o] && negb (is_special_key o default_root).
Hypothesis Hkeys : seq_keys_ok = true.

Definition gis_str (v : option value) : bool := match v with Some (VStr _) => true | _ => false end.

Definition gattr_map_ok (m : entries) : bool :=
  match lookup (attrK o) m with
  | Some (VMap aa) => forallb (fun kv => is_map (snd kv)) aa
  | _ => true
  end.

(* [gshape v k]: v is a value the decoder may store under key k (Proofs/C04Shape.v seq_shape, for any options) *)
Fixpoint gshape (v : value) (k : str) {struct v} : bool :=
  match v with
  | VMap m =>
      if str_eqb k (commentK o) || str_eqb k (directiveK o) then gis_str (lookup (textK o) m)
      else if str_eqb k (procinstK o) then gis_str (lookup (targetK o) m) && gis_str (lookup (instK o) m)
      else gattr_map_ok m &&
           (fix go (m : entries) : bool :=
              match m with
              | [] => true
              | kx :: t => (skipk o (fst kx) || gshape (snd kx) (fst kx)) && go t
              end) m
  | VList l =>
      (fix go (l : list value) : bool :=
         match l with [] => true | x :: t => gshape x k && go t end) l
  | _ => true
  end.

Definition gentries_ok (m : entries) : bool :=
  forallb (fun kx => skipk o (fst kx) || gshape (snd kx) (fst kx)) m.
Definition gmap_ok (m : entries) : bool := gattr_map_ok m && gentries_ok m.

Lemma gshape_map k m : is_special_key o k = false -> gshape (VMap m) k = gmap_ok m.
Proof.
  unfold is_special_key. intros H.
  apply orb_false_iff in H. destruct H as [H H3]. apply orb_false_iff in H. destruct H as [H1 H2].
  cbn [gshape]. rewrite H1, H2, H3. cbn [orb]. unfold gmap_ok. f_equal.
Qed.

Lemma gshape_list k l : gshape (VList l) k = forallb (fun x => gshape x k) l.
Proof. cbn [gshape]. induction l as [|x t IH]; [reflexivity|]. cbn [forallb]. rewrite IH. reflexivity. Qed.

(* ---------------- the key facts ---------------- *)
Lemma keys_facts :
  str_eqb (textK o) (seqK o) = false /\ str_eqb (textK o) (attrK o) = false /\
  str_eqb (seqK o) (attrK o) = false /\
  str_eqb (attrK o) (commentK o) = false /\ str_eqb (attrK o) (directiveK o) = false /\
  str_eqb (attrK o) (procinstK o) = false /\
  str_eqb (commentK o) (procinstK o) = false /\ str_eqb (directiveK o) (procinstK o) = false /\
  str_eqb (seqK o) (targetK o) = false /\ str_eqb (seqK o) (instK o) = false /\
  str_eqb (targetK o) (instK o) = false /\ is_special_key o default_root = false.
Proof.
  pose proof Hkeys as H. unfold seq_keys_ok in H.
  apply andb_true_iff in H. destruct H as [H H3]. apply andb_true_iff in H. destruct H as [H1 H2].
  apply negb_true_iff in H3.
  cbn [nodup_keys existsb] in H1, H2.
  repeat (apply andb_true_iff in H1; destruct H1 as [?H H1]).
  repeat (apply andb_true_iff in H2; destruct H2 as [?H H2]).
  repeat match goal with
         | X : negb _ = true |- _ => apply negb_true_iff in X
         | X : _ || _ = false |- _ => apply orb_false_iff in X; destruct X as [?X ?X]
         end.
  repeat split; assumption.
Qed.

Ltac keyf :=
  let K := fresh "K" in
  pose proof keys_facts as K;
  destruct K as (K1 & K2 & K3 & K4 & K5 & K6 & K7 & K8 & K9 & K10 & K11 & K12).

Lemma skipk_seq : skipk o (seqK o) = true.
Proof. unfold skipk. rewrite str_eqb_refl, orb_true_r. reflexivity. Qed.
Lemma skipk_text : skipk o (textK o) = true.
Proof. unfold skipk. rewrite str_eqb_refl, orb_true_r. reflexivity. Qed.
Lemma skipk_attr : skipk o (attrK o) = true.
Proof. unfold skipk. rewrite str_eqb_refl. reflexivity. Qed.
Lemma attr_ne_seq : str_eqb (attrK o) (seqK o) = false.
Proof. keyf. rewrite str_eqb_sym. exact K3. Qed.
Lemma attr_ne_text : str_eqb (attrK o) (textK o) = false.
Proof. keyf. rewrite str_eqb_sym. exact K2. Qed.

(* {textK: v, seqK: i} *)
Lemma text_seq_lookup_text v i : lookup (textK o) (set (seqK o) (VInt i) (set (textK o) v [])) = Some v.
Proof. keyf. rewrite lookup_set_other by exact K1. apply lookup_set_same. Qed.
Lemma text_seq_lookup_attr v i : lookup (attrK o) (set (seqK o) (VInt i) (set (textK o) v [])) = None.
Proof. rewrite lookup_set_other by exact attr_ne_seq. rewrite lookup_set_other by exact attr_ne_text. reflexivity. Qed.

(* ---------------- the encoder does not panic on shaped values ---------------- *)
Lemma gbind_nopanic {A B} (r : res A) (f : A -> res B) :
  r <> Panic -> (forall a, r = Ok a -> f a <> Panic) -> bind r f <> Panic.
Proof. destruct r; cbn [bind]; intros H1 H2; [apply H2; reflexivity|discriminate|congruence]. Qed.

Lemma gsconcat_nopanic rs : Forall (fun r : res (list sitem) => r <> Panic) rs -> sconcat rs <> Panic.
Proof.
  induction 1 as [|r t Hr Ht IH]; cbn [sconcat]; [discriminate|].
  apply gbind_nopanic; [exact Hr|]. intros a _. apply gbind_nopanic; [exact IH|]. intros b _. discriminate.
Qed.

Lemma gsattrs_loop_nopanic l :
  forallb (fun kv : str * value => is_map (snd kv)) l = true -> sattrs_loop o l <> Panic.
Proof.
  induction l as [|[k v] t IH]; cbn [forallb sattrs_loop]; [discriminate|].
  intros H. apply andb_true_iff in H. destruct H as [Hv Ht]. cbn [snd] in Hv.
  destruct v; try discriminate Hv.
  destruct (sattr_text o (lookup (textK o) m)); [|discriminate].
  apply gbind_nopanic; [apply IH; exact Ht|]. intros; discriminate.
Qed.

Lemma gforallb_perm {A} (f : A -> bool) l l' : Permutation l l' -> forallb f l = forallb f l'.
Proof.
  induction 1; cbn [forallb]; try congruence.
  destruct (f y), (f x); reflexivity.
Qed.

Lemma gsattrs_nopanic m : gattr_map_ok m = true -> sattrs o m <> Panic.
Proof.
  unfold gattr_map_ok, sattrs. destruct (lookup (attrK o) m) as [[]|]; try discriminate.
  intros H. unfold seq_sort. cbn [bind].
  apply gbind_nopanic; [|intros; discriminate].
  apply gsattrs_loop_nopanic. rewrite (gforallb_perm _ _ _ (isort_perm _ m0)). exact H.
Qed.

Lemma gsenc_map key val :
  is_special_key o key = false ->
  senc o (VMap val) key =
  bind (sattrs o val) (fun ha =>
    let haveAttrs := fst ha in
    let attrs := snd ha in
    let n := length val in
    let seqOK := has_key (seqK o) val in
    let general :=
      bind (seq_sort o (fun t : str * value * res (list sitem) => snd (fst t)) (kid_triples o val)) (fun sorted =>
      bind (sconcat (map snd sorted)) (fun body =>
        Ok (SI (IOpen key attrs) :: lead_text o val ++ body ++ [SI (IClose key)]))) in
    match lookup (textK o) val with
    | Some v =>
        if Nat.eqb n (if haveAttrs then 3 else 2) && seqOK then
          match v with
          | VStr (c :: x) => Ok [SI (IOpen key attrs); SI (IText (esc o (c :: x))); SI (IClose key)]
          | _ => Ok (empty_or_broken o key attrs)
          end
        else general
    | None =>
        if Nat.eqb n (if haveAttrs then 2 else 1) && seqOK then Ok (empty_or_broken o key attrs)
        else general
    end).
Proof.
  unfold is_special_key. intros H.
  apply orb_false_iff in H. destruct H as [H H3]. apply orb_false_iff in H. destruct H as [H1 H2].
  cbn [senc]. rewrite H1, H2, H3. reflexivity.
Qed.

Definition gnopanic (v : value) : Prop := forall k, gshape v k = true -> senc o v k <> Panic.

Lemma gsenc_nopanic_all v :
  gnopanic v /\ (forall l, v = VList l -> Forall gnopanic l).
Proof.
  induction v as [x|b| |z|z|z|f|x|m IH|l IH] using value_ind2;
    try (split; [intros k _; cbn [senc]; discriminate|intros l0 H0; discriminate H0]).
  - (* map *)
    split; [|intros l0 H0; discriminate H0].
    intros k Hs.
    destruct (is_special_key o k) eqn:Hsp.
    + (* comment / directive / procinst *)
      unfold is_special_key in Hsp. cbn [gshape] in Hs. cbn [senc].
      destruct (str_eqb k (commentK o)) eqn:E1.
      * cbn [orb] in Hs. destruct (lookup (textK o) m) as [[]|]; try discriminate Hs. discriminate.
      * destruct (str_eqb k (directiveK o)) eqn:E2.
        -- cbn [orb] in Hs. destruct (lookup (textK o) m) as [[]|]; try discriminate Hs. discriminate.
        -- cbn [orb] in Hs, Hsp. rewrite Hsp in *.
           apply andb_true_iff in Hs. destruct Hs as [Ht Hi].
           destruct (lookup (targetK o) m) as [[]|]; try discriminate Ht.
           destruct (lookup (instK o) m) as [[]|]; try discriminate Hi. discriminate.
    + rewrite (gshape_map k m Hsp) in Hs. unfold gmap_ok in Hs.
      apply andb_true_iff in Hs. destruct Hs as [Ha He].
      rewrite (gsenc_map k m Hsp).
      apply gbind_nopanic; [apply gsattrs_nopanic; exact Ha|].
      intros ha _. cbn zeta.
      assert (G : bind (seq_sort o (fun t : str * value * res (list sitem) => snd (fst t)) (kid_triples o m))
                    (fun sorted => bind (sconcat (map snd sorted))
                       (fun body => Ok (SI (IOpen k (snd ha)) :: lead_text o m ++ body ++ [SI (IClose k)]))) <> Panic).
      { unfold seq_sort. cbn [bind]. apply gbind_nopanic; [|intros; discriminate].
        apply gsconcat_nopanic.
        assert (F : Forall (fun t : str * value * res (list sitem) => snd t <> Panic) (kid_triples o m)).
        { rewrite kid_triples_unroll. apply Forall_forall. intros t Ht.
          apply in_map_iff in Ht. destruct Ht as (kx & <- & Hkx). unfold triple. cbn [snd].
          unfold unroll in Hkx. apply in_flat_map in Hkx. destruct Hkx as (en & Hen & Hin).
          unfold gentries_ok in He. rewrite forallb_forall in He. specialize (He en Hen).
          rewrite Forall_forall in IH. specialize (IH en Hen). destruct IH as [IH1 IH2].
          unfold unroll1 in Hin. destruct (skipk o (fst en)) eqn:Esk; [destruct Hin|].
          cbn [orb] in He.
          destruct (snd en) as [x|b| |z|z|z|f|x|m'|l'] eqn:Ev;
            try (destruct Hin as [<-|[]]; cbn [fst snd]; apply IH1; exact He).
          apply in_map_iff in Hin. destruct Hin as (x & <- & Hx). cbn [fst snd].
          specialize (IH2 l' eq_refl). rewrite Forall_forall in IH2. apply (IH2 x Hx).
          rewrite gshape_list in He. rewrite forallb_forall in He. apply He. exact Hx. }
        apply Forall_forall. intros r Hr. apply in_map_iff in Hr. destruct Hr as (t & <- & Ht).
        rewrite Forall_forall in F. apply F.
        eapply Permutation_in; [apply isort_perm|exact Ht]. }
      destruct (lookup (textK o) m) as [tv|].
      * destruct (Nat.eqb (length m) (if fst ha then 3 else 2) && has_key (seqK o) m); [|exact G].
        destruct tv as [x| | | | | | | | |]; try discriminate. destruct x; discriminate.
      * destruct (Nat.eqb (length m) (if fst ha then 2 else 1) && has_key (seqK o) m); [discriminate|exact G].
  - (* list *)
    assert (F : Forall gnopanic l).
    { eapply Forall_impl; [|exact IH]. cbn beta. intros a Ha. apply Ha. }
    split; [|intros l0 H0; injection H0 as <-; exact F].
    intros k Hs. cbn [senc]. apply gsconcat_nopanic.
    rewrite gshape_list in Hs. rewrite forallb_forall in Hs.
    apply Forall_forall. intros r Hr. apply in_map_iff in Hr. destruct Hr as (x & <- & Hx).
    rewrite Forall_forall in F. apply (F x Hx). apply Hs. exact Hx.
Qed.

Theorem gsenc_nopanic v k : gshape v k = true -> senc o v k <> Panic.
Proof. apply (proj1 (gsenc_nopanic_all v)). Qed.

(* ================= the decoder's output has the shape ================= *)
Variable pf : str -> option flt.
Variable skip : str -> bool.
Variable r : bool.

(* a key as the tokenizer's names give it: not empty and none of the generated keys *)
Definition gstr_ok (k : str) : bool := nonempty k && negb (existsb (str_eqb k) (reserved_keys o)).
(* a start tag: the key the decoder derives from its name (prefix:local, snake-cased when that option is set) *)
Definition gtok_ok (t : tok) : bool := match t with TStart nm _ => gstr_ok (snake o (xfull nm)) | _ => true end.

Lemma gstr_ok_keys k :
  gstr_ok k = true ->
  nonempty k = true /\ is_special_key o k = false /\ skipk o k = false /\ str_eqb (attrK o) k = false.
Proof.
  unfold gstr_ok, reserved_keys. intros H. apply andb_true_iff in H. destruct H as [H1 H2].
  apply negb_true_iff in H2. cbn [existsb] in H2.
  repeat (apply orb_false_iff in H2; destruct H2 as [? H2]).
  split; [exact H1|]. unfold is_special_key, skipk.
  repeat match goal with H : str_eqb k _ = false |- _ => rewrite H end.
  repeat split; try reflexivity. rewrite str_eqb_sym. assumption.
Qed.

Lemma gentries_ok_set k v m :
  gentries_ok m = true -> skipk o k || gshape v k = true -> gentries_ok (set k v m) = true.
Proof.
  unfold gentries_ok. intros Hm Hv. induction m as [|[k' v'] t IH]; cbn [set forallb fst snd].
  - rewrite Hv. reflexivity.
  - cbn [forallb fst snd] in Hm. apply andb_true_iff in Hm. destruct Hm as [H1 H2].
    destruct (str_eqb k k') eqn:E; cbn [forallb fst snd].
    + apply str_eqb_eq in E. subst k'. rewrite Hv, H2. reflexivity.
    + rewrite H1, (IH H2). reflexivity.
Qed.

Lemma gmap_ok_set k v m :
  str_eqb (attrK o) k = false -> gmap_ok m = true -> skipk o k || gshape v k = true ->
  gmap_ok (set k v m) = true.
Proof.
  unfold gmap_ok. intros Hk Hm Hv. apply andb_true_iff in Hm. destruct Hm as [Ha He].
  apply andb_true_iff. split; [|apply gentries_ok_set; assumption].
  unfold gattr_map_ok in *. rewrite (lookup_set_other _ _ _ _ Hk). exact Ha.
Qed.

Lemma gentries_ok_lookup k v0 m :
  gentries_ok m = true -> lookup k m = Some v0 -> skipk o k = false -> gshape v0 k = true.
Proof.
  unfold gentries_ok. intros Hm Hl Hs. induction m as [|[k' v'] t IH]; [discriminate Hl|].
  cbn [forallb fst snd] in Hm. apply andb_true_iff in Hm. destruct Hm as [H1 H2].
  cbn [lookup] in Hl. destruct (str_eqb k k') eqn:E.
  - injection Hl as ->. apply str_eqb_eq in E. subst k'. rewrite Hs in H1. exact H1.
  - apply IH; assumption.
Qed.

Lemma gmap_ok_add_child k v m :
  gstr_ok k = true -> gshape v k = true -> gmap_ok m = true -> gmap_ok (add_child k v m) = true.
Proof.
  intros Hk Hv Hm. destruct (gstr_ok_keys k Hk) as (_ & _ & Hsk & Hak).
  assert (He : gentries_ok m = true) by (unfold gmap_ok in Hm; apply andb_true_iff in Hm; apply Hm).
  unfold add_child. destruct (lookup k m) as [v0|] eqn:El.
  - assert (H0 := gentries_ok_lookup k v0 m He El Hsk).
    destruct v0 as [x|b| |z|z|z|f|x|m'|l'];
      try (apply gmap_ok_set; [exact Hak|exact Hm|]; rewrite Hsk; cbn [orb];
           rewrite gshape_list; cbn [forallb]; rewrite H0, Hv; reflexivity).
    apply gmap_ok_set; [exact Hak|exact Hm|]. rewrite Hsk. cbn [orb].
    rewrite gshape_list in *. rewrite forallb_app, H0. cbn [forallb]. rewrite Hv. reflexivity.
  - apply gmap_ok_set; [exact Hak|exact Hm|]. rewrite Hsk, Hv. reflexivity.
Qed.

Lemma gattr_fold_maps a : forall st,
  forallb (fun kv : str * value => is_map (snd kv)) (snd st) = true ->
  forallb (fun kv : str * value => is_map (snd kv)) (snd (fold_left (seq_attr_step pf skip o r) a st)) = true.
Proof.
  induction a as [|at_ t IH]; intros [i aa] H; [exact H|].
  cbn [fold_left]. apply IH. unfold seq_attr_step. cbn [snd] in *.
  generalize (full_name (xspace (aname at_)) (snake o (xlocal (aname at_)))). intros key.
  generalize (cast pf skip o (if xmlEscapeCharsDecoder o then escape_chars (avalue at_) else avalue at_) r []). intros v.
  unfold text_seq_map.
  induction aa as [|[k' v'] t' IHa]; cbn [set forallb snd]; [reflexivity|].
  cbn [forallb snd] in H. apply andb_true_iff in H. destruct H as [H1 H2].
  destruct (str_eqb key k'); cbn [forallb snd is_map]; [exact H2|]. rewrite H1. apply IHa. exact H2.
Qed.

Lemma gmap_ok_nil : gmap_ok [] = true.
Proof. reflexivity. Qed.

Lemma gmap_ok_init a : gmap_ok (seq_init_na pf skip o r a) = true.
Proof.
  unfold seq_init_na. destruct a as [|at_ t]; [reflexivity|].
  unfold gmap_ok, gattr_map_ok, gentries_ok.
  change (set (attrK o) (VMap (seq_attr_entries pf skip o r (at_ :: t))) [])
    with [(attrK o, VMap (seq_attr_entries pf skip o r (at_ :: t)))].
  cbn [lookup]. rewrite str_eqb_refl. cbn [forallb fst snd]. rewrite skipk_attr. cbn [orb andb].
  unfold seq_attr_entries. rewrite (gattr_fold_maps (at_ :: t) (0%Z, []) eq_refl). reflexivity.
Qed.

(* {textK: v, seqK: i} under an ordinary key *)
Lemma gmap_ok_text_seq v i : gmap_ok (set (seqK o) (VInt i) (set (textK o) v [])) = true.
Proof.
  apply gmap_ok_set; [exact attr_ne_seq| |rewrite skipk_seq; reflexivity].
  apply gmap_ok_set; [exact attr_ne_text|exact gmap_ok_nil|rewrite skipk_text; reflexivity].
Qed.

Lemma gshape_inject k v sq :
  gstr_ok k = true -> gshape v k = true -> gshape (fst (seq_inject o v sq)) k = true.
Proof.
  intros Hk Hv. destruct (gstr_ok_keys k Hk) as (_ & Hsp & _ & _).
  destruct v as [x|b| |z|z|z|f|x|m|l]; cbn [seq_inject fst]; try reflexivity;
    try (unfold text_seq_map; rewrite (gshape_map k _ Hsp); apply gmap_ok_text_seq).
  rewrite (gshape_map k m Hsp) in Hv. rewrite (gshape_map k _ Hsp).
  apply gmap_ok_set; [exact attr_ne_seq|exact Hv|rewrite skipk_seq; reflexivity].
Qed.

(* the values stored under the three special keys *)
Lemma gshape_comment x i : gshape (text_seq_map o (VStr x) i) (commentK o) = true.
Proof. unfold text_seq_map. cbn [gshape]. rewrite str_eqb_refl. cbn [orb]. rewrite text_seq_lookup_text. reflexivity. Qed.
Lemma gshape_directive x i : gshape (text_seq_map o (VStr x) i) (directiveK o) = true.
Proof.
  unfold text_seq_map. cbn [gshape]. rewrite str_eqb_refl, orb_true_r. rewrite text_seq_lookup_text. reflexivity.
Qed.
Lemma gshape_procinst t i sq :
  gshape (VMap (set (seqK o) (VInt sq) (set (instK o) (VStr i) (set (targetK o) (VStr t) [])))) (procinstK o) = true.
Proof.
  keyf. cbn [gshape].
  assert (E1 : str_eqb (procinstK o) (commentK o) = false) by (rewrite str_eqb_sym; exact K7).
  assert (E2 : str_eqb (procinstK o) (directiveK o) = false) by (rewrite str_eqb_sym; exact K8).
  rewrite E1, E2, str_eqb_refl. cbn [orb].
  assert (T : lookup (targetK o) (set (seqK o) (VInt sq) (set (instK o) (VStr i) (set (targetK o) (VStr t) []))) = Some (VStr t)).
  { rewrite lookup_set_other by (rewrite str_eqb_sym; exact K9).
    rewrite lookup_set_other by exact K11. apply lookup_set_same. }
  assert (I : lookup (instK o) (set (seqK o) (VInt sq) (set (instK o) (VStr i) (set (targetK o) (VStr t) []))) = Some (VStr i)).
  { rewrite lookup_set_other by (rewrite str_eqb_sym; exact K10). apply lookup_set_same. }
  rewrite T, I. reflexivity.
Qed.

(* ---------------- the token loop ---------------- *)
Lemma gsloop_shape fuel : forall skey na seq ts tm kv rest,
  forallb gtok_ok ts = true ->
  (skey = [] \/ gstr_ok skey = true) ->
  gmap_ok na = true ->
  sloop pf skip o r fuel skey na seq ts tm = Ok (kv, rest) ->
  gstr_ok (fst kv) = true /\ gshape (snd kv) (fst kv) = true /\ forallb gtok_ok rest = true.
Proof.
  keyf.
  induction fuel as [|f IH]; intros skey na seq ts tm kv rest Hts Hsk Hna H; [discriminate H|].
  destruct ts as [|t ts']; [cbn [sloop] in H; destruct tm; discriminate H|].
  cbn [forallb] in Hts. apply andb_true_iff in Hts. destruct Hts as [Ht Hts'].
  destruct t as [nm a|nm|x|x|tg i|x].
  - (* start tag *)
    cbn [gtok_ok] in Ht. destruct (gstr_ok_keys _ Ht) as (Hne & Hsp & _ & _).
    cbn [sloop] in H. rewrite Hne in H.
    set (ck := snake o (xfull nm)) in *.
    set (C := if handleXMPPStreamTag o && str_eqb ck stream_stream
              then Ok ((ck, VMap (seq_init_na pf skip o r a)), ts')
              else sloop pf skip o r f ck (seq_init_na pf skip o r a) 0%Z ts' tm) in *.
    assert (HC : forall key val rest1, C = Ok ((key, val), rest1) ->
                 gstr_ok key = true /\ gshape val key = true /\ forallb gtok_ok rest1 = true).
    { intros key val rest1 E. subst C.
      destruct (handleXMPPStreamTag o && str_eqb ck stream_stream).
      - injection E as <- <- <-. split; [exact Ht|]. split; [|exact Hts'].
        rewrite (gshape_map ck _ Hsp). apply gmap_ok_init.
      - apply (IH _ _ _ _ _ _ _ Hts' (or_intror Ht) (gmap_ok_init a) E). }
    destruct skey as [|c k].
    + destruct kv as [key val]. apply (HC key val rest H).
    + destruct C as [[[key val] rest1]| |] eqn:Ec; try discriminate H.
      destruct (HC key val rest1 eq_refl) as (C1 & C2 & C3).
      destruct (seq_inject o val seq) as [val' seq'] eqn:Ei.
      assert (Hv' : gshape val' key = true).
      { replace val' with (fst (seq_inject o val seq)) by (rewrite Ei; reflexivity).
        apply gshape_inject; assumption. }
      apply (IH _ _ _ _ _ _ _ C3 Hsk (gmap_ok_add_child key val' na C1 Hv' Hna) H).
  - (* end tag *)
    cbn [sloop] in H. destruct skey as [|c k]; [discriminate H|].
    destruct (negb (str_eqb (c :: k) (full_name (xspace nm) (snake o (xlocal nm))))); [discriminate H|].
    injection H as <- <-. cbn [fst snd].
    destruct Hsk as [Hsk|Hsk]; [discriminate Hsk|].
    split; [exact Hsk|]. split; [|exact Hts'].
    destruct na as [|p l]; [reflexivity|].
    destruct (gstr_ok_keys _ Hsk) as (_ & Hsp & _ & _).
    rewrite (gshape_map _ _ Hsp). exact Hna.
  - (* character data *)
    cbn [sloop] in H. destruct skey as [|c k].
    + apply (IH _ _ _ _ _ _ _ Hts' Hsk Hna H).
    + match type of H with (if ?b then _ else _) = _ => destruct b end.
      * refine (IH _ _ _ _ _ _ _ Hts' Hsk _ H).
        apply gmap_ok_set; [exact attr_ne_seq| |rewrite skipk_seq; reflexivity].
        apply gmap_ok_set; [exact attr_ne_text|exact Hna|rewrite skipk_text; reflexivity].
      * apply (IH _ _ _ _ _ _ _ Hts' Hsk Hna H).
  - (* comment *)
    cbn [sloop] in H. destruct skey as [|c k]; [discriminate H|].
    refine (IH _ _ _ _ _ _ _ Hts' Hsk _ H).
    apply gmap_ok_set; [exact K4|exact Hna|rewrite gshape_comment; apply orb_true_r].
  - (* processing instruction *)
    cbn [sloop] in H. destruct skey as [|c k]; [discriminate H|].
    refine (IH _ _ _ _ _ _ _ Hts' Hsk _ H).
    apply gmap_ok_set; [exact K6|exact Hna|rewrite gshape_procinst; apply orb_true_r].
  - (* directive *)
    cbn [sloop] in H. destruct skey as [|c k]; [discriminate H|].
    refine (IH _ _ _ _ _ _ _ Hts' Hsk _ H).
    apply gmap_ok_set; [exact K5|exact Hna|rewrite gshape_directive; apply orb_true_r].
Qed.

Theorem gseq_decode_shape ts tm m :
  forallb gtok_ok ts = true ->
  seq_decode pf skip o r ts tm = Ok m ->
  exists k v, m = VMap [(k, v)] /\ gstr_ok k = true /\ gshape v k = true.
Proof.
  intros Hts H. unfold seq_decode, seq_decode_rest in H.
  destruct (sloop pf skip o r (S (length ts)) [] [] 0%Z ts tm) as [[[k v] rest]| |] eqn:E; try discriminate H.
  injection H as <-.
  destruct (gsloop_shape (S (length ts)) [] [] 0%Z ts tm (k, v) rest Hts (or_introl eq_refl) eq_refl E) as (K1 & K2 & _).
  exists k, v. split; [reflexivity|]. split; assumption.
Qed.

(* ... and neither MapSeq.Xml nor MapSeq.XmlIndent (hence BeautifyXml) panics on it *)
Theorem gseq_decoded_encodable ts tm m :
  forallb gtok_ok ts = true ->
  seq_decode pf skip o r ts tm = Ok m ->
  seq_encode o m <> Panic /\ seq_encode_indent o m <> Panic.
Proof.
  intros Hts H. destruct (gseq_decode_shape ts tm m Hts H) as (k & v & -> & Hk & Hv).
  destruct (gstr_ok_keys k Hk) as (_ & Hsp & Hs & Ha).
  assert (N : senc o v k <> Panic) by (apply gsenc_nopanic; exact Hv).
  assert (D : senc o (VMap [(k, v)]) default_root <> Panic).
  { keyf. apply gsenc_nopanic. rewrite gshape_map by exact K12.
    unfold gmap_ok, gattr_map_ok, gentries_ok. cbn [lookup forallb fst snd].
    rewrite Ha, Hs, Hv. reflexivity. }
  unfold seq_encode, seq_encode_indent, seq_xml_items, seq_xml_indent_items.
  split.
  - destruct v; try exact N. destruct (all_maps l); [exact N|exact D].
  - destruct v; try exact N. exact D.
Qed.
End GShape.
