(* C10, second part: from the per-key lemma [uvk_exact] and the navigation
   lemma [kp_step_realizes] of C10P.v to the full statement
   "UpdateValuesForPath writes the new value at exactly the addressed positions",
   the frame condition, and update-then-query. *)
From Mxj Require Import Model.TreeOps Spec.PathSem Spec.UpdateSpec Proofs.StrLemmas Proofs.C07P Proofs.C10P.

(* ================= 1. hasSubKeys does not see inside map / list entries ================= *)
Definition same_kind (x y : value) : Prop :=
  match x, y with VMap _, VMap _ | VList _, VList _ => True | _, _ => False end.

Lemma sub_val_matches_kind sval x y : same_kind x y -> sub_val_matches sval x = sub_val_matches sval y.
Proof. destruct x, y; try contradiction; intros _; destruct sval; reflexivity. Qed.

Lemma sub_key_ok_set c x y cur kv :
  lookup c cur = Some y -> same_kind y x -> sub_key_ok (set c x cur) kv = sub_key_ok cur kv.
Proof.
  intros Hl Hk. unfold sub_key_ok. destruct kv as [skey0 sval].
  destruct (match skey0 with "!"%char :: t => (t, true) | _ => (skey0, false) end) as [skey isNot].
  destruct (str_eqb skey c) eqn:E.
  - apply str_eqb_eq in E. subst skey. rewrite lookup_set_same, Hl.
    rewrite (sub_val_matches_kind sval x y); [reflexivity|].
    destruct x, y; try contradiction; exact I.
  - rewrite lookup_set_other by exact E. reflexivity.
Qed.

Lemma forallb_ext' {A} (f g : A -> bool) l : (forall a, f a = g a) -> forallb f l = forallb g l.
Proof. intros H. induction l as [|a l IH]; cbn; [reflexivity|rewrite H, IH; reflexivity]. Qed.

Lemma has_sub_keys_set c x y cur sk :
  lookup c cur = Some y -> same_kind y x ->
  has_sub_keys (VMap (set c x cur)) sk = has_sub_keys (VMap cur) sk.
Proof.
  intros Hl Hk. unfold has_sub_keys. destruct sk as [|kv sk']; [reflexivity|].
  apply forallb_ext'. intros kv'. apply sub_key_ok_set with y; assumption.
Qed.

(* ================= 2. the last path key: updateValue writes exactly node_targets ================= *)
Section Last2.
Variable key : str.
Variable nv : value.
Variable sk : entries.
Local Notation entry_targets := (entry_targets key sk).
Local Notation node_targets := (node_targets key sk).

Lemma same_kind_members l :
  same_kind (VList l) (VList (fst (upd_members key nv sk l))).
Proof. exact I. Qed.

(* what one updateValue call does to the map it is given *)
Lemma uvk_shape cur c :
  fst (update_value_key key nv cur c sk) = cur \/
  exists x, fst (update_value_key key nv cur c sk) = set c x cur /\
            (str_eqb key c = false -> exists y, lookup c cur = Some y /\ same_kind y x).
Proof.
  unfold update_value_key. destruct (str_eqb key c) eqn:Ekc.
  - destruct (lookup c cur) as [[]|];
      try (destruct (has_sub_keys (VMap cur) sk); [right; eexists; split; [reflexivity|discriminate]|left; reflexivity]).
    destruct (has_sub_keys (VMap cur) sk); [right; eexists; split; [reflexivity|discriminate]|].
    destruct (filter (fun v => has_sub_keys v sk) l); [left; reflexivity|].
    right; eexists; split; [reflexivity|discriminate].
  - destruct (lookup c cur) as [[]|] eqn:El; try (left; reflexivity).
    + destruct (has_sub_keys (VMap m) sk && has_key key m); [|left; reflexivity].
      right. eexists. split; [reflexivity|]. intros _. eexists. split; [reflexivity|exact I].
    + destruct (upd_members key nv sk l) as [l' [|n]]; [left; reflexivity|].
      right. eexists. split; [reflexivity|]. intros _. eexists. split; [reflexivity|exact I].
Qed.

Lemma entry_targets_preserved cur c c' :
  str_eqb c' c = false ->
  entry_targets (fst (update_value_key key nv cur c sk)) c' = entry_targets cur c'.
Proof.
  intros Hne. destruct (uvk_shape cur c) as [E|(x & E & Hk)]; rewrite E; [reflexivity|].
  unfold UpdateSpec.entry_targets. rewrite lookup_set_other by exact Hne.
  unfold entry_rel. destruct (str_eqb key c') eqn:Ekc'; [|reflexivity].
  apply str_eqb_eq in Ekc'. subst c'.
  destruct (Hk Hne) as (y & Hl & Hsk).
  unfold hit. rewrite (has_sub_keys_set c x y cur sk Hl Hsk). reflexivity.
Qed.

Lemma uv_fold_exact P : forall ks cur n,
  NoDup ks -> (forall c, In c ks -> entry_targets cur c = entry_targets P c) ->
  VMap (fst (fold_left (uv_step key nv sk) ks (cur, n))) = writes (flat_map (entry_targets P) ks) nv (VMap cur)
  /\ snd (fold_left (uv_step key nv sk) ks (cur, n)) = n + length (flat_map (entry_targets P) ks).
Proof.
  induction ks as [|c ks IH]; intros cur n Hnd Hinv.
  - cbn. split; [reflexivity|lia].
  - inversion Hnd as [|? ? Hnotin Hnd']; subst.
    cbn [fold_left flat_map]. unfold uv_step at 2 4.
    destruct (uvk_exact key nv sk cur c) as [E1 E2].
    destruct (update_value_key key nv cur c sk) as [cur1 n1] eqn:Eu. cbn [fst snd] in E1, E2.
    rewrite (Hinv c (or_introl eq_refl)) in E1, E2.
    destruct (IH cur1 (n + n1) Hnd') as [F1 F2].
    { intros c' Hin. rewrite <- (Hinv c' (or_intror Hin)).
      replace cur1 with (fst (update_value_key key nv cur c sk)) by (rewrite Eu; reflexivity).
      apply entry_targets_preserved. apply str_eqb_neq. intros ->. contradiction. }
    rewrite F1, F2, writes_app, app_length, <- E1, E2. split; [reflexivity|lia].
Qed.

Theorem update_value_exact m c :
  wfb m = true ->
  update_value key nv m c sk = (writes (node_targets c m) nv m, length (node_targets c m)).
Proof.
  intros Hw. unfold update_value, UpdateSpec.node_targets. destruct m as [ | | | | | | | |mm|l]; try reflexivity.
  - destruct (str_eqb c star).
    + apply wfb_map in Hw as [Hnd _].
      change (fun acc k => let '(cur, n) := acc in
                           let '(cur', n') := update_value_key key nv cur k sk in (cur', n + n'))
        with (uv_step key nv sk).
      destruct (uv_fold_exact mm (keys mm) mm 0 Hnd (fun _ _ => eq_refl)) as [F1 F2].
      destruct (fold_left (uv_step key nv sk) (keys mm) (mm, 0)) as [mm' n] eqn:Ef.
      assert (G1 : VMap (fst (mm', n)) = writes (flat_map (entry_targets mm) (keys mm)) nv (VMap mm))
        by (rewrite <- Ef; exact F1).
      assert (G2 : snd (mm', n) = 0 + length (flat_map (entry_targets mm) (keys mm)))
        by (rewrite <- Ef; exact F2).
      cbn [fst snd] in G1, G2. rewrite G1, G2. reflexivity.
    + destruct (uvk_exact key nv sk mm c) as [E1 E2].
      destruct (update_value_key key nv mm c sk) as [mm' n] eqn:Eu.
      cbn [fst snd] in E1, E2. rewrite E1, E2. reflexivity.
  - destruct (upd_members_exact key nv sk l) as [E1 E2]. rewrite E1, E2. reflexivity.
Qed.
End Last2.

(* ================= 3. navigation: addr_step is one [sel_loc] step ================= *)
Lemma map_flat_map' {A B C} (g : B -> C) (f : A -> list B) l :
  map g (flat_map f l) = flat_map (fun x => map g (f x)) l.
Proof. induction l as [|a l IH]; cbn; [reflexivity|]. rewrite map_app, IH; reflexivity. Qed.

Lemma flat_map_flat_mapi {A B C} (F : B -> list C) (G : nat -> A -> list B) l : forall i,
  flat_map F (flat_mapi G l i) = flat_mapi (fun i x => flat_map F (G i x)) l i.
Proof. induction l as [|a l IH]; intros i; cbn; [reflexivity|]. rewrite flat_map_app, IH. reflexivity. Qed.

Lemma flat_mapi_ext {A B} (f g : nat -> A -> list B) l :
  (forall i x, f i x = g i x) -> forall i, flat_mapi f l i = flat_mapi g l i.
Proof. intros H. induction l as [|a l IH]; intros i; cbn; [reflexivity|]. rewrite H, IH. reflexivity. Qed.

Definition extend (a : value -> list pos) (pv : pos * value) : list pos := map (app (fst pv)) (a (snd pv)).

Lemma addr_map_sel k0 a mm : addr_map k0 a mm = flat_map (extend a) (sel_map_loc k0 mm).
Proof.
  unfold addr_map, sel_map_loc. destruct (str_eqb k0 star).
  - rewrite flat_map_map. reflexivity.
  - destruct (lookup k0 mm); [|reflexivity]. cbn [flat_map]. rewrite app_nil_r. reflexivity.
Qed.

Lemma addr_step_sel k0 a m : addr_step k0 a m = flat_map (extend a) (sel_loc k0 m).
Proof.
  unfold addr_step, sel_loc. destruct m as [ | | | | | | | |mm|l]; try reflexivity.
  - apply addr_map_sel.
  - unfold in_list. rewrite flat_map_flat_mapi. apply flat_mapi_ext. intros i x.
    destruct x as [ | | | | | | | |mm|l']; try (destruct (str_eqb k0 star); cbn [flat_map]; rewrite ?app_nil_r; reflexivity).
    rewrite addr_map_sel, flat_map_map. unfold under. rewrite map_flat_map'.
    apply flat_map_ext. intros pv. unfold extend. cbn [fst snd]. rewrite map_map. reflexivity.
Qed.

(* ================= 4. the whole walk ================= *)
Section Walk.
Variable key : str.
Variable nv : value.
Variable sk : entries.

Lemma addressed_cons k0 k1 rest m :
  addressed key sk (k0 :: k1 :: rest) m = addr_step k0 (addressed key sk (k1 :: rest)) m.
Proof. rewrite addr_step_sel. reflexivity. Qed.

Theorem update_kp_exact : forall ks m,
  ks <> [] -> wfb m = true ->
  update_kp key nv ks sk m = (writes (addressed key sk ks m) nv m, length (addressed key sk ks m)).
Proof.
  induction ks as [|k0 rest IH]; intros m Hne Hw; [congruence|].
  destruct rest as [|k1 rest].
  - cbn [update_kp addressed]. apply update_value_exact, Hw.
  - rewrite update_kp_step, addressed_cons.
    apply kp_step_realizes; [exact Hw|]. intros v Hv. unfold realizes. apply IH; [discriminate|exact Hv].
Qed.
End Walk.

(* ================= 5. UpdateValuesForPath ================= *)
Section TopLevel.
Variable pf : str -> option flt.
Variable sep : str.

Theorem update_exact m nvl path sks sk key nv :
  get_sub_key_map pf sep sks = Ok sk -> parse_newval pf sep nvl = Ok (key, nv) -> wfb m = true ->
  update_values_for_path pf sep m nvl path sks =
  Ok (writes (addressed key sk (split1 dot path) m) nv m, length (addressed key sk (split1 dot path) m)).
Proof.
  intros Hs Hn Hw. unfold update_values_for_path. rewrite Hs, Hn. cbn [bind fst snd].
  rewrite update_kp_exact; [reflexivity|apply split1_nonempty|exact Hw].
Qed.

(* malformed sub-keys / new value: an error, nothing is written (the Map is not returned at all) *)
Theorem update_bad_subkeys m nvl path sks e :
  get_sub_key_map pf sep sks = Err e -> update_values_for_path pf sep m nvl path sks = Err e.
Proof. intros H. unfold update_values_for_path. rewrite H. reflexivity. Qed.

Theorem update_bad_newval m nvl path sks sk e :
  get_sub_key_map pf sep sks = Ok sk -> parse_newval pf sep nvl = Err e ->
  update_values_for_path pf sep m nvl path sks = Err e.
Proof. intros H1 H2. unfold update_values_for_path. rewrite H1, H2. reflexivity. Qed.
End TopLevel.

(* ================= 6. frame: what a write leaves alone ================= *)
Lemma str_eqb_refl' k : str_eqb k k = true. Proof. apply str_eqb_refl. Qed.

Lemma comparable_cons_same st p q :
  step_eqb st st = true -> comparable (st :: p) (st :: q) = false -> comparable p q = false.
Proof. unfold comparable. cbn [is_prefix]. intros ->. cbn [andb]. intros H; exact H. Qed.

Lemma step_eqb_refl st : step_eqb st st = true.
Proof. destruct st; cbn; [apply str_eqb_refl|apply Nat.eqb_refl]. Qed.

Lemma write_at_frame nv : forall p q m,
  comparable p q = false -> get_at q (write_at p nv m) = get_at q m.
Proof.
  induction p as [|st p IH]; intros q m Hc; [discriminate|].
  destruct q as [|st2 q].
  { unfold comparable in Hc. cbn [is_prefix] in Hc. rewrite orb_true_r in Hc. discriminate. }
  destruct st as [k|i], st2 as [k2|j].
  - (* key / key *)
    destruct m as [ | | | | | | | |mm|l]; try reflexivity.
    cbn [write_at]. destruct (lookup k mm) as [v|] eqn:El.
    + cbn [get_at]. destruct (str_eqb k2 k) eqn:E.
      * apply str_eqb_eq in E. subst k2. rewrite lookup_set_same, El. apply IH.
        apply (comparable_cons_same (SK k)); [apply step_eqb_refl|exact Hc].
      * rewrite lookup_set_other by exact E. reflexivity.
    + destruct p as [|st' p']; [|reflexivity].
      cbn [get_at]. destruct (str_eqb k2 k) eqn:E.
      * apply str_eqb_eq in E. subst k2. unfold comparable in Hc. cbn [is_prefix step_eqb] in Hc.
        rewrite str_eqb_refl in Hc. discriminate.
      * rewrite lookup_set_other by exact E. reflexivity.
  - (* key / index *)
    destruct m as [ | | | | | | | |mm|l]; try reflexivity.
    cbn [write_at]. destruct (lookup k mm) as [v|]; [reflexivity|]. destruct p; reflexivity.
  - (* index / key *)
    destruct m as [ | | | | | | | |mm|l]; try reflexivity.
    cbn [write_at]. destruct (nth_error l i) as [v|]; reflexivity.
  - (* index / index *)
    destruct m as [ | | | | | | | |mm|l]; try reflexivity.
    cbn [write_at]. destruct (nth_error l i) as [v|] eqn:El; [|reflexivity].
    cbn [get_at]. destruct (Nat.eq_dec i j) as [->|Hne].
    + rewrite nth_error_set_nth_same by (apply nth_error_Some; congruence). rewrite El. apply IH.
      apply (comparable_cons_same (SI j)); [apply step_eqb_refl|exact Hc].
    + rewrite nth_error_set_nth_other by exact Hne. reflexivity.
Qed.

Theorem writes_frame nv q : forall ps m,
  (forall p, In p ps -> comparable p q = false) -> get_at q (writes ps nv m) = get_at q m.
Proof.
  induction ps as [|p ps IH]; intros m H; [reflexivity|].
  rewrite writes_cons, IH by (intros p' Hp'; apply H; right; exact Hp').
  apply write_at_frame, H. left; reflexivity.
Qed.

(* a write below position p leaves p's siblings and everything outside p alone; in
   particular the result of UpdateValuesForPath agrees with the Map at every
   position that is neither above nor below an addressed one *)
Theorem update_frame pf sep m nvl path sks sk key nv m' n q :
  get_sub_key_map pf sep sks = Ok sk -> parse_newval pf sep nvl = Ok (key, nv) -> wfb m = true ->
  update_values_for_path pf sep m nvl path sks = Ok (m', n) ->
  (forall p, In p (addressed key sk (split1 dot path) m) -> comparable p q = false) ->
  get_at q m' = get_at q m.
Proof.
  intros Hs Hn Hw Hu Hq. rewrite (update_exact pf sep m nvl path sks sk key nv Hs Hn Hw) in Hu.
  injection Hu as <- _. apply writes_frame, Hq.
Qed.

(* ================= 7. update, then query ================= *)
Lemma flat_map_repeat {A B} (a : B) (g : A -> nat) l :
  flat_map (fun x => repeat a (g x)) l = repeat a (list_sum (map g l)).
Proof.
  induction l as [|x l IH]; [reflexivity|]. cbn [flat_map map]. rewrite list_sum_cons, repeat_app, IH. reflexivity.
Qed.

Lemma flat_map_ext_in {A B} (f g : A -> list B) l :
  (forall x, In x l -> f x = g x) -> flat_map f l = flat_map g l.
Proof.
  induction l as [|a l IH]; intros H; [reflexivity|]. cbn [flat_map].
  rewrite (H a (or_introl eq_refl)), IH; [reflexivity|]. intros x Hx. apply H. right; exact Hx.
Qed.

(* the updates keep the kind of the node they are applied to *)
Lemma upd_members_fst key nv sk l :
  fst (upd_members key nv sk l) = map (fun v => writes (member_rel key sk v) nv v) l.
Proof. rewrite upd_members_eq. reflexivity. Qed.

Lemma update_value_is_map key nv sk c m : is_map (fst (update_value key nv m c sk)) = is_map m.
Proof.
  unfold update_value. destruct m as [ | | | | | | | |mm|l]; try reflexivity.
  - destruct (str_eqb c star).
    + match goal with |- context [fold_left ?f (keys mm) (mm, 0)] =>
        destruct (fold_left f (keys mm) (mm, 0)) as [mm' n] end. reflexivity.
    + destruct (update_value_key key nv mm c sk) as [mm' n]. reflexivity.
  - destruct (upd_members key nv sk l) as [l' n]. reflexivity.
Qed.

Lemma map_step_is_map k0 rec mm : exists mm', fst (map_step k0 rec mm) = VMap mm'.
Proof.
  unfold map_step. destruct (str_eqb k0 star).
  - destruct (upd_vals rec mm) as [mm' n]. eexists; reflexivity.
  - destruct (lookup k0 mm) as [v|]; [|eexists; reflexivity].
    destruct (rec v) as [v' n]. eexists; reflexivity.
Qed.

Lemma kp_step_is_map k0 rec m : is_map (fst (kp_step k0 rec m)) = is_map m.
Proof.
  unfold kp_step. destruct m as [ | | | | | | | |mm|l]; try reflexivity.
  - destruct (map_step_is_map k0 rec mm) as [mm' E]. rewrite E. reflexivity.
  - match goal with |- context [upd_list ?f l] => destruct (upd_list f l) as [l' n] end. reflexivity.
Qed.

Lemma update_kp_is_map key nv sk : forall ks m, is_map (fst (update_kp key nv ks sk m)) = is_map m.
Proof.
  induction ks as [|k0 rest IH]; intros m; [reflexivity|].
  destruct rest as [|k1 rest].
  - cbn [update_kp]. apply update_value_is_map.
  - rewrite update_kp_step. apply kp_step_is_map.
Qed.

Section Query.
Variable key : str.
Variable nv : value.
Hypothesis Hstar : str_eqb key star = false.
Hypothesis Hnl : is_list nv = false.

Lemma final_nv : final nv = [nv].
Proof. destruct nv; try reflexivity. discriminate. Qed.

Lemma sel_map_written mm : sel_map key (set key nv mm) = [nv].
Proof. unfold sel_map. rewrite Hstar, lookup_set_same. reflexivity. Qed.

(* the last key, equal to the key of newVal, no sub-keys *)
Lemma uq_members l :
  flat_map final (sel key (VList (fst (upd_members key nv [] l)))) = repeat nv (snd (upd_members key nv [] l)).
Proof.
  induction l as [|v t IH]; [reflexivity|].
  cbn [upd_members]. destruct (upd_members key nv [] t) as [t' n] eqn:Et. cbn [fst snd] in IH.
  cbn [sel] in *. rewrite Hstar in IH |- *.
  destruct v as [ | | | | | | | |mm|l'];
    try (cbn [fst snd flat_map app]; exact IH).
  change (has_sub_keys (VMap mm) []) with true. rewrite andb_true_r.
  unfold has_key. destruct (lookup key mm) as [x|] eqn:El; cbn [fst snd flat_map].
  - rewrite sel_map_written. cbn [app flat_map]. rewrite final_nv. cbn [app repeat]. f_equal. exact IH.
  - unfold sel_map at 1. rewrite Hstar, El. cbn [app]. exact IH.
Qed.

Lemma uq_last m :
  eval [key] (fst (update_value key nv m key [])) = repeat nv (snd (update_value key nv m key [])).
Proof.
  cbn [eval]. unfold update_value. destruct m as [ | | | | | | | |mm|l]; try reflexivity.
  - rewrite Hstar. unfold update_value_key. rewrite str_eqb_refl.
    change (has_sub_keys (VMap mm) []) with true.
    assert (G : flat_map final (sel key (VMap (set key nv mm))) = repeat nv 1).
    { cbn [sel]. rewrite sel_map_written. cbn [flat_map]. rewrite final_nv. reflexivity. }
    destruct (lookup key mm) as [[]|]; cbn [fst snd]; exact G.
  - pose proof (uq_members l) as H.
    destruct (upd_members key nv [] l) as [l' n]. exact H.
Qed.

Definition answers (rest : list str) (rec : value -> value * nat) : Prop :=
  (forall m, eval rest (fst (rec m)) = repeat nv (snd (rec m))) /\
  (forall m, is_map (fst (rec m)) = is_map m).

Lemma uq_map_step k0 rest rec mm : answers rest rec ->
  flat_map (eval rest) (sel k0 (fst (map_step k0 rec mm))) = repeat nv (snd (map_step k0 rec mm)).
Proof.
  intros [Ha _]. unfold map_step. destruct (str_eqb k0 star) eqn:Es.
  - rewrite upd_vals_eq. cbn [fst snd sel]. unfold sel_map. rewrite Es.
    rewrite map_map. cbn [snd]. rewrite flat_map_map.
    rewrite <- flat_map_repeat. apply flat_map_ext. intros kv. apply Ha.
  - destruct (lookup k0 mm) as [v|] eqn:El.
    + specialize (Ha v). destruct (rec v) as [v' n]. cbn [fst snd sel] in *.
      unfold sel_map. rewrite Es, lookup_set_same. cbn [flat_map]. rewrite app_nil_r. exact Ha.
    + cbn [fst snd sel]. unfold sel_map. rewrite Es, El. reflexivity.
Qed.

Lemma uq_nonmap k0 rest rec v : answers rest rec -> is_map v = false ->
  let r := if str_eqb k0 star then rec v else (v, 0) in
  flat_map (eval rest) (match fst r with
                        | VMap m => sel_map k0 m
                        | _ => if str_eqb k0 star then [fst r] else []
                        end) = repeat nv (snd r).
Proof.
  intros [Ha Hm] Hv. destruct (str_eqb k0 star); cbn zeta.
  - pose proof (Hm v) as Hk. rewrite Hv in Hk. pose proof (Ha v) as Hx.
    destruct (fst (rec v)); try discriminate Hk; cbn [flat_map]; rewrite app_nil_r; exact Hx.
  - cbn [fst snd]. destruct v; try discriminate Hv; reflexivity.
Qed.

Lemma uq_step k0 rest rec : answers rest rec ->
  forall m, eval (k0 :: rest) (fst (kp_step k0 rec m)) = repeat nv (snd (kp_step k0 rec m)).
Proof.
  intros Hans m. cbn [eval]. unfold kp_step.
  destruct m as [ | | | | | | | |mm|l]; try reflexivity.
  - apply uq_map_step, Hans.
  - rewrite upd_list_eq. cbn [fst snd sel]. rewrite flat_map_flat_map, flat_map_map.
    rewrite <- flat_map_repeat. apply flat_map_ext. intros v.
    destruct v as [ | | | | | | | |mm|l'];
      try (match goal with |- context [rec ?x] => exact (uq_nonmap k0 rest rec x Hans eq_refl) end).
    destruct (map_step_is_map k0 rec mm) as [mm' E].
    pose proof (uq_map_step k0 rest rec mm Hans) as H. rewrite E in *. cbn [sel] in H. exact H.
Qed.

Theorem update_kp_then_eval : forall ks,
  ks <> [] -> last ks [] = key -> answers ks (update_kp key nv ks []).
Proof.
  induction ks as [|k0 rest IH]; intros Hne Hl; [congruence|].
  split; [|apply update_kp_is_map].
  destruct rest as [|k1 rest].
  - cbn [last] in Hl. subst k0. intros m. cbn [update_kp]. apply uq_last.
  - intros m. rewrite update_kp_step. apply uq_step. apply IH; [discriminate|exact Hl].
Qed.
End Query.

Lemma last_indep {A} (l : list A) d1 d2 : l <> [] -> last l d1 = last l d2.
Proof.
  induction l as [|a l IH]; [congruence|]. intros _. destruct l as [|b l']; [reflexivity|].
  change (last (b :: l') d1 = last (b :: l') d2). apply IH. discriminate.
Qed.

(* ValuesForPath(path) after UpdateValuesForPath({k:v}, path): count copies of v *)
Theorem update_then_query pf sep m nvl path key nv m' n :
  parse_newval pf sep nvl = Ok (key, nv) ->
  str_eqb key star = false -> key <> [] -> is_list nv = false ->
  mem_ascii lbr path = false -> last (split1 dot path) [] = key ->
  update_values_for_path pf sep m nvl path [] = Ok (m', n) ->
  values_for_path pf sep m' path [] = Ok (repeat nv n).
Proof.
  intros Hp Hs Hk Hl Hb Hlast Hu. unfold update_values_for_path in Hu.
  cbn [get_sub_key_map get_sub_key_map_aux bind] in Hu. rewrite Hp in Hu. cbn [bind fst snd] in Hu.
  rewrite values_for_path_plain by exact Hb.
  assert (Hpk : path_keys path = split1 dot path).
  { unfold path_keys. cbv zeta. rewrite (last_indep _ [dot] []) by apply split1_nonempty.
    pose proof Hlast as Hl'. change (@last (list ascii) (split1 dot path) [] = key) in Hl'. rewrite Hl'.
    destruct key; [congruence|reflexivity]. }
  rewrite Hpk.
  destruct (update_kp_then_eval key nv Hs Hl (split1 dot path) (split1_nonempty _ _) Hlast) as [Ha _].
  specialize (Ha m). injection Hu as Hu. rewrite Hu in Ha. cbn [fst snd] in Ha. rewrite Ha. reflexivity.
Qed.

(* ================= 8. only values stored under the key of newVal are replaced ================= *)
Lemma in_flat_mapi {A B} (f : nat -> A -> list B) l b :
  forall i, In b (flat_mapi f l i) <-> exists j x, nth_error l j = Some x /\ In b (f (i + j) x).
Proof.
  induction l as [|a l IH]; intros i; cbn [flat_mapi].
  - split; [contradiction|]. intros (j & x & H & _). destruct j; discriminate.
  - rewrite in_app_iff, IH. split.
    + intros [H|(j & x & Hn & H)].
      * exists 0, a. rewrite Nat.add_0_r. split; [reflexivity|exact H].
      * exists (S j), x. rewrite Nat.add_succ_r. split; [exact Hn|exact H].
    + intros (j & x & Hn & H). destruct j as [|j].
      * cbn in Hn. inversion Hn; subst. rewrite Nat.add_0_r in H. left; exact H.
      * right. exists j, x. rewrite Nat.add_succ_r in H. split; [exact Hn|exact H].
Qed.

Lemma in_under st ps p : In p (under st ps) <-> exists r, p = st :: r /\ In r ps.
Proof.
  unfold under. rewrite in_map_iff. split; intros (r & H1 & H2); exists r; split; auto.
Qed.

Lemma in_in_list f l p :
  In p (in_list f l) <-> exists i v r, nth_error l i = Some v /\ p = SI i :: r /\ In r (f v).
Proof.
  unfold in_list. rewrite in_flat_mapi. split.
  - intros (j & x & Hn & H). cbn [Nat.add] in H. apply in_under in H as (r & -> & Hr). exists j, x, r. auto.
  - intros (i & v & r & Hn & -> & Hr). exists i, v. split; [exact Hn|]. apply in_under. exists r. auto.
Qed.

Section UnderKey.
Variable key : str.
Variable sk : entries.

Lemma under_key_app q p : under_key key p -> under_key key (q ++ p).
Proof.
  intros [(r & ->)|(r & i & ->)]; [left; exists (q ++ r)|right; exists (q ++ r), i]; rewrite app_assoc; reflexivity.
Qed.

Lemma member_rel_in v r : In r (member_rel key sk v) -> r = [SK key].
Proof.
  unfold member_rel. destruct v; try contradiction.
  destruct (has_key key m && hit sk (VMap m)); [|contradiction]. intros [<-|[]]. reflexivity.
Qed.

Lemma entry_targets_under P c p : In p (entry_targets key sk P c) -> under_key key p.
Proof.
  unfold entry_targets. intros H. apply in_under in H as (r & -> & Hr).
  unfold entry_rel in Hr. destruct (str_eqb key c) eqn:Ekc.
  - apply str_eqb_eq in Ekc. subst c. destruct (hit sk (VMap P)).
    + destruct Hr as [<-|[]]. left. exists []. reflexivity.
    + destruct (lookup key P) as [[]|]; try contradiction.
      apply in_in_list in Hr as (i & v & r' & _ & -> & Hr').
      destruct (hit sk v); [|contradiction]. destruct Hr' as [<-|[]]. right. exists [], i. reflexivity.
  - destruct (lookup c P) as [[]|]; try contradiction.
    + destruct (hit sk (VMap m) && has_key key m); [|contradiction].
      destruct Hr as [<-|[]]. left. exists [SK c]. reflexivity.
    + apply in_in_list in Hr as (i & v & r' & _ & -> & Hr'). apply member_rel_in in Hr'. subst r'.
      left. exists [SK c; SI i]. reflexivity.
Qed.

Lemma node_targets_under c m p : In p (node_targets key sk c m) -> under_key key p.
Proof.
  unfold node_targets. destruct m as [ | | | | | | | |P|l]; try contradiction.
  - destruct (str_eqb c star).
    + intros H. apply in_flat_map in H as (c' & _ & H). eapply entry_targets_under, H.
    + apply entry_targets_under.
  - intros H. apply in_in_list in H as (i & v & r & _ & -> & Hr). apply member_rel_in in Hr. subst r.
    left. exists [SI i]. reflexivity.
Qed.

Theorem addressed_under : forall ks m p, In p (addressed key sk ks m) -> under_key key p.
Proof.
  induction ks as [|k0 rest IH]; intros m p H; [contradiction|].
  destruct rest as [|k1 rest].
  - cbn [addressed] in H. eapply node_targets_under, H.
  - change (addressed key sk (k0 :: k1 :: rest) m)
      with (flat_map (fun pv => map (app (fst pv)) (addressed key sk (k1 :: rest) (snd pv))) (sel_loc k0 m)) in H.
    apply in_flat_map in H as (pv & _ & H). apply in_map_iff in H as (p' & <- & H).
    apply under_key_app. eapply IH, H.
Qed.
End UnderKey.

(* ================= 9. newVal ================= *)
Section NewVal.
Variable pf : str -> option flt.
Variable sep : str.

Theorem newval_map k v : parse_newval pf sep (NVMap [(k, v)]) = Ok (k, v).
Proof. reflexivity. Qed.

Theorem newval_map_len m : length m <> 1 -> parse_newval pf sep (NVMap m) = Err EOther.
Proof. destruct m as [|[k v] [|kv t]]; cbn; try reflexivity. congruence. Qed.

Theorem newval_other : parse_newval pf sep NVOther = Err EOther.
Proof. reflexivity. Qed.

(* "key:value" and "key:value:type" *)
Theorem newval_str2 x k v : split sep x = [k; v] -> parse_newval pf sep (NVStr x) = Ok (k, VStr v).
Proof. intros H. cbn [parse_newval]. rewrite H. reflexivity. Qed.

Theorem newval_str3 x k v t : split sep x = [k; v; t] ->
  parse_newval pf sep (NVStr x) =
  if existsb (str_eqb t) [s "bool"; s "boolean"] then
    match parse_bool v with Some b => Ok (k, VBool b) | None => Err EOther end
  else if existsb (str_eqb t) [s "num"; s "numeric"; s "float"; s "int"] then
    match pf v with Some f => Ok (k, VFlt f) | None => Err EOther end
  else Err EOther.
Proof. intros H. cbn [parse_newval]. rewrite H. reflexivity. Qed.

Theorem newval_str_parts x : length (split sep x) < 2 \/ 3 < length (split sep x) ->
  parse_newval pf sep (NVStr x) = Err EOther.
Proof.
  cbn [parse_newval]. destruct (split sep x) as [|a [|b [|c [|d t]]]]; cbn [length]; intros H; try reflexivity; lia.
Qed.
End NewVal.

(* ================= 10. where the code departs from the literal reading of the property ================= *)
Local Open Scope string_scope.
Definition nopf10 : str -> option flt := fun _ => None.
Definition upd (m : value) (nv path : string) : res (value * nat) :=
  update_values_for_path nopf10 (s":") m (NVStr (s nv)) (s path) [].
Definition vpath (m : value) (path : string) : res (list value) :=
  values_for_path nopf10 (s":") m (s path) [].

(* F1: the path ends in k, the reached map has no k: nothing is stored under k
   (ValuesForPath finds nothing), yet the entry is created and counted *)
Theorem create_on_absent_refuted :
  exists m m', vpath m "a.k" = Ok [] /\ upd m "k:new" "a.k" = Ok (m', 1) /\ m' <> m /\
               vpath m' "a.k" = Ok [VStr (s"new")].
Proof.
  exists (VMap [(s"a", VMap [(s"b", VInt 1)])]),
         (VMap [(s"a", VMap [(s"b", VInt 1); (s"k", VStr (s"new"))])]).
  repeat split; try (vm_compute; reflexivity). discriminate.
Qed.

(* F2: the node before the last key is a list and the last key z is not k: the
   path addresses nothing, yet k is rewritten in the members of the list ... *)
Theorem list_node_last_key_ignored_refuted :
  exists m m', vpath m "doc.list.z" = Ok [] /\ upd m "k:new" "doc.list.z" = Ok (m', 2) /\
               vpath m' "doc.list.k" = Ok [VStr (s"new"); VStr (s"new")].
Proof.
  exists (VMap [(s"doc", VMap [(s"list", VList [VMap [(s"k", VInt 1)]; VMap [(s"k", VInt 2)]])])]),
         (VMap [(s"doc", VMap [(s"list", VList [VMap [(s"k", VStr (s"new"))]; VMap [(s"k", VStr (s"new"))]])])]).
  repeat split; vm_compute; reflexivity.
Qed.

(* ... and the k entry of the nodes the path does yield is missed *)
Theorem list_node_misses_refuted :
  exists m, vpath m "doc.list.z" = Ok [VMap [(s"k", VInt 1)]] /\ upd m "k:new" "doc.list.z" = Ok (m, 0).
Proof.
  exists (VMap [(s"doc", VMap [(s"list", VList [VMap [(s"z", VMap [(s"k", VInt 1)])]])])]).
  split; vm_compute; reflexivity.
Qed.

(* the side conditions of update_then_query are needed: an empty key (ValuesForPath drops the
   trailing empty segment, UpdateValuesForPath does not) and a list as the new value *)
Theorem update_then_query_conditions_needed :
  (exists m m', update_values_for_path nopf10 (s":") m (NVMap [(s"", VInt 2)]) (s"a.") [] = Ok (m', 1) /\
                vpath m' "a." = Ok [VMap [(s"", VInt 2)]]) /\
  (exists m m', update_values_for_path nopf10 (s":") m (NVMap [(s"b", VList [VInt 7; VInt 8])]) (s"a.b") [] = Ok (m', 1) /\
                vpath m' "a.b" = Ok [VInt 7; VInt 8]).
Proof.
  split.
  - exists (VMap [(s"a", VMap [(s"", VInt 1)])]), (VMap [(s"a", VMap [(s"", VInt 2)])]).
    split; vm_compute; reflexivity.
  - exists (VMap [(s"a", VMap [(s"b", VInt 1)])]), (VMap [(s"a", VMap [(s"b", VList [VInt 7; VInt 8])])]).
    split; vm_compute; reflexivity.
Qed.
Local Close Scope string_scope.

(* the same shape with the last key equal to k: for a list node the member-wise replacement that a
   map node gets (only the members of a list-valued k entry that meet the sub-keys) is not done *)
Local Open Scope string_scope.
Theorem list_node_memberwise_refuted :
  let inner := VList [VMap [(s"list", VStr (s"true"))]; VMap [(s"list", VStr (s"v:w"))]] in
  let inner' := VList [VStr (s"new"); VMap [(s"list", VStr (s"v:w"))]] in
  let upd1 m := update_values_for_path nopf10 (s":") m (NVStr (s"b:new")) (s"k.b") [s"list:true"] in
  upd1 (VMap [(s"k", VMap [(s"b", inner)])]) = Ok (VMap [(s"k", VMap [(s"b", inner')])], 1) /\
  upd1 (VMap [(s"k", VList [VMap [(s"b", inner)]])]) = Ok (VMap [(s"k", VList [VMap [(s"b", inner)]])], 0).
Proof. vm_compute. split; reflexivity. Qed.
Local Close Scope string_scope.

Theorem update_kp_then_eval_fst key nv :
  str_eqb key star = false -> is_list nv = false ->
  forall ks, ks <> [] -> last ks [] = key ->
  forall m, eval ks (fst (update_kp key nv ks [] m)) = repeat nv (snd (update_kp key nv ks [] m)).
Proof. intros Hs Hl ks Hne Hlast. exact (proj1 (update_kp_then_eval key nv Hs Hl ks Hne Hlast)). Qed.

(* ================= 11. the addressed positions are pairwise incomparable (so: distinct) ================= *)
Definition incomp (p q : pos) : Prop := comparable p q = false.
Definition antichain (ps : list pos) : Prop := ForallOrdPairs incomp ps.

Lemma step_eqb_sym a b : step_eqb a b = step_eqb b a.
Proof. destruct a, b; cbn; try reflexivity; [apply str_eqb_sym|apply Nat.eqb_sym]. Qed.

Lemma comparable_cons a b p q : comparable (a :: p) (b :: q) = step_eqb a b && comparable p q.
Proof.
  unfold comparable. cbn [is_prefix]. rewrite (step_eqb_sym b a).
  destruct (step_eqb a b); reflexivity.
Qed.

Lemma comparable_refl p : comparable p p = true.
Proof. induction p as [|a p IH]; [reflexivity|]. rewrite comparable_cons, step_eqb_refl, IH. reflexivity. Qed.

Lemma incomp_sym p q : incomp p q -> incomp q p.
Proof. unfold incomp, comparable. rewrite orb_comm. intros H; exact H. Qed.

Lemma antichain_app A B :
  antichain A -> antichain B -> (forall a b, In a A -> In b B -> incomp a b) -> antichain (A ++ B).
Proof.
  intros HA HB HX. induction A as [|a A IH]; [exact HB|].
  inversion HA as [|? ? Ha HA']; subst. cbn [app]. constructor.
  - apply Forall_app. split; [exact Ha|].
    apply Forall_forall. intros b Hb. apply HX; [left; reflexivity|exact Hb].
  - apply IH; [exact HA'|]. intros a' b Ha' Hb. apply HX; [right; exact Ha'|exact Hb].
Qed.

Lemma antichain_NoDup ps : antichain ps -> NoDup ps.
Proof.
  induction 1 as [|p ps Hp _ IH]; constructor; [|exact IH].
  intros Hin. rewrite Forall_forall in Hp. specialize (Hp p Hin). unfold incomp in Hp.
  rewrite comparable_refl in Hp. discriminate.
Qed.

Lemma antichain_under st ps : antichain ps -> antichain (under st ps).
Proof.
  induction 1 as [|p ps Hp _ IH]; [constructor|]. cbn [under map]. constructor; [|exact IH].
  apply Forall_forall. intros q Hq. apply in_under in Hq as (r & -> & Hr).
  rewrite Forall_forall in Hp. unfold incomp. rewrite comparable_cons, step_eqb_refl. exact (Hp r Hr).
Qed.

Lemma incomp_heads a b p q : step_eqb a b = false -> incomp (a :: p) (b :: q).
Proof. intros H. unfold incomp. rewrite comparable_cons, H. reflexivity. Qed.

Lemma antichain_single p : antichain [p].
Proof. constructor; constructor. Qed.

(* members of a list *)
Lemma antichain_flat_mapi (f : value -> list pos) l : (forall v, In v l -> antichain (f v)) ->
  forall i0, antichain (flat_mapi (fun i v => under (SI i) (f v)) l i0).
Proof.
  induction l as [|v t IH]; intros Hf i0; [constructor|].
  cbn [flat_mapi]. apply antichain_app.
  - apply antichain_under, Hf. left; reflexivity.
  - apply IH. intros v' Hv'. apply Hf. right; exact Hv'.
  - intros a b Ha Hb. apply in_under in Ha as (r & -> & _).
    apply in_flat_mapi in Hb as (j & x & _ & Hb). apply in_under in Hb as (r' & -> & _).
    apply incomp_heads. cbn [step_eqb]. apply Nat.eqb_neq. lia.
Qed.

Lemma antichain_in_list f l : (forall v, In v l -> antichain (f v)) -> antichain (in_list f l).
Proof. intros H. apply antichain_flat_mapi, H. Qed.

(* entries under distinct keys *)
Lemma antichain_keyed {A} (g : A -> str) (f : A -> list pos) l :
  NoDup (map g l) -> (forall x, In x l -> antichain (f x)) ->
  antichain (flat_map (fun x => under (SK (g x)) (f x)) l).
Proof.
  induction l as [|x t IH]; intros Hnd Hf; [constructor|].
  cbn [map] in Hnd. inversion Hnd as [|? ? Hnotin Hnd']; subst.
  cbn [flat_map]. apply antichain_app.
  - apply antichain_under, Hf. left; reflexivity.
  - apply IH; [exact Hnd'|]. intros y Hy. apply Hf. right; exact Hy.
  - intros a b Ha Hb. apply in_under in Ha as (r & -> & _).
    apply in_flat_map in Hb as (y & Hy & Hb). apply in_under in Hb as (r' & -> & _).
    apply incomp_heads. cbn [step_eqb]. apply str_eqb_neq. intros E. apply Hnotin. rewrite E.
    apply List.in_map. exact Hy.
Qed.

Section Antichain.
Variable key : str.
Variable sk : entries.

Lemma antichain_member_rel v : antichain (member_rel key sk v).
Proof.
  unfold member_rel. destruct v; try constructor.
  destruct (has_key key m && hit sk (VMap m)); [apply antichain_single|constructor].
Qed.

Lemma antichain_entry_rel c b e : antichain (entry_rel key sk c b e).
Proof.
  unfold entry_rel. destruct (str_eqb key c).
  - destruct b; [apply antichain_single|].
    destruct e as [[]|]; try constructor.
    apply antichain_in_list. intros v _. destruct (hit sk v); [apply antichain_single|constructor].
  - destruct e as [[]|]; try constructor.
    + destruct (hit sk (VMap m) && has_key key m); [apply antichain_single|constructor].
    + apply antichain_in_list. intros v _. apply antichain_member_rel.
Qed.

Lemma antichain_node_targets c m : wfb m = true -> antichain (node_targets key sk c m).
Proof.
  intros Hw. unfold node_targets. destruct m as [ | | | | | | | |P|l]; try constructor.
  - destruct (str_eqb c star).
    + apply wfb_map in Hw as [Hnd _].
      apply (antichain_keyed (fun c : str => c) (fun c => entry_rel key sk c (hit sk (VMap P)) (lookup c P))).
      * rewrite map_id. exact Hnd.
      * intros c' _. apply antichain_entry_rel.
    + unfold entry_targets. apply antichain_under, antichain_entry_rel.
  - apply antichain_in_list. intros v _. apply antichain_member_rel.
Qed.

Lemma antichain_addr_map k0 a mm :
  wfb (VMap mm) = true -> (forall v, wfb v = true -> antichain (a v)) -> antichain (addr_map k0 a mm).
Proof.
  intros Hw Ha. unfold addr_map. destruct (str_eqb k0 star).
  - apply wfb_map in Hw as [Hnd HF]. unfold in_map.
    apply (antichain_keyed fst (fun kv => a (snd kv))); [exact Hnd|].
    intros kv Hin. apply Ha. rewrite Forall_forall in HF. exact (HF kv Hin).
  - destruct (lookup k0 mm) as [v|] eqn:El; [|constructor].
    apply antichain_under, Ha. eapply wfb_lookup; eassumption.
Qed.

Lemma antichain_addr_step k0 a m :
  wfb m = true -> (forall v, wfb v = true -> antichain (a v)) -> antichain (addr_step k0 a m).
Proof.
  intros Hw Ha. unfold addr_step. destruct m as [ | | | | | | | |mm|l]; try constructor.
  - apply antichain_addr_map; assumption.
  - apply wfb_list in Hw. rewrite Forall_forall in Hw.
    apply antichain_in_list. intros v Hv. specialize (Hw v Hv).
    destruct v; try (destruct (str_eqb k0 star); [apply Ha, Hw|constructor]).
    apply antichain_addr_map; assumption.
Qed.

Theorem addressed_antichain : forall ks m, wfb m = true -> antichain (addressed key sk ks m).
Proof.
  induction ks as [|k0 rest IH]; intros m Hw; [constructor|].
  destruct rest as [|k1 rest].
  - cbn [addressed]. apply antichain_node_targets, Hw.
  - rewrite addressed_cons. apply antichain_addr_step; [exact Hw|]. intros v Hv. apply IH, Hv.
Qed.

Theorem addressed_NoDup ks m : wfb m = true -> NoDup (addressed key sk ks m).
Proof. intros Hw. apply antichain_NoDup, addressed_antichain, Hw. Qed.

Theorem addressed_incomparable ks m p q :
  wfb m = true -> In p (addressed key sk ks m) -> In q (addressed key sk ks m) -> p <> q ->
  comparable p q = false.
Proof.
  intros Hw Hp Hq Hne. pose proof (addressed_antichain ks m Hw) as HA.
  unfold antichain in HA. destruct (ForallOrdPairs_In HA p q Hp Hq) as [E|[H|H]];
    [contradiction|exact H|apply incomp_sym, H].
Qed.
End Antichain.

(* ================= 12. every addressed position holds the new value afterwards ================= *)
(* a position that [write_at] can write: all steps but the last exist, a last map step may create its entry *)
Fixpoint writable (p : pos) (m : value) : bool :=
  match p with
  | [] => true
  | SK k :: p' => match m with
                  | VMap mm => match lookup k mm with
                               | Some v => writable p' v
                               | None => match p' with [] => true | _ => false end
                               end
                  | _ => false
                  end
  | SI i :: p' => match m with
                  | VList l => match nth_error l i with Some v => writable p' v | None => false end
                  | _ => false
                  end
  end.

Lemma writable_write nv : forall p m, writable p m = true -> get_at p (write_at p nv m) = Some nv.
Proof.
  induction p as [|st p IH]; intros m H; [reflexivity|].
  destruct st as [k|i]; destruct m as [ | | | | | | | |mm|l]; try discriminate H; cbn [writable] in H; cbn [write_at].
  - destruct (lookup k mm) as [v|] eqn:El.
    + cbn [get_at]. rewrite lookup_set_same. apply IH, H.
    + destruct p; [|discriminate]. cbn [get_at]. rewrite lookup_set_same. reflexivity.
  - destruct (nth_error l i) as [v|] eqn:El; [|discriminate].
    cbn [get_at]. rewrite nth_error_set_nth_same by (apply nth_error_Some; congruence). apply IH, H.
Qed.

Lemma writable_frame nv : forall q p m,
  comparable q p = false -> writable p (write_at q nv m) = writable p m.
Proof.
  induction q as [|st q IH]; intros p m Hc; [discriminate|].
  destruct p as [|st2 p].
  { unfold comparable in Hc. cbn [is_prefix] in Hc. rewrite orb_true_r in Hc. discriminate. }
  destruct st as [k|i], st2 as [k2|j].
  - destruct m as [ | | | | | | | |mm|l]; try reflexivity.
    cbn [write_at]. destruct (lookup k mm) as [v|] eqn:El.
    + cbn [writable]. destruct (str_eqb k2 k) eqn:E.
      * apply str_eqb_eq in E. subst k2. rewrite lookup_set_same, El. apply IH.
        apply (comparable_cons_same (SK k)); [apply step_eqb_refl|exact Hc].
      * rewrite lookup_set_other by exact E. reflexivity.
    + destruct q as [|st' q']; [|reflexivity].
      cbn [writable]. destruct (str_eqb k2 k) eqn:E.
      * apply str_eqb_eq in E. subst k2. unfold comparable in Hc. cbn [is_prefix step_eqb] in Hc.
        rewrite str_eqb_refl in Hc. discriminate.
      * rewrite lookup_set_other by exact E. reflexivity.
  - destruct m as [ | | | | | | | |mm|l]; try reflexivity.
    cbn [write_at]. destruct (lookup k mm) as [v|]; [reflexivity|]. destruct q; reflexivity.
  - destruct m as [ | | | | | | | |mm|l]; try reflexivity.
    cbn [write_at]. destruct (nth_error l i) as [v|]; reflexivity.
  - destruct m as [ | | | | | | | |mm|l]; try reflexivity.
    cbn [write_at]. destruct (nth_error l i) as [v|] eqn:El; [|reflexivity].
    cbn [writable]. destruct (Nat.eq_dec i j) as [->|Hne].
    + rewrite nth_error_set_nth_same by (apply nth_error_Some; congruence). rewrite El. apply IH.
      apply (comparable_cons_same (SI j)); [apply step_eqb_refl|exact Hc].
    + rewrite nth_error_set_nth_other by exact Hne. reflexivity.
Qed.

Theorem writes_lands nv p : forall ps m,
  antichain ps -> In p ps -> writable p m = true -> get_at p (writes ps nv m) = Some nv.
Proof.
  induction ps as [|q ps IH]; intros m HA Hin Hw; [contradiction|].
  inversion HA as [|? ? Hq HA']; subst. rewrite Forall_forall in Hq. rewrite writes_cons.
  destruct Hin as [->|Hin].
  - rewrite writes_frame; [apply writable_write, Hw|].
    intros p' Hp'. apply incomp_sym, Hq, Hp'.
  - apply IH; [exact HA'|exact Hin|]. rewrite writable_frame; [exact Hw|apply Hq, Hin].
Qed.

Lemma NoDup_lookup k v (mm : entries) : NoDup (keys mm) -> In (k, v) mm -> lookup k mm = Some v.
Proof.
  induction mm as [|[k' v'] t IH]; intros Hnd Hin; [contradiction|].
  cbn [keys map fst] in Hnd. inversion Hnd as [|? ? Hnotin Hnd']; subst. cbn [lookup].
  destruct Hin as [E|Hin].
  - inversion E; subst. rewrite str_eqb_refl. reflexivity.
  - destruct (str_eqb k k') eqn:Ek; [|apply IH; assumption].
    apply str_eqb_eq in Ek. subst k'. exfalso. apply Hnotin.
    change (In (fst (k, v)) (map fst t)). apply List.in_map. exact Hin.
Qed.

Section Lands.
Variable key : str.
Variable sk : entries.

Lemma writable_key_map mm : writable [SK key] (VMap mm) = true.
Proof. cbn [writable]. destruct (lookup key mm); reflexivity. Qed.

Lemma writable_member v r : In r (member_rel key sk v) -> writable r v = true.
Proof.
  intros H. pose proof (member_rel_in key sk v r H) as ->.
  unfold member_rel in H. destruct v; try contradiction. apply writable_key_map.
Qed.

Lemma writable_entry_targets P c p : In p (entry_targets key sk P c) -> writable p (VMap P) = true.
Proof.
  unfold entry_targets. intros H. apply in_under in H as (r & -> & Hr). cbn [writable].
  unfold entry_rel in Hr. destruct (str_eqb key c).
  - destruct (hit sk (VMap P)).
    + destruct Hr as [<-|[]]. destruct (lookup c P); reflexivity.
    + destruct (lookup c P) as [[]|]; try contradiction.
      apply in_in_list in Hr as (i & v & r' & Hn & -> & Hr').
      destruct (hit sk v); [|contradiction]. destruct Hr' as [<-|[]]. cbn [writable]. rewrite Hn. reflexivity.
  - destruct (lookup c P) as [[]|]; try contradiction.
    + destruct (hit sk (VMap m) && has_key key m); [|contradiction].
      destruct Hr as [<-|[]]. apply writable_key_map.
    + apply in_in_list in Hr as (i & v & r' & Hn & -> & Hr'). cbn [writable]. rewrite Hn.
      apply writable_member, Hr'.
Qed.

Lemma writable_node_targets c m p : In p (node_targets key sk c m) -> writable p m = true.
Proof.
  unfold node_targets. destruct m as [ | | | | | | | |P|l]; try contradiction.
  - destruct (str_eqb c star).
    + intros H. apply in_flat_map in H as (c' & _ & H). eapply writable_entry_targets, H.
    + apply writable_entry_targets.
  - intros H. apply in_in_list in H as (i & v & r & Hn & -> & Hr). cbn [writable]. rewrite Hn.
    apply writable_member, Hr.
Qed.

Lemma writable_addr_map k0 a mm p :
  wfb (VMap mm) = true -> (forall v r, wfb v = true -> In r (a v) -> writable r v = true) ->
  In p (addr_map k0 a mm) -> writable p (VMap mm) = true.
Proof.
  intros Hw Ha. unfold addr_map. destruct (str_eqb k0 star).
  - apply wfb_map in Hw as [Hnd HF]. rewrite Forall_forall in HF.
    unfold in_map. intros H. apply in_flat_map in H as ([k v] & Hin & H). cbn [fst snd] in H.
    apply in_under in H as (r & -> & Hr). cbn [writable].
    rewrite (NoDup_lookup k v mm Hnd Hin). apply Ha; [exact (HF _ Hin)|exact Hr].
  - destruct (lookup k0 mm) as [v|] eqn:El; [|contradiction].
    intros H. apply in_under in H as (r & -> & Hr). cbn [writable]. rewrite El.
    apply Ha; [eapply wfb_lookup; eassumption|exact Hr].
Qed.

Lemma writable_addr_step k0 a m p :
  wfb m = true -> (forall v r, wfb v = true -> In r (a v) -> writable r v = true) ->
  In p (addr_step k0 a m) -> writable p m = true.
Proof.
  intros Hw Ha. unfold addr_step. destruct m as [ | | | | | | | |mm|l]; try contradiction.
  - apply writable_addr_map; assumption.
  - apply wfb_list in Hw. rewrite Forall_forall in Hw.
    intros H. apply in_in_list in H as (i & v & r & Hn & -> & Hr). cbn [writable]. rewrite Hn.
    pose proof (Hw v (nth_error_In _ _ Hn)) as Hv.
    destruct v; try (destruct (str_eqb k0 star); [apply Ha; assumption|contradiction]).
    apply (writable_addr_map k0 a); assumption.
Qed.

Theorem addressed_writable : forall ks m p,
  wfb m = true -> In p (addressed key sk ks m) -> writable p m = true.
Proof.
  induction ks as [|k0 rest IH]; intros m p Hw H; [contradiction|].
  destruct rest as [|k1 rest].
  - cbn [addressed] in H. eapply writable_node_targets, H.
  - rewrite addressed_cons in H. eapply writable_addr_step; [exact Hw| |exact H].
    intros v r Hv Hr. apply IH; assumption.
Qed.
End Lands.

(* after the call every addressed position holds the new value *)
Theorem update_lands pf sep m nvl path sks sk key nv m' n p :
  get_sub_key_map pf sep sks = Ok sk -> parse_newval pf sep nvl = Ok (key, nv) -> wfb m = true ->
  update_values_for_path pf sep m nvl path sks = Ok (m', n) ->
  In p (addressed key sk (split1 dot path) m) -> get_at p m' = Some nv.
Proof.
  intros Hs Hn Hw Hu Hp. rewrite (update_exact pf sep m nvl path sks sk key nv Hs Hn Hw) in Hu.
  injection Hu as <- _. apply writes_lands.
  - apply addressed_antichain, Hw.
  - exact Hp.
  - eapply addressed_writable; eassumption.
Qed.
