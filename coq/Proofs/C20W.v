(* C20, thin wrappers: every hand-transcribed wrapper body of Model/X2jWrap.v
   (section Thin; the place of Gen/Wrappers_gen.v) equals its documented
   composition of Spec/Wrappers.v (section Table), for every codec environment. *)
From Mxj Require Import Model.X2jWrap Spec.Wrappers Proofs.C20P.

Ltac thin_cases :=
  repeat match goal with
         | |- context [match ?x with _ => _ end] =>
             lazymatch x with
             | context [match _ with _ => _ end] => fail
             | _ => destruct x eqn:?
             end
         end.
Ltac thin := intros; unfold rd_then, NewMapOf, UpdatedOf, leaves, leaf_pairs; unfold bind; cbn [fst snd];
             thin_cases; subst; cbn [fst snd] in *; try reflexivity; try congruence.

Section ThinProofs.
Variable pf : str -> option flt.
Variable fieldSep : str.
Variables attrPrefix textKey : str.
Variable dotn : bool.
Variable NewMapXml : str -> bool -> res value.
Variable NewMapJson : str -> res value.
Variable NewMapXmlReader : str -> bool -> res value * str.
Variable NewMapXmlReaderRaw : str -> res (value * str) * str.
Variable NewMapJsonReader : str -> res value * str.
Variable NewMapJsonReaderRaw : str -> res (value * str) * str.
Variable MapJson : value -> bool -> res str.
Variable MapJsonIndent : value -> str -> str -> bool -> res str.
Variable MapXml : value -> res str.
Variable JsonMarshal : value -> res str.
Variable JsonMarshalIndent : value -> str -> str -> res str.

(* ---- package j2x ---- *)
Lemma j2x_agrees_holds :
  j2x_agrees pf fieldSep attrPrefix textKey dotn NewMapJson NewMapJsonReader NewMapJsonReaderRaw MapJson MapXml.
Proof.
  unfold j2x_agrees, j2x_JsonToMap, c_JsonToMap, j2x_MapToJson, c_MapToJson, j2x_JsonToXml, c_JsonToXml,
    j2x_JsonToXmlWriter, j2x_JsonReaderToXml, c_JsonReaderToXml, j2x_JsonReaderToXmlWriter, c_JsonReaderToXmlWriter,
    j2x_JsonPathsForKey, c_JsonPathsForKey, j2x_JsonValuesForKey, c_JsonValuesForKey,
    j2x_JsonValuesForKeyPath, c_JsonValuesForKeyPath, j2x_JsonUpdateValsForPath, c_JsonUpdateValsForPath,
    j2x_JsonNewJson, c_JsonNewJson, j2x_JsonNewXml, c_JsonNewXml, j2x_JsonLeafNodes, c_JsonLeafNodes,
    j2x_JsonLeafValues, c_JsonLeafValues, j2x_JsonLeafPath, c_JsonLeafPath.
  repeat split; try solve [thin].
  - intros rd. unfold rd_then, bind. destruct (NewMapJsonReaderRaw rd) as [[[m raw]|e|] rest]; cbn [fst snd]; reflexivity.
  - intros j k. unfold j2x_JsonPathForKeyShortest, c_JsonPathForKeyShortest, path_for_key_shortest, bind.
    destruct (NewMapJson j); try reflexivity; rewrite xw_shortest_of_spec; reflexivity.
Qed.

(* ---- package x2j ---- *)
Lemma x2j_agrees_holds :
  x2j_agrees pf fieldSep attrPrefix textKey dotn NewMapXml NewMapXmlReaderRaw MapJson MapXml.
Proof.
  unfold x2j_agrees, x2j_XmlToMap, c_XmlToMap, x2j_MapToXml, c_MapToXml, x2j_XmlToJson, c_XmlToJson,
    x2j_XmlToJsonWriter, x2j_XmlReaderToJson, c_XmlReaderToJson, x2j_XmlPathsForTag, c_XmlPathsForTag,
    x2j_XmlValuesForTag, c_XmlValuesForTag, x2j_XmlValuesForPath, c_XmlValuesForPath,
    x2j_XmlUpdateValsForPath, c_XmlUpdateValsForPath, x2j_XmlNewXml, c_XmlNewXml, x2j_XmlNewJson, c_XmlNewJson,
    x2j_XmlLeafNodes, c_XmlLeafNodes, x2j_XmlLeafValues, c_XmlLeafValues, x2j_XmlLeafPath, c_XmlLeafPath.
  repeat split; try solve [thin].
  - intros rd f. unfold rd_then, bind. destruct (NewMapXmlReaderRaw rd) as [[[m raw]|e|] rest]; cbn [fst snd]; reflexivity.
  - intros x t. unfold x2j_XmlPathForTagShortest, c_XmlPathForTagShortest, path_for_key_shortest, bind.
    destruct (NewMapXml x false); try reflexivity; rewrite xw_shortest_of_spec; reflexivity.
  - intros rd f. unfold x2j_XmlReaderToJsonWriter, rd_then, bind.
    destruct (NewMapXmlReaderRaw rd) as [[[m raw]|e|] rest]; cbn [fst snd]; reflexivity.
Qed.

(* ---- package x2j-wrapper: conversions and readers ---- *)
Lemma x2jw_conv_agrees_holds :
  x2jw_conv_agrees NewMapXml NewMapXmlReader MapJson MapJsonIndent JsonMarshal JsonMarshalIndent.
Proof.
  unfold x2jw_conv_agrees, xw_DocToMap, c_DocToMap, xw_DocToJson, c_DocToJson, xw_DocToJsonIndent, c_DocToJsonIndent,
    xw_ToMap, c_ToMap, xw_XmlBufferToMap, xw_XmlBufferToJson, c_XmlBufferToJson, xw_ToJson, c_ToJson,
    xw_ToJsonIndent, c_ToJsonIndent.
  repeat split; solve [thin].
Qed.
End ThinProofs.

(* ---- package x2j-wrapper: the *Tag functions = decode ; the wrapper's own walker = decode ; core walker /
   path semantics (walker theorems of Proofs/C20P.v) ---- *)
From Mxj Require Import Proofs.C07P Spec.KeySearch.

Section TagProofs.
Variable NewMapXml : str -> bool -> res value.
Variable NewMapXmlReader : str -> bool -> res value * str.

Lemma xw_PathsForTag_core doc key : xw_PathsForTag NewMapXml doc key = c_PathsForTag NewMapXml doc key.
Proof.
  unfold xw_PathsForTag, c_PathsForTag, bind.
  destruct (NewMapXml doc false) as [m|e|]; try reflexivity; rewrite xw_paths_core; reflexivity.
Qed.

Lemma xw_PathForTagShortest_core doc key :
  xw_PathForTagShortest NewMapXml doc key = c_PathForTagShortest NewMapXml doc key.
Proof.
  unfold xw_PathForTagShortest, c_PathForTagShortest, bind.
  destruct (NewMapXml doc false) as [m|e|]; try reflexivity; rewrite xw_shortest_core; reflexivity.
Qed.

Lemma xw_ValuesFromTagPath_spec doc path ga :
  xw_ValuesFromTagPath NewMapXml doc path ga = c_ValuesFromTagPath NewMapXml doc path ga.
Proof.
  unfold xw_ValuesFromTagPath, c_ValuesFromTagPath, bind.
  destruct (NewMapXml doc false) as [m|e|]; try reflexivity; rewrite xw_values_from_filtered; reflexivity.
Qed.

Lemma xw_ValuesAtTagPath_spec doc path ga :
  xw_ValuesAtTagPath NewMapXml doc path ga = c_ValuesAtTagPath NewMapXml doc path ga.
Proof.
  unfold xw_ValuesAtTagPath, c_ValuesAtTagPath, bind.
  destruct (NewMapXml doc false) as [m|e|]; try reflexivity; rewrite xw_values_at_spec; reflexivity.
Qed.

Lemma xw_ReaderValuesFromTagPath_spec rd path ga :
  xw_ReaderValuesFromTagPath NewMapXmlReader rd path ga = c_ReaderValuesFromTagPath NewMapXmlReader rd path ga.
Proof.
  unfold xw_ReaderValuesFromTagPath, c_ReaderValuesFromTagPath, rd_then, bind.
  destruct (NewMapXmlReader rd false) as [[m|e|] rest]; cbn [fst snd]; try reflexivity;
  rewrite xw_values_from_filtered; reflexivity.
Qed.

Lemma xw_ValuesForTag_core doc tag :
  tag <> star ->
  match xw_ValuesForTag NewMapXml doc tag with
  | Ok vs => Ok (flat_map final vs) | Err e => Err e | Panic => Panic
  end = c_ValuesForTag NewMapXml doc tag.
Proof.
  intros Ht. unfold xw_ValuesForTag, c_ValuesForTag, bind, xw_values_for_key.
  destruct (NewMapXml doc false) as [m|e|]; try reflexivity; rewrite (xw_has_key_final tag Ht m); reflexivity.
Qed.
End TagProofs.

(* ---- CastNanInf of x2j-wrapper is mxj's switch ---- *)
Lemma xw_CastNanInf_core b st : xw_CastNanInf b st = c_CastNanInf b st.
Proof. reflexivity. Qed.
Lemma xw_CastNanInf_sets b st : decoder_castNanInf (xw_CastNanInf b st) = b.
Proof. reflexivity. Qed.
