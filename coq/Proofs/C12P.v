(* Proofs for C12 (NewMap): pair parsing, single insertion, content for
   prefix-free new paths. *)
From Mxj Require Import Spec.NewMapSpec Proofs.StrLemmas Proofs.C07P Proofs.KVTotal.

(* ================= strings: split1 against before / after / count_char ================= *)
Lemma split1_aux_cut c x cur :
  split1_aux c x cur =
  if mem_ascii c x then (rev cur ++ before c x) :: split1_aux c (after c x) []
  else [rev cur ++ x].
Proof.
  revert cur; induction x as [|a x IH]; intros cur; cbn.
  - rewrite app_nil_r; reflexivity.
  - rewrite (Ascii.eqb_sym c a). destruct (Ascii.eqb a c) eqn:E; cbn.
    + rewrite app_nil_r; reflexivity.
    + rewrite IH. cbn [rev]. change (existsb (Ascii.eqb c) x) with (mem_ascii c x).
      destruct (mem_ascii c x); rewrite <- app_assoc; reflexivity.
Qed.

Lemma split1_cut c x :
  split1 c x = if mem_ascii c x then before c x :: split1 c (after c x) else [x].
Proof. unfold split1. rewrite split1_aux_cut. reflexivity. Qed.

Lemma count_char_cut c x :
  count_char c x = if mem_ascii c x then S (count_char c (after c x)) else 0.
Proof.
  induction x as [|a x IH]; cbn; [reflexivity|].
  rewrite (Ascii.eqb_sym c a). destruct (Ascii.eqb a c); cbn; [reflexivity|exact IH].
Qed.

Lemma before_nomem c x : mem_ascii c x = false -> before c x = x.
Proof.
  induction x as [|a x IH]; cbn; [reflexivity|]. intros H.
  apply orb_false_iff in H as [H1 H2]. rewrite Ascii.eqb_sym, H1, IH by exact H2. reflexivity.
Qed.

Lemma mem_ascii_app c x y : mem_ascii c (x ++ y) = mem_ascii c x || mem_ascii c y.
Proof. unfold mem_ascii. apply existsb_app. Qed.

Lemma mem_ascii_mid c x y : mem_ascii c (x ++ c :: y) = true.
Proof. rewrite mem_ascii_app. cbn. rewrite ascii_eqb_refl, orb_true_r. reflexivity. Qed.

Lemma before_mid c x y : mem_ascii c x = false -> before c (x ++ c :: y) = x.
Proof.
  induction x as [|a x IH]; cbn; intros H.
  - rewrite ascii_eqb_refl; reflexivity.
  - apply orb_false_iff in H as [H1 H2]. rewrite Ascii.eqb_sym, H1, IH by exact H2. reflexivity.
Qed.

Lemma after_mid c x y : mem_ascii c x = false -> after c (x ++ c :: y) = y.
Proof.
  induction x as [|a x IH]; cbn; intros H.
  - rewrite ascii_eqb_refl; reflexivity.
  - apply orb_false_iff in H as [H1 H2]. rewrite Ascii.eqb_sym, H1, IH by exact H2. reflexivity.
Qed.

Lemma count_char_nomem c x : mem_ascii c x = false -> count_char c x = 0.
Proof. intros H. rewrite count_char_cut, H. reflexivity. Qed.

Lemma count_char_mid c x y :
  mem_ascii c x = false -> count_char c (x ++ c :: y) = S (count_char c y).
Proof. intros H. rewrite count_char_cut, mem_ascii_mid, after_mid by exact H. reflexivity. Qed.

(* a string cut at its first separator *)
Lemma cut_join c x : mem_ascii c x = true -> x = before c x ++ c :: after c x.
Proof.
  induction x as [|a x IH]; cbn; [discriminate|].
  rewrite (Ascii.eqb_sym c a). destruct (Ascii.eqb a c) eqn:E; cbn.
  - intros _. apply Ascii.eqb_eq in E. subst a. reflexivity.
  - intros H. f_equal. apply IH, H.
Qed.

Lemma before_nosep c x : mem_ascii c (before c x) = false.
Proof.
  unfold mem_ascii in *. induction x as [|a x IH]; cbn [before]; [reflexivity|].
  destruct (Ascii.eqb a c) eqn:E; cbn [existsb]; [reflexivity|]. rewrite Ascii.eqb_sym, E, IH. reflexivity.
Qed.

(* ================= 1. one key pair ================= *)
Section Pairs.
Variable pf : str -> option flt.
Variable sep : str.

(* the accepted part of a pair, once old and new are known *)
Definition good_part (mv : value) (n : entries) (o nw : str) : res entries :=
  if mem_ascii "*"%char nw || mem_ascii lbr nw then Err EOther
  else match o, nw with
       | [], _ | _, [] => Err EOther
       | _, _ =>
           match values_for_path pf sep mv o [] with
           | Ok [] => Ok n
           | Ok vs => Ok (add_new_val (path_keys nw) (pack vs) n)
           | Err e => Err e
           | Panic => Panic
           end
       end.

(* the body of new_map_pair as a function of the split *)
Definition pair_body (mv : value) (n : entries) (vv : list str) : res entries :=
  match vv with
  | _ :: _ :: _ :: _ => Err EOther
  | _ =>
      let oldKey := hd [] vv in
      let newKey := match vv with [_; b] => b | _ => oldKey end in
      if mem_ascii "*"%char newKey then Err EOther
      else if mem_ascii lbr newKey then Err EOther
      else match oldKey, newKey with
           | [], _ | _, [] => Err EOther
           | _, _ =>
             bind (values_for_path pf sep mv oldKey []) (fun oldVal =>
               match oldVal with
               | [] => Ok n
               | _ =>
                 let path := split1 dot newKey in
                 let path := match last path [dot] with [] => removelast path | _ => path end in
                 let newVal := match oldVal with [x] => x | _ => VList oldVal end in
                 Ok (add_new_val path newVal n)
               end)
           end
  end.

Lemma new_map_pair_body mv n v :
  new_map_pair pf sep mv n v = match v with [] => Ok n | _ => pair_body mv n (split1 colon v) end.
Proof. destruct v; reflexivity. Qed.

Lemma pair_body_good mv n o nw : pair_body mv n [o; nw] = good_part mv n o nw.
Proof.
  unfold pair_body, good_part. cbn [hd].
  destruct (mem_ascii "*"%char nw); [reflexivity|]. destruct (mem_ascii lbr nw); [reflexivity|]. cbn [orb].
  destruct o as [|a o]; [reflexivity|]. destruct nw as [|b nw]; [reflexivity|].
  destruct (values_for_path pf sep mv (a :: o) []) as [[|x [|y t]]| |]; reflexivity.
Qed.

Lemma pair_body_single mv n o : pair_body mv n [o] = good_part mv n o o.
Proof.
  unfold pair_body, good_part. cbn [hd].
  destruct (mem_ascii "*"%char o); [reflexivity|]. destruct (mem_ascii lbr o); [reflexivity|]. cbn [orb].
  destruct o as [|a o]; [reflexivity|].
  destruct (values_for_path pf sep mv (a :: o) []) as [[|x [|y t]]| |]; reflexivity.
Qed.

(* new_map_pair is the declarative reading of the pair followed by one insertion *)
Theorem new_map_pair_spec mv n v :
  new_map_pair pf sep mv n v =
  match pair_action pf sep mv v with
  | Ok None => Ok n
  | Ok (Some (p, x)) => Ok (add_new_val p x n)
  | Err e => Err e
  | Panic => Panic
  end.
Proof.
  rewrite new_map_pair_body. unfold pair_action, classify, pair_old, pair_new.
  destruct v as [|a0 v0]; [reflexivity|]. remember (a0 :: v0) as v eqn:Ev. clear Ev a0 v0.
  rewrite split1_cut, count_char_cut.
  destruct (mem_ascii colon v) eqn:M.
  - rewrite split1_cut, count_char_cut.
    destruct (mem_ascii colon (after colon v)) eqn:M2.
    + cbn [Nat.leb].
      destruct (split1 colon (after colon (after colon v))) as [|c t] eqn:S3;
        [exfalso; eapply split1_nonempty; exact S3|]. reflexivity.
    + cbn [Nat.leb]. rewrite pair_body_good. unfold good_part.
      destruct (mem_ascii "*"%char (after colon v) || mem_ascii lbr (after colon v)); [reflexivity|].
      destruct (before colon v) as [|a o]; [reflexivity|].
      destruct (after colon v) as [|b nw]; [reflexivity|].
      destruct (values_for_path pf sep mv (a :: o) []) as [[|x t]| |]; reflexivity.
  - cbn [Nat.leb]. rewrite pair_body_single, (before_nomem _ _ M). unfold good_part.
    destruct (mem_ascii "*"%char v || mem_ascii lbr v); [reflexivity|].
    destruct v as [|a o]; [reflexivity|].
    destruct (values_for_path pf sep mv (a :: o) []) as [[|x t]| |]; reflexivity.
Qed.

(* ---- the classes, on explicit pair strings ---- *)
Lemma classify_nil : classify [] = PSkip.
Proof. reflexivity. Qed.

Lemma classify_too_many v : 2 <= count_char colon v -> classify v = PBad.
Proof.
  intros H. unfold classify. destruct v as [|a v]; [cbn in H; lia|].
  apply Nat.leb_le in H. rewrite H. reflexivity.
Qed.

Definition good_class (o nw : str) : pair_class :=
  if mem_ascii "*"%char nw || mem_ascii lbr nw then PBad
  else match o, nw with [], _ | _, [] => PBad | _, _ => PGood o nw end.

Lemma classify_pair o nw :
  mem_ascii colon o = false -> mem_ascii colon nw = false ->
  classify (o ++ colon :: nw) = good_class o nw.
Proof.
  intros Ho Hn. unfold classify, pair_old, pair_new.
  rewrite count_char_mid, (count_char_nomem _ _ Hn), mem_ascii_mid, before_mid, after_mid by exact Ho.
  cbn [Nat.leb]. destruct (o ++ colon :: nw) eqn:E; [destruct o; discriminate|]. reflexivity.
Qed.

Lemma classify_single k :
  k <> [] -> mem_ascii colon k = false -> classify k = good_class k k.
Proof.
  intros Hk Hc. unfold classify, pair_old, pair_new.
  rewrite (count_char_nomem _ _ Hc), Hc, (before_nomem _ _ Hc). cbn [Nat.leb].
  destruct k; [congruence|]. reflexivity.
Qed.

(* every non-empty argument with at most one ':' has one of the two explicit forms *)
Lemma pair_forms v :
  v <> [] -> count_char colon v <= 1 ->
  (mem_ascii colon v = false) \/
  (exists o nw, v = o ++ colon :: nw /\ mem_ascii colon o = false /\ mem_ascii colon nw = false).
Proof.
  intros Hv Hc. destruct (mem_ascii colon v) eqn:M; [right|left; reflexivity].
  exists (before colon v), (after colon v). split; [apply cut_join, M|]. split; [apply before_nosep|].
  rewrite count_char_cut, M in Hc. rewrite count_char_cut in Hc.
  destruct (mem_ascii colon (after colon v)); [lia|reflexivity].
Qed.

Lemma classify_good v o nw :
  classify v = PGood o nw ->
  o <> [] /\ nw <> [] /\ mem_ascii "*"%char nw = false /\ mem_ascii lbr nw = false /\
  o = pair_old v /\ nw = pair_new v /\ count_char colon v <= 1.
Proof.
  unfold classify. destruct v as [|a v]; [discriminate|].
  destruct (2 <=? count_char colon (a :: v)) eqn:L; [discriminate|]. apply Nat.leb_gt in L.
  destruct (mem_ascii "*"%char (pair_new (a :: v))) eqn:M1; [discriminate|].
  destruct (mem_ascii lbr (pair_new (a :: v))) eqn:M2; [discriminate|]. cbn [orb].
  destruct (pair_old (a :: v)) as [|x o'] eqn:Eo; [discriminate|].
  destruct (pair_new (a :: v)) as [|y n'] eqn:En; [discriminate|].
  intros H; inversion H; subst. repeat split; try discriminate; try assumption; lia.
Qed.

(* ---- malformed pairs are rejected, empty and fruitless pairs are skipped ---- *)
Lemma pair_too_many_colons mv n v :
  2 <= count_char colon v -> new_map_pair pf sep mv n v = Err EOther.
Proof. intros H. rewrite new_map_pair_spec. unfold pair_action. rewrite classify_too_many by exact H. reflexivity. Qed.

Lemma pair_bad mv n v : classify v = PBad -> new_map_pair pf sep mv n v = Err EOther.
Proof. intros H. rewrite new_map_pair_spec. unfold pair_action. rewrite H. reflexivity. Qed.

Lemma good_class_wild o nw :
  mem_ascii "*"%char nw = true \/ mem_ascii lbr nw = true -> good_class o nw = PBad.
Proof. unfold good_class. intros [H|H]; rewrite H; [|rewrite orb_true_r]; reflexivity. Qed.

Lemma good_class_empty o nw : o = [] \/ nw = [] -> good_class o nw = PBad.
Proof.
  unfold good_class. destruct (_ || _); [reflexivity|]. intros [H|H]; subst; [reflexivity|].
  destruct o; reflexivity.
Qed.

Lemma pair_new_wild mv n o nw :
  mem_ascii colon o = false -> mem_ascii colon nw = false ->
  mem_ascii "*"%char nw = true \/ mem_ascii lbr nw = true ->
  new_map_pair pf sep mv n (o ++ colon :: nw) = Err EOther.
Proof. intros Ho Hn H. apply pair_bad. rewrite classify_pair by assumption. apply good_class_wild, H. Qed.

Lemma pair_single_wild mv n k :
  k <> [] -> mem_ascii colon k = false ->
  mem_ascii "*"%char k = true \/ mem_ascii lbr k = true ->
  new_map_pair pf sep mv n k = Err EOther.
Proof. intros Hk Hc H. apply pair_bad. rewrite classify_single by assumption. apply good_class_wild, H. Qed.

Lemma pair_empty_part mv n o nw :
  mem_ascii colon o = false -> mem_ascii colon nw = false ->
  o = [] \/ nw = [] ->
  new_map_pair pf sep mv n (o ++ colon :: nw) = Err EOther.
Proof. intros Ho Hn H. apply pair_bad. rewrite classify_pair by assumption. apply good_class_empty, H. Qed.

Lemma pair_empty_skipped mv n : new_map_pair pf sep mv n [] = Ok n.
Proof. reflexivity. Qed.

Lemma pair_no_value_skipped mv n v o nw :
  classify v = PGood o nw -> values_for_path pf sep mv o [] = Ok [] ->
  new_map_pair pf sep mv n v = Ok n.
Proof. intros H V. rewrite new_map_pair_spec. unfold pair_action. rewrite H, V. reflexivity. Qed.

Lemma good_class_good o nw :
  o <> [] -> nw <> [] -> mem_ascii "*"%char nw = false -> mem_ascii lbr nw = false ->
  good_class o nw = PGood o nw.
Proof.
  intros Ho Hn H1 H2. unfold good_class. rewrite H1, H2. cbn [orb].
  destruct o; [congruence|]. destruct nw; [congruence|]. reflexivity.
Qed.

Lemma pair_no_value_skipped_pair mv n o nw :
  mem_ascii colon o = false -> mem_ascii colon nw = false ->
  o <> [] -> nw <> [] -> mem_ascii "*"%char nw = false -> mem_ascii lbr nw = false ->
  values_for_path pf sep mv o [] = Ok [] ->
  new_map_pair pf sep mv n (o ++ colon :: nw) = Ok n.
Proof.
  intros Ho Hn Ho' Hn' H1 H2 V. eapply pair_no_value_skipped; [|exact V].
  rewrite classify_pair by assumption. apply good_class_good; assumption.
Qed.

Lemma pair_no_value_skipped_single mv n k :
  mem_ascii colon k = false -> k <> [] -> mem_ascii "*"%char k = false -> mem_ascii lbr k = false ->
  values_for_path pf sep mv k [] = Ok [] ->
  new_map_pair pf sep mv n k = Ok n.
Proof.
  intros Hc Hk H1 H2 V. eapply pair_no_value_skipped; [|exact V].
  rewrite classify_single by assumption. apply good_class_good; assumption.
Qed.

(* an accepted pair with values inserts the packed values at the new path *)
Lemma pair_inserts mv n v o nw vs :
  classify v = PGood o nw -> values_for_path pf sep mv o [] = Ok vs -> vs <> [] ->
  new_map_pair pf sep mv n v = Ok (add_new_val (path_keys nw) (pack vs) n).
Proof.
  intros H V Hv. rewrite new_map_pair_spec. unfold pair_action. rewrite H, V. cbn [bind].
  destruct vs; [congruence|]. reflexivity.
Qed.

(* ---- the loop over the pairs ---- *)
Lemma new_map_pairs_rejects mv pairs : forall n,
  Exists (fun v => classify v = PBad) pairs ->
  exists e, snd (new_map_pairs pf sep mv n pairs) = Err e.
Proof.
  induction pairs as [|v t IH]; intros n H; [inversion H|]. cbn [new_map_pairs].
  pose proof (new_map_pair_no_panic pf sep mv n v) as NP.
  inversion H as [? ? Hb|? ? Ht]; subst.
  - rewrite (pair_bad mv n v Hb). eexists; reflexivity.
  - destruct (new_map_pair pf sep mv n v) as [n'|e|]; [apply IH, Ht|eexists; reflexivity|congruence].
Qed.

Lemma new_map_pairs_ok mv pairs : forall n,
  snd (new_map_pairs pf sep mv n pairs) = Ok tt ->
  fst (new_map_pairs pf sep mv n pairs) = insert_all (items_of pf sep mv pairs) n.
Proof.
  induction pairs as [|v t IH]; intros n H; [reflexivity|]. cbn [new_map_pairs items_of] in *.
  rewrite new_map_pair_spec in *.
  destruct (pair_action pf sep mv v) as [[[p x]|]|e|]; cbn in H; try discriminate.
  - rewrite IH by exact H. reflexivity.
  - apply IH, H.
Qed.

Lemma items_of_in mv pairs p x :
  In (p, x) (items_of pf sep mv pairs) <->
  exists v o nw vs, In v pairs /\ classify v = PGood o nw /\
                    values_for_path pf sep mv o [] = Ok vs /\ vs <> [] /\
                    p = path_keys nw /\ x = pack vs.
Proof.
  induction pairs as [|v t IH]; cbn [items_of].
  - split; [intros []|]. intros (v & o & nw & vs & [] & _).
  - assert (Hcase : (exists o nw vs, classify v = PGood o nw /\ values_for_path pf sep mv o [] = Ok vs /\
                        vs <> [] /\ pair_action pf sep mv v = Ok (Some (path_keys nw, pack vs))) \/
                    ((forall o nw vs, classify v = PGood o nw -> values_for_path pf sep mv o [] = Ok vs -> vs = []) /\
                     forall it, pair_action pf sep mv v <> Ok (Some it))).
    { unfold pair_action. destruct (classify v) as [| |o nw] eqn:C.
      - right. split; [discriminate|discriminate].
      - right. split; [discriminate|discriminate].
      - destruct (values_for_path pf sep mv o []) as [[|y vs]| |] eqn:V; cbn [bind].
        + right. split; [|discriminate]. intros ? ? ? E V'. inversion E; subst. congruence.
        + left. exists o, nw, (y :: vs). repeat split; try assumption; discriminate.
        + right. split; [|discriminate]. intros ? ? ? E V'. inversion E; subst. congruence.
        + right. split; [|discriminate]. intros ? ? ? E V'. inversion E; subst. congruence. }
    destruct Hcase as [(o & nw & vs & C & V & Hv & A)|[Hno Hna]].
    + rewrite A. cbn [In]. rewrite IH. split.
      * intros [E|(v' & o' & nw' & vs' & Hin & R)].
        -- inversion E; subst. exists v, o, nw, vs. repeat split; try assumption. left; reflexivity.
        -- exists v', o', nw', vs'. split; [right; exact Hin|exact R].
      * intros (v' & o' & nw' & vs' & [E|Hin] & C' & V' & Hv' & -> & ->).
        -- subst v'. rewrite C in C'. inversion C'; subst. rewrite V in V'. inversion V'; subst. left; reflexivity.
        -- right. exists v', o', nw', vs'. repeat split; assumption.
    + assert (E : match pair_action pf sep mv v with
                  | Ok (Some it) => it :: items_of pf sep mv t | _ => items_of pf sep mv t end
                  = items_of pf sep mv t).
      { destruct (pair_action pf sep mv v) as [[it|]| |]; try reflexivity. exfalso; eapply Hna; reflexivity. }
      rewrite E, IH. split.
      * intros (v' & o' & nw' & vs' & Hin & R). exists v', o', nw', vs'. split; [right; exact Hin|exact R].
      * intros (v' & o' & nw' & vs' & [Eq|Hin] & C' & V' & Hv' & R).
        -- subst v'. exfalso. apply Hv'. eapply Hno; eassumption.
        -- exists v', o', nw', vs'. repeat split; try assumption; apply R.
Qed.
End Pairs.
