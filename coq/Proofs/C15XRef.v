(* C15: the counterexample to "every MapSeq the sequence decoder returns is encodable, under every option
   state", and the instances / witnesses used by Props/C15.v. *)
From Mxj Require Import Spec.SeqSpec Proofs.StrLemmas Proofs.C15XSeq Proofs.C15XSeqEnc Gen.GenSupport Gen.Setters_gen.
Import ListNotations.

(* the option record of a fresh process after SetGlobalKeyMapPrefix(p) *)
Definition keyed (p : str) (o : opts) : opts := {|
  attrPrefix := attrPrefix o; lenAttrPrefix := lenAttrPrefix o;
  includeTagSeqNum := includeTagSeqNum o; lowerCase := lowerCase o; snakeCaseKeys := snakeCaseKeys o;
  disableTrimWhiteSpace := disableTrimWhiteSpace o; trimRunes := trimRunes o;
  decodeSimpleValuesAsMap := decodeSimpleValuesAsMap o;
  castToInt := castToInt o; castToFloat := castToFloat o; castToBool := castToBool o; castNanInf := castNanInf o;
  handleXMPPStreamTag := handleXMPPStreamTag o; useGoXmlEmptyElemSyntax := useGoXmlEmptyElemSyntax o;
  xmlCheckIsValid := xmlCheckIsValid o;
  xmlEscapeChars := xmlEscapeChars o; xmlEscapeCharsDecoder := xmlEscapeCharsDecoder o;
  textK := p ++ s "text"; seqK := p ++ s "seq"; commentK := p ++ s "comment"; attrK := p ++ s "attr";
  directiveK := p ++ s "directive"; procinstK := p ++ s "procinst"; targetK := p ++ s "target"; instK := p ++ s "inst";
  fieldSep := fieldSep o; useDotNotation := useDotNotation o; defaultArraySize := defaultArraySize o;
  jsonUseNumber := jsonUseNumber o
|}.
Definition o_us : opts := keyed (s "_") opts0.

(* it is the state the generated setter (Gen/Setters_gen.v, from xml.go:39) reaches from the initial state *)
Lemma o_us_is_setter_state :
  match set_SetGlobalKeyMapPrefix gstate0 (s "_") with
  | Some st => [g_textK st; g_seqK st; g_commentK st; g_attrK st; g_directiveK st; g_procinstK st; g_targetK st; g_instK st]
               = [textK o_us; seqK o_us; commentK o_us; attrK o_us; directiveK o_us; procinstK o_us; targetK o_us; instK o_us]
  | None => False
  end.
Proof. vm_compute. reflexivity. Qed.

Definition xn (x : string) : xname := {| xspace := []; xlocal := s x |}.
Definition pf0 : str -> option flt := fun _ => None.
Definition skip0 : str -> bool := fun _ => false.

(* <_comment><a/></_comment>, <r><_attr><x/></_attr></r>, <r><_procinst>x</_procinst><b/></r> *)
Definition w_comment : list tok := [TStart (xn "_comment") []; TStart (xn "a") []; TEnd (xn "a"); TEnd (xn "_comment")].
Definition w_attr : list tok :=
  [TStart (xn "r") []; TStart (xn "_attr") []; TStart (xn "x") []; TEnd (xn "x"); TEnd (xn "_attr"); TEnd (xn "r")].
Definition w_procinst : list tok :=
  [TStart (xn "r") []; TStart (xn "_procinst") []; TChar (s "x"); TEnd (xn "_procinst");
   TStart (xn "b") []; TEnd (xn "b"); TEnd (xn "r")].

Definition decodes_then_panics (o : opts) (ts : list tok) : Prop :=
  exists m, seq_decode pf0 skip0 o false ts TermEOF = Ok m /\
            seq_encode o m = Panic /\ seq_encode_indent o m = Panic.

(* REFUTED: without the side condition on the element names the decoder's output is not always encodable.
   Go: after mxj.SetGlobalKeyMapPrefix("_"), NewMapXmlSeq([]byte("<_comment><a/></_comment>")) succeeds and
   Xml() / XmlIndent() on the result panic in mapToXmlSeqIndent (val[textK].(string) on a map without "_text");
   "<r><_attr><x/></_attr></r>" panics at a.v.(map[string]interface{}) (the injected "_seq" int), and
   "<r><_procinst>x</_procinst><b/></r>" at val[targetK].(string).  Observed on /repo c7dba98. *)
Theorem seq_decoded_encodable_all_opts_refuted :
  exists o, seq_keys_ok o = true /\
    decodes_then_panics o w_comment /\ decodes_then_panics o w_attr /\ decodes_then_panics o w_procinst.
Proof.
  exists o_us. split; [vm_compute; reflexivity|].
  split; [|split]; eexists; (split; [vm_compute; reflexivity|split; vm_compute; reflexivity]).
Qed.

(* the witnesses are well-formed documents with legal XML names; what they violate is exactly gtok_ok *)
Lemma witnesses_violate_side_condition :
  forallb (gtok_ok o_us) w_comment = false /\ forallb (gtok_ok o_us) w_attr = false /\
  forallb (gtok_ok o_us) w_procinst = false /\
  forallb (gtok_ok opts0) w_comment = true /\ forallb (gtok_ok opts0) w_attr = true /\
  forallb (gtok_ok opts0) w_procinst = true.
Proof. vm_compute. repeat split. Qed.

(* BeautifyXml = NewMapXmlSeq then XmlIndent *)
Theorem beautify_no_panic pf skip o ts tm :
  seq_keys_ok o = true -> forallb (gtok_ok o) ts = true -> beautify_items pf skip o ts tm <> Panic.
Proof.
  intros Hk Hts. unfold beautify_items.
  destruct (seq_decode pf skip o false ts tm) as [m|e|] eqn:E; cbn [bind].
  - apply (gseq_decoded_encodable o Hk pf skip false ts tm m Hts E).
  - discriminate.
  - exfalso. exact (seq_decode_no_panic pf skip o false tm ts E).
Qed.

(* ---- non-vacuity: option records meeting seq_keys_ok, streams meeting gtok_ok ---- *)
Definition o_snake_xmpp : opts := {|
  attrPrefix := attrPrefix opts0; lenAttrPrefix := lenAttrPrefix opts0;
  includeTagSeqNum := false; lowerCase := false; snakeCaseKeys := true;
  disableTrimWhiteSpace := true; trimRunes := trim_keep_space;
  decodeSimpleValuesAsMap := false;
  castToInt := true; castToFloat := true; castToBool := true; castNanInf := true;
  handleXMPPStreamTag := true; useGoXmlEmptyElemSyntax := true; xmlCheckIsValid := false;
  xmlEscapeChars := true; xmlEscapeCharsDecoder := false;
  textK := textK opts0; seqK := seqK opts0; commentK := commentK opts0; attrK := attrK opts0;
  directiveK := directiveK opts0; procinstK := procinstK opts0; targetK := targetK opts0; instK := instK opts0;
  fieldSep := fieldSep opts0; useDotNotation := false; defaultArraySize := 32; jsonUseNumber := false
|}.
Definition at1 (n v : string) : xattr := {| aname := xn n; avalue := s v |}.
(* <a-b k="1">t<c/><!--n--><?p i?><c>2</c>u</a-b> followed by a stray end tag and a truncated element *)
Definition ts_mixed : list tok :=
  [TStart (xn "a-b") [at1 "k" "1"]; TChar (s "t"); TStart (xn "c") []; TEnd (xn "c"); TComment (s "n");
   TProcInst (s "p") (s "i"); TStart (xn "c") []; TChar (s "2"); TEnd (xn "c"); TChar (s "u"); TEnd (xn "a_b");
   TEnd (xn "zz"); TStart (xn "q") []].
Lemma keys_ok_examples :
  seq_keys_ok opts0 = true /\ seq_keys_ok (seq_o true) = true /\ seq_keys_ok o_snake_xmpp = true /\
  seq_keys_ok o_us = true /\ seq_keys_ok (keyed [] opts0) = true /\
  forallb (gtok_ok o_snake_xmpp) ts_mixed = true /\ forallb (gtok_ok o_us) ts_mixed = true.
Proof. vm_compute. repeat split. Qed.
Lemma mixed_decodes_and_encodes :
  match seq_decode pf0 skip0 o_snake_xmpp false ts_mixed TermEOF with
  | Ok m => match seq_encode o_snake_xmpp m with Ok its => semit its | _ => [] end
  | _ => []
  end = s "<a_b k=""1"">u<c></c><!--n--><?p i?><c>2</c></a_b>".
Proof. vm_compute. reflexivity. Qed.

(* malformed streams: an error value, not a panic *)
Lemma seq_malformed_examples :
  seq_decode pf0 skip0 opts0 false [TEnd (xn "a")] TermEOF = Err EOther /\
  seq_decode pf0 skip0 opts0 false [TChar (s "x"); TEnd (xn "a")] TermEOF = Err EOther /\
  seq_decode pf0 skip0 opts0 false [TStart (xn "a") []; TStart (xn "b") []; TEnd (xn "a")] TermEOF = Err EOther /\
  seq_decode pf0 skip0 opts0 false [TStart (xn "a") []; TChar (s "t")] TermEOF = Err EEOF /\
  seq_decode pf0 skip0 opts0 false [TStart (xn "a") []; TChar (s "t")] TermErr = Err EOther /\
  seq_decode pf0 skip0 opts0 false [TComment (s "c"); TStart (xn "a") []; TEnd (xn "a")] TermEOF = Err ENoRoot /\
  seq_decode pf0 skip0 opts0 false [TStart (xn "") []; TStart (xn "") []; TEnd (xn "")] TermEOF = Err EOther.
Proof. vm_compute. repeat split. Qed.
