(* C10: the model of updatevalues.go (Model/TreeOps.v, section Update) against
   the declarative specification Spec/UpdateSpec.v. *)
From Mxj Require Import Model.TreeOps Spec.PathSem Spec.UpdateSpec Proofs.StrLemmas Proofs.C07P.
From Coq Require Import Permutation.

(* ================= map / list primitives ================= *)
Lemma set_same k v m : lookup k m = Some v -> set k v m = m.
Proof.
  induction m as [|[k' v'] t IH]; cbn; [discriminate|].
  destruct (str_eqb k k'); intros H; [injection H as ->; reflexivity|rewrite IH by exact H; reflexivity].
Qed.

Lemma lookup_set_same k x m : lookup k (set k x m) = Some x.
Proof.
  induction m as [|[k' v'] t IH]; cbn; [rewrite str_eqb_refl; reflexivity|].
  destruct (str_eqb k k') eqn:E; cbn; rewrite E; [reflexivity|exact IH].
Qed.

Lemma lookup_set_other k k' x m : str_eqb k' k = false -> lookup k' (set k x m) = lookup k' m.
Proof.
  intros Hne. induction m as [|[k2 v2] t IH]; cbn; [rewrite Hne; reflexivity|].
  destruct (str_eqb k k2) eqn:E; cbn.
  - apply str_eqb_eq in E; subst k2. rewrite Hne. reflexivity.
  - destruct (str_eqb k' k2); [reflexivity|exact IH].
Qed.

Lemma set_set k x y m : set k y (set k x m) = set k y m.
Proof.
  induction m as [|[k' v'] t IH]; cbn; [rewrite str_eqb_refl; reflexivity|].
  destruct (str_eqb k k') eqn:E; cbn; rewrite E; [reflexivity|rewrite IH; reflexivity].
Qed.

Lemma lookup_In k v m : lookup k m = Some v -> In (k, v) m.
Proof.
  induction m as [|[k' v'] t IH]; cbn; [discriminate|].
  destruct (str_eqb k k') eqn:E; intros H.
  - apply str_eqb_eq in E; subst. injection H as ->. left; reflexivity.
  - right; apply IH, H.
Qed.

Lemma lookup_None_notin k m : lookup k m = None -> ~ In k (keys m).
Proof.
  induction m as [|[k' v'] t IH]; cbn; [tauto|].
  destruct (str_eqb k k') eqn:E; [discriminate|]. intros H [H1|H1].
  - subst. rewrite str_eqb_refl in E. discriminate.
  - exact (IH H H1).
Qed.

Lemma lookup_notin k m : ~ In k (keys m) -> lookup k m = None.
Proof.
  induction m as [|[k' v'] t IH]; cbn; [reflexivity|]. intros H.
  destruct (str_eqb k k') eqn:E.
  - apply str_eqb_eq in E. subst. tauto.
  - apply IH. tauto.
Qed.

Lemma lookup_app_notin k pre t : ~ In k (keys pre) -> lookup k (pre ++ t) = lookup k t.
Proof.
  induction pre as [|[k' v'] p IH]; cbn; [reflexivity|]. intros H.
  destruct (str_eqb k k') eqn:E.
  - apply str_eqb_eq in E. subst. tauto.
  - apply IH. tauto.
Qed.

Lemma set_app_notin k x pre v t :
  ~ In k (keys pre) -> set k x (pre ++ (k, v) :: t) = pre ++ (k, x) :: t.
Proof.
  induction pre as [|[k' v'] p IH]; cbn; intros H.
  - rewrite str_eqb_refl. reflexivity.
  - destruct (str_eqb k k') eqn:E.
    + apply str_eqb_eq in E. subst. tauto.
    + rewrite IH by tauto. reflexivity.
Qed.

Lemma keys_set_present k x m : has_key k m = true -> keys (set k x m) = keys m.
Proof.
  unfold has_key, keys. induction m as [|[k' v'] t IH]; cbn; [discriminate|].
  destruct (str_eqb k k'); cbn; [reflexivity|]. intros H. rewrite IH by exact H. reflexivity.
Qed.

Lemma nth_error_set_nth_same {A} i (x : A) l : i < length l -> nth_error (set_nth i x l) i = Some x.
Proof.
  revert i; induction l as [|a l IH]; intros [|i] H; cbn in *; try lia; [reflexivity|apply IH; lia].
Qed.
Lemma nth_error_set_nth_other {A} i j (x : A) l : i <> j -> nth_error (set_nth i x l) j = nth_error l j.
Proof.
  revert i j; induction l as [|a l IH]; intros [|i] [|j] H; cbn; try reflexivity; try congruence.
  apply IH; congruence.
Qed.
Lemma set_nth_set_nth {A} i (x y : A) l : set_nth i y (set_nth i x l) = set_nth i y l.
Proof. revert i; induction l as [|a l IH]; intros [|i]; cbn; try reflexivity. rewrite IH; reflexivity. Qed.
Lemma set_nth_same {A} i (x : A) l : nth_error l i = Some x -> set_nth i x l = l.
Proof.
  revert i; induction l as [|a l IH]; intros [|i]; cbn; try discriminate.
  - intros H; injection H as ->; reflexivity.
  - intros H; rewrite IH by exact H; reflexivity.
Qed.
Lemma set_nth_app_length {A} (x v : A) pre t : set_nth (length pre) x (pre ++ v :: t) = pre ++ x :: t.
Proof. induction pre as [|a p IH]; cbn; [reflexivity|rewrite IH; reflexivity]. Qed.
Lemma nth_error_app_length {A} (v : A) pre t : nth_error (pre ++ v :: t) (length pre) = Some v.
Proof. induction pre as [|a p IH]; cbn; [reflexivity|exact IH]. Qed.
Lemma length_set_nth {A} i (x : A) l : length (set_nth i x l) = length l.
Proof. revert i; induction l as [|a l IH]; intros [|i]; cbn; try reflexivity. rewrite IH; reflexivity. Qed.

(* ================= well-formedness ================= *)
Lemma nodup_keys_NoDup ks : nodup_keys ks = true <-> NoDup ks.
Proof.
  induction ks as [|k t IH]; cbn; [split; [constructor|reflexivity]|].
  rewrite andb_true_iff, negb_true_iff, IH. split.
  - intros [H1 H2]. constructor; [|exact H2]. intros HI.
    assert (existsb (str_eqb k) t = true); [|congruence].
    apply existsb_exists. exists k. split; [exact HI|apply str_eqb_refl].
  - intros H. inversion H as [|? ? Hn Hd]; subst. split; [|exact Hd].
    destruct (existsb (str_eqb k) t) eqn:E; [|reflexivity].
    apply existsb_exists in E as [y [Hy Ey]]. apply str_eqb_eq in Ey. subst. contradiction.
Qed.

Lemma wfb_map m : wfb (VMap m) = true <-> NoDup (keys m) /\ Forall (fun kv => wfb (snd kv) = true) m.
Proof.
  cbn [wfb]. rewrite andb_true_iff, nodup_keys_NoDup. apply and_iff_compat_l.
  induction m as [|[k x] t IH]; [split; [constructor|reflexivity]|].
  rewrite andb_true_iff, IH. split.
  - intros [H1 H2]. constructor; assumption.
  - intros H. inversion H; subst. split; assumption.
Qed.
Lemma wfb_list l : wfb (VList l) = true <-> Forall (fun v => wfb v = true) l.
Proof.
  cbn [wfb]. induction l as [|x t IH]; [split; [constructor|reflexivity]|].
  rewrite andb_true_iff, IH. split.
  - intros [H1 H2]. constructor; assumption.
  - intros H. inversion H; subst. split; assumption.
Qed.
Lemma wfb_lookup k v m : wfb (VMap m) = true -> lookup k m = Some v -> wfb v = true.
Proof.
  intros Hw Hl. apply wfb_map in Hw as [_ HF]. apply lookup_In in Hl.
  rewrite Forall_forall in HF. exact (HF _ Hl).
Qed.

(* ================= shape of upd_list / upd_vals / update_kp ================= *)
Lemma upd_list_eq f l :
  upd_list f l = (map (fun v => fst (f v)) l, list_sum (map (fun v => snd (f v)) l)).
Proof.
  unfold upd_list. induction l as [|v t IH]; cbn [fold_right map list_sum]; [reflexivity|].
  rewrite IH. destruct (f v) as [v' n]. reflexivity.
Qed.
Lemma upd_vals_eq f m :
  upd_vals f m = (map (fun kv => (fst kv, fst (f (snd kv)))) m, list_sum (map (fun kv => snd (f (snd kv))) m)).
Proof.
  unfold upd_vals. induction m as [|kv t IH]; cbn [fold_right map list_sum]; [reflexivity|].
  rewrite IH. destruct (f (snd kv)) as [v' n]. reflexivity.
Qed.

Lemma upd_list_ext f g l : (forall v, f v = g v) -> upd_list f l = upd_list g l.
Proof.
  intros H. rewrite !upd_list_eq. f_equal; [|f_equal]; apply map_ext; intros v; rewrite H; reflexivity.
Qed.

(* one navigation step of updateValuesForKeyPath, the recursive call abstracted *)
Definition map_step (k0 : str) (rec : value -> value * nat) (mm : entries) : value * nat :=
  if str_eqb k0 star then let '(mm', n) := upd_vals rec mm in (VMap mm', n)
  else match lookup k0 mm with
       | Some v => let '(v', n) := rec v in (VMap (set k0 v' mm), n)
       | None => (VMap mm, 0)
       end.
Definition kp_step (k0 : str) (rec : value -> value * nat) (m : value) : value * nat :=
  match m with
  | VMap mm => map_step k0 rec mm
  | VList l =>
      let '(l', n) := upd_list (fun v => match v with
                                         | VMap mm => map_step k0 rec mm
                                         | _ => if str_eqb k0 star then rec v else (v, 0)
                                         end) l in (VList l', n)
  | _ => (m, 0)
  end.
Lemma update_kp_step key nv k0 k1 rest sk m :
  update_kp key nv (k0 :: k1 :: rest) sk m = kp_step k0 (update_kp key nv (k1 :: rest) sk) m.
Proof.
  cbn [update_kp]. unfold kp_step, map_step.
  destruct (str_eqb k0 star); destruct m; try reflexivity.
  match goal with |- (let '(_, _) := upd_list ?F l in _) = (let '(_, _) := upd_list ?G l in _) =>
    rewrite (upd_list_ext F G); [reflexivity|] end.
  intros v. destruct v; reflexivity.
Qed.

Lemma list_sum_zero l : list_sum l = 0 -> Forall (fun n => n = 0) l.
Proof.
  induction l as [|a t IH]; [constructor|]. intros H. change (a + list_sum t = 0) in H.
  constructor; [lia|apply IH; lia].
Qed.

(* ================= 1. a zero count leaves the Map untouched ================= *)
Section Zero.
Variable key : str.
Variable nv : value.
Variable sk : entries.

Lemma upd_members_zero l l' : upd_members key nv sk l = (l', 0) -> l' = l.
Proof.
  revert l'; induction l as [|v t IH]; cbn [upd_members]; intros l' H; [congruence|].
  destruct (upd_members key nv sk t) as [t' n].
  assert (G : (v :: t', n) = (l', 0) -> l' = v :: t).
  { intros E. injection E as <- ->. rewrite (IH t' eq_refl). reflexivity. }
  destruct v; try (exact (G H)).
  destruct (has_key key m && has_sub_keys (VMap m) sk); [discriminate|exact (G H)].
Qed.

Lemma update_value_key_zero m c m' : update_value_key key nv m c sk = (m', 0) -> m' = m.
Proof.
  unfold update_value_key. destruct (str_eqb key c).
  - destruct (lookup c m) as [[]|];
      try (destruct (has_sub_keys (VMap m) sk); intros H; [discriminate|congruence]).
    destruct (has_sub_keys (VMap m) sk); [discriminate|].
    destruct (filter (fun v => has_sub_keys v sk) l); cbn [length]; intros H; [congruence|discriminate].
  - destruct (lookup c m) as [[]|]; try congruence.
    + destruct (has_sub_keys (VMap m0) sk && has_key key m0); intros H; [discriminate|congruence].
    + destruct (upd_members key nv sk l) as [l' [|n]]; intros H; [congruence|discriminate].
Qed.

Definition uv_step (acc : entries * nat) (k : str) : entries * nat :=
  let '(cur, n) := acc in
  let '(cur', n') := update_value_key key nv cur k sk in (cur', n + n').

Lemma uv_fold_zero ks cur a cur' a' :
  fold_left uv_step ks (cur, a) = (cur', a') -> a <= a' /\ (a' = a -> cur' = cur).
Proof.
  revert cur a; induction ks as [|c ks IH]; cbn [fold_left]; intros cur a H.
  - injection H as -> ->. split; [lia|reflexivity].
  - unfold uv_step at 2 in H. destruct (update_value_key key nv cur c sk) as [cur1 n1] eqn:E.
    apply IH in H as [H1 H2]. split; [lia|]. intros ->.
    assert (n1 = 0) by lia. subst n1. rewrite H2 by lia. apply update_value_key_zero with c. exact E.
Qed.

Lemma update_value_zero m c m' : update_value key nv m c sk = (m', 0) -> m' = m.
Proof.
  unfold update_value. destruct m; try congruence.
  - destruct (str_eqb c star).
    + change (fun acc k => let '(cur, n) := acc in
                           let '(cur', n') := update_value_key key nv cur k sk in (cur', n + n'))
        with uv_step.
      destruct (fold_left uv_step (keys m) (m, 0)) as [mm' n] eqn:E. intros H. injection H as <- ->.
      apply uv_fold_zero in E as [_ E]. rewrite E; reflexivity.
    + destruct (update_value_key key nv m c sk) as [mm' n] eqn:E. intros H. injection H as <- ->.
      apply update_value_key_zero in E. rewrite E; reflexivity.
  - destruct (upd_members key nv sk l) as [l' n] eqn:E. intros H. injection H as <- ->.
    apply upd_members_zero in E. rewrite E; reflexivity.
Qed.

(* counting updates that are the identity when they count zero *)
Definition zero_id (f : value -> value * nat) : Prop := forall v v', f v = (v', 0) -> v' = v.

Lemma upd_list_zero f l l' : zero_id f -> upd_list f l = (l', 0) -> l' = l.
Proof.
  intros Hf. rewrite upd_list_eq. intros H. injection H as <- Hs.
  apply list_sum_zero in Hs. induction l as [|v t IH]; cbn [map] in *; [reflexivity|].
  inversion Hs as [|? ? H1 H2]; subst. rewrite (IH H2). f_equal.
  apply Hf. destruct (f v) as [v' n]; cbn in *; subst; reflexivity.
Qed.
Lemma upd_vals_zero f m m' : zero_id f -> upd_vals f m = (m', 0) -> m' = m.
Proof.
  intros Hf. rewrite upd_vals_eq. intros H. injection H as <- Hs.
  apply list_sum_zero in Hs. induction m as [|[k v] t IH]; cbn [map fst snd] in *; [reflexivity|].
  inversion Hs as [|? ? H1 H2]; subst. rewrite (IH H2). do 2 f_equal.
  apply Hf. destruct (f v) as [v' n]; cbn in *; subst; reflexivity.
Qed.

Lemma map_step_zero k0 rec mm v' : zero_id rec -> map_step k0 rec mm = (v', 0) -> v' = VMap mm.
Proof.
  intros Hr. unfold map_step. destruct (str_eqb k0 star).
  - destruct (upd_vals rec mm) as [mm' n] eqn:E. intros H. injection H as <- ->.
    apply upd_vals_zero in E; [rewrite E; reflexivity|exact Hr].
  - destruct (lookup k0 mm) as [v|] eqn:El; [|congruence].
    destruct (rec v) as [v1 n] eqn:E. intros H. injection H as <- ->.
    apply Hr in E. subst v1. rewrite set_same by exact El. reflexivity.
Qed.

Lemma kp_step_zero k0 rec : zero_id rec -> zero_id (kp_step k0 rec).
Proof.
  intros Hr m m'. unfold kp_step. destruct m; try congruence.
  - apply map_step_zero, Hr.
  - match goal with |- context [upd_list ?f l] => destruct (upd_list f l) as [l' n] eqn:E end.
    intros H. injection H as <- ->. apply upd_list_zero in E; [rewrite E; reflexivity|].
    intros v v'. destruct v; try (destruct (str_eqb k0 star); [apply Hr|congruence]).
    apply map_step_zero, Hr.
Qed.

Theorem update_kp_zero ks : zero_id (update_kp key nv ks sk).
Proof.
  induction ks as [|k0 rest IH]; [intros m m' H; cbn in H; congruence|].
  destruct rest as [|k1 rest].
  - intros m m'. cbn [update_kp]. apply update_value_zero.
  - intros m m'. rewrite update_kp_step. apply kp_step_zero, IH.
Qed.
End Zero.

Theorem update_zero_untouched pf sep m nv path subkeys m' :
  update_values_for_path pf sep m nv path subkeys = Ok (m', 0) -> m' = m.
Proof.
  unfold update_values_for_path.
  destruct (get_sub_key_map pf sep subkeys) as [skm| |]; cbn [bind]; try discriminate.
  destruct (parse_newval pf sep nv) as [[k v]| |]; cbn [bind fst snd]; try discriminate.
  intros H. injection H as H. apply update_kp_zero in H. exact H.
Qed.

(* ================= 2. write_at / writes ================= *)
Lemma list_sum_cons a t : list_sum (a :: t) = a + list_sum t.
Proof. reflexivity. Qed.
Lemma writes_cons p ps nv m : writes (p :: ps) nv m = writes ps nv (write_at p nv m).
Proof. reflexivity. Qed.
Lemma writes_app ps qs nv m : writes (ps ++ qs) nv m = writes qs nv (writes ps nv m).
Proof. unfold writes. apply fold_left_app. Qed.
Lemma under_cons st p ps : under st (p :: ps) = (st :: p) :: under st ps.
Proof. reflexivity. Qed.
Lemma length_under st ps : length (under st ps) = length ps.
Proof. apply map_length. Qed.

Lemma writes_under_SK k ps nv : forall v mm, lookup k mm = Some v ->
  writes (under (SK k) ps) nv (VMap mm) = VMap (set k (writes ps nv v) mm).
Proof.
  induction ps as [|p ps IH]; intros v mm Hl.
  - cbn. rewrite set_same by exact Hl. reflexivity.
  - rewrite under_cons, !writes_cons. cbn [write_at]. rewrite Hl.
    rewrite (IH (write_at p nv v)) by apply lookup_set_same. rewrite set_set. reflexivity.
Qed.

Lemma writes_under_SI i ps nv : forall v l, nth_error l i = Some v ->
  writes (under (SI i) ps) nv (VList l) = VList (set_nth i (writes ps nv v) l).
Proof.
  induction ps as [|p ps IH]; intros v l Hl.
  - cbn. rewrite set_nth_same by exact Hl. reflexivity.
  - rewrite under_cons, !writes_cons. cbn [write_at]. rewrite Hl.
    rewrite (IH (write_at p nv v)).
    + rewrite set_nth_set_nth. reflexivity.
    + apply nth_error_set_nth_same. apply nth_error_Some. congruence.
Qed.

Lemma writes_in_list_gen f nv : forall t pre,
  writes (flat_mapi (fun i v => under (SI i) (f v)) t (length pre)) nv (VList (pre ++ t))
  = VList (pre ++ map (fun v => writes (f v) nv v) t).
Proof.
  induction t as [|v t IH]; intros pre; [reflexivity|].
  cbn [flat_mapi map]. rewrite writes_app.
  rewrite (writes_under_SI _ _ _ v) by apply nth_error_app_length.
  rewrite set_nth_app_length.
  specialize (IH (pre ++ [writes (f v) nv v])).
  rewrite app_length in IH. cbn [length] in IH. rewrite Nat.add_1_r in IH.
  rewrite <- !app_assoc in IH. cbn [app] in IH. exact IH.
Qed.
Lemma writes_in_list f nv l :
  writes (in_list f l) nv (VList l) = VList (map (fun v => writes (f v) nv v) l).
Proof. exact (writes_in_list_gen f nv l []). Qed.

Lemma writes_in_map_gen f nv : forall t pre, NoDup (keys (pre ++ t)) ->
  writes (in_map f t) nv (VMap (pre ++ t))
  = VMap (pre ++ map (fun kv => (fst kv, writes (f (snd kv)) nv (snd kv))) t).
Proof.
  induction t as [|[k v] t IH]; intros pre Hnd; [reflexivity|].
  unfold in_map. cbn [flat_map fst snd map]. fold (in_map f t). rewrite writes_app.
  assert (Hk : ~ In k (keys pre)).
  { unfold keys in *. rewrite map_app in Hnd. cbn [map fst] in Hnd. apply NoDup_remove_2 in Hnd.
    intros HI. apply Hnd. apply in_or_app. left; exact HI. }
  rewrite (writes_under_SK _ _ _ v).
  2:{ rewrite lookup_app_notin by exact Hk. cbn [lookup]. rewrite str_eqb_refl. reflexivity. }
  rewrite set_app_notin by exact Hk.
  specialize (IH (pre ++ [(k, writes (f v) nv v)])).
  rewrite <- !app_assoc in IH. cbn [app] in IH. apply IH.
  unfold keys in *. rewrite !map_app in *. cbn [map fst] in *. exact Hnd.
Qed.
Lemma writes_in_map f nv mm : NoDup (keys mm) ->
  writes (in_map f mm) nv (VMap mm) = VMap (map (fun kv => (fst kv, writes (f (snd kv)) nv (snd kv))) mm).
Proof. exact (writes_in_map_gen f nv mm []). Qed.

Lemma length_flat_mapi_under (f : value -> list pos) l : forall i0,
  length (flat_mapi (fun i v => under (SI i) (f v)) l i0) = list_sum (map (fun v => length (f v)) l).
Proof.
  induction l as [|v t IH]; intros i0; [reflexivity|].
  cbn [flat_mapi map]. rewrite app_length, length_under, IH, list_sum_cons. reflexivity.
Qed.
Lemma length_in_list f l : length (in_list f l) = list_sum (map (fun v => length (f v)) l).
Proof. apply length_flat_mapi_under. Qed.
Lemma length_in_map f mm : length (in_map f mm) = list_sum (map (fun kv => length (f (snd kv))) mm).
Proof.
  unfold in_map. induction mm as [|kv t IH]; [reflexivity|].
  cbn [flat_map map]. rewrite app_length, length_under, IH, list_sum_cons. reflexivity.
Qed.

(* ================= 2. the model writes exactly the addressed positions ================= *)
(* navigation in combinator form *)
Definition addr_map (k0 : str) (a : value -> list pos) (mm : entries) : list pos :=
  if str_eqb k0 star then in_map a mm
  else match lookup k0 mm with Some v => under (SK k0) (a v) | None => [] end.
Definition addr_step (k0 : str) (a : value -> list pos) (m : value) : list pos :=
  match m with
  | VMap mm => addr_map k0 a mm
  | VList l => in_list (fun v => match v with
                                 | VMap mm => addr_map k0 a mm
                                 | _ => if str_eqb k0 star then a v else []
                                 end) l
  | _ => []
  end.

Section Exact.
Variable key : str.
Variable nv : value.
Variable sk : entries.

Definition realizes (f : value -> value * nat) (a : value -> list pos) (v : value) : Prop :=
  f v = (writes (a v) nv v, length (a v)).

Lemma upd_list_realizes f a l : Forall (realizes f a) l ->
  upd_list f l = (map (fun v => writes (a v) nv v) l, list_sum (map (fun v => length (a v)) l)).
Proof.
  intros HF. rewrite Forall_forall in HF. rewrite upd_list_eq.
  f_equal; [|f_equal]; apply map_ext_in; intros v Hv; rewrite (HF v Hv); reflexivity.
Qed.
Lemma upd_vals_realizes f a m : Forall (fun kv => realizes f a (snd kv)) m ->
  upd_vals f m = (map (fun kv => (fst kv, writes (a (snd kv)) nv (snd kv))) m,
                  list_sum (map (fun kv => length (a (snd kv))) m)).
Proof.
  intros HF. rewrite Forall_forall in HF. rewrite upd_vals_eq.
  f_equal; [|f_equal]; apply map_ext_in; intros kv Hv; rewrite (HF kv Hv); reflexivity.
Qed.

Lemma map_step_realizes k0 rec a mm :
  wfb (VMap mm) = true -> (forall v, wfb v = true -> realizes rec a v) ->
  map_step k0 rec mm = (writes (addr_map k0 a mm) nv (VMap mm), length (addr_map k0 a mm)).
Proof.
  intros Hw Hr. unfold map_step, addr_map. destruct (str_eqb k0 star).
  - apply wfb_map in Hw as [Hnd HF].
    rewrite (upd_vals_realizes rec a).
    + rewrite writes_in_map by exact Hnd. rewrite length_in_map. reflexivity.
    + eapply Forall_impl; [|exact HF]. intros kv Hkv. apply Hr, Hkv.
  - destruct (lookup k0 mm) as [v|] eqn:El; [|reflexivity].
    rewrite (Hr v (wfb_lookup _ _ _ Hw El)).
    rewrite (writes_under_SK _ _ _ v) by exact El. rewrite length_under. reflexivity.
Qed.

Lemma kp_step_realizes k0 rec a m :
  wfb m = true -> (forall v, wfb v = true -> realizes rec a v) ->
  kp_step k0 rec m = (writes (addr_step k0 a m) nv m, length (addr_step k0 a m)).
Proof.
  intros Hw Hr. unfold kp_step, addr_step. destruct m; try reflexivity.
  - apply map_step_realizes; assumption.
  - apply wfb_list in Hw.
    match goal with |- context [in_list ?g l] => set (a' := g) end.
    match goal with |- context [upd_list ?g l] => rewrite (upd_list_realizes g a') end.
    + rewrite writes_in_list, length_in_list. reflexivity.
    + eapply Forall_impl; [|exact Hw]. intros v Hv. unfold realizes, a'.
      destruct v; try (destruct (str_eqb k0 star); [apply Hr, Hv|reflexivity]).
      apply map_step_realizes; assumption.
Qed.
End Exact.

(* ---------- the last path key: updateValue ---------- *)
Section Last.
Variable key : str.
Variable nv : value.
Variable sk : entries.
Local Notation hit := (hit sk).
Local Notation member_rel := (member_rel key sk).
Local Notation entry_rel := (entry_rel key sk).
Local Notation entry_targets := (entry_targets key sk).
Local Notation node_targets := (node_targets key sk).

Lemma write_key_map mm : write_at [SK key] nv (VMap mm) = VMap (set key nv mm).
Proof. cbn [write_at]. destruct (lookup key mm); reflexivity. Qed.

Lemma upd_members_eq l :
  upd_members key nv sk l = (map (fun v => writes (member_rel v) nv v) l,
                             list_sum (map (fun v => length (member_rel v)) l)).
Proof.
  induction l as [|v t IH]; [reflexivity|].
  cbn [upd_members map]. rewrite IH, list_sum_cons.
  destruct v; try reflexivity.
  unfold UpdateSpec.member_rel, UpdateSpec.hit.
  destruct (has_key key m && has_sub_keys (VMap m) sk); [|reflexivity].
  unfold writes. cbn [fold_left length]. rewrite write_key_map. reflexivity.
Qed.

Lemma upd_members_exact l :
  upd_members key nv sk l = (map (fun v => writes (member_rel v) nv v) l, length (in_list member_rel l))
  /\ VList (map (fun v => writes (member_rel v) nv v) l) = writes (in_list member_rel l) nv (VList l).
Proof. rewrite upd_members_eq, length_in_list, writes_in_list. split; reflexivity. Qed.

Lemma filter_nil_map (p : value -> bool) l :
  filter p l = [] -> map (fun v => if p v then nv else v) l = l.
Proof.
  induction l as [|v t IH]; cbn [filter map]; [reflexivity|].
  destruct (p v); [discriminate|]. intros H. rewrite IH by exact H. reflexivity.
Qed.
Lemma length_filter_sum (p : value -> bool) l :
  length (filter p l) = list_sum (map (fun v => length (if p v then [@nil step] else [])) l).
Proof.
  induction l as [|v t IH]; [reflexivity|]. cbn [filter map]. rewrite list_sum_cons, <- IH.
  destruct (p v); reflexivity.
Qed.

(* updateValue for a concrete last key: exactly the entry targets *)
Lemma uvk_exact mm c :
  VMap (fst (update_value_key key nv mm c sk)) = writes (entry_targets mm c) nv (VMap mm)
  /\ snd (update_value_key key nv mm c sk) = length (entry_targets mm c).
Proof.
  unfold update_value_key, UpdateSpec.entry_targets, UpdateSpec.entry_rel, UpdateSpec.hit.
  assert (W1 : writes (under (SK c) [[]]) nv (VMap mm) = VMap (set c nv mm)).
  { unfold writes. cbn [under map fold_left write_at]. destruct (lookup c mm); reflexivity. }
  destruct (str_eqb key c) eqn:Ekc.
  - destruct (has_sub_keys (VMap mm) sk) eqn:Eh.
    + destruct (lookup c mm) as [[]|]; cbn [fst snd]; rewrite W1; split; reflexivity.
    + destruct (lookup c mm) as [e|] eqn:El; [|split; reflexivity].
      destruct e; try (split; reflexivity).
      rewrite length_under, length_in_list, <- length_filter_sum.
      rewrite (writes_under_SK _ _ _ (VList l)) by exact El. rewrite writes_in_list.
      assert (Em : map (fun v => writes (if has_sub_keys v sk then [[]] else []) nv v) l
                   = map (fun v => if has_sub_keys v sk then nv else v) l).
      { apply map_ext. intros v. destruct (has_sub_keys v sk); reflexivity. }
      rewrite Em.
      destruct (filter (fun v => has_sub_keys v sk) l) as [|h hs] eqn:Ef; cbn [fst snd]; [|split; reflexivity].
      rewrite filter_nil_map by exact Ef. rewrite set_same by exact El. split; reflexivity.
  - destruct (lookup c mm) as [e|] eqn:El; [|split; reflexivity].
    destruct e; try (split; reflexivity).
    + destruct (has_sub_keys (VMap m) sk && has_key key m); cbn [fst snd]; [|split; reflexivity].
      rewrite (writes_under_SK _ _ _ (VMap m)) by exact El.
      unfold writes. cbn [fold_left]. rewrite write_key_map. split; reflexivity.
    + rewrite (writes_under_SK _ _ _ (VList l)) by exact El. rewrite length_under.
      destruct (upd_members_exact l) as [E1 E2]. rewrite <- E2.
      destruct (upd_members key nv sk l) as [l' n] eqn:E. injection E1 as E1 E3.
      destruct n as [|n]; cbn [fst snd].
      * apply upd_members_zero in E. rewrite <- E1, E, set_same by exact El. split; [reflexivity|exact E3].
      * rewrite E1. split; [reflexivity|exact E3].
Qed.
End Last.
