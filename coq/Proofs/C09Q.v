(* C09, second part: from the tree-layer lemma [resolves_all] of C09P.v to the
   path STRING LeafNodes returns: the rendered path splits and parses back to
   the keys of the address, so ValuesForPath on it yields exactly the leaf. *)
From Mxj Require Import Model.TreeOps Spec.PathSem Spec.Leaves Proofs.StrLemmas Proofs.C07P Proofs.C09P.

(* ---------- an induction principle for the addresses of XML/JSON-shaped Maps ---------- *)
Definition not_idx_first (r : addr) : Prop :=
  match r with SIdx _ :: _ => False | _ => True end.

Lemma addr_ok_ind (P : addr -> Prop) :
  P [] ->
  (forall k r, clean_key k = true -> addr_ok r = true -> not_idx_first r -> P r -> P (SKey k :: r)) ->
  (forall k i r, clean_key k = true -> (Z.of_nat i < 2 ^ 31)%Z -> addr_ok r = true -> P r ->
                 P (SKey k :: SIdx i :: r)) ->
  forall p, addr_ok p = true -> P p.
Proof.
  intros H0 H1 H2.
  assert (G : forall n p, length p <= n -> addr_ok p = true -> P p).
  { induction n as [|n IH]; intros p Hlen Hok.
    - destruct p; [exact H0|cbn in Hlen; lia].
    - destruct p as [|[k|i] r]; [exact H0| |cbn in Hok; discriminate].
      destruct r as [|[k2|i] r'].
      + cbn [addr_ok] in Hok. apply andb_true_iff in Hok as [Hk _].
        apply H1; [exact Hk|reflexivity|exact I|exact H0].
      + change (addr_ok (SKey k :: SKey k2 :: r')) with (clean_key k && addr_ok (SKey k2 :: r')) in Hok.
        apply andb_true_iff in Hok as [Hk Hr].
        apply H1; [exact Hk|exact Hr|exact I|]. apply IH; [cbn in *; lia|exact Hr].
      + change (addr_ok (SKey k :: SIdx i :: r'))
          with (clean_key k && ((Z.of_nat i <? 2 ^ 31)%Z && addr_ok r')) in Hok.
        apply andb_true_iff in Hok as [Hk Hr]. apply andb_true_iff in Hr as [Hi Hr].
        apply Z.ltb_lt in Hi.
        apply H2; [exact Hk|exact Hi|exact Hr|]. apply IH; [cbn in *; lia|exact Hr]. }
  intros p. apply (G (length p)). lia.
Qed.

Ltac addr_induction :=
  match goal with |- forall p, addr_ok p = true -> @?Q p => apply (addr_ok_ind Q) end.

(* ---------- the "."-separated segments of a rendered address ---------- *)
Fixpoint segs (p : addr) : list str :=
  match p with
  | [] => []
  | SIdx _ :: r => segs r
  | SKey k :: r => match r with
                   | SIdx i :: r' => idx_seg k i :: segs r'
                   | _ => k :: segs r
                   end
  end.

Lemma segs_key k r : not_idx_first r -> segs (SKey k :: r) = k :: segs r.
Proof. destruct r as [|[k2|i] r']; [reflexivity|reflexivity|contradiction]. Qed.
Lemma to_pkeys_key k r : not_idx_first r -> to_pkeys (SKey k :: r) = plain_key k :: to_pkeys r.
Proof. destruct r as [|[k2|i] r']; [reflexivity|reflexivity|contradiction]. Qed.

Lemma join_cons sep x t : t <> [] -> join sep (x :: t) = x ++ sep ++ join sep t.
Proof. destruct t; [congruence|reflexivity]. Qed.

Lemma segs_nonempty p : addr_ok p = true -> p <> [] -> segs p <> [].
Proof.
  revert p. addr_induction; [|intros k r Hk Hr Hn IH|intros k i r Hk Hi Hr IH]; intros Hne.
  - congruence.
  - rewrite segs_key by exact Hn. discriminate.
  - discriminate.
Qed.

(* ---------- render = join of the segments ---------- *)
Definition dotted (acc : str) : str := if nonempty acc then acc ++ sdot else acc.

Lemma filter_keep_false tk l : filter (keep_node tk false) l = l.
Proof. induction l as [|a l IH]; cbn; [reflexivity|rewrite IH; reflexivity]. Qed.

Lemma prefixb_lbr_clean k : mem_ascii lbr k = false -> prefixb [lbr] k = false.
Proof.
  destruct k as [|c k]; [reflexivity|]. intros H.
  change (mem_ascii lbr (c :: k)) with (Ascii.eqb lbr c || mem_ascii lbr k) in H.
  apply orb_false_iff in H as [H _].
  change (prefixb [lbr] (c :: k)) with (Ascii.eqb lbr c && prefixb [] k). rewrite H. reflexivity.
Qed.

Lemma add_seg_key acc k : mem_ascii lbr k = false -> add_seg acc k = dotted acc ++ k.
Proof.
  intros H. unfold add_seg, dotted. change ["["%char] with [lbr].
  rewrite prefixb_lbr_clean by exact H. rewrite andb_true_r. reflexivity.
Qed.

Lemma add_seg_idx acc i : add_seg acc ([lbr] ++ itoa i ++ [rbr]) = acc ++ [lbr] ++ itoa i ++ [rbr].
Proof.
  unfold add_seg. change ["["%char] with [lbr]. cbn [app prefixb].
  rewrite ascii_eqb_refl. cbn [andb negb]. rewrite andb_false_r. reflexivity.
Qed.

Lemma nonempty_app_r a b : b <> [] -> nonempty (a ++ b) = true.
Proof. destruct a; [|reflexivity]. destruct b; [congruence|reflexivity]. Qed.

Lemma fold_add_seg p : addr_ok p = true -> forall acc,
  fold_left add_seg (map (node_of false) p) acc =
  match p with [] => acc | _ => dotted acc ++ join sdot (segs p) end.
Proof.
  revert p. addr_induction; [|intros k r Hk Hr Hn IH|intros k i r Hk Hi Hr IH]; intros acc.
  - reflexivity.
  - destruct (clean_key_inv _ Hk) as (_ & Hb & _ & Hne).
    cbn [map node_of fold_left]. rewrite IH, add_seg_key by exact Hb.
    rewrite segs_key by exact Hn.
    destruct r as [|st r'].
    + cbn [segs join]. reflexivity.
    + rewrite join_cons by (apply segs_nonempty; [exact Hr|discriminate]).
      unfold dotted at 1. rewrite nonempty_app_r by exact Hne.
      rewrite <- !app_assoc. reflexivity.
  - destruct (clean_key_inv _ Hk) as (_ & Hb & _ & Hne).
    cbn [map node_of fold_left].
    change (["["%char] ++ itoa i ++ ["]"%char]) with ([lbr] ++ itoa i ++ [rbr]).
    rewrite IH. rewrite add_seg_idx. rewrite add_seg_key by exact Hb.
    change (segs (SKey k :: SIdx i :: r)) with (idx_seg k i :: segs r).
    destruct r as [|st r'].
    + cbn [segs join]. unfold idx_seg. rewrite <- !app_assoc. reflexivity.
    + rewrite join_cons by (apply segs_nonempty; [exact Hr|discriminate]).
      unfold dotted at 1. rewrite nonempty_app_r by discriminate.
      unfold idx_seg. rewrite <- !app_assoc. reflexivity.
Qed.

Theorem render_segs tk p : addr_ok p = true -> render tk false false p = join sdot (segs p).
Proof.
  intros Hok. unfold render. rewrite filter_keep_false, fold_add_seg by exact Hok.
  destruct p; reflexivity.
Qed.

(* ---------- the segments: free of ".", not empty, and they parse back ---------- *)
Lemma idx_seg_nodot k i : mem_ascii dot k = false -> mem_ascii dot (idx_seg k i) = false.
Proof.
  intros H. unfold idx_seg. rewrite !mem_ascii_app, H.
  rewrite (digits_no_other dot (itoa i)) by (try apply itoa_digits; reflexivity). reflexivity.
Qed.

Lemma segs_good p : addr_ok p = true -> Forall good_name (segs p).
Proof.
  revert p. addr_induction; [|intros k r Hk Hr Hn IH|intros k i r Hk Hi Hr IH].
  - constructor.
  - destruct (clean_key_inv _ Hk) as (Hd & _ & _ & Hne).
    rewrite segs_key by exact Hn. constructor; [split; assumption|exact IH].
  - destruct (clean_key_inv _ Hk) as (Hd & _ & _ & Hne).
    change (segs (SKey k :: SIdx i :: r)) with (idx_seg k i :: segs r).
    constructor; [|exact IH]. split; [apply idx_seg_nodot, Hd|].
    unfold idx_seg. intros E. apply app_eq_nil in E as [_ E]. discriminate.
Qed.

Lemma parse_segs p : addr_ok p = true -> parse_path_segs (segs p) = Ok (to_pkeys p).
Proof.
  revert p. addr_induction; [|intros k r Hk Hr Hn IH|intros k i r Hk Hi Hr IH].
  - reflexivity.
  - destruct (clean_key_inv _ Hk) as (_ & Hb & _ & Hne).
    rewrite segs_key, to_pkeys_key by exact Hn.
    destruct k as [|c k']; [congruence|].
    cbn [parse_path_segs]. rewrite parse_seg_plain by exact Hb. cbn [bind]. rewrite IH. reflexivity.
  - destruct (clean_key_inv _ Hk) as (_ & Hb & _ & Hne).
    change (segs (SKey k :: SIdx i :: r)) with (idx_seg k i :: segs r).
    change (to_pkeys (SKey k :: SIdx i :: r)) with (arr_key k i :: to_pkeys r).
    pose proof (parse_seg_indexed k i Hb Hi) as Hp.
    destruct (idx_seg k i) as [|c sg] eqn:E.
    { unfold idx_seg in E. apply app_eq_nil in E as [_ E]. discriminate. }
    cbn [parse_path_segs]. rewrite Hp. cbn [bind]. rewrite IH. reflexivity.
Qed.

Theorem parse_path_render tk p : addr_ok p = true -> p <> [] ->
  parse_path (render tk false false p) = Ok (to_pkeys p).
Proof.
  intros Hok Hne. rewrite render_segs by exact Hok. unfold parse_path, sdot.
  rewrite split1_join.
  - apply parse_segs, Hok.
  - apply segs_nonempty; assumption.
  - eapply Forall_impl; [|apply segs_good, Hok]. intros a [H _]. exact H.
Qed.

Lemma to_pkeys_names p : addr_ok p = true -> Forall (fun k => pk_name k <> []) (to_pkeys p).
Proof.
  revert p. addr_induction; [|intros k r Hk Hr Hn IH|intros k i r Hk Hi Hr IH].
  - constructor.
  - destruct (clean_key_inv _ Hk) as (_ & _ & _ & Hne).
    rewrite to_pkeys_key by exact Hn. constructor; [exact Hne|exact IH].
  - destruct (clean_key_inv _ Hk) as (_ & _ & _ & Hne).
    change (to_pkeys (SKey k :: SIdx i :: r)) with (arr_key k i :: to_pkeys r).
    constructor; [exact Hne|exact IH].
Qed.

Lemma to_pkeys_nonempty p : addr_ok p = true -> p <> [] -> to_pkeys p <> [].
Proof.
  revert p. addr_induction; [|intros k r Hk Hr Hn IH|intros k i r Hk Hi Hr IH]; intros Hne.
  - congruence.
  - rewrite to_pkeys_key by exact Hn. discriminate.
  - discriminate.
Qed.

(* ---------- a path without "[": plain keys only ---------- *)
Lemma mem_join_false c sep l :
  mem_ascii c (join sep l) = false -> Forall (fun x => mem_ascii c x = false) l.
Proof.
  induction l as [|x t IH]; intros H; [constructor|].
  destruct t as [|y t'].
  - cbn [join] in H. constructor; [exact H|constructor].
  - change (join sep (x :: y :: t')) with (x ++ sep ++ join sep (y :: t')) in H.
    rewrite !mem_ascii_app in H. apply orb_false_iff in H as [Hx H]. apply orb_false_iff in H as [_ H].
    constructor; [exact Hx|apply IH, H].
Qed.

Lemma idx_seg_has_lbr k i : mem_ascii lbr (idx_seg k i) = true.
Proof. unfold idx_seg. rewrite mem_ascii_app. cbn. rewrite orb_true_r. reflexivity. Qed.

Lemma segment_plain p : addr_ok p = true ->
  Forall (fun x => mem_ascii lbr x = false) (segs p) ->
  forall pre, segment (to_pkeys p) pre = ([], pre ++ segs p).
Proof.
  revert p. addr_induction; [|intros k r Hk Hr Hn IH|intros k i r Hk Hi Hr IH]; intros HF pre.
  - cbn. rewrite app_nil_r. reflexivity.
  - rewrite segs_key in * by exact Hn. rewrite to_pkeys_key by exact Hn.
    inversion HF as [|? ? _ HF']; subst.
    cbn [segment plain_key pk_arr pk_name]. rewrite IH by exact HF'. rewrite <- app_assoc. reflexivity.
  - change (segs (SKey k :: SIdx i :: r)) with (idx_seg k i :: segs r) in HF.
    inversion HF as [|? ? Hx _]; subst. rewrite idx_seg_has_lbr in Hx. discriminate.
Qed.

(* ---------- resolution ---------- *)
Section Resolve.
Variable pf : str -> option flt.
Variable sep : str.

Theorem addr_resolves tk m p v :
  is_map m = true -> good m -> In (p, v) (leaves m) ->
  values_for_path pf sep m (render tk false false p) [] = Ok [v].
Proof.
  intros Hm Hg Hin.
  pose proof (resolves_all m) as HR.
  destruct m as [ | | | | | | | |mm|l]; try discriminate. cbn [resolvesP] in HR.
  destruct (HR p v [] (VMap mm) eq_refl Hg eq_refl Hin) as [Hok Hev].
  assert (Hne : p <> []).
  { apply in_leaves_map in Hin as (k & y & p' & _ & -> & _). discriminate. }
  destruct (mem_ascii lbr (render tk false false p)) eqn:Hb.
  - rewrite (values_for_path_indexed pf sep (VMap mm) _ (to_pkeys p) Hb).
    + unfold denote_keys. rewrite Hev. reflexivity.
    + apply parse_path_render; assumption.
    + apply to_pkeys_nonempty; assumption.
    + apply to_pkeys_names, Hok.
  - rewrite values_for_path_plain by exact Hb.
    rewrite render_segs in * by exact Hok.
    rewrite path_keys_join; [|apply segs_nonempty; assumption|apply segs_good, Hok].
    rewrite (segment_plain p Hok (mem_join_false _ _ _ Hb) []) in Hev. cbn [app evalx] in Hev.
    rewrite Hev. reflexivity.
Qed.

Theorem leaf_resolves ap tk m path v :
  is_map m = true -> wfb m = true -> keys_clean m = true -> no_nested_lists m = true ->
  lists_indexable m = true ->
  In (path, v) (leaf_nodes ap tk false m false) ->
  values_for_path pf sep m path [] = Ok [v].
Proof.
  intros Hm Hw Hk Hn Hl Hin. rewrite leaf_nodes_spec in Hin. unfold leaf_spec in Hin.
  apply in_map_iff in Hin as ([p v'] & E & Hin). cbn [fst snd] in E. inversion E; subst.
  apply addr_resolves; [exact Hm|repeat split; assumption|exact Hin].
Qed.

(* every entry, in order: the i-th path resolves to the i-th scalar *)
Theorem leaf_resolves_all ap tk m :
  is_map m = true -> wfb m = true -> keys_clean m = true -> no_nested_lists m = true ->
  lists_indexable m = true ->
  Forall (fun pv => values_for_path pf sep m (fst pv) [] = Ok [snd pv]) (leaf_nodes ap tk false m false).
Proof.
  intros Hm Hw Hk Hn Hl. apply Forall_forall. intros [path v] Hin.
  eapply leaf_resolves; eassumption.
Qed.
End Resolve.

(* ---------- every side condition of [leaf_resolves] is needed ---------- *)
Local Open Scope string_scope.
Definition nopf9 : str -> option flt := fun _ => None.
Definition lf (dotn noattr : bool) (m : value) := leaf_nodes (s"-") (s"#text") dotn m noattr.
Definition vp (m : value) (path : string) := values_for_path nopf9 (s":") m (s path) [].

Theorem leaf_resolves_conditions_needed :
  (* the empty key: ValuesForPath drops the trailing empty segment *)
  (let m := VMap [(s"doc", VMap [(s"", VInt 0)])] in
   lf false false m = [(s"doc.", VInt 0)] /\ vp m "doc." = Ok [VMap [(s"", VInt 0)]]) /\
  (* a key with "." *)
  (let m := VMap [(s"a.b", VInt 1)] in lf false false m = [(s"a.b", VInt 1)] /\ vp m "a.b" = Ok []) /\
  (* a key with "[" *)
  (let m := VMap [(s"a[0]", VInt 1)] in lf false false m = [(s"a[0]", VInt 1)] /\ vp m "a[0]" = Ok []) /\
  (* the key "*" is read as a wildcard *)
  (let m := VMap [(s"*", VInt 1); (s"b", VInt 2)] in
   In (s"*", VInt 1) (lf false false m) /\ vp m "*" = Ok [VInt 1; VInt 2]) /\
  (* a list directly inside a list *)
  (let m := VMap [(s"a", VList [VList [VInt 1]])] in
   lf false false m = [(s"a[0][0]", VInt 1)] /\ vp m "a[0][0]" = Ok [VList [VInt 1]]) /\
  (* dot notation for list members: ".N" is read as a key *)
  (let m := VMap [(s"a", VList [VInt 1; VInt 2])] in
   lf true false m = [(s"a.0", VInt 1); (s"a.1", VInt 2)] /\ vp m "a.0" = Ok []) /\
  (* no-attributes option: the path without the text key denotes the element, not its text *)
  (let m := VMap [(s"a", VMap [(s"#text", VStr (s"t")); (s"-n", VStr (s"1"))])] in
   lf false true m = [(s"a", VStr (s"t"))] /\
   vp m "a" = Ok [VMap [(s"#text", VStr (s"t")); (s"-n", VStr (s"1"))]]).
Proof. vm_compute. repeat split; left; reflexivity. Qed.
Local Close Scope string_scope.

(* ---------- the no-attributes option removes exactly the attribute entries ---------- *)
(* an address survives when none of its keys is dropped *)
Definition keeps (drop : str -> bool) (p : addr) : bool :=
  forallb (fun st => match st with SKey k => negb (drop k) | SIdx _ => true end) p.

Lemma filter_flat_map_distr {A B} (f : B -> bool) (g : A -> list B) l :
  filter f (flat_map g l) = flat_map (fun x => filter f (g x)) l.
Proof. induction l as [|a l IH]; cbn; [reflexivity|]. rewrite filter_app, IH. reflexivity. Qed.

Lemma filter_map_comm {A B} (f : B -> bool) (h : A -> B) l :
  filter f (map h l) = map h (filter (fun x => f (h x)) l).
Proof.
  induction l as [|a l IH]; cbn; [reflexivity|]. rewrite IH. destruct (f (h a)); reflexivity.
Qed.

Lemma filter_indexed_flat {A B} (f : B -> bool) (g : nat -> A -> list B) l : forall i,
  filter f (indexed_flat g l i) = indexed_flat (fun i x => filter f (g i x)) l i.
Proof. induction l as [|a l IH]; intros i; cbn; [reflexivity|]. rewrite filter_app, IH. reflexivity. Qed.

Lemma filter_none {A} (l : list A) : filter (fun _ => false) l = [].
Proof. induction l as [|a l IH]; cbn; [reflexivity|exact IH]. Qed.

Lemma keeps_under_key drop k (pv : addr * value) :
  keeps drop (fst (under (SKey k) pv)) = negb (drop k) && keeps drop (fst pv).
Proof. reflexivity. Qed.
Lemma keeps_under_idx drop i (pv : addr * value) :
  keeps drop (fst (under (SIdx i) pv)) = keeps drop (fst pv).
Proof. reflexivity. Qed.

Lemma leaves_prune drop : forall v,
  leaves (prune drop v) = filter (fun pv => keeps drop (fst pv)) (leaves v).
Proof.
  induction v as [ | | | | | | | |m IH|l IH] using value_ind2; try reflexivity.
  - cbn [prune leaves]. rewrite flat_map_flat_map, filter_flat_map_distr.
    apply flat_map_ext_Forall. eapply Forall_impl; [|exact IH]. intros [k x] Hx. cbn [fst snd] in *.
    rewrite filter_map_comm.
    rewrite (filter_ext _ (fun pv => negb (drop k) && keeps drop (fst pv)) (keeps_under_key drop k)).
    destruct (drop k); cbn [negb andb].
    + rewrite filter_none. reflexivity.
    + cbn [flat_map fst snd]. rewrite app_nil_r, Hx. reflexivity.
  - cbn [prune leaves]. rewrite indexed_flat_map_arg, filter_indexed_flat.
    apply indexed_flat_ext_Forall. eapply Forall_impl; [|exact IH]. intros x Hx i. cbn beta.
    rewrite filter_map_comm.
    rewrite (filter_ext _ (fun pv => keeps drop (fst pv)) (keeps_under_idx drop i)).
    rewrite Hx. reflexivity.
Qed.

(* LeafNodes(NoAttributes): the leaves none of whose keys has the attribute
   prefix, each with its path rendered without the text-key nodes *)
Theorem noattr_exact ap tk dotn m :
  leaf_nodes ap tk dotn m true =
  map (fun pv => (render tk dotn true (fst pv), snd pv))
      (filter (fun pv => keeps (is_attr ap) (fst pv)) (leaves m)).
Proof. rewrite leaf_nodes_spec. unfold leaf_spec, strip_attrs. rewrite leaves_prune. reflexivity. Qed.

(* without the option nothing is removed and every node is rendered *)
Theorem attr_exact ap tk dotn m :
  leaf_nodes ap tk dotn m false = map (fun pv => (render tk dotn false (fst pv), snd pv)) (leaves m).
Proof. rewrite leaf_nodes_spec. reflexivity. Qed.

(* the two renderings differ exactly by the nodes equal to the text key *)
Theorem render_noattr tk dotn p :
  render tk dotn true p =
  fold_left add_seg (filter (fun node => negb (str_eqb node tk)) (map (node_of dotn) p)) [] /\
  render tk dotn false p = fold_left add_seg (map (node_of dotn) p) [].
Proof. unfold render. rewrite filter_keep_false. split; reflexivity. Qed.

(* ---------- dot notation: the same paths when there is no list; with a list the
   ".N" paths do not resolve (witness in leaf_resolves_conditions_needed) ---------- *)
Fixpoint no_lists (v : value) : bool :=
  match v with
  | VMap m => forallb (fun kv => no_lists (snd kv)) m
  | VList _ => false
  | _ => true
  end.
Definition idx_free (p : addr) : bool :=
  forallb (fun st => match st with SKey _ => true | SIdx _ => false end) p.

Lemma leaves_idx_free : forall v, no_lists v = true ->
  forall p y, In (p, y) (leaves v) -> idx_free p = true.
Proof.
  induction v as [ | | | | | | | |m IH|l IH] using value_ind2; intros Hn p y0 Hin;
    try (destruct Hin as [E|[]]; inversion E; reflexivity).
  - apply in_leaves_map in Hin as (k & y & p' & Hky & -> & Hin).
    cbn [no_lists] in Hn. rewrite forallb_forall in Hn. specialize (Hn _ Hky).
    rewrite Forall_forall in IH. exact (IH _ Hky Hn p' y0 Hin).
  - discriminate.
Qed.

Lemma no_lists_prune drop : forall v, no_lists v = true -> no_lists (prune drop v) = true.
Proof.
  induction v as [ | | | | | | | |m IH|l IH] using value_ind2; intros Hn; try exact Hn.
  cbn [prune no_lists] in *. rewrite forallb_forall in *. intros [k y] Hin.
  apply in_flat_map in Hin as ([k0 y0] & Hin0 & Hin). cbn [fst snd] in Hin.
  destruct (drop k0); [contradiction|]. destruct Hin as [E|[]]. inversion E; subst.
  rewrite Forall_forall in IH. exact (IH _ Hin0 (Hn _ Hin0)).
Qed.

Lemma node_of_idx_free p : idx_free p = true -> map (node_of true) p = map (node_of false) p.
Proof.
  induction p as [|[k|i] p IH]; intros H; [reflexivity| |discriminate].
  cbn [map node_of]. rewrite IH by exact H. reflexivity.
Qed.

Theorem dotn_irrelevant ap tk m noattr :
  no_lists m = true -> leaf_nodes ap tk true m noattr = leaf_nodes ap tk false m noattr.
Proof.
  intros Hn. rewrite !leaf_nodes_spec. unfold leaf_spec. apply map_ext_in. intros [p x] Hin.
  cbn [fst snd]. f_equal. unfold render. rewrite node_of_idx_free; [reflexivity|].
  eapply leaves_idx_free; [|exact Hin].
  destruct noattr; [apply no_lists_prune, Hn|exact Hn].
Qed.

Lemma no_lists_shape : forall v, no_lists v = true -> no_nested_lists v = true /\ lists_indexable v = true.
Proof.
  induction v as [ | | | | | | | |m IH|l IH] using value_ind2; intros Hn; try (split; reflexivity).
  - cbn [no_lists no_nested_lists lists_indexable] in *. rewrite !forallb_forall in *.
    rewrite Forall_forall in IH. split; intros kv Hin; apply (IH _ Hin (Hn _ Hin)).
  - discriminate.
Qed.

Theorem leaf_resolves_dot pf sep ap tk dotn m path v :
  is_map m = true -> wfb m = true -> keys_clean m = true -> no_lists m = true ->
  In (path, v) (leaf_nodes ap tk dotn m false) ->
  values_for_path pf sep m path [] = Ok [v].
Proof.
  intros Hm Hw Hk Hn Hin. destruct (no_lists_shape m Hn) as [H1 H2].
  destruct dotn; [rewrite dotn_irrelevant in Hin by exact Hn|]; eapply leaf_resolves; eassumption.
Qed.
