(* Totality of the tree-walker models: no argument makes them panic (C15 clauses
   of C08-C12).  The only partial operations of the Go code in these functions
   are the ones the model guards explicitly; see Proofs/C07P.v for parsePath. *)
From Mxj Require Import Model.TreeOps Proofs.StrLemmas Proofs.C07P.

Section T.
Variable pf : str -> option flt.
Variable sep : str.

Lemma values_for_key_no_panic m k sk : values_for_key pf sep m k sk <> Panic.
Proof.
  unfold values_for_key. pose proof (get_sub_key_map_no_panic pf sep sk).
  destruct (get_sub_key_map pf sep sk); cbn; congruence.
Qed.

Lemma parse_newval_no_panic nv : parse_newval pf sep nv <> Panic.
Proof.
  destruct nv as [m|x|]; cbn; try discriminate.
  - destruct m as [|[k v] [|? ?]]; discriminate.
  - destruct (split sep x) as [|a [|b [|c [|d t]]]]; try discriminate.
    repeat match goal with |- context [if ?c then _ else _] => destruct c end; try discriminate;
    repeat match goal with |- context [match ?c with Some _ => _ | None => _ end] => destruct c end; discriminate.
Qed.

Lemma update_no_panic m nv path sk : update_values_for_path pf sep m nv path sk <> Panic.
Proof.
  unfold update_values_for_path.
  pose proof (get_sub_key_map_no_panic pf sep sk). pose proof (parse_newval_no_panic nv).
  destruct (get_sub_key_map pf sep sk); cbn; try congruence.
  destruct (parse_newval pf sep nv); cbn; congruence.
Qed.

Lemma values_for_path_loc_no_panic m path : values_for_path_loc m path <> Panic.
Proof.
  unfold values_for_path_loc. destruct (negb (mem_ascii lbr path)); [discriminate|].
  pose proof (parse_path_no_panic path). destruct (parse_path path); cbn; congruence.
Qed.

Lemma set_no_panic m v path : set_value_for_path m v path <> Panic.
Proof.
  unfold set_value_for_path.
  pose proof (values_for_path_loc_no_panic m (join sdot (removelast (split1 dot path)))) as H.
  destruct (values_for_path_loc m _) as [vs| |]; cbn; try congruence.
  destruct vs as [|[p x] t]; [discriminate|]. destruct x; discriminate.
Qed.

Lemma with_parent_no_panic f keys m : with_parent keys f m <> Panic.
Proof.
  revert m; induction keys as [|k rest IH]; intros m; destruct m; cbn; try discriminate.
  destruct rest as [|k2 rest2].
  - destruct (has_key k m); discriminate.
  - destruct (lookup k m) as [v|]; [|discriminate].
    specialize (IH v). destruct (with_parent (k2 :: rest2) f v); cbn; congruence.
Qed.

Lemma remove_no_panic m path : remove_path m path <> Panic.
Proof. apply with_parent_no_panic. Qed.

Lemma rename_no_panic m path nn : rename_key pf sep m path nn <> Panic.
Proof.
  unfold rename_key, exists_path.
  pose proof (values_for_path_no_panic pf sep m path []) as H1.
  pose proof (values_for_path_no_panic pf sep m (sibling_path path nn) []) as H2.
  destruct (values_for_path pf sep m path []) as [[|? ?]| |]; cbn; try congruence; try discriminate.
  destruct (values_for_path pf sep m (sibling_path path nn) []) as [[|? ?]| |]; cbn; try congruence; try discriminate.
  apply with_parent_no_panic.
Qed.

(* RenameKey refuses to overwrite an existing sibling, at any depth including the top level *)
Lemma rename_refuses_existing m path nn :
  exists_path pf sep m (sibling_path path nn) [] = Ok true ->
  forall m', rename_key pf sep m path nn <> Ok m'.
Proof.
  intros H m'. unfold rename_key. rewrite H.
  destruct (exists_path pf sep m path []) as [[|]| |]; discriminate.
Qed.

Lemma new_map_pair_no_panic mv n v : new_map_pair pf sep mv n v <> Panic.
Proof.
  unfold new_map_pair. destruct v as [|c v']; [discriminate|].
  destruct (split1 colon (c :: v')) as [|a [|b [|d t]]]; cbn [hd]; try discriminate.
  - destruct (mem_ascii "*"%char a); [discriminate|]. destruct (mem_ascii lbr a); [discriminate|].
    destruct a; [discriminate|].
    pose proof (values_for_path_no_panic pf sep mv (a :: a0) []) as H.
    destruct (values_for_path pf sep mv (a :: a0) []) as [[|? ?]| |]; cbn; congruence.
  - destruct (mem_ascii "*"%char b); [discriminate|]. destruct (mem_ascii lbr b); [discriminate|].
    destruct a; [discriminate|]. destruct b; [discriminate|].
    pose proof (values_for_path_no_panic pf sep mv (a :: a0) []) as H.
    destruct (values_for_path pf sep mv (a :: a0) []) as [[|? ?]| |]; cbn; congruence.
Qed.

Lemma new_map_no_panic mv pairs : snd (new_map pf sep mv pairs) <> Panic.
Proof.
  unfold new_map. generalize (@nil (str * value)) as n.
  induction pairs as [|v t IH]; intros n; cbn; [discriminate|].
  pose proof (new_map_pair_no_panic mv n v).
  destruct (new_map_pair pf sep mv n v); cbn; [apply IH|discriminate|congruence].
Qed.
End T.
