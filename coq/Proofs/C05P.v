(* C05 - proofs: the validity check, the setters' invariant, escaping exactly once in the
   Map encoder, decoder-side escaping.  Character-level lemmas are in Proofs/EscP.v. *)
From Mxj Require Import Spec.EscSpec Spec.CastSpec Proofs.StrLemmas Proofs.EscP Proofs.C14P Proofs.C14Dec.
From Mxj Require Import Run.RunXml.
Local Open Scope list_scope.

(* ---------------- the validity check ---------------- *)
Lemma checked_sound_l o (accept : str -> bool) r its :
  xmlCheckIsValid o = true -> checked_enc o accept r = Ok its -> accept (emit its) = true.
Proof.
  intros Hc. unfold checked_enc. destruct r as [its'|e|]; try discriminate. rewrite Hc. cbn [andb].
  destruct (accept (emit its')) eqn:A; cbn [negb]; [|discriminate]. intro E. injection E as <-. exact A.
Qed.

(* ... hence whatever the acceptor guarantees about the bytes it accepts holds of the output *)
Lemma checked_wf_partial_l (wf : str -> Prop) o (accept : str -> bool) r its :
  (forall b, accept b = true -> wf b) ->
  xmlCheckIsValid o = true -> checked_enc o accept r = Ok its -> wf (emit its).
Proof. intros Hwf Hc E. apply Hwf. exact (checked_sound_l o accept r its Hc E). Qed.

(* with the check off nothing is rejected *)
Lemma checked_off_l o accept r : xmlCheckIsValid o = false -> checked_enc o accept r = r.
Proof. intro Hc. unfold checked_enc. destruct r; try reflexivity. rewrite Hc. reflexivity. Qed.

(* the wrapper of Run/RunXml.v (the acceptance bit observed by the harness) is this check *)
Lemma checked_enc_run o accept r :
  checked_enc o accept r = match r with Ok its => checked o (accept (emit its)) r | _ => r end.
Proof. destruct r; reflexivity. Qed.

(* the check on the bytes of any encoder *)
Lemma checked_bytes_sound_l o (accept : str -> bool) r b :
  xmlCheckIsValid o = true -> checked_bytes o accept r = Ok b -> accept b = true.
Proof.
  intros Hc. unfold checked_bytes. destruct r as [b'|e|]; try discriminate. rewrite Hc. cbn [andb].
  destruct (accept b') eqn:A; cbn [negb]; [|discriminate]. intro E. injection E as <-. exact A.
Qed.
Lemma checked_enc_bytes o accept r :
  match checked_enc o accept r with Ok its => Ok (emit its) | Err e => Err e | Panic => Panic end =
  checked_bytes o accept (match r with Ok its => Ok (emit its) | Err e => Err e | Panic => Panic end).
Proof.
  unfold checked_enc, checked_bytes. destruct r as [its|e|]; try reflexivity.
  destruct (xmlCheckIsValid o && negb (accept (emit its))); reflexivity.
Qed.
(* the two Map encoders of Model/XmlEnc.v *)
Lemma map_xml_checked_sound_l o accept m root its :
  xmlCheckIsValid o = true -> checked_enc o accept (map_xml_items o m root) = Ok its -> accept (emit its) = true.
Proof. apply checked_sound_l. Qed.
Lemma map_xml_indent_checked_sound_l o accept m root its :
  xmlCheckIsValid o = true -> checked_enc o accept (map_xml_indent_items o m root) = Ok its -> accept (emit its) = true.
Proof. apply checked_sound_l. Qed.

(* ---------------- XMLEscapeChars / XMLEscapeCharsDecoder never both on ---------------- *)
Definition esc_inv (o : opts) : Prop := xmlEscapeChars o && xmlEscapeCharsDecoder o = false.

Lemma apply_call_inv o c : esc_inv (apply_call o c).
Proof.
  unfold esc_inv. destruct c as [b|b]; cbn [apply_call]; unfold set_esc, set_escdec, with_esc; cbn.
  - destruct (xmlEscapeCharsDecoder o); rewrite ?andb_false_r; reflexivity.
  - destruct (match b with Some b0 => b0 | None => negb (xmlEscapeCharsDecoder o) end), (xmlEscapeChars o); reflexivity.
Qed.

Lemma apply_calls_inv h : forall o, esc_inv o -> esc_inv (apply_calls h o).
Proof.
  unfold apply_calls. induction h as [|c h IH]; intros o Ho; cbn [fold_left]; [exact Ho|].
  apply IH. apply apply_call_inv.
Qed.

(* the setters touch nothing else *)
Lemma apply_call_frame o c :
  same_structure_opts o (apply_call o c) /\ cast_opts_eq o (apply_call o c) /\
  xmlCheckIsValid (apply_call o c) = xmlCheckIsValid o /\
  useGoXmlEmptyElemSyntax (apply_call o c) = useGoXmlEmptyElemSyntax o.
Proof. destruct c; cbn; repeat split. Qed.

(* ---------------- the Map encoder escapes each string exactly once ---------------- *)
Section EncP.
Variable o : opts.

(* a string leaf: element text, attribute value, text-key value *)
Lemma enc_string_leaf x key :
  enc o (VStr x) key =
  Ok (match esc o x with [] => close_or_empty o key [] | e => [IOpen key []; IText e; IClose key] end).
Proof. cbn [enc]. destruct (esc o x); reflexivity. Qed.
Lemma no_double_escape_l x key :
  enc o (VStr x) key =
    Ok (match esc o x with [] => close_or_empty o key [] | e => [IOpen key []; IText e; IClose key] end) /\
  attr_text o (VStr x) = Some (esc o x) /\
  text_text o (VStr x) = esc o x /\
  esc o x = (if xmlEscapeChars o then escape_chars x else x).
Proof. split; [apply enc_string_leaf|]. repeat split. Qed.
Lemma attr_string_leaf x : attr_text o (VStr x) = Some (esc o x).
Proof. reflexivity. Qed.
Lemma text_string_leaf x : text_text o (VStr x) = esc o x.
Proof. reflexivity. Qed.

Lemma esc_on x : xmlEscapeChars o = true -> esc o x = escape_chars x.
Proof. unfold esc. intros ->. reflexivity. Qed.
Lemma esc_off x : xmlEscapeChars o = false -> esc o x = x.
Proof. unfold esc. intros ->. reflexivity. Qed.

(* every "#text" entry of a Map is a scalar (what every decoder produces) *)
Fixpoint text_scalar (v : value) : bool :=
  match v with
  | VMap m => (match lookup (textK o) m with Some tv => is_scalar tv | None => true end)
              && forallb (fun kv => text_scalar (snd kv)) m
  | VList l => forallb text_scalar l
  | _ => true
  end.

Lemma raw_texts_app a b : raw_texts (a ++ b) = raw_texts a ++ raw_texts b.
Proof. unfold raw_texts. apply flat_map_app. Qed.

Lemma raw_close_or_empty key attrs : raw_texts (close_or_empty o key attrs) = map snd attrs.
Proof. unfold close_or_empty. destruct (useGoXmlEmptyElemSyntax o); cbn; rewrite ?app_nil_r; reflexivity. Qed.

Lemma insert_by_key_in {A} (kv : str * A) l x : In x (insert_by_key kv l) <-> x = kv \/ In x l.
Proof.
  induction l as [|h t IH]; cbn [insert_by_key]; [cbn; intuition|].
  destruct (str_leb (fst kv) (fst h)); cbn [In]; [intuition|]. rewrite IH. cbn [In]. intuition.
Qed.
Lemma sort_by_key_in {A} (l : list (str * A)) x : In x (sort_by_key l) <-> In x l.
Proof.
  unfold sort_by_key. induction l as [|h t IH]; cbn [fold_right]; [reflexivity|].
  rewrite insert_by_key_in, IH. cbn [In]. intuition.
Qed.

Lemma scalar_leaf_raw v : is_scalar v = true -> scalar_leaves v = [v].
Proof. destruct v; try discriminate; reflexivity. Qed.

Lemma attr_text_leaf v x : attr_text o v = Some x -> is_scalar v = true /\ x = leaf_raw o v.
Proof. destruct v; cbn; intro H; try discriminate; injection H as <-; split; reflexivity. Qed.

Lemma attrs_of_in m : forall a, attrs_of o m = Ok a ->
  forall p, In p a -> exists k v, In (k, v) m /\ is_scalar v = true /\ snd p = leaf_raw o v.
Proof.
  induction m as [|[k v] m IH]; intros a H p Hp; cbn [attrs_of] in H.
  - injection H as <-. destruct Hp.
  - destruct (is_attr_key o k).
    + destruct (attr_text o v) as [x|] eqn:Ex; [|discriminate].
      destruct (attrs_of o m) as [r| |] eqn:Er; cbn [bind] in H; try discriminate.
      injection H as <-. destruct Hp as [<-|Hp].
      * destruct (attr_text_leaf _ _ Ex) as [Hs ->]. exists k, v. cbn. auto.
      * destruct (IH r eq_refl p Hp) as (k' & v' & Hin & Hs & Hr). exists k', v'. cbn. auto.
    + destruct (IH a H p Hp) as (k' & v' & Hin & Hs & Hr). exists k', v'. cbn. auto.
Qed.

Lemma concat_res_in l : forall body, concat_res l = Ok body ->
  forall raw, In raw (raw_texts body) -> exists its, In (Ok its) l /\ In raw (raw_texts its).
Proof.
  induction l as [|r l IH]; intros body H raw Hr; cbn [concat_res] in H.
  - injection H as <-. destruct Hr.
  - destruct r as [a|e|]; cbn [bind] in H; try discriminate.
    destruct (concat_res l) as [b|e|] eqn:Eb; cbn [bind] in H; try discriminate.
    injection H as <-. rewrite raw_texts_app in Hr. apply in_app_or in Hr as [Hr|Hr].
    + exists a. split; [left; reflexivity|exact Hr].
    + destruct (IH b eq_refl raw Hr) as (its & Hin & Hraw). exists its. split; [right; exact Hin|exact Hraw].
Qed.

Definition leaves_raw (v : value) : list str := map (leaf_raw o) (scalar_leaves v).

Lemma leaves_raw_entry k v m : In (k, v) m -> incl (leaves_raw v) (leaves_raw (VMap m)).
Proof.
  intros Hin raw Hr. unfold leaves_raw in *. cbn [scalar_leaves]. apply in_map_iff in Hr as (lf & <- & Hl).
  apply in_map. apply in_flat_map. exists (k, v). split; [exact Hin|exact Hl].
Qed.
Lemma leaves_raw_member v l : In v l -> incl (leaves_raw v) (leaves_raw (VList l)).
Proof.
  intros Hin raw Hr. unfold leaves_raw in *. cbn [scalar_leaves]. apply in_map_iff in Hr as (lf & <- & Hl).
  apply in_map. apply in_flat_map. exists v. split; [exact Hin|exact Hl].
Qed.

Lemma lookup_in k m v : lookup k m = Some v -> exists k', In (k', v) m.
Proof.
  induction m as [|[k' v'] m IH]; cbn [lookup]; [discriminate|].
  destruct (str_eqb k k'); [intro H; injection H as <-; exists k'; left; reflexivity|].
  intro H. destruct (IH H) as [k'' Hin]. exists k''. right. exact Hin.
Qed.

(* every raw text the encoder writes is the (once-escaped) text of a scalar leaf of the value *)
Lemma enc_raw_from_leaves_l : forall v key its,
  text_scalar v = true -> enc o v key = Ok its -> incl (raw_texts its) (leaves_raw v).
Proof.
  induction v as [x|b| |z|z|z|g|x|m IH|l IH] using value_ind2; intros key its Hts H.
  - rewrite enc_string_leaf in H. injection H as <-. unfold leaves_raw. cbn [scalar_leaves map leaf_raw].
    destruct (esc o x) as [|c e] eqn:E; [rewrite raw_close_or_empty; intros r []|].
    cbn. intros r [<-|[]]. left. reflexivity.
  - cbn [enc] in H. unfold leaves_raw. cbn [scalar_leaves map leaf_raw].
    destruct (fmt_v _) as [|c e]; injection H as <-; [rewrite raw_close_or_empty; intros r []|].
    cbn. intros r [<-|[]]. left. reflexivity.
  - cbn [enc] in H. injection H as <-. rewrite raw_close_or_empty. intros r [].
  - cbn [enc] in H. unfold leaves_raw. cbn [scalar_leaves map leaf_raw].
    destruct (fmt_v _) as [|c e]; injection H as <-; [rewrite raw_close_or_empty; intros r []|].
    cbn. intros r [<-|[]]. left. reflexivity.
  - cbn [enc] in H. unfold leaves_raw. cbn [scalar_leaves map leaf_raw].
    destruct (fmt_v _) as [|c e]; injection H as <-; [rewrite raw_close_or_empty; intros r []|].
    cbn. intros r [<-|[]]. left. reflexivity.
  - cbn [enc] in H. unfold leaves_raw. cbn [scalar_leaves map leaf_raw].
    destruct (fmt_v _) as [|c e]; injection H as <-; [rewrite raw_close_or_empty; intros r []|].
    cbn. intros r [<-|[]]. left. reflexivity.
  - cbn [enc] in H. unfold leaves_raw. cbn [scalar_leaves map leaf_raw].
    destruct (fmt_v _) as [|c e]; injection H as <-; [rewrite raw_close_or_empty; intros r []|].
    cbn. intros r [<-|[]]. left. reflexivity.
  - cbn [enc] in H. unfold leaves_raw. cbn [scalar_leaves map leaf_raw].
    destruct (fmt_v _) as [|c e]; injection H as <-; [rewrite raw_close_or_empty; intros r []|].
    cbn. intros r [<-|[]]. left. reflexivity.
  - (* a map *)
    cbn [enc] in H. cbn [text_scalar] in Hts. apply andb_true_iff in Hts as [Htx Hkids].
    destruct (attrs_of o m) as [attrs|e|] eqn:Ea; cbn [bind] in H; try discriminate.
    assert (incl (map snd (sort_by_key attrs)) (leaves_raw (VMap m))) as Hattrs.
    { intros r Hr. apply in_map_iff in Hr as (p & <- & Hp). apply (proj1 (sort_by_key_in _ _)) in Hp.
      destruct (attrs_of_in _ _ Ea p Hp) as (k & v & Hin & Hs & ->).
      apply (leaves_raw_entry k v m Hin). unfold leaves_raw. rewrite (scalar_leaf_raw _ Hs). left. reflexivity. }
    assert (forall (sel : str * res (list item) -> bool) body,
              concat_res (map snd (sort_by_key (filter sel (map (fun kv => (fst kv, enc o (snd kv) (fst kv))) m)))) = Ok body ->
              incl (raw_texts body) (leaves_raw (VMap m))) as Hbody.
    { intros sel body Hb r Hr. destruct (concat_res_in _ _ Hb r Hr) as (its' & Hin & Hraw).
      apply in_map_iff in Hin as ([k e] & Ee & Hin). cbn in Ee. subst e.
      apply (proj1 (sort_by_key_in _ _)) in Hin. apply filter_In in Hin as [Hin _].
      apply in_map_iff in Hin as ([k' v'] & Ee & Hin). cbn in Ee. injection Ee as <- Ee.
      rewrite Forall_forall in IH. specialize (IH (k', v') Hin). cbn [snd] in IH.
      rewrite forallb_forall in Hkids. specialize (Hkids (k', v') Hin). cbn [snd] in Hkids.
      apply (leaves_raw_entry k' v' m Hin). eapply IH; [exact Hkids|exact Ee|exact Hraw]. }
    destruct (Nat.eqb (length (sort_by_key attrs)) (length m)).
    { injection H as <-. rewrite raw_close_or_empty. exact Hattrs. }
    destruct (lookup (textK o) m) as [tv|] eqn:Et.
    + assert (In (text_text o tv) (leaves_raw (VMap m))) as Htv.
      { destruct (lookup_in _ _ _ Et) as [k' Hin]. apply (leaves_raw_entry k' tv m Hin).
        unfold leaves_raw. rewrite (scalar_leaf_raw _ Htx). left. destruct tv; try discriminate Htx; reflexivity. }
      destruct (Nat.eqb (S (length (sort_by_key attrs))) (length m)).
      * injection H as <-. cbn. rewrite ?app_nil_r. intros r Hr. apply in_app_or in Hr as [Hr|[<-|[]]]; [apply Hattrs, Hr|exact Htv].
      * match type of H with bind (concat_res ?l) _ = _ => destruct (concat_res l) as [body|e|] eqn:Eb end;
          cbn [bind] in H; try discriminate. injection H as <-.
        change (IOpen key (sort_by_key attrs) :: IText (text_text o tv) :: body ++ [IClose key])
          with ([IOpen key (sort_by_key attrs); IText (text_text o tv)] ++ body ++ [IClose key]).
        rewrite !raw_texts_app. cbn [raw_texts flat_map]. rewrite ?app_nil_r.
        intros r Hr. apply in_app_or in Hr as [Hr|Hr].
        { apply in_app_or in Hr as [Hr|[<-|[]]]; [apply Hattrs, Hr|exact Htv]. }
        { eapply Hbody; [exact Eb|exact Hr]. }
    + match type of H with bind (concat_res ?l) _ = _ => destruct (concat_res l) as [body|e|] eqn:Eb end;
        cbn [bind] in H; try discriminate. injection H as <-.
      change (IOpen key (sort_by_key attrs) :: body ++ [IClose key])
        with ([IOpen key (sort_by_key attrs)] ++ body ++ [IClose key]).
      rewrite !raw_texts_app. cbn [raw_texts flat_map]. rewrite ?app_nil_r.
      intros r Hr. apply in_app_or in Hr as [Hr|Hr]; [apply Hattrs, Hr|].
      eapply Hbody; [exact Eb|exact Hr].
  - (* a list *)
    cbn [enc] in H. destruct l as [|v0 l']; [injection H as <-; rewrite raw_close_or_empty; intros r []|].
    intros r Hr. destruct (concat_res_in _ _ H r Hr) as (its' & Hin & Hraw).
    apply in_map_iff in Hin as (v & Ee & Hin).
    rewrite Forall_forall in IH. specialize (IH v Hin).
    cbn [text_scalar] in Hts. rewrite forallb_forall in Hts. specialize (Hts v Hin).
    apply (leaves_raw_member v _ Hin). eapply IH; [exact Hts|exact Ee|exact Hraw].
Qed.
End EncP.

(* ---------------- decoder-side escaping, then encoding with encoder escaping off ---------------- *)
(* the raw text written for a leaf decoded under XMLEscapeCharsDecoder is the escaped token text,
   which the tokenizer reads back as the token text *)
Lemma dec_esc_leaf_roundtrip o x :
  xmlEscapeChars o = false ->
  leaf_raw o (VStr (escape_chars x)) = escape_chars x /\
  unescape (leaf_raw o (VStr (escape_chars x))) = Some x /\
  safe_raw (leaf_raw o (VStr (escape_chars x))) = true.
Proof.
  intro E. cbn [leaf_raw]. rewrite (esc_off o _ E).
  split; [reflexivity|split; [apply unescape_escape_l|apply escape_safe_l]].
Qed.

(* encoder-side escaping: the raw text of a string leaf is safe and reads back as the string *)
Lemma enc_esc_leaf_roundtrip o x :
  xmlEscapeChars o = true ->
  unescape (leaf_raw o (VStr x)) = Some x /\ safe_raw (leaf_raw o (VStr x)) = true.
Proof.
  intro E. cbn [leaf_raw]. rewrite (esc_on o _ E). split; [apply unescape_escape_l|apply escape_safe_l].
Qed.

(* ---------------- whole-Map consequences ---------------- *)
(* encoder-side escaping: every text the Map encoder writes is the safe, once-escaped text of a
   string leaf, or the %v text of a non-string scalar *)
Lemma enc_esc_safe_l o v key its :
  xmlEscapeChars o = true -> text_scalar o v = true -> enc o v key = Ok its ->
  forall raw, In raw (raw_texts its) ->
    (exists x, In (VStr x) (scalar_leaves v) /\ raw = escape_chars x /\ safe_raw raw = true /\ unescape raw = Some x) \/
    (exists l, In l (scalar_leaves v) /\ (forall x, l <> VStr x) /\ raw = leaf_raw o l).
Proof.
  intros E Hts H raw Hr. pose proof (enc_raw_from_leaves_l o v key its Hts H raw Hr) as Hin.
  unfold leaves_raw in Hin. apply in_map_iff in Hin as (l & <- & Hl).
  destruct l as [x| | | | | | | | |]; try (right; eexists; split; [exact Hl|split; [discriminate|reflexivity]]).
  left. exists x. cbn [leaf_raw]. rewrite (esc_on o _ E).
  split; [exact Hl|split; [reflexivity|split; [apply escape_safe_l|apply unescape_escape_l]]].
Qed.

Definition safe_leaf (v : value) : bool :=
  match v with VStr y => safe_raw y | VInt _ => true | _ => false end.

Lemma all_leaves_in p v : all_leaves p v = true -> forall l, In l (scalar_leaves v) -> p l = true.
Proof.
  induction v as [x|b| |z|z|z|g|x|m IH|l' IH] using value_ind2; intros H l Hl;
    try (cbn in Hl; destruct Hl as [<-|[]]; exact H).
  - cbn [all_leaves] in H. cbn [scalar_leaves] in Hl. apply in_flat_map in Hl as (kv & Hkv & Hl).
    rewrite forallb_forall in H. rewrite Forall_forall in IH. exact (IH kv Hkv (H kv Hkv) l Hl).
  - cbn [all_leaves] in H. cbn [scalar_leaves] in Hl. apply in_flat_map in Hl as (v & Hv & Hl).
    rewrite forallb_forall in H. rewrite Forall_forall in IH. exact (IH v Hv (H v Hv) l Hl).
Qed.

(* under decoder-side escaping every string leaf of the decoded Map is a safe raw text ... *)
Lemma dec_esc_leaves_safe_l pf skip o ts tm v :
  xmlEscapeCharsDecoder o = true -> xml_decode pf skip o false ts tm = Ok v -> all_leaves safe_leaf v = true.
Proof.
  intros Ed E.
  pose proof (decode_rel pf skip o o false false (fun _ v1 => safe_leaf v1 = true) (same_structure_refl o)) as H.
  assert (forall x t, safe_leaf (leaf_at pf skip o false x t) = true) as Hl.
  { intros x t. unfold leaf_at. rewrite cast_off, Ed. cbn [safe_leaf]. apply escape_safe_l. }
  specialize (H Hl eq_refl (fun z => eq_refl) ts tm). rewrite E in H. cbn in H.
  eapply (vrel_all_leaves _ safe_leaf); [|exact H]. intros v0 v1 _ L. exact L.
Qed.

(* ... so re-encoding it with encoder escaping off writes only safe texts (and "_seq" numbers) *)
Lemma dec_esc_reencode_l pf skip o ts tm v key its :
  xmlEscapeCharsDecoder o = true -> xmlEscapeChars o = false ->
  xml_decode pf skip o false ts tm = Ok v -> text_scalar o v = true -> enc o v key = Ok its ->
  forall raw, In raw (raw_texts its) -> safe_raw raw = true \/ exists z, raw = ztoa z.
Proof.
  intros Ed Ee E Hts H raw Hr. pose proof (enc_raw_from_leaves_l o v key its Hts H raw Hr) as Hin.
  unfold leaves_raw in Hin. apply in_map_iff in Hin as (l & <- & Hl).
  pose proof (all_leaves_in _ _ (dec_esc_leaves_safe_l pf skip o ts tm v Ed E) l Hl) as Hs.
  destruct l as [x| | |z| | | | | |]; try discriminate Hs.
  - left. cbn [leaf_raw]. rewrite (esc_off o _ Ee). exact Hs.
  - right. exists z. reflexivity.
Qed.
