(* C15: totality of the remaining modelled entry points.
   - leaf walkers (leafnode.go), key search (keyvalues.go): the model functions are total functions
     returning lists; what can go wrong in the Go code are the index expressions ss[i] = ln[i].Path,
     paths[0] / paths[1:], and the attribute-prefix test on an empty key - stated here as in-range /
     membership facts for every Map (empty keys included);
   - JSON: getJson and the reader entry points on every schedule, NewMapJson relative to the decoder oracle,
     the bulk handlers and file readers relative to the reader function;
   - the walkers of x2j-wrapper and the thin wrappers of j2x / x2j / x2j-wrapper relative to the codec. *)
From Mxj Require Import Model.X2jWrap Model.Reader Model.Json Spec.KeySearch
  Proofs.StrLemmas Proofs.C07P Proofs.KVTotal Proofs.C08P Proofs.C09P Proofs.C20P Proofs.C13Top.
Import ListNotations.

(* ================= 1. leaf walkers ================= *)
(* leafnode.go: `if noattr && len(attrPrefix) > 0 && strings.Index(k, attrPrefix) == 0`: an empty key is never
   taken for an attribute (it was node[:1] / k[:1] on the pinned tree) *)
Lemma skip_attr_empty_key ap noattr : skip_attr ap noattr [] = false.
Proof. unfold skip_attr. destruct noattr; [|reflexivity]. destruct ap; reflexivity. Qed.

(* LeafPaths / LeafValues: `for i := 0; i < len(ln); i++ { ss[i] = ln[i].Path }` - every index the loops use is
   inside both slices, for every Map and both option values *)
Theorem leaf_index_in_range ap tk dotn m noattr i :
  i < length (leaf_nodes ap tk dotn m noattr) ->
  exists p v, nth_error (leaf_nodes ap tk dotn m noattr) i = Some (p, v) /\
              nth_error (leaf_paths ap tk dotn m noattr) i = Some p /\
              nth_error (leaf_values ap tk dotn m noattr) i = Some v.
Proof.
  intros Hi. unfold leaf_paths, leaf_values.
  destruct (nth_error (leaf_nodes ap tk dotn m noattr) i) as [[p v]|] eqn:E.
  - exists p, v. split; [reflexivity|]. split.
    + rewrite nth_error_map, E. reflexivity.
    + rewrite nth_error_map, E. reflexivity.
  - apply nth_error_None in E. lia.
Qed.

(* a Map whose only key is empty, under the no-attributes option: one leaf, no panic *)
Lemma leaf_nodes_empty_key ap tk dotn noattr v :
  is_scalar v = true ->
  leaf_nodes ap tk dotn (VMap [([], v)]) noattr = [(leaf_path tk (leaf_path tk [] [] noattr) [] noattr, v)].
Proof.
  intros Hv. unfold leaf_nodes. cbn [get_leaf_nodes flat_map fst snd]. rewrite skip_attr_empty_key.
  destruct v; try discriminate Hv; reflexivity.
Qed.

(* ================= 2. key search ================= *)
(* PathForKeyShortest: `paths[0]`, `paths[1:]` are guarded by the length tests - the result is "" exactly when
   there is no path, otherwise one of the paths *)
Theorem path_for_key_shortest_total m k :
  (paths_for_key m k = [] /\ path_for_key_shortest m k = []) \/
  (paths_for_key m k <> [] /\ In (path_for_key_shortest m k) (paths_for_key m k)).
Proof.
  unfold path_for_key_shortest. rewrite xw_shortest_of_spec.
  destruct (paths_for_key m k) as [|p t] eqn:E; [left; split; reflexivity|].
  right. split; [discriminate|]. apply shortest_minimal. discriminate.
Qed.

(* ================= 5. JSON ================= *)
(* NewMapJson relative to the stdlib decoder: a panic can only come from the decoder *)
Theorem new_map_json_no_panic decv b : decv b <> Panic -> new_map_json decv b <> Panic.
Proof.
  intros H. unfold new_map_json. destruct b as [|c t]; [discriminate|].
  destruct (decv (c :: t)) as [v|e|]; [|discriminate|congruence]. destruct v; discriminate.
Qed.

(* an error of the decoder is returned as it is, with no Map *)
Theorem new_map_json_err decv b e : b <> [] -> decv b = Err e -> new_map_json decv b = Err e.
Proof. intros Hb H. unfold new_map_json. destruct b; [congruence|]. rewrite H. reflexivity. Qed.

(* the reader entry points over NewMapJson *)
Theorem json_reader_total decv sc : (forall b, decv b <> Panic) ->
  exists r sc', new_map_json_reader (new_map_json decv) sc = Some (r, sc') /\ r <> Panic.
Proof.
  intros H. destruct (readers_total {| m_st := unit; m_init := tt; m_step := fun _ _ => inr (Err EOther);
                                       m_eof := fun _ => Err EEOF; m_noprog := fun _ => Err EOther |}
                        (new_map_json decv) sc) as (_ & _ & _ & H4 & _).
  destruct (new_map_json_reader (new_map_json decv) sc) as [[r sc']|] eqn:E; [|congruence].
  exists r, sc'. split; [reflexivity|].
  apply (json_reader_no_panic (new_map_json decv) sc r sc'); [|exact E].
  intros b. apply new_map_json_no_panic, H.
Qed.
Theorem json_reader_raw_total decv sc : (forall b, decv b <> Panic) ->
  exists r raw sc', new_map_json_reader_raw (new_map_json decv) sc = Some (r, raw, sc') /\ r <> Panic.
Proof.
  intros H. destruct (readers_total {| m_st := unit; m_init := tt; m_step := fun _ _ => inr (Err EOther);
                                       m_eof := fun _ => Err EEOF; m_noprog := fun _ => Err EOther |}
                        (new_map_json decv) sc) as (_ & _ & _ & _ & H5).
  destruct (new_map_json_reader_raw (new_map_json decv) sc) as [[[r raw] sc']|] eqn:E; [|congruence].
  exists r, raw, sc'. split; [reflexivity|].
  apply (json_reader_raw_no_panic (new_map_json decv) sc r raw sc'); [|exact E].
  intros b. apply new_map_json_no_panic, H.
Qed.

(* getJson itself has no way to panic: it returns the bytes kept so far and nil or an error, on every schedule *)
Theorem get_json_total sc : exists r sc', get_json sc = Some (r, sc').
Proof.
  destruct (readers_total {| m_st := unit; m_init := tt; m_step := fun _ _ => inr (Err EOther);
                             m_eof := fun _ => Err EEOF; m_noprog := fun _ => Err EOther |}
              (fun _ => Err EOther) sc) as (_ & _ & H3 & _).
  destruct (get_json sc) as [[r sc']|]; [|congruence]. exists r, sc'. reflexivity.
Qed.

(* the bulk handlers (HandleXmlReader[Raw], HandleJsonReader[Raw]) and the file readers (NewMapsFromXmlFile[Raw],
   NewMapsFromJsonFile[Raw]) are loops around a reader function: they panic only if it does *)
Definition next_safe (next : list Reader.rev -> option (res value * str * list Reader.rev)) : Prop :=
  forall sc r raw sc', next sc = Some (r, raw, sc') -> r <> Panic.

Lemma handle_loop_no_panic next mh eh : next_safe next ->
  forall fuel calls nerr sc h, handle_loop next mh eh fuel calls nerr sc = Some h -> h_ret h <> Panic.
Proof.
  intros Hn. induction fuel as [|f IH]; intros calls nerr sc h H; [discriminate H|].
  cbn [handle_loop] in H. destruct (next sc) as [[[r raw] sc']|] eqn:E; [|discriminate H].
  pose proof (Hn sc r raw sc' E) as Hr.
  destruct r as [m|e|]; [| |congruence].
  - destruct (non_nil m); [|apply (IH _ _ _ _ H)].
    destruct (mh (length calls) m); [apply (IH _ _ _ _ H)|]. injection H as <-. discriminate.
  - destruct e.
    + injection H as <-. discriminate.
    + destruct (eh nerr); [apply (IH _ _ _ _ H)|]. injection H as <-. discriminate.
    + destruct (eh nerr); [apply (IH _ _ _ _ H)|]. injection H as <-. discriminate.
Qed.
Theorem handle_reader_no_panic next mh eh sc h :
  next_safe next -> handle_reader next mh eh sc = Some h -> h_ret h <> Panic.
Proof. intros Hn H. apply (handle_loop_no_panic next mh eh Hn _ _ _ _ _ H). Qed.

Lemma maps_loop_no_panic next : next_safe next ->
  forall fuel am sc out, maps_loop next fuel am sc = Some out -> snd out <> Panic.
Proof.
  intros Hn. induction fuel as [|f IH]; intros am sc out H; [discriminate H|].
  cbn [maps_loop] in H. destruct (next sc) as [[[r raw] sc']|] eqn:E; [|discriminate H].
  pose proof (Hn sc r raw sc' E) as Hr.
  destruct r as [m|e|]; [| |congruence].
  - apply (IH _ _ _ H).
  - destruct e; injection H as <-; discriminate.
Qed.
Theorem maps_from_file_no_panic next X out :
  next_safe next -> maps_from_file next X = Some out -> snd out <> Panic.
Proof. intros Hn H. apply (maps_loop_no_panic next Hn _ _ _ _ H). Qed.

Lemma json_next_raw_safe decv : (forall b, decv b <> Panic) -> next_safe (new_map_json_reader_raw (new_map_json decv)).
Proof.
  intros H sc r raw sc' E. apply (json_reader_raw_no_panic (new_map_json decv) sc r raw sc'); [|exact E].
  intros b. apply new_map_json_no_panic, H.
Qed.
Lemma json_next_safe decv : (forall b, decv b <> Panic) ->
  next_safe (with_unit_raw (new_map_json_reader (new_map_json decv))).
Proof.
  intros H sc r raw sc' E. unfold with_unit_raw in E.
  destruct (new_map_json_reader (new_map_json decv) sc) as [[r0 s0]|] eqn:E0; [|discriminate E].
  injection E as <- _ _. apply (json_reader_no_panic (new_map_json decv) sc r0 s0); [|exact E0].
  intros b. apply new_map_json_no_panic, H.
Qed.

Theorem handle_json_no_panic decv mh eh sc h : (forall b, decv b <> Panic) ->
  (handle_json_reader (new_map_json decv) mh eh sc = Some h \/
   handle_json_reader_raw (new_map_json decv) mh eh sc = Some h) -> h_ret h <> Panic.
Proof.
  intros H [E|E].
  - apply (handle_reader_no_panic _ mh eh sc h (json_next_safe decv H) E).
  - apply (handle_reader_no_panic _ mh eh sc h (json_next_raw_safe decv H) E).
Qed.
Theorem maps_from_json_file_no_panic decv X out : (forall b, decv b <> Panic) ->
  new_maps_from_json_file_raw (new_map_json decv) X = Some out -> snd out <> Panic.
Proof. intros H E. apply (maps_from_file_no_panic _ X out (json_next_raw_safe decv H) E). Qed.

(* ================= 6. x2j-wrapper walkers and the thin wrappers ================= *)
(* strings.HasPrefix(k, "-") && !getAttrs on an empty key (it was string(k[:1]) before 3b36840) *)
Lemma xw_skip_attr_empty_key ga : xw_skip_attr [] ga = false.
Proof. reflexivity. Qed.

(* ValuesAtKeyPath: keys[lenKeys-1] exists for every path string (strings.Split never returns an empty slice) *)
Lemma split1_last_in c x : In (last (split1 c x) []) (split1 c x).
Proof.
  assert (G : forall (l : list str), l <> [] -> In (last l []) l).
  { induction l as [|a [|b t] IH]; [congruence|intros _; left; reflexivity|].
    intros _. right. apply IH. discriminate. }
  apply G. intros H. pose proof (split1_nonempty c x) as Hn. rewrite H in Hn. exact (Hn eq_refl).
Qed.

Section ThinTotal.
Variable pf : str -> option flt.
Variable fieldSep : str.
Variables attrPrefix textKey : str.
Variable dotn : bool.
Variable NewMapXml : str -> bool -> res value.
Variable NewMapJson : str -> res value.
Variable NewMapXmlReader : str -> bool -> res value * str.

(* the walkers of x2j-wrapper on a document: a panic can only come from the decoder *)
Theorem xw_walkers_no_panic doc key path a :
  NewMapXml doc false <> Panic ->
  xw_ValuesForTag NewMapXml doc key <> Panic /\
  xw_PathsForTag NewMapXml doc key <> Panic /\
  xw_PathForTagShortest NewMapXml doc key <> Panic /\
  xw_ValuesFromTagPath NewMapXml doc path a <> Panic /\
  xw_ValuesAtTagPath NewMapXml doc path a <> Panic.
Proof.
  intros H. unfold xw_ValuesForTag, xw_PathsForTag, xw_PathForTagShortest, xw_ValuesFromTagPath, xw_ValuesAtTagPath.
  destruct (NewMapXml doc false); [| |congruence]; repeat split; discriminate.
Qed.
Theorem xw_reader_walkers_no_panic rd key path a :
  fst (NewMapXmlReader rd false) <> Panic ->
  fst (xw_ReaderValuesFromTagPath NewMapXmlReader rd path a) <> Panic /\
  fst (xw_ReaderValuesForTag NewMapXmlReader rd key) <> Panic.
Proof.
  intros H. unfold xw_ReaderValuesFromTagPath, xw_ReaderValuesForTag.
  destruct (NewMapXmlReader rd false) as [[m|e|] rest]; cbn [fst] in *; [| |congruence]; split; discriminate.
Qed.

(* the query wrappers of j2x and x2j: the core queries they call are total *)
Theorem j2x_queries_no_panic j key path sk :
  NewMapJson j <> Panic ->
  j2x_JsonPathsForKey NewMapJson j key <> Panic /\
  j2x_JsonPathForKeyShortest NewMapJson j key <> Panic /\
  j2x_JsonValuesForKey pf fieldSep NewMapJson j key sk <> Panic /\
  j2x_JsonValuesForKeyPath pf fieldSep NewMapJson j path sk <> Panic /\
  j2x_JsonLeafNodes attrPrefix textKey dotn NewMapJson j <> Panic /\
  j2x_JsonLeafValues attrPrefix textKey dotn NewMapJson j <> Panic /\
  j2x_JsonLeafPath attrPrefix textKey dotn NewMapJson j <> Panic.
Proof.
  intros H. unfold j2x_JsonPathsForKey, j2x_JsonPathForKeyShortest, j2x_JsonValuesForKey, j2x_JsonValuesForKeyPath,
    j2x_JsonLeafNodes, j2x_JsonLeafValues, j2x_JsonLeafPath.
  destruct (NewMapJson j) as [m|e|]; [| |congruence]; repeat split; try discriminate.
  - apply values_for_key_no_panic.
  - apply values_for_path_no_panic.
Qed.
Theorem x2j_queries_no_panic x tag path sk :
  NewMapXml x false <> Panic ->
  x2j_XmlPathsForTag NewMapXml x tag <> Panic /\
  x2j_XmlPathForTagShortest NewMapXml x tag <> Panic /\
  x2j_XmlValuesForTag pf fieldSep NewMapXml x tag sk <> Panic /\
  x2j_XmlValuesForPath pf fieldSep NewMapXml x path sk <> Panic /\
  x2j_XmlLeafNodes attrPrefix textKey dotn NewMapXml x <> Panic /\
  x2j_XmlLeafValues attrPrefix textKey dotn NewMapXml x <> Panic /\
  x2j_XmlLeafPath attrPrefix textKey dotn NewMapXml x <> Panic.
Proof.
  intros H. unfold x2j_XmlPathsForTag, x2j_XmlPathForTagShortest, x2j_XmlValuesForTag, x2j_XmlValuesForPath,
    x2j_XmlLeafNodes, x2j_XmlLeafValues, x2j_XmlLeafPath.
  destruct (NewMapXml x false) as [m|e|]; [| |congruence]; repeat split; try discriminate.
  - apply values_for_key_no_panic.
  - apply values_for_path_no_panic.
Qed.
End ThinTotal.

(* ================= 7. argument parsers ================= *)
(* parsePath / getSubKeyMap on every string: Proofs/C07P.v parse_path_no_panic, get_sub_key_map_no_panic.
   A malformed argument is an error value: *)
Lemma parse_path_malformed :
  parse_path (s "a[-1]") = Err EOther /\ parse_path (s "a[") = Err EOther /\
  parse_path (s "a[x]") = Err EOther /\ parse_path (s "a[99999999999]") = Err EOther /\
  parse_path (s "a[]") = Err EOther.
Proof. vm_compute. repeat split. Qed.

(* ================= the XML reader forms over an abstract decoder ================= *)
(* encoding/xml's Decoder + xmlToMapParser / xmlSeqToMapParser is a consumer M of ReadByte results (Model/Reader.v);
   "M never answers Panic" is what C15_decode_no_panic / seq_decode_no_panic establish for the token-level models *)
Definition machine_safe (M : xmachine) : Prop :=
  (forall st b r, m_step M st b = inr r -> r <> Panic) /\
  (forall st, m_eof M st <> Panic) /\ (forall st, m_noprog M st <> Panic).

Lemma drive_no_panic {A} (M : xmachine) (rb : A -> rbres * A) : machine_safe M ->
  forall fuel st a r a', drive M rb fuel st a = Some (r, a') -> r <> Panic.
Proof.
  intros (H1 & H2 & H3). induction fuel as [|f IH]; intros st a r a' H; [discriminate H|].
  cbn [drive] in H. destruct (rb a) as [x a1]. destruct x as [b|[|]].
  - destruct (m_step M st b) as [st'|r0] eqn:E; [apply (IH _ _ _ _ H)|].
    injection H as <- _. apply (H1 st b r0 E).
  - injection H as <- _. apply H2.
  - injection H as <- _. apply H3.
Qed.

Theorem xml_reader_no_panic (M : xmachine) sc r sc' :
  machine_safe M -> new_map_xml_reader M sc = Some (r, sc') -> r <> Panic.
Proof. intros HM H. apply (drive_no_panic M br_read_byte HM _ _ _ _ _ H). Qed.

Lemma xml_next_raw_safe (M : xmachine) : machine_safe M -> next_safe (new_map_xml_reader_raw M).
Proof.
  intros HM sc r raw sc' H. unfold new_map_xml_reader_raw in H.
  destruct (drive M tr_read_byte (S (length sc)) (m_init M) (my_tee_reader sc)) as [[r0 t]|] eqn:E; [|discriminate H].
  injection H as <- _ _. apply (drive_no_panic M tr_read_byte HM _ _ _ _ _ E).
Qed.
Theorem xml_reader_raw_no_panic (M : xmachine) sc r raw sc' :
  machine_safe M -> new_map_xml_reader_raw M sc = Some (r, raw, sc') -> r <> Panic.
Proof. intros HM H. apply (xml_next_raw_safe M HM sc r raw sc' H). Qed.

Lemma xml_next_safe (M : xmachine) : machine_safe M -> next_safe (with_unit_raw (new_map_xml_reader M)).
Proof.
  intros HM sc r raw sc' H. unfold with_unit_raw in H.
  destruct (new_map_xml_reader M sc) as [[r0 s0]|] eqn:E; [|discriminate H].
  injection H as <- _ _. apply (xml_reader_no_panic M sc r0 s0 HM E).
Qed.

Theorem handle_xml_no_panic (M : xmachine) mh eh sc h : machine_safe M ->
  (handle_xml_reader M mh eh sc = Some h \/ handle_xml_reader_raw M mh eh sc = Some h) -> h_ret h <> Panic.
Proof.
  intros HM [E|E].
  - apply (handle_reader_no_panic _ mh eh sc h (xml_next_safe M HM) E).
  - apply (handle_reader_no_panic _ mh eh sc h (xml_next_raw_safe M HM) E).
Qed.
Theorem maps_from_xml_file_no_panic (M : xmachine) X out : machine_safe M ->
  new_maps_from_xml_file_raw M X = Some out -> snd out <> Panic.
Proof. intros HM E. apply (maps_from_file_no_panic _ X out (xml_next_raw_safe M HM) E). Qed.

(* the hypothesis is satisfiable: the toy decoder of Proofs/C13Top.v *)
Lemma toy_machine_safe : machine_safe toy.
Proof.
  split; [|split].
  - intros st b r H. change (m_step toy st b) with (toy_step st b) in H. destruct st as [|acc]; cbn [toy_step] in H.
    + destruct (StreamSpec.is_blank b); [discriminate H|]. destruct (N_of_ascii b =? 60)%N; [discriminate H|].
      injection H as <-. discriminate.
    + destruct (N_of_ascii b =? 62)%N; [|discriminate H]. injection H as <-. discriminate.
  - intros [|acc]; discriminate.
  - intros st. discriminate.
Qed.
