(* C04, encoder half, main induction: every node of a document of the domain (text alone in its
   element) is encoded to [items_of], as a child (with its sequence number) and as the root. *)
From Coq Require Import Permutation Sorting.Sorted.
From Mxj Require Import Spec.SeqSpec Proofs.StrLemmas Proofs.C04Sort Proofs.C04Str Proofs.C04Map
     Proofs.C04Dec Proofs.C04Enc.

Section Main.
Variable pf : str -> option flt.
Variable skip : str -> bool.
Variable e : bool.
Notation o := (seq_o e).
Notation nval := (node_val pf skip e).
Notation kstep := (kid_step pf skip e).
Notation kkey := (kid_key e).
Notation injv := (inj e).
Notation aitems := (attr_items e).
Notation items := (items_of e).
Notation ina := (init_na pf skip e).

Lemma esc_nil : esc o [] = [].
Proof. unfold esc. destruct (xmlEscapeChars o); reflexivity. Qed.

(* ---- the small shapes ---- *)
Lemma senc_text_noattr key c x sq :
  is_special_key o key = false ->
  senc o (VMap [(textK o, VStr (c :: x)); (seqK o, VInt sq)]) key
  = Ok [SI (IOpen key []); SI (IText (esc o (c :: x))); SI (IClose key)].
Proof. intros H. rewrite (senc_map e key _ H). reflexivity. Qed.

Lemma senc_text_attr key a c x sq :
  is_special_key o key = false ->
  senc o (VMap [(attrK o, VMap (attr_ents e 0 a)); (textK o, VStr (c :: x)); (seqK o, VInt sq)]) key
  = Ok [SI (IOpen key (aitems a)); SI (IText (esc o (c :: x))); SI (IClose key)].
Proof.
  intros H. rewrite (senc_map e key _ H).
  erewrite sattrs_attr_ents by reflexivity. reflexivity.
Qed.

Lemma senc_empty_noattr key sq :
  is_special_key o key = false ->
  senc o (VMap [(textK o, VStr []); (seqK o, VInt sq)]) key = Ok [SI (IEmpty key [])].
Proof. intros H. rewrite (senc_map e key _ H). reflexivity. Qed.

Lemma senc_empty_root key :
  is_special_key o key = false -> senc o (VStr []) key = Ok [SI (IEmpty key [])].
Proof. intros H. cbn [senc]. rewrite esc_nil. unfold scalar_items. rewrite H. reflexivity. Qed.

Lemma senc_attronly key a sq :
  is_special_key o key = false ->
  senc o (VMap [(attrK o, VMap (attr_ents e 0 a)); (seqK o, VInt sq)]) key = Ok [SI (IEmpty key (aitems a))].
Proof.
  intros H. rewrite (senc_map e key _ H).
  erewrite sattrs_attr_ents by reflexivity. reflexivity.
Qed.

Lemma senc_attronly_root key a :
  is_special_key o key = false ->
  senc o (VMap [(attrK o, VMap (attr_ents e 0 a))]) key = Ok [SI (IOpen key (aitems a)); SI (IClose key)].
Proof.
  intros H. rewrite (senc_map e key _ H).
  erewrite sattrs_attr_ents by reflexivity. reflexivity.
Qed.

Lemma special_of_name nm : name_ok o nm = true -> is_special_key o (xfull nm) = false.
Proof.
  intros H. apply name_ok_keys in H. destruct H as (_ & _ & _ & _ & K4 & K5 & K6).
  unfold is_special_key. rewrite K4, K5, K6. reflexivity.
Qed.

(* ---- the main induction ---- *)
Lemma enc_all d : kid_enc pf skip e d /\ root_enc pf skip e d.
Proof.
  induction d as [nm a text kids IH|x|x|t i] using node_ind2.
  2:{ split; [intros _ sq; reflexivity|intros _ H; discriminate H]. }
  2:{ split; [intros _ sq; reflexivity|intros _ H; discriminate H]. }
  2:{ split; [intros _ sq; reflexivity|intros _ H; discriminate H]. }
  assert (Main : node_ok o true (NElem nm a text kids) = true ->
                 (forall sq, senc o (injv (nval (NElem nm a text kids)) sq) (xfull nm) = Ok (items false (NElem nm a text kids)))
                 /\ senc o (nval (NElem nm a text kids)) (xfull nm) = Ok (items true (NElem nm a text kids))).
  2:{ split; [intros Hok sq; apply (proj1 (Main Hok))|intros Hok _; apply (proj2 (Main Hok))]. }
  intros Hok. cbn [node_ok] in Hok.
  apply andb_true_iff in Hok. destruct Hok as [Hok Hkids].
  apply andb_true_iff in Hok. destruct Hok as [Hok Halone].
  apply andb_true_iff in Hok. destruct Hok as [Hok Hp1].
  apply andb_true_iff in Hok. destruct Hok as [Hok Hd1].
  apply andb_true_iff in Hok. destruct Hok as [Hok Hc1].
  apply andb_true_iff in Hok. destruct Hok as [Hok Htext].
  apply andb_true_iff in Hok. destruct Hok as [Hname Hattrs].
  unfold attrs_ok in Hattrs. apply andb_true_iff in Hattrs. destruct Hattrs as [Hnodup Hvals].
  change (map (fun at_ : xattr => xfull (aname at_)) a) with (map aname_full a) in Hnodup.
  assert (Hsp := special_of_name nm Hname).
  assert (Hkeys := name_ok_keys e nm Hname).
  unfold text_ok in Htext. apply andb_true_iff in Htext. destruct Htext as [Htv Htb].
  apply negb_true_iff in Htb.
  assert (Htrim := trim_decoder_xml text Htb).
  rewrite node_val_elem. cbn [items_of]. unfold text_state.
  destruct (trim trim_all text) as [|c x] eqn:Et.
  - (* no text *)
    destruct kids as [|k1 kt].
    + (* empty element *)
      cbn [fold_left fst]. rewrite (init_na_spec pf skip e a Hnodup).
      destruct a as [|at_ ta].
      * cbn [finish has_attrs andb]. split.
        -- intros sq. apply (senc_empty_noattr (xfull nm) sq Hsp).
        -- apply (senc_empty_root (xfull nm) Hsp).
      * cbn [finish has_attrs andb]. split.
        -- intros sq. apply (senc_attronly (xfull nm) (at_ :: ta) sq Hsp).
        -- apply (senc_attronly_root (xfull nm) (at_ :: ta) Hsp).
    + (* children, no text: the general path *)
      set (kids := k1 :: kt) in *.
      set (naf := fst (fold_left kstep kids (ina a, 0%Z))).
      assert (Hkn := forallb_kid_name e kids Hkids).
      assert (Hnot : forall K, In K [textK o; seqK o; attrK o] ->
                               forall k, In k kids -> str_eqb K (kkey k) = false).
      { intros K HK k Hk. apply kid_key_not; [|exact HK].
        rewrite forallb_forall in Hkn. apply Hkn. exact Hk. }
      assert (Lattr : lookup (attrK o) naf = lookup (attrK o) (ina a)).
      { apply fold_lookup. apply Hnot. right; right; left; reflexivity. }
      assert (Ltext : lookup (textK o) naf = None).
      { unfold naf. rewrite fold_lookup; [|apply Hnot; left; reflexivity].
        rewrite (init_na_spec pf skip e a Hnodup). destruct a; reflexivity. }
      assert (Lseq : lookup (seqK o) naf = None).
      { unfold naf. rewrite fold_lookup; [|apply Hnot; right; left; reflexivity].
        rewrite (init_na_spec pf skip e a Hnodup). destruct a; reflexivity. }
      assert (Llen : S (length (ina a)) <= length naf).
      { unfold naf, kids. cbn [fold_left]. unfold kid_step at 2. cbn [fst snd].
        rewrite kid_put_absent.
        - etransitivity; [|apply fold_length]. rewrite app_length. cbn [length]. lia.
        - rewrite (init_na_spec pf skip e a Hnodup).
          assert (Hk1 : str_eqb (kkey k1) (attrK o) = false).
          { rewrite str_eqb_sym. apply (Hnot (attrK o)); [right; right; left; reflexivity|left; reflexivity]. }
          destruct a; cbn [lookup]; [reflexivity|]. rewrite Hk1. reflexivity. }
      assert (Hperm : Permutation (unroll o naf) (Es pf skip e kids 0%Z)).
      { unfold naf. rewrite (fold_unroll pf skip e kids (ina a) 0%Z Hkn).
        - rewrite (init_na_spec pf skip e a Hnodup). destruct a; reflexivity.
        - apply fresh_init; [exact Hnodup|reflexivity|exact Hc1].
        - apply fresh_init; [exact Hnodup|reflexivity|exact Hd1].
        - apply fresh_init; [exact Hnodup|reflexivity|exact Hp1]. }
      assert (Hsat : sattrs o naf = Ok (has_attrs a, aitems a)).
      { rewrite (sattrs_lookup_eq e naf (ina a) Lattr). apply sattrs_init. exact Hnodup. }
      assert (Hlen0 : length (ina a) = if has_attrs a then 1 else 0).
      { rewrite (init_na_spec pf skip e a Hnodup). destruct a; reflexivity. }
      assert (HIH : Forall (kid_enc pf skip e) kids).
      { eapply Forall_impl; [|exact IH]. cbn beta. intros k Hk. apply Hk. }
      assert (Hbody := sconcat_kids pf skip e kids 0%Z HIH Hkids).
      assert (Hfin : finish naf = VMap naf).
      { destruct naf; [cbn [length] in Llen; lia|reflexivity]. }
      rewrite Hfin. split.
      * intros sq. unfold inj. cbn [seq_inject fst].
        rewrite (set_absent _ _ _ Lseq).
        rewrite (senc_general e (xfull nm) (naf ++ [(seqK o, VInt sq)]) (has_attrs a) (aitems a)
                   (Es pf skip e kids 0%Z) Hsp).
        -- rewrite Hbody. reflexivity.
        -- rewrite <- Hsat. apply sattrs_lookup_eq. rewrite lookup_app.
           destruct (lookup (attrK o) naf); reflexivity.
        -- rewrite lookup_app, Ltext. reflexivity.
        -- rewrite app_length. cbn [length].
           replace (length naf + 1 =? (if has_attrs a then 2 else 1)) with false; [reflexivity|].
           symmetry. apply Nat.eqb_neq. destruct (has_attrs a); lia.
        -- rewrite unroll_app. change (unroll o [(seqK o, VInt sq)]) with (@nil (str * value)).
           rewrite app_nil_r. exact Hperm.
        -- apply Es_sorted.
        -- apply Es_maps.
      * rewrite (senc_general e (xfull nm) naf (has_attrs a) (aitems a) (Es pf skip e kids 0%Z) Hsp Hsat Ltext).
        -- rewrite Hbody. reflexivity.
        -- unfold has_key. rewrite Lseq. apply andb_false_r.
        -- exact Hperm.
        -- apply Es_sorted.
        -- apply Es_maps.
  - (* text: by the domain the element has no children *)
    assert (Hk0 : kids = []).
    { rewrite <- Htrim in Halone. cbn [nonempty negb orb] in Halone.
      destruct kids; [reflexivity|discriminate Halone]. }
    subst kids. cbn [fold_left fst]. rewrite (init_na_spec pf skip e a Hnodup).
    destruct a as [|at_ ta].
    + split.
      * intros sq. apply (senc_text_noattr (xfull nm) c x sq Hsp).
      * apply (senc_text_noattr (xfull nm) c x 0%Z Hsp).
    + split.
      * intros sq. apply (senc_text_attr (xfull nm) (at_ :: ta) c x sq Hsp).
      * apply (senc_text_attr (xfull nm) (at_ :: ta) c x 0%Z Hsp).
Qed.
End Main.
