(* C04, encoder half, main induction: every node of a document of the domain (text alone in its
   element) is encoded to [items_of], as a child (with its sequence number) and as the root. *)
From Coq Require Import Permutation Sorting.Sorted.
From Mxj Require Import Spec.SeqSpec Proofs.StrLemmas Proofs.C04Sort Proofs.C04Str Proofs.C04Map
     Proofs.C04Dec Proofs.C04Enc.

Section Main.
Variable pf : str -> option flt.
Variable skip : str -> bool.
Variable e : bool.
Notation o := (seq_o e).
Notation nval := (node_val pf skip e).
Notation kstep := (kid_step pf skip e).
Notation kkey := (kid_key e).
Notation injv := (inj e).
Notation aitems := (attr_items e).
Notation items := (items_of e).
Notation ina := (init_na pf skip e).

Lemma esc_nil : esc o [] = [].
Proof. unfold esc. destruct (xmlEscapeChars o); reflexivity. Qed.

(* ---- the small shapes ---- *)
Lemma senc_text_noattr key c x sq :
  is_special_key o key = false ->
  senc o (VMap [(textK o, VStr (c :: x)); (seqK o, VInt sq)]) key
  = Ok [SI (IOpen key []); SI (IText (esc o (c :: x))); SI (IClose key)].
Proof. intros H. rewrite (senc_map e key _ H). reflexivity. Qed.

Lemma senc_text_attr key a c x sq :
  is_special_key o key = false ->
  senc o (VMap [(attrK o, VMap (attr_ents e 0 a)); (textK o, VStr (c :: x)); (seqK o, VInt sq)]) key
  = Ok [SI (IOpen key (aitems a)); SI (IText (esc o (c :: x))); SI (IClose key)].
Proof.
  intros H. rewrite (senc_map e key _ H).
  erewrite sattrs_attr_ents by reflexivity. reflexivity.
Qed.

Lemma senc_empty_noattr key sq :
  is_special_key o key = false ->
  senc o (VMap [(textK o, VStr []); (seqK o, VInt sq)]) key = Ok [SI (IEmpty key [])].
Proof. intros H. rewrite (senc_map e key _ H). reflexivity. Qed.

Lemma senc_empty_root key :
  is_special_key o key = false -> senc o (VStr []) key = Ok [SI (IEmpty key [])].
Proof. intros H. cbn [senc]. rewrite esc_nil. unfold scalar_items. rewrite H. reflexivity. Qed.

Lemma senc_attronly key a sq :
  is_special_key o key = false ->
  senc o (VMap [(attrK o, VMap (attr_ents e 0 a)); (seqK o, VInt sq)]) key = Ok [SI (IEmpty key (aitems a))].
Proof.
  intros H. rewrite (senc_map e key _ H).
  erewrite sattrs_attr_ents by reflexivity. reflexivity.
Qed.

Lemma senc_attronly_root key a :
  is_special_key o key = false ->
  senc o (VMap [(attrK o, VMap (attr_ents e 0 a))]) key = Ok [SI (IOpen key (aitems a)); SI (IClose key)].
Proof.
  intros H. rewrite (senc_map e key _ H).
  erewrite sattrs_attr_ents by reflexivity. reflexivity.
Qed.

Lemma special_of_name nm : name_ok o nm = true -> is_special_key o (xfull nm) = false.
Proof.
  intros H. apply name_ok_keys in H. destruct H as (_ & _ & _ & _ & K4 & K5 & K6).
  unfold is_special_key. rewrite K4, K5, K6. reflexivity.
Qed.

Lemma lead_text_lookup val val' :
  lookup (textK o) val = lookup (textK o) val' -> lead_text o val = lead_text o val'.
Proof. intros H. unfold lead_text. rewrite H. reflexivity. Qed.

(* ---- an element with children: the general path, with or without a leading text run ---- *)
Lemma enc_general nm a kids (na1 : entries) (sq1 : Z) (tv : option value) :
  name_ok o nm = true ->
  nodup_keys (map aname_full a) = true ->
  kids <> [] ->
  forallb (node_ok o) kids = true ->
  at_most_one is_comment kids = true -> at_most_one is_directive kids = true -> at_most_one is_procinst kids = true ->
  Forall (kid_enc pf skip e) kids ->
  (forall K, str_eqb K (attrK o) = false -> str_eqb K (textK o) = false -> str_eqb K (seqK o) = false ->
             lookup K na1 = None) ->
  lookup (attrK o) na1 = lookup (attrK o) (ina a) ->
  lookup (textK o) na1 = tv ->
  lookup (seqK o) na1 = match tv with Some _ => Some (VInt 0) | None => None end ->
  length na1 = length (ina a) + match tv with Some _ => 2 | None => 0 end ->
  unroll o na1 = [] ->
  let naf := fst (fold_left kstep kids (na1, sq1)) in
  let its := SI (IOpen (xfull nm) (aitems a)) :: lead_text o na1 ++ flat_map (items false) kids ++ [SI (IClose (xfull nm))] in
  (forall sq, senc o (injv (finish naf) sq) (xfull nm) = Ok its) /\ senc o (finish naf) (xfull nm) = Ok its.
Proof.
  intros Hname Hnodup Hkne Hkids Hc1 Hd1 Hp1 HIH HP1 HP2 HP3 HP3s HP4 HP5 naf its.
  assert (Hsp := special_of_name nm Hname).
  assert (Hkn := forallb_kid_name e kids Hkids).
  assert (Hnot : forall K, In K [textK o; seqK o; attrK o] ->
                           forall k, In k kids -> str_eqb K (kkey k) = false).
  { intros K HK k Hk. apply kid_key_not; [|exact HK].
    rewrite forallb_forall in Hkn. apply Hkn. exact Hk. }
  assert (Lattr : lookup (attrK o) naf = lookup (attrK o) (ina a)).
  { unfold naf. rewrite fold_lookup; [exact HP2|]. apply Hnot. right; right; left; reflexivity. }
  assert (Ltext : lookup (textK o) naf = tv).
  { unfold naf. rewrite fold_lookup; [exact HP3|]. apply Hnot. left; reflexivity. }
  assert (Lseq : lookup (seqK o) naf = match tv with Some _ => Some (VInt 0) | None => None end).
  { unfold naf. rewrite fold_lookup; [exact HP3s|]. apply Hnot. right; left; reflexivity. }
  assert (Llen : S (length na1) <= length naf).
  { unfold naf. destruct kids as [|k1 kt]; [congruence|].
    cbn [fold_left]. unfold kid_step at 2. cbn [fst snd].
    rewrite kid_put_absent.
    - etransitivity; [|apply fold_length]. rewrite app_length. cbn [length]. lia.
    - apply HP1; rewrite str_eqb_sym.
      + apply (Hnot (attrK o)); [right; right; left; reflexivity|left; reflexivity].
      + apply (Hnot (textK o)); [left; reflexivity|left; reflexivity].
      + apply (Hnot (seqK o)); [right; left; reflexivity|left; reflexivity]. }
  assert (Hperm : Permutation (unroll o naf) (Es pf skip e kids sq1)).
  { unfold naf. rewrite (fold_unroll pf skip e kids na1 sq1 Hkn).
    - rewrite HP5. reflexivity.
    - apply fresh_of_absent; [apply HP1; reflexivity|exact Hc1].
    - apply fresh_of_absent; [apply HP1; reflexivity|exact Hd1].
    - apply fresh_of_absent; [apply HP1; reflexivity|exact Hp1]. }
  assert (Hsat : sattrs o naf = Ok (has_attrs a, aitems a)).
  { rewrite (sattrs_lookup_eq e naf (ina a) Lattr). apply sattrs_init. exact Hnodup. }
  assert (Hlen0 : length (ina a) = if has_attrs a then 1 else 0).
  { rewrite (init_na_spec pf skip e a Hnodup). destruct a; reflexivity. }
  assert (Hbody := sconcat_kids pf skip e kids sq1 HIH Hkids).
  assert (Hfin : finish naf = VMap naf).
  { destruct naf; [cbn [length] in Llen; lia|reflexivity]. }
  assert (Hlead : forall val, lookup (textK o) val = tv -> lead_text o val = lead_text o na1).
  { intros val Hv. apply lead_text_lookup. rewrite Hv, HP3. reflexivity. }
  rewrite Hfin. split.
  - intros sq. unfold inj. cbn [seq_inject fst].
    assert (Lt' : lookup (textK o) (set (seqK o) (VInt sq) naf) = tv).
    { rewrite lookup_set_other; [exact Ltext|reflexivity]. }
    rewrite (senc_general e (xfull nm) (set (seqK o) (VInt sq) naf) (has_attrs a) (aitems a)
               (Es pf skip e kids sq1) Hsp).
    + rewrite Hbody. cbn [bind]. rewrite (Hlead _ Lt'). reflexivity.
    + rewrite <- Hsat. apply sattrs_lookup_eq. apply lookup_set_other. reflexivity.
    + rewrite Lt'. destruct tv as [v|].
      * assert (L := set_length_ge (seqK o) (VInt sq) naf).
        replace (length (set (seqK o) (VInt sq) naf) =? (if has_attrs a then 3 else 2)) with false; [reflexivity|].
        symmetry. apply Nat.eqb_neq. destruct (has_attrs a); lia.
      * rewrite (set_absent _ _ _ Lseq). rewrite app_length. cbn [length].
        replace (length naf + 1 =? (if has_attrs a then 2 else 1)) with false; [reflexivity|].
        symmetry. apply Nat.eqb_neq. destruct (has_attrs a); lia.
    + rewrite unroll_set_skipped; [exact Hperm|reflexivity].
    + apply Es_sorted.
  - rewrite (senc_general e (xfull nm) naf (has_attrs a) (aitems a) (Es pf skip e kids sq1) Hsp Hsat).
    + rewrite Hbody. cbn [bind]. rewrite (Hlead _ Ltext). reflexivity.
    + rewrite Ltext. destruct tv as [v|].
      * replace (length naf =? (if has_attrs a then 3 else 2)) with false; [reflexivity|].
        symmetry. apply Nat.eqb_neq. destruct (has_attrs a); lia.
      * unfold has_key. rewrite Lseq. apply andb_false_r.
    + exact Hperm.
    + apply Es_sorted.
Qed.

(* ---- the main induction ---- *)
Lemma enc_all d : kid_enc pf skip e d /\ root_enc pf skip e d.
Proof.
  induction d as [nm a text kids IH|x|x|t i] using node_ind2.
  2:{ split; [intros _ sq; reflexivity|intros _ H; discriminate H]. }
  2:{ split; [intros _ sq; reflexivity|intros _ H; discriminate H]. }
  2:{ split; [intros _ sq; reflexivity|intros _ H; discriminate H]. }
  assert (Main : node_ok o (NElem nm a text kids) = true ->
                 (forall sq, senc o (injv (nval (NElem nm a text kids)) sq) (xfull nm) = Ok (items false (NElem nm a text kids)))
                 /\ senc o (nval (NElem nm a text kids)) (xfull nm) = Ok (items true (NElem nm a text kids))).
  2:{ split; [intros Hok sq; apply (proj1 (Main Hok))|intros Hok _; apply (proj2 (Main Hok))]. }
  intros Hok. cbn [node_ok] in Hok.
  apply andb_true_iff in Hok. destruct Hok as [Hok Hkids].
  apply andb_true_iff in Hok. destruct Hok as [Hok Hp1].
  apply andb_true_iff in Hok. destruct Hok as [Hok Hd1].
  apply andb_true_iff in Hok. destruct Hok as [Hok Hc1].
  apply andb_true_iff in Hok. destruct Hok as [Hok Htext].
  apply andb_true_iff in Hok. destruct Hok as [Hname Hattrs].
  unfold attrs_ok in Hattrs. apply andb_true_iff in Hattrs. destruct Hattrs as [Hnodup Hvals].
  change (map (fun at_ : xattr => xfull (aname at_)) a) with (map aname_full a) in Hnodup.
  assert (Hsp := special_of_name nm Hname).
  rewrite node_val_elem. cbn [items_of]. unfold text_state.
  destruct kids as [|k1 kt].
  - (* no children: the simple-element shapes *)
    cbn [fold_left].
    destruct (trim trim_all text) as [|c x] eqn:Et; cbn [fst]; rewrite (init_na_spec pf skip e a Hnodup);
      destruct a as [|at_ ta]; cbn [finish has_attrs andb]; split.
    + intros sq. apply (senc_empty_noattr (xfull nm) sq Hsp).
    + apply (senc_empty_root (xfull nm) Hsp).
    + intros sq. apply (senc_attronly (xfull nm) (at_ :: ta) sq Hsp).
    + apply (senc_attronly_root (xfull nm) (at_ :: ta) Hsp).
    + intros sq. apply (senc_text_noattr (xfull nm) c x sq Hsp).
    + apply (senc_text_noattr (xfull nm) c x 0%Z Hsp).
    + intros sq. apply (senc_text_attr (xfull nm) (at_ :: ta) c x sq Hsp).
    + apply (senc_text_attr (xfull nm) (at_ :: ta) c x 0%Z Hsp).
  - (* children *)
    assert (HIH : Forall (kid_enc pf skip e) (k1 :: kt)).
    { eapply Forall_impl; [|exact IH]. cbn beta. intros k Hk. apply Hk. }
    destruct (trim trim_all text) as [|c x] eqn:Et; cbn [fst snd].
    + (* no text *)
      assert (G := enc_general nm a (k1 :: kt) (ina a) 0%Z None Hname Hnodup ltac:(discriminate) Hkids Hc1 Hd1 Hp1 HIH).
      assert (Hl : lead_text o (ina a) = []).
      { unfold lead_text. rewrite (init_na_spec pf skip e a Hnodup). destruct a; reflexivity. }
      rewrite Hl in G. apply G; clear G Hl.
      * intros K K1 K2 K3. rewrite (init_na_spec pf skip e a Hnodup). destruct a; cbn [lookup]; [reflexivity|].
        rewrite K1. reflexivity.
      * reflexivity.
      * rewrite (init_na_spec pf skip e a Hnodup). destruct a; reflexivity.
      * rewrite (init_na_spec pf skip e a Hnodup). destruct a; reflexivity.
      * lia.
      * rewrite (init_na_spec pf skip e a Hnodup). destruct a; reflexivity.
    + (* a text run ahead of the children *)
      assert (G := enc_general nm a (k1 :: kt)
                     (set (seqK o) (VInt 0) (set (textK o) (VStr (c :: x)) (ina a))) 1%Z (Some (VStr (c :: x)))
                     Hname Hnodup ltac:(discriminate) Hkids Hc1 Hd1 Hp1 HIH).
      assert (Hl : lead_text o (set (seqK o) (VInt 0) (set (textK o) (VStr (c :: x)) (ina a)))
                   = [SI (IText (esc o (c :: x)))]).
      { unfold lead_text. rewrite lookup_set_other; [|reflexivity]. rewrite lookup_set_same. reflexivity. }
      rewrite Hl in G. apply G; clear G Hl.
      * intros K K1 K2 K3. rewrite lookup_set_other; [|exact K3]. rewrite lookup_set_other; [|exact K2].
        rewrite (init_na_spec pf skip e a Hnodup). destruct a; cbn [lookup]; [reflexivity|]. rewrite K1. reflexivity.
      * rewrite lookup_set_other; [|reflexivity]. rewrite lookup_set_other; [|reflexivity]. reflexivity.
      * rewrite lookup_set_other; [|reflexivity]. apply lookup_set_same.
      * apply lookup_set_same.
      * rewrite (init_na_spec pf skip e a Hnodup). destruct a; reflexivity.
      * rewrite (init_na_spec pf skip e a Hnodup). destruct a; reflexivity.
Qed.
End Main.
