(* C16: the items the encoder model produces are ordered (Spec/EncOrder.v), and
   the two root rules agree except on one stated shape. *)
From Coq Require Import Permutation Sorting.Sorted.
From Mxj Require Import Model.XmlEnc Spec.Veq Spec.EncOrder Proofs.StrLemmas Proofs.C16Sort Proofs.C16P.

Lemma ordered_app f1 ns1 f2 ns2 : ordered f1 ns1 -> ordered f2 ns2 -> ordered (f1 ++ f2) (ns1 ++ ns2).
Proof.
  intros H1 H2. induction H1 as [|x f ns _ IH|n a f ns Ha _ IH|n a body bns f ns Ha Hb _ Hasc _ IH]; cbn [app].
  - exact H2.
  - constructor. exact IH.
  - constructor; assumption.
  - rewrite <- app_assoc. cbn [app]. apply ord_elem with (bns := bns); assumption.
Qed.

Lemma ordered_single_elem n a body bns :
  kstrict a -> ordered body bns -> asc bns -> ordered (IOpen n a :: body ++ [IClose n]) [n].
Proof. intros. apply (ord_elem n a body bns [] []); try assumption. constructor. Qed.

Lemma asc_repeat k n : asc (repeat k n).
Proof.
  unfold asc. induction n as [|n IH]; cbn [repeat]; constructor; [exact IH|].
  rewrite Forall_forall. intros x Hx. apply repeat_spec in Hx. subst. apply str_leb_refl.
Qed.

Lemma asc_app l1 l2 : asc l1 -> asc l2 -> (forall x y, In x l1 -> In y l2 -> str_leb x y = true) -> asc (l1 ++ l2).
Proof.
  unfold asc. intros H1 H2 Hxy. induction H1 as [|a l1 _ IH Ha]; cbn [app]; [exact H2|].
  constructor.
  - apply IH. intros x y Hx Hy. apply Hxy; [right; exact Hx | exact Hy].
  - rewrite Forall_forall in *. intros x Hx. apply in_app_or in Hx. destruct Hx as [Hx|Hx]; [apply Ha; exact Hx|].
    apply Hxy; [left; reflexivity | exact Hx].
Qed.

Lemma kstrict_nil {A} : kstrict (@nil (str * A)).
Proof. constructor. Qed.

Section Enc.
Variable o : opts.

Lemma close_or_empty_ordered key attrs : kstrict attrs -> ordered (close_or_empty o key attrs) [key].
Proof.
  intro Ha. unfold close_or_empty. destruct (useGoXmlEmptyElemSyntax o).
  - apply (ord_elem key attrs [] [] [] []); try assumption; constructor.
  - constructor; [exact Ha | constructor].
Qed.

Lemma text_elem_ordered key attrs x : kstrict attrs -> ordered [IOpen key attrs; IText x; IClose key] [key].
Proof.
  intro Ha. apply (ord_elem key attrs [IText x] [] [] []); try assumption; repeat constructor.
Qed.

(* concatenating the encodings of sorted children *)
Lemma concat_sorted_kids (elems : list (str * res (list item))) body :
  ksorted elems ->
  Forall (fun e => forall b, snd e = Ok b -> exists n, ordered b (repeat (fst e) n)) elems ->
  concat_res (map snd elems) = Ok body ->
  exists ns, ordered body ns /\ asc ns /\ (forall x, In x ns -> In x (map fst elems)).
Proof.
  unfold ksorted. intros Hs. revert body. induction Hs as [|e t Hs IH He]; intros body Hall Hc.
  - cbn in Hc. injection Hc as <-. exists []. repeat split; [constructor | constructor | intros x []].
  - cbn [map concat_res] in Hc. destruct (snd e) as [b| |] eqn:Eb; cbn [bind] in Hc; try discriminate Hc.
    destruct (concat_res (map snd t)) as [bt| |] eqn:Et; cbn [bind] in Hc; try discriminate Hc.
    injection Hc as <-. inversion Hall as [|? ? H1 H2]; subst.
    destruct (H1 b Eb) as [n Hb]. destruct (IH bt H2 eq_refl) as [ns [Ho [Ha Hin]]].
    exists (repeat (fst e) n ++ ns). split; [apply ordered_app; assumption|]. split.
    + apply asc_app; [apply asc_repeat | exact Ha |].
      intros x y Hx Hy. apply repeat_spec in Hx. subst x. apply Hin in Hy.
      apply in_map_iff in Hy. destruct Hy as [e' [<- He']]. rewrite Forall_forall in He. apply He. exact He'.
    + intros x Hx. apply in_app_or in Hx. cbn [map]. destruct Hx as [Hx|Hx].
      * apply repeat_spec in Hx. left. symmetry. exact Hx.
      * right. apply Hin. exact Hx.
Qed.

Definition enc_ord (v : value) : Prop :=
  forall key its, wf v -> enc o v key = Ok its -> exists n, ordered its (repeat key n).

Lemma kids_ord (vv : entries) (f : str * res (list item) -> bool) :
  Forall (fun kv => enc_ord (snd kv)) vv -> Forall (fun kv => wf (snd kv)) vv ->
  Forall (fun e => forall b, snd e = Ok b -> exists n, ordered b (repeat (fst e) n))
         (sort_by_key (filter f (kids_of o vv))).
Proof.
  intros IH Hwfs. eapply Permutation_Forall; [symmetry; apply sort_by_key_perm|].
  rewrite Forall_forall. intros e He. apply filter_In in He. destruct He as [He _].
  unfold kids_of in He. apply in_map_iff in He. destruct He as [[k v] [<- Hin]]. cbn [fst snd].
  rewrite Forall_forall in IH, Hwfs. intros b Hb. apply (IH (k, v) Hin k b); [apply (Hwfs (k, v) Hin) | exact Hb].
Qed.

Lemma enc_map_ord (m : entries) : Forall (fun kv => enc_ord (snd kv)) m -> enc_ord (VMap m).
Proof.
  intros IH key its Hwf Henc. exists 1. cbn [repeat].
  destruct (wf_map_inv _ Hwf) as [Hnd Hwfs].
  rewrite enc_VMap in Henc. unfold enc_map in Henc. rewrite attrs_of_char in Henc.
  destruct (forallb (attr_ok o) m); [|discriminate Henc]. cbn [bind] in Henc.
  assert (Hattrs : kstrict (sort_by_key (attr_pairs o m))) by (apply sort_by_key_strict, attr_pairs_nodup; exact Hnd).
  set (attrs := sort_by_key (attr_pairs o m)) in *.
  destruct (Nat.eqb (length attrs) (length m)).
  { injection Henc as <-. apply close_or_empty_ordered. exact Hattrs. }
  destruct (lookup (textK o) m) as [tv|].
  - destruct (Nat.eqb (S (length attrs)) (length m)).
    { injection Henc as <-. apply text_elem_ordered. exact Hattrs. }
    match type of Henc with bind (concat_res (map snd ?E)) _ = _ => set (elems := E) in * end.
    destruct (concat_res (map snd elems)) as [body| |] eqn:Ec; cbn [bind] in Henc; try discriminate Henc.
    injection Henc as <-.
    destruct (concat_sorted_kids elems body (sort_by_key_sorted _) (kids_ord m _ IH Hwfs) Ec) as [ns [Ho [Ha _]]].
    change (IOpen key attrs :: IText (text_text o tv) :: body ++ [IClose key])
      with (IOpen key attrs :: (IText (text_text o tv) :: body) ++ [IClose key]).
    apply (ordered_single_elem key attrs (IText (text_text o tv) :: body) ns); [exact Hattrs | constructor; exact Ho | exact Ha].
  - match type of Henc with bind (concat_res (map snd ?E)) _ = _ => set (elems := E) in * end.
    destruct (concat_res (map snd elems)) as [body| |] eqn:Ec; cbn [bind] in Henc; try discriminate Henc.
    injection Henc as <-.
    destruct (concat_sorted_kids elems body (sort_by_key_sorted _) (kids_ord m _ IH Hwfs) Ec) as [ns [Ho [Ha _]]].
    apply (ordered_single_elem key attrs body ns); assumption.
Qed.

Lemma concat_same_key (key : str) (rs : list (res (list item))) body :
  Forall (fun r => forall b, r = Ok b -> exists n, ordered b (repeat key n)) rs ->
  concat_res rs = Ok body -> exists n, ordered body (repeat key n).
Proof.
  revert body. induction rs as [|r t IH]; intros body Hall Hc.
  - cbn in Hc. injection Hc as <-. exists 0. constructor.
  - cbn [concat_res] in Hc. destruct r as [b| |]; cbn [bind] in Hc; try discriminate Hc.
    destruct (concat_res t) as [bt| |]; cbn [bind] in Hc; try discriminate Hc. injection Hc as <-.
    inversion Hall as [|? ? H1 H2]; subst. destruct (H1 b eq_refl) as [n1 Hb]. destruct (IH bt H2 eq_refl) as [n2 Hbt].
    exists (n1 + n2). rewrite repeat_app. apply ordered_app; assumption.
Qed.

Lemma enc_list_ord (l : list value) : Forall enc_ord l -> enc_ord (VList l).
Proof.
  intros IH key its Hwf Henc. pose proof (wf_list_inv _ Hwf) as Hwfs. cbn [enc] in Henc.
  destruct l as [|v t].
  - injection Henc as <-. exists 1. apply close_or_empty_ordered, kstrict_nil.
  - apply (concat_same_key key (map (fun v => enc o v key) (v :: t)) its); [|exact Henc].
    rewrite Forall_forall. intros r Hr. apply in_map_iff in Hr. destruct Hr as [x [<- Hx]].
    rewrite Forall_forall in IH, Hwfs. intros b Hb. apply (IH x Hx key b (Hwfs x Hx) Hb).
Qed.

Lemma scalar_elem_ordered key x : ordered [IOpen key []; IText x; IClose key] [key].
Proof. apply text_elem_ordered, kstrict_nil. Qed.

Theorem enc_ordered (v : value) (key : str) (its : list item) :
  wf v -> enc o v key = Ok its -> exists n, ordered its (repeat key n).
Proof.
  revert key its. change (enc_ord v). induction v using value_ind2.
  - intros key its _ H. cbn [enc] in H. exists 1. destruct (esc o x); injection H as <-;
      [apply close_or_empty_ordered, kstrict_nil | apply scalar_elem_ordered].
  - intros key its _ H. cbn [enc] in H. exists 1. destruct (fmt_v _); injection H as <-;
      [apply close_or_empty_ordered, kstrict_nil | apply scalar_elem_ordered].
  - intros key its _ H. injection H as <-. exists 1. apply close_or_empty_ordered, kstrict_nil.
  - intros key its _ H. cbn [enc] in H. exists 1. destruct (fmt_v _); injection H as <-;
      [apply close_or_empty_ordered, kstrict_nil | apply scalar_elem_ordered].
  - intros key its _ H. cbn [enc] in H. exists 1. destruct (fmt_v _); injection H as <-;
      [apply close_or_empty_ordered, kstrict_nil | apply scalar_elem_ordered].
  - intros key its _ H. cbn [enc] in H. exists 1. destruct (fmt_v _); injection H as <-;
      [apply close_or_empty_ordered, kstrict_nil | apply scalar_elem_ordered].
  - intros key its _ H. cbn [enc] in H. exists 1. destruct (fmt_v _); injection H as <-;
      [apply close_or_empty_ordered, kstrict_nil | apply scalar_elem_ordered].
  - intros key its _ H. cbn [enc] in H. exists 1. destruct (fmt_v _); injection H as <-;
      [apply close_or_empty_ordered, kstrict_nil | apply scalar_elem_ordered].
  - apply enc_map_ord. assumption.
  - apply enc_list_ord. assumption.
Qed.

(* the root element of an encoded map: its attribute list is exactly the sorted attribute entries *)
Theorem enc_map_root_attrs (vv : entries) (key : str) (its : list item) :
  wf (VMap vv) -> enc o (VMap vv) key = Ok its ->
  exists attrs rest,
    (its = IOpen key attrs :: rest \/ its = IEmpty key attrs :: rest) /\
    kstrict attrs /\ Permutation attrs (attr_pairs o vv).
Proof.
  intros Hwf Henc. destruct (wf_map_inv _ Hwf) as [Hnd _].
  rewrite enc_VMap in Henc. unfold enc_map in Henc. rewrite attrs_of_char in Henc.
  destruct (forallb (attr_ok o) vv); [|discriminate Henc]. cbn [bind] in Henc.
  assert (Hattrs : kstrict (sort_by_key (attr_pairs o vv))) by (apply sort_by_key_strict, attr_pairs_nodup; exact Hnd).
  pose proof (sort_by_key_perm (attr_pairs o vv)) as Hperm.
  set (attrs := sort_by_key (attr_pairs o vv)) in *.
  exists attrs.
  destruct (Nat.eqb (length attrs) (length vv)).
  { injection Henc as <-. unfold close_or_empty. destruct (useGoXmlEmptyElemSyntax o); eexists; (split; [|split; assumption]); [left|right]; reflexivity. }
  destruct (lookup (textK o) vv) as [tv|].
  - destruct (Nat.eqb (S (length attrs)) (length vv)).
    { injection Henc as <-. eexists. split; [left; reflexivity | split; assumption]. }
    match type of Henc with bind ?C _ = _ => destruct C as [body| |] end; cbn [bind] in Henc; try discriminate Henc.
    injection Henc as <-. eexists. split; [left; reflexivity | split; assumption].
  - match type of Henc with bind ?C _ = _ => destruct C as [body| |] end; cbn [bind] in Henc; try discriminate Henc.
    injection Henc as <-. eexists. split; [left; reflexivity | split; assumption].
Qed.

(* ---------------- indented vs compact: the root rule ---------------- *)
Theorem indent_same_items (m : entries) (root : option str) :
  root_rules_differ m root = false -> map_xml_indent_items o m root = map_xml_items o m root.
Proof.
  unfold root_rules_differ, map_xml_indent_items, map_xml_items. destruct root as [rt|]; [reflexivity|].
  destruct m as [|[key value] [|b t]]; try reflexivity.
  destruct value; try reflexivity. intros ->. reflexivity.
Qed.

End Enc.
